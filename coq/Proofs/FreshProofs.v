(* C09, the consequence: "Hence, when commits are made only after successful runs, every output
   equals what its command produces from the current sources".

   RunProofs proves: after a successful `dud run`, every visited stage that has a command either
   was executed (after everything upstream) or is unchanged since its last commit.  This file
   draws the conclusion about the CONTENTS of the outputs in the final workspace.

   Vocabulary
     [resolve c n]    the entry n as a command reads it: a link into the cache is the file it
                      points to (recursively inside directories)
     [same_at c r1 r2 p]  the workspaces r1 and r2 have the same contents at path p
                      (RunProofs.slot_eq implies it; the converse fails: a committed output is a
                      LINK under the Link strategy, the command writes a FILE:
                      [FreshExamples.slot_equality_is_too_fine])
     [produced sp stg root]  the outputs of stg in root are what a successful execution of the
                      command wrote, in a workspace that had the inputs root has NOW
     [fresh sp stg root]     executing the command in root succeeds and leaves every output with
                      the contents it already has
     [exec_functional]   the command is a function of its inputs (success and output contents)
     [committed_fresh]   "commits are made only after successful runs": in ANY workspace in which
                      a stage and everything upstream of it are unchanged since their commit
                      (RunProofs.clean0), the stage is fresh
     [inputs_wf]      an output of a stage X is incomparable with every input (of X itself and
                      of the others) that X does not own.  New premise: RunProofs.idx_wf says this
                      only for the un-owned inputs of the OTHER stages.  It is what Stage.validate
                      (no input at/under an output of the same stage) and "an owned input lies
                      at or below the owner's output" give; boolean check [inputs_wfb].

   Theorems (all closed under the global context)
     run_outputs_produced   every visited stage with a command is [produced] in the final root
     run_outputs_fresh      ... and [fresh], when the command is a function of its inputs
     produced_fresh, fresh_produced   the two notions coincide under [exec_functional]
     committed_fresh_intro  how [committed_fresh] is established: a snapshot (the workspace right
                      after `run; commit`) in which every stage is clean0 and fresh, plus
                      "a recorded checksum determines the contents" ([cs_determines])
     short_top_file_determines   [cs_determines] for file artifacts, from an injective hash and a
                      consistent cache.  (For directory artifacts it is left as a premise.)
   NOT proved in general (only checked on the example, by computation): that the model's
   `run; commit` (run_targets then commit_stage) leaves a workspace that satisfies the two
   snapshot premises of committed_fresh_intro (every stage clean0 and fresh) for the NEW index
   and the NEW cache.  That needs the commit theory (contents preserved by commit, cache only
   grows, exec independent of cache growth) and [cs_determines] for directory artifacts.
   Module FreshExamples: a two-stage chain with a command that really reads its input
   ([cat_exec]); run; commit (Link); every premise holds, the second run is quiet and both
   stages are fresh although their outputs are now links; the source is edited, both stages
   are executed and fresh; [self_overlap_inputs_wf_needed]: the premise inputs_wf cannot be
   dropped (a stage whose output lies inside its own un-owned input directory). *)
From Coq Require Import NArith List Bool Lia Relations.
From DudV Require Import Base.Bytes Base.Json Base.GoPath Model.Fs Model.Cache Model.Stage Model.Index.
From DudV Require Import Proofs.PipelineProofs Proofs.RunProofs.
Import ListNotations.

(* ------------------------------------------------------------------------------------------ *)
(* Part 0: contents                                                                            *)
(* ------------------------------------------------------------------------------------------ *)
Section Content.
  Variable c : cache.

  Fixpoint resolve (n : node) : node :=
    match n with
    | LinkC d => match cget c d with Some o => File (o_data o) | None => LinkC d end
    | Dir es => Dir ((fix go (es : list (bytes * node)) : list (bytes * node) :=
                        match es with
                        | [] => []
                        | (k, m) :: r => (k, resolve m) :: go r
                        end) es)
    | _ => n
    end.

  Definition view (root : node) (p : list bytes) : option node := option_map resolve (get root p).

  Definition same_at (r1 r2 : node) (p : list bytes) : Prop :=
    view r1 p = view r2 p /\ blocked r1 p = blocked r2 p.

  Lemma same_at_refl r p : same_at r r p.
  Proof. split; reflexivity. Qed.
  Lemma same_at_sym r1 r2 p : same_at r1 r2 p -> same_at r2 r1 p.
  Proof. intros [Hv Hb]. split; congruence. Qed.
  Lemma same_at_trans r1 r2 r3 p : same_at r1 r2 p -> same_at r2 r3 p -> same_at r1 r3 p.
  Proof. intros [Hv Hb] [Hv2 Hb2]. split; congruence. Qed.

  Lemma slot_eq_same_at r r' p : slot_eq r r' p -> same_at r r' p.
  Proof. intros [Hg Hb]. unfold same_at, view. rewrite Hg, Hb. split; reflexivity. Qed.
End Content.

(* ------------------------------------------------------------------------------------------ *)
(* Part 1: definitions                                                                         *)
(* ------------------------------------------------------------------------------------------ *)
Section Fresh.
  Variable H : bytes -> bytes.
  Variable exec : bytes -> stage -> node -> cache -> res node.
  Variable idx : index.
  Variable c : cache.

  Notation runI := (run_ins H exec idx c true).
  Notation runS := (run_stage H exec).

  (* the outputs are what the command wrote when it was (successfully) executed in a workspace r0
     whose inputs had the contents that the inputs have in [root] *)
  Definition produced (sp : bytes) (stg : stage) (root : node) : Prop :=
    exists r0 r0',
      exec sp stg r0 c = Ok r0' /\
      (forall a, In a (s_inputs stg) -> same_at c r0 root (comps (a_path a))) /\
      (forall o, In o (s_outputs stg) -> same_at c r0' root (comps (a_path o))).

  (* executing the command now succeeds and changes the contents of no output *)
  Definition fresh (sp : bytes) (stg : stage) (root : node) : Prop :=
    exists r2,
      exec sp stg root c = Ok r2 /\
      forall o, In o (s_outputs stg) -> same_at c r2 root (comps (a_path o)).

  (* the command of a stage is a function of the contents of its inputs: whether it succeeds,
     and the contents of every output *)
  Definition exec_functional : Prop :=
    forall sp stg r1 r2,
      alookup sp idx = Some stg ->
      (forall a, In a (s_inputs stg) -> same_at c r1 r2 (comps (a_path a))) ->
      match exec sp stg r1 c, exec sp stg r2 c with
      | Ok r1', Ok r2' => forall o, In o (s_outputs stg) -> same_at c r1' r2' (comps (a_path o))
      | Err, Err => True
      | _, _ => False
      end.

  (* commits are made only after successful runs: whenever a stage that has a command and all
     the stages upstream of it are unchanged since their last commit (definition, un-owned
     inputs and outputs carry the recorded checksums, owned inputs record the owner's checksum),
     the outputs of the stage are what its command produces from its inputs *)
  Definition committed_fresh : Prop :=
    forall sp stg root,
      alookup sp idx = Some stg -> s_cmd stg <> [] ->
      (forall s ss, upstream idx s sp -> alookup s idx = Some ss -> clean0 H idx c root ss) ->
      fresh sp stg root.

  (* an output of X is incomparable with every input, of any stage, that X does not own *)
  Definition inputs_wf : Prop :=
    forall X sx Y sy o a,
      alookup X idx = Some sx -> alookup Y idx = Some sy ->
      In o (s_outputs sx) -> In a (s_inputs sy) ->
      match find_owner idx (a_path a) with Some (op, _) => op <> X | None => True end ->
      incomp (comps (a_path o)) (comps (a_path a)).

  Lemma fresh_produced sp stg root : fresh sp stg root -> produced sp stg root.
  Proof.
    intros [r2 [Hex Hout]]. exists root, r2. split; [exact Hex|]. split; [|exact Hout].
    intros a _. apply same_at_refl.
  Qed.

  Lemma produced_fresh sp stg root :
    exec_functional -> alookup sp idx = Some stg -> produced sp stg root -> fresh sp stg root.
  Proof.
    intros Hfun Hstg [r0 [r0' [Hex [Hin Hout]]]].
    pose proof (Hfun sp stg r0 root Hstg Hin) as Hf. rewrite Hex in Hf.
    destruct (exec sp stg root c) as [r2|] eqn:Hex2; [|destruct Hf].
    exists r2. split; [exact Hex2|]. intros o Ho.
    eapply same_at_trans; [apply same_at_sym; apply Hf; exact Ho|apply Hout; exact Ho].
  Qed.

  (* ---------------------------------------------------------------------------------------- *)
  (* Part 2: executed stages.  Invariant: every stage in the log is [made] in the current root  *)
  (* (as [produced], with entry equality instead of equality of contents)                       *)
  (* ---------------------------------------------------------------------------------------- *)
  Definition made (sp : bytes) (stg : stage) (root : node) : Prop :=
    exists r0 r0',
      exec sp stg r0 c = Ok r0' /\
      (forall a, In a (s_inputs stg) -> slot_eq r0 root (comps (a_path a))) /\
      (forall o, In o (s_outputs stg) -> slot_eq r0' root (comps (a_path o))).

  Lemma made_produced sp stg root : made sp stg root -> produced sp stg root.
  Proof.
    intros [r0 [r0' [Hex [Hin Hout]]]]. exists r0, r0'. split; [exact Hex|].
    split; intros x Hx; apply slot_eq_same_at; [apply Hin|apply Hout]; exact Hx.
  Qed.

  Definition Made (root : node) (log : list bytes) : Prop :=
    forall sp stg, In sp log -> alookup sp idx = Some stg -> made sp stg root.

  Hypothesis framed : exec_framed exec idx c.
  Hypothesis wf : idx_wf idx.
  Hypothesis inwf : inputs_wf.

  (* the root changes only at/above/below outputs of stages that are not visited yet: a stage
     that was executed stays made *)
  Lemma made_move (S : bytes -> Prop) root root' ran log fin sp stg :
    W idx true True ran log fin ->
    (forall X, S X -> alookup X ran = None) ->
    touched idx S root root' ->
    In sp log -> alookup sp idx = Some stg ->
    made sp stg root -> made sp stg root'.
  Proof.
    intros HW HS Ht Hlog Hstg [r0 [r0' [Hex [Hin Hout]]]].
    assert (Hfin : In sp fin) by (apply (W_log_sub _ _ _ _ _ _ HW); exact Hlog).
    assert (Hsp : alookup sp ran <> None) by (apply (W_dom _ _ _ _ _ _ HW); exact Hfin).
    assert (Hne : forall X, S X -> X <> sp).
    { intros X HX Heq. subst X. apply Hsp. apply HS. exact HX. }
    pose proof (W_core _ _ _ _ _ _ HW I eq_refl) as Hcore.
    assert (Hown : forall a op up X, In a (s_inputs stg) -> find_owner idx (a_path a) = Some (op, up) ->
                                     S X -> op <> X).
    { intros a op up X Ha Hfo HX Heq. subst X.
      assert (He : edge idx op sp) by (exists stg, a, up; split; [exact Hstg|split; assumption]).
      pose proof (core_owners _ _ Hcore op sp Hfin He) as Hearly.
      apply earlier_In_l in Hearly. apply (W_dom _ _ _ _ _ _ HW) in Hearly.
      apply Hearly. apply HS. exact HX. }
    exists r0, r0'. split; [exact Hex|]. split.
    - intros a Ha. destruct (Hin a Ha) as [Hg Hb].
      destruct (Ht (comps (a_path a))) as [Hg2 Hb2].
      { intros X sx o HX Hsx Ho. eapply inwf; [exact Hsx|exact Hstg|exact Ho|exact Ha|].
        destruct (find_owner idx (a_path a)) as [[op up]|] eqn:Hfo; [|exact I].
        eapply Hown; [exact Ha|exact Hfo|exact HX]. }
      split; congruence.
    - intros o Ho. destruct (Hout o Ho) as [Hg Hb].
      destruct (Ht (comps (a_path o))) as [Hg2 Hb2].
      { intros X sx o' HX Hsx Ho'. eapply wf; [apply Hne; exact HX|exact Hsx|exact Hstg|exact Ho'|left; exact Ho]. }
      split; congruence.
  Qed.

  Definition made_spec (f : nat) (stack : list bytes) : Prop :=
    forall root ran log fin sp root' ran' log',
      W idx true True ran log fin -> disj ran stack -> Made root log ->
      runS f idx c true root ran log stack sp = Ok (root', ran', log') ->
      Made root' log'.

  Lemma ins_made f stack sp stg :
    made_spec f stack -> alookup sp idx = Some stg ->
    forall arts root ran log doit fin root' ran' log' doit',
      incl arts (s_inputs stg) ->
      W idx true True ran log fin -> disj ran stack -> Made root log ->
      runI f stack arts root ran log doit = Ok (root', ran', log', doit') ->
      Made root' log'.
  Proof.
    intros IH Hstg.
    induction arts as [|a r IHr]; intros root ran log doit fin root' ran' log' doit' Hincl HW Hd HM Hrun.
    - cbn [run_ins] in Hrun. inversion Hrun; subst. exact HM.
    - assert (Hinclr : incl r (s_inputs stg)) by (intros x Hx; apply Hincl; right; exact Hx).
      cbn [run_ins] in Hrun.
      destruct (find_owner idx (a_path a)) as [[op up]|] eqn:Hfo.
      + destruct (runS f idx c true root ran log stack op) as [[[root1 ran1] log1]|] eqn:Hsub; [|discriminate].
        destruct (run_facts H exec idx c True _ _ _ _ _ _ _ _ _ _ HW Hd Hsub)
          as [fin1 [HW1 [Hd1 _]]].
        pose proof (IH _ _ _ _ _ _ _ _ HW Hd HM Hsub) as HM1.
        eapply IHr; [exact Hinclr|exact HW1|exact Hd1|exact HM1|exact Hrun].
      + destruct (short_top H a root c) as [cm|]; [|discriminate].
        eapply IHr; [exact Hinclr|exact HW|exact Hd|exact HM|exact Hrun].
  Qed.

  Lemma made_post : forall f stack, made_spec f stack.
  Proof.
    induction f as [|f IH]; intros stack root ran log fin sp root' ran' log' HW Hd HM Hrun.
    { simpl in Hrun. discriminate. }
    rewrite run_stage_S in Hrun.
    destruct (alookup sp ran) as [b0|] eqn:Hfresh.
    { inversion Hrun; subst. exact HM. }
    destruct (mem sp stack) eqn:Hmem; [discriminate|].
    destruct (alookup sp idx) as [stg|] eqn:Hstg; [|discriminate].
    destruct (runI f (sp :: stack) (s_inputs stg) root ran log (do0_of H stg))
      as [[[[root1 ran1] log1] do1]|] eqn:Hins; [|discriminate].
    assert (Hds : disj ran (sp :: stack)).
    { intros s [Hs|Hs]; [subst s; exact Hfresh|apply Hd; exact Hs]. }
    destruct (ins_facts H exec idx c True _ _ _ _ _ _ _ _ _ _ _ _ _ _ Hstg (incl_refl _) HW Hds Hins)
      as [fin1 [HW1 [Hd1 [Hm1 [Hown1 _]]]]].
    pose proof (ins_made f (sp :: stack) sp stg (IH (sp :: stack)) Hstg _ _ _ _ _ _ _ _ _ _
                         (incl_refl _) HW Hds HM Hins) as HM1.
    assert (Hsp1 : alookup sp ran1 = None) by (apply Hd1; left; reflexivity).
    unfold run_finish in Hrun.
    destruct (if do1 then Ok true else any_stale H (s_outputs stg) root1 c) as [d|] eqn:Hd2; [|discriminate].
    destruct (d && has_cmd_of stg) eqn:Hdc.
    - (* executed *)
      destruct (exec sp stg root1 c) as [root2|] eqn:Hex; [|discriminate]. inversion Hrun; subst root' ran' log'.
      assert (Ht2 : touched idx (eq sp) root1 root2).
      { intros p Hout. eapply framed; [exact Hstg|exact Hex|].
        intros o Ho. eapply Hout; [reflexivity|exact Hstg|exact Ho]. }
      intros Y sy [HY|HY] Hsy.
      + subst Y. rewrite Hstg in Hsy. inversion Hsy; subst sy.
        exists root1, root2. split; [exact Hex|]. split.
        * intros a Ha. eapply framed; [exact Hstg|exact Hex|].
          intros o Ho. eapply inwf; [exact Hstg|exact Hstg|exact Ho|exact Ha|].
          destruct (find_owner idx (a_path a)) as [[op up]|] eqn:Hfo; [|exact I].
          intros Heq. subst op. eapply Hown1; [exact Ha|exact Hfo|exact Hsp1].
        * intros o Ho. split; reflexivity.
      + eapply (made_move (eq sp)); [exact HW1| |exact Ht2|exact HY|exact Hsy|apply HM1; assumption].
        intros X HX. subst X. exact Hsp1.
    - inversion Hrun; subst root' ran' log'. exact HM1.
  Qed.

  Lemma made_targets fuel : forall ts root ran log fin root' ran' log',
    W idx true True ran log fin -> Made root log ->
    run_targets H exec idx c true fuel ts (Ok (root, ran, log)) = Ok (root', ran', log') ->
    Made root' log'.
  Proof.
    induction ts as [|t r IH]; intros root ran log fin root' ran' log' HW HM Hrun.
    - inversion Hrun; subst. exact HM.
    - rewrite run_targets_cons in Hrun.
      destruct (runS fuel idx c true root ran log [] t) as [[[root1 ran1] log1]|] eqn:Hone.
      2:{ rewrite run_targets_Err in Hrun. discriminate. }
      destruct (run_facts H exec idx c True _ _ _ _ _ _ _ _ _ _ HW (disj_nil ran) Hone)
        as [fin1 [HW1 _]].
      eapply IH; [exact HW1| |exact Hrun].
      eapply made_post; [exact HW|apply disj_nil|exact HM|exact Hone].
  Qed.

  (* every executed stage: its outputs in the FINAL root are those its command wrote, and its
     inputs in the final root are those the command read *)
  Theorem run_executed_made fuel ts root root' ran' log' :
    run_targets H exec idx c true fuel ts (Ok (root, [], [])) = Ok (root', ran', log') ->
    forall sp stg, In sp log' -> alookup sp idx = Some stg -> made sp stg root'.
  Proof.
    intros Hrun. eapply (made_targets fuel ts root [] [] []); [apply W_nil| |exact Hrun].
    intros sp stg Hs. destruct Hs.
  Qed.

  (* ---------------------------------------------------------------------------------------- *)
  (* Part 3: stages that were not executed are unchanged since their commit, with everything    *)
  (* upstream                                                                                   *)
  (* ---------------------------------------------------------------------------------------- *)
  Lemma clean_at_clean0 root ran stg : clean_at H idx c root ran stg -> clean0 H idx c root stg.
  Proof.
    intros Hcl. split.
    - apply Hcl.
    - apply Hcl.
    - intros a op up Ha Hfo. apply (cl_owned _ _ _ _ _ _ Hcl a op up Ha Hfo).
    - apply Hcl.
  Qed.

  Lemma upstream_not_run root ran log s sp :
    Inv H idx c root ran log -> path idx s sp -> alookup sp ran = Some false -> alookup s ran = Some false.
  Proof.
    intros HI Hp. induction Hp as [a b Hab|a b d Hab Hp IH]; intros Hb.
    - destruct Hab as [stg [art [up [Hstg [Hart Hfo]]]]].
      apply (cl_owned _ _ _ _ _ _ (I_clean _ _ _ _ _ _ HI b stg Hb Hstg) art a up Hart Hfo).
    - specialize (IH Hb). destruct Hab as [stg [art [up [Hstg [Hart Hfo]]]]].
      apply (cl_owned _ _ _ _ _ _ (I_clean _ _ _ _ _ _ HI b stg IH Hstg) art a up Hart Hfo).
  Qed.

  (* ---------------------------------------------------------------------------------------- *)
  (* Part 4: the theorems                                                                       *)
  (* ---------------------------------------------------------------------------------------- *)
  Theorem run_outputs_produced fuel ts root root' ran' log' :
    committed_fresh ->
    run_targets H exec idx c true fuel ts (Ok (root, [], [])) = Ok (root', ran', log') ->
    forall sp stg b,
      alookup sp ran' = Some b -> alookup sp idx = Some stg -> s_cmd stg <> [] ->
      produced sp stg root'.
  Proof.
    intros Hcf Hrun sp stg b Hb Hstg Hcmd.
    pose proof (C09_inv_preserved H exec idx c framed wf fuel ts root [] [] root' ran' log'
                                  (run_inv_init idx) (Inv_nil H idx c root) Hrun) as HI.
    destruct b.
    - apply made_produced. eapply run_executed_made; [exact Hrun| |exact Hstg].
      eapply (I_ran _ _ _ _ _ _ HI); eassumption.
    - apply fresh_produced. apply Hcf; [exact Hstg|exact Hcmd|].
      intros s ss Hup Hss.
      assert (Hs : alookup s ran' = Some false).
      { destruct Hup as [Heq|Hp]; [subst s; exact Hb|]. eapply upstream_not_run; eassumption. }
      eapply clean_at_clean0. eapply (I_clean _ _ _ _ _ _ HI); eassumption.
  Qed.

  Theorem run_outputs_fresh fuel ts root root' ran' log' :
    exec_functional -> committed_fresh ->
    run_targets H exec idx c true fuel ts (Ok (root, [], [])) = Ok (root', ran', log') ->
    forall sp stg b,
      alookup sp ran' = Some b -> alookup sp idx = Some stg -> s_cmd stg <> [] ->
      fresh sp stg root'.
  Proof.
    intros Hfun Hcf Hrun sp stg b Hb Hstg Hcmd.
    apply produced_fresh; [exact Hfun|exact Hstg|].
    eapply run_outputs_produced; eassumption.
  Qed.
End Fresh.


(* ------------------------------------------------------------------------------------------ *)
(* Part 5: how [committed_fresh] is established                                                *)
(* ------------------------------------------------------------------------------------------ *)
Section ContentBelow.
  Variable c : cache.

  Lemma resolve_dir es : resolve c (Dir es) = Dir (map (fun e => (fst e, resolve c (snd e))) es).
  Proof.
    cbn [resolve]. f_equal. induction es as [|[k m] r IH]; [reflexivity|].
    cbn [map fst snd]. rewrite <- IH. reflexivity.
  Qed.

  Lemma alookup_map_snd {A B} (f : A -> B) k (es : list (bytes * A)) :
    alookup k (map (fun e => (fst e, f (snd e))) es) = option_map f (alookup k es).
  Proof.
    induction es as [|[k2 v2] r IH]; [reflexivity|]. cbn [map alookup fst snd].
    destruct (beqb k k2); [reflexivity|exact IH].
  Qed.

  Lemma get_resolve : forall q n, get (resolve c n) q = option_map (resolve c) (get n q).
  Proof.
    induction q as [|x q IH]; intros n; [reflexivity|].
    destruct n as [b|d|t|es|].
    - reflexivity.
    - cbn [resolve]. destruct (cget c d); reflexivity.
    - reflexivity.
    - rewrite resolve_dir. cbn [get]. rewrite alookup_map_snd.
      destruct (alookup x es) as [m|]; [cbn [option_map]; apply IH|reflexivity].
    - reflexivity.
  Qed.

  Lemma blocked_resolve : forall q n, blocked (resolve c n) q = blocked n q.
  Proof.
    induction q as [|x q IH]; intros n; [reflexivity|].
    destruct n as [b|d|t|es|].
    - reflexivity.
    - cbn [resolve]. destruct (cget c d); reflexivity.
    - reflexivity.
    - rewrite resolve_dir. cbn [blocked]. rewrite alookup_map_snd.
      destruct (alookup x es) as [m|]; [cbn [option_map]; apply IH|reflexivity].
    - reflexivity.
  Qed.

  Lemma get_app : forall p q n, get n (p ++ q) = match get n p with Some m => get m q | None => None end.
  Proof.
    induction p as [|x p IH]; intros q n; [reflexivity|].
    cbn [app get]. destruct n as [b|d|t|es|]; try reflexivity.
    destruct (alookup x es) as [m|]; [apply IH|reflexivity].
  Qed.

  Lemma blocked_app : forall p q n,
    blocked n (p ++ q) = blocked n p || match get n p with Some m => blocked m q | None => false end.
  Proof.
    induction p as [|x p IH]; intros q n; [reflexivity|].
    cbn [app get blocked]. destruct n as [b|d|t|es|]; try reflexivity.
    destruct (alookup x es) as [m|]; [apply IH|reflexivity].
  Qed.

  Lemma view_app r p q : view c r (p ++ q) = match view c r p with Some m => get m q | None => None end.
  Proof.
    unfold view. rewrite get_app. destruct (get r p) as [m|]; [|reflexivity].
    cbn [option_map]. symmetry. apply get_resolve.
  Qed.

  Lemma blocked_app_view r p q :
    blocked r (p ++ q) = blocked r p || match view c r p with Some m => blocked m q | None => false end.
  Proof.
    unfold view. rewrite blocked_app. destruct (get r p) as [m|]; [|reflexivity].
    cbn [option_map]. rewrite blocked_resolve. reflexivity.
  Qed.

  (* equal contents at a path: equal contents everywhere below it *)
  Lemma same_at_app r1 r2 p q : same_at c r1 r2 p -> same_at c r1 r2 (p ++ q).
  Proof.
    intros [Hv Hb]. split.
    - rewrite !view_app, Hv. reflexivity.
    - rewrite !blocked_app_view, Hv, Hb. reflexivity.
  Qed.

  Lemma is_prefix_app : forall p p', is_prefix p p' = true -> exists q, p' = p ++ q.
  Proof.
    induction p as [|x p IH]; intros p' Hp; [exists p'; reflexivity|].
    destruct p' as [|y p']; [discriminate|]. cbn [is_prefix] in Hp.
    apply andb_true_iff in Hp as [Hxy Hp]. apply beqb_eq in Hxy. subst y.
    destruct (IH _ Hp) as [q Hq]. exists q. rewrite Hq. reflexivity.
  Qed.

  Lemma same_at_below r1 r2 p p' : is_prefix p p' = true -> same_at c r1 r2 p -> same_at c r1 r2 p'.
  Proof.
    intros Hp Hs. destruct (is_prefix_app _ _ Hp) as [q Hq]. subst p'. apply same_at_app. exact Hs.
  Qed.
End ContentBelow.

(* find_owner answers with an output of the stage it names (stage paths are distinct) *)
Lemma art_lookup_In p arts a : art_lookup p arts = Some a -> In a arts.
Proof. unfold art_lookup. intros Hf. apply find_some in Hf. apply Hf. Qed.

Lemma fdo_walk_In arts full : forall parts d a, fdo_walk parts d full arts = Some a -> In a arts.
Proof.
  induction parts as [|part r IH]; intros d a Hw; [discriminate|].
  cbn [fdo_walk] in Hw.
  destruct (art_lookup (join2 d part) arts) as [owner|] eqn:Hl; [|eapply IH; exact Hw].
  destruct (negb (a_norec owner) || beqb (join2 d part) full); [|eapply IH; exact Hw].
  inversion Hw; subst. eapply art_lookup_In. exact Hl.
Qed.

Lemma find_owner_keys idx p op up : find_owner idx p = Some (op, up) -> In op (map fst idx).
Proof.
  induction idx as [|[k s] r IH]; [discriminate|]. cbn [find_owner map fst].
  destruct (art_lookup p (s_outputs s)) as [a|].
  - intros Hs. inversion Hs; subst. left. reflexivity.
  - destruct (find_dir_owner p (s_outputs s)) as [a|].
    + intros Hs. inversion Hs; subst. left. reflexivity.
    + intros Hs. right. apply IH. exact Hs.
Qed.

Lemma find_owner_lookup idx p op up :
  NoDup (map fst idx) -> find_owner idx p = Some (op, up) ->
  exists sop, alookup op idx = Some sop /\ In up (s_outputs sop).
Proof.
  induction idx as [|[k s] r IH]; intros Hnd; [discriminate|]. cbn [find_owner alookup].
  cbn [map fst] in Hnd. inversion Hnd as [|x l Hnotin Hnd']; subst.
  destruct (art_lookup p (s_outputs s)) as [a|] eqn:Hl.
  - intros Hs. inversion Hs; subst. rewrite beqb_refl. exists s. split; [reflexivity|].
    eapply art_lookup_In. exact Hl.
  - destruct (find_dir_owner p (s_outputs s)) as [a|] eqn:Hd.
    + intros Hs. inversion Hs; subst. rewrite beqb_refl. exists s. split; [reflexivity|].
      unfold find_dir_owner in Hd. eapply fdo_walk_In. exact Hd.
    + intros Hs. assert (Hne : op <> k).
      { intros Heq. subst op. apply Hnotin. eapply find_owner_keys. exact Hs. }
      apply beqb_neq in Hne. rewrite Hne. apply IH; assumption.
Qed.

Section Establish.
  Variable H : bytes -> bytes.
  Variable exec : bytes -> stage -> node -> cache -> res node.
  Variable idx : index.
  Variable c : cache.

  (* an owned input lies at or below the output that owns it *)
  Definition owned_below : Prop :=
    forall sp stg a op up,
      alookup sp idx = Some stg -> In a (s_inputs stg) -> find_owner idx (a_path a) = Some (op, up) ->
      is_prefix (comps (a_path up)) (comps (a_path a)) = true.

  (* the recorded checksum of an output or of an un-owned input determines the contents *)
  Definition cs_determines : Prop :=
    forall sp stg b r1 r2,
      alookup sp idx = Some stg ->
      (In b (s_outputs stg) \/ (In b (s_inputs stg) /\ find_owner idx (a_path b) = None)) ->
      short_top H b r1 c = Ok true -> short_top H b r2 c = Ok true ->
      same_at c r1 r2 (comps (a_path b)).

  Hypothesis keys_nodup : NoDup (map fst idx).
  Hypothesis below : owned_below.
  Hypothesis determined : cs_determines.

  (* two workspaces in which a stage and the owners of its inputs are unchanged since the commit
     have the same contents at the inputs and at the outputs of the stage *)
  Lemma clean0_same sp stg r1 r2 :
    alookup sp idx = Some stg ->
    (forall s ss, upstream idx s sp -> alookup s idx = Some ss -> clean0 H idx c r1 ss) ->
    (forall s ss, upstream idx s sp -> alookup s idx = Some ss -> clean0 H idx c r2 ss) ->
    (forall a, In a (s_inputs stg) -> same_at c r1 r2 (comps (a_path a))) /\
    (forall o, In o (s_outputs stg) -> same_at c r1 r2 (comps (a_path o))).
  Proof.
    intros Hstg H1 H2.
    pose proof (H1 sp stg (or_introl eq_refl) Hstg) as Hc1.
    pose proof (H2 sp stg (or_introl eq_refl) Hstg) as Hc2.
    split.
    - intros a Ha. destruct (find_owner idx (a_path a)) as [[op up]|] eqn:Hfo.
      + destruct (find_owner_lookup idx _ op up keys_nodup Hfo) as [sop [Hsop Hup]].
        assert (He : upstream idx op sp).
        { right. apply path_one. exists stg, a, up. split; [exact Hstg|]. split; assumption. }
        eapply same_at_below; [exact (below sp stg a op up Hstg Ha Hfo)|].
        eapply determined; [exact Hsop|left; exact Hup| |].
        * apply (c0_out _ _ _ _ _ (H1 op sop He Hsop)). exact Hup.
        * apply (c0_out _ _ _ _ _ (H2 op sop He Hsop)). exact Hup.
      + eapply determined; [exact Hstg|right; split; assumption| |].
        * apply (c0_plain _ _ _ _ _ Hc1); assumption.
        * apply (c0_plain _ _ _ _ _ Hc2); assumption.
    - intros o Ho. eapply determined; [exact Hstg|left; exact Ho| |].
      + apply (c0_out _ _ _ _ _ Hc1). exact Ho.
      + apply (c0_out _ _ _ _ _ Hc2). exact Ho.
  Qed.

  (* [snap] is the workspace right after `dud run; dud commit`: every stage has just been
     committed (clean0) and the commit was made after a successful run (fresh) *)
  Theorem committed_fresh_intro snap :
    exec_functional exec idx c ->
    (forall sp stg, alookup sp idx = Some stg -> clean0 H idx c snap stg) ->
    (forall sp stg, alookup sp idx = Some stg -> s_cmd stg <> [] -> fresh exec c sp stg snap) ->
    committed_fresh H exec idx c.
  Proof.
    intros Hfun Hclean Hfresh sp stg root Hstg Hcmd Hup.
    destruct (clean0_same sp stg snap root Hstg (fun s ss _ Hss => Hclean s ss Hss) Hup) as [Hin Hout].
    destruct (Hfresh sp stg Hstg Hcmd) as [r2 [Hex Hsame]].
    pose proof (Hfun sp stg snap root Hstg Hin) as Hf. rewrite Hex in Hf.
    destruct (exec sp stg root c) as [r2'|] eqn:Hex2; [|destruct Hf].
    exists r2'. split; [exact Hex2|]. intros o Ho.
    eapply same_at_trans; [apply same_at_sym; apply Hf; exact Ho|].
    eapply same_at_trans; [apply Hsame; exact Ho|apply Hout; exact Ho].
  Qed.
End Establish.

(* [cs_determines] for file artifacts.  A matching file artifact is either a regular file whose
   bytes are those of the cache object (skip-cache: whose hash is the recorded one) or the link to
   that object: the contents are the same as soon as the hash is injective on the data at hand and
   the cache stores every object under its hash. *)
Definition cache_ok (H : bytes -> bytes) (c : cache) : Prop :=
  forall d o, cget c d = Some o -> H (o_data o) = d.

Lemma short_top_file_view H c a root :
  cache_ok H c -> a_isdir a = false -> short_top H a root c = Ok true ->
  blocked root (comps (a_path a)) = false /\
  exists b, view c root (comps (a_path a)) = Some (File b) /\
            (if a_skip a then H b = a_cs a else exists o, cget c (a_cs a) = Some o /\ b = o_data o).
Proof.
  intros Hck Hnd Hst. unfold short_top, slot_of in Hst.
  destruct (blocked root (comps (a_path a))) eqn:Hbl; [discriminate|]. split; [reflexivity|].
  unfold status_short in Hst. rewrite Hnd in Hst. inversion Hst as [Hcm]. clear Hst.
  unfold view. unfold status_file, quick, qmatch, in_cache in Hcm.
  destruct (get root (comps (a_path a))) as [[b|d|t|es|]|]; cbn [option_map resolve].
  - (* regular file *)
    exists b. split; [reflexivity|].
    destruct (a_skip a).
    + destruct (has_cs (a_cs a)); cbn [st_cm] in Hcm.
      * apply beqb_eq in Hcm. exact Hcm.
      * rewrite andb_false_r in Hcm. discriminate.
    + destruct (cget c (a_cs a)) as [o|] eqn:Hget.
      * destruct (has_cs (a_cs a)); cbn [andb st_cm] in Hcm.
        -- apply beqb_eq in Hcm. exists o. split; [reflexivity|exact Hcm].
        -- discriminate.
      * cbn [st_cm] in Hcm. rewrite andb_false_r in Hcm. discriminate.
  - (* link into the cache *)
    cbn [st_cm] in Hcm. apply andb_true_iff in Hcm as [Hcm Hd]. apply andb_true_iff in Hcm as [_ Hin].
    apply beqb_eq in Hd. subst d.
    destruct (cget c (a_cs a)) as [o|] eqn:Hget; [|discriminate].
    exists (o_data o). split; [reflexivity|].
    destruct (a_skip a); [apply Hck; exact Hget|exists o; split; reflexivity].
  - cbn [st_cm] in Hcm. rewrite andb_false_r in Hcm. discriminate.
  - cbn [st_cm] in Hcm. rewrite andb_false_r in Hcm. discriminate.
  - cbn [st_cm] in Hcm. rewrite andb_false_r in Hcm. discriminate.
  - cbn [st_cm] in Hcm. rewrite andb_false_r in Hcm. discriminate.
Qed.

Theorem short_top_file_determines H c a r1 r2 :
  (forall x y, H x = H y -> x = y) -> cache_ok H c -> a_isdir a = false ->
  short_top H a r1 c = Ok true -> short_top H a r2 c = Ok true ->
  same_at c r1 r2 (comps (a_path a)).
Proof.
  intros Hinj Hck Hnd H1 H2.
  destruct (short_top_file_view H c a r1 Hck Hnd H1) as [Hb1 [b1 [Hv1 Hw1]]].
  destruct (short_top_file_view H c a r2 Hck Hnd H2) as [Hb2 [b2 [Hv2 Hw2]]].
  split; [|congruence]. rewrite Hv1, Hv2. f_equal. f_equal.
  destruct (a_skip a).
  - apply Hinj. congruence.
  - destruct Hw1 as [o1 [Ho1 He1]]. destruct Hw2 as [o2 [Ho2 He2]]. congruence.
Qed.

(* all the artifacts of the index are files *)
Corollary cs_determines_files H idx c :
  (forall x y, H x = H y -> x = y) -> cache_ok H c ->
  (forall sp stg b, alookup sp idx = Some stg -> In b (s_outputs stg ++ s_inputs stg) -> a_isdir b = false) ->
  cs_determines H idx c.
Proof.
  intros Hinj Hck Hfiles sp stg b r1 r2 Hstg Hb H1 H2.
  eapply short_top_file_determines; try eassumption.
  eapply Hfiles; [exact Hstg|]. apply in_or_app. destruct Hb as [Hb|[Hb _]]; [left|right]; exact Hb.
Qed.

(* a boolean check of inputs_wf *)
Definition inputs_wfb (idx : index) : bool :=
  forallb (fun X => forallb (fun Y =>
    forallb (fun o => forallb (fun a =>
      match find_owner idx (a_path a) with
      | Some (op, _) => beqb op (fst X)
      | None => false
      end || incompb (comps (a_path o)) (comps (a_path a)))
      (s_inputs (snd Y))) (s_outputs (snd X))) idx) idx.

Lemma inputs_wfb_sound idx : inputs_wfb idx = true -> inputs_wf idx.
Proof.
  intros Hb X sx Y sy o a HX HY Ho Ha Hown.
  unfold inputs_wfb in Hb. rewrite forallb_forall in Hb.
  specialize (Hb (X, sx) (alookup_In _ _ _ HX)). rewrite forallb_forall in Hb.
  specialize (Hb (Y, sy) (alookup_In _ _ _ HY)). cbn [fst snd] in Hb.
  rewrite forallb_forall in Hb. specialize (Hb o Ho). rewrite forallb_forall in Hb.
  specialize (Hb a Ha). apply orb_true_iff in Hb as [Hb|Hb].
  - destruct (find_owner idx (a_path a)) as [[op up]|]; [|discriminate].
    apply beqb_eq in Hb. contradiction.
  - unfold incompb in Hb. apply andb_true_iff in Hb as [H1 H2].
    apply negb_true_iff in H1, H2. split; assumption.
Qed.


(* ------------------------------------------------------------------------------------------ *)
(* Part 6: the premises are satisfiable; examples and counterexamples                          *)
(* ------------------------------------------------------------------------------------------ *)

(* a command that READS: one input, one output; the output is the command text followed by the
   bytes of the input (read through a cache link if the input is one); fails when the input is
   not a file *)
Definition cat_exec (sp : bytes) (stg : stage) (root : node) (c : cache) : res node :=
  match s_inputs stg, s_outputs stg with
  | [a], [o] =>
    match view c root (comps (a_path a)) with
    | Some (File b) =>
      match put root (comps (a_path o)) (Some (File (s_cmd stg ++ b))) with
      | Some r => Ok r
      | None => Err
      end
    | _ => Err
    end
  | _, _ => Err
  end.

Lemma cat_exec_framed idx c : exec_framed cat_exec idx c.
Proof.
  intros sp stg root root' _ Hex p Hp. unfold cat_exec in Hex.
  destruct (s_inputs stg) as [|a [|a2 l]]; try discriminate.
  destruct (s_outputs stg) as [|o [|o2 l2]]; try discriminate.
  destruct (view c root (comps (a_path a))) as [[b|d|t|es|]|]; try discriminate.
  destruct (put root (comps (a_path o)) (Some (File (s_cmd stg ++ b)))) as [r|] eqn:Hput; [|discriminate].
  inversion Hex; subst. unfold slot_eq. eapply put_frame; [exact Hput|]. apply Hp. left. reflexivity.
Qed.

Lemma put_top es n v : put (Dir es) [n] (Some v) = Some (Dir (ins_sorted n v es)).
Proof. cbn [put]. destruct (alookup n es); reflexivity. Qed.

(* for a stage whose input and output are top-level entries, cat_exec is a function of the input *)
Lemma cat_exec_functional_stage c sp stg a o i on :
  s_inputs stg = [a] -> s_outputs stg = [o] -> comps (a_path a) = [i] -> comps (a_path o) = [on] ->
  forall r1 r2,
    (forall a', In a' (s_inputs stg) -> same_at c r1 r2 (comps (a_path a'))) ->
    match cat_exec sp stg r1 c, cat_exec sp stg r2 c with
    | Ok r1', Ok r2' => forall o', In o' (s_outputs stg) -> same_at c r1' r2' (comps (a_path o'))
    | Err, Err => True
    | _, _ => False
    end.
Proof.
  intros Hi Ho Hci Hco r1 r2 Hin.
  assert (Hs : same_at c r1 r2 [i]).
  { rewrite <- Hci. apply Hin. rewrite Hi. left. reflexivity. }
  destruct Hs as [Hv _]. unfold cat_exec. rewrite Hi, Ho, Hci, Hco, Hv.
  destruct (view c r2 [i]) as [[b|d|t|es|]|] eqn:Hv2; try exact I.
  assert (Hdir : forall r, view c r [i] = Some (File b) -> exists es, r = Dir es).
  { intros r Hr. unfold view in Hr. destruct r as [b0|d0|t0|es0|]; cbn [get option_map] in Hr; try discriminate.
    exists es0. reflexivity. }
  destruct (Hdir r1 Hv) as [es1 He1]. destruct (Hdir r2 Hv2) as [es2 He2]. subst r1 r2.
  rewrite !put_top. intros o' [Ho'|[]]. subst o'. rewrite Hco.
  unfold same_at, view. cbn [get blocked]. rewrite !alookup_ins_same. split; reflexivity.
Qed.

(* a command that reads a DIRECTORY: the output is the number of entries of the input directory *)
Definition dir_len (o : option node) : option nat :=
  match o with Some (Dir es) => Some (length es) | _ => None end.

Definition len_exec (sp : bytes) (stg : stage) (root : node) (c : cache) : res node :=
  match s_inputs stg, s_outputs stg with
  | [a], [o] =>
    match dir_len (get root (comps (a_path a))) with
    | Some k =>
      match put root (comps (a_path o)) (Some (File [N.of_nat k])) with
      | Some r => Ok r
      | None => Err
      end
    | None => Err
    end
  | _, _ => Err
  end.

Lemma len_exec_framed idx c : exec_framed len_exec idx c.
Proof.
  intros sp stg root root' _ Hex p Hp. unfold len_exec in Hex.
  destruct (s_inputs stg) as [|a [|a2 l]]; try discriminate.
  destruct (s_outputs stg) as [|o [|o2 l2]]; try discriminate.
  destruct (dir_len (get root (comps (a_path a)))) as [k|]; try discriminate.
  destruct (put root (comps (a_path o)) (Some (File [N.of_nat k]))) as [r|] eqn:Hput; [|discriminate].
  inversion Hex; subst. unfold slot_eq. eapply put_frame; [exact Hput|]. apply Hp. left. reflexivity.
Qed.

Lemma dir_len_view c r p : dir_len (view c r p) = dir_len (get r p).
Proof.
  unfold view. destruct (get r p) as [[b|d|t|es|]|]; cbn [option_map]; try reflexivity.
  - cbn [resolve]. destruct (cget c d); reflexivity.
  - rewrite resolve_dir. cbn [dir_len]. rewrite map_length. reflexivity.
Qed.

Module FreshExamples.
  Local Open Scope N_scope.
  Definition idH : bytes -> bytes := fun b => b.
  Definition art (p : bytes) : artifact := mkArt [] p false false false.
  Definition sA : bytes := [97].  Definition sB : bytes := [98].
  Definition f_in : bytes := [105; 110]. Definition fx : bytes := [120]. Definition fy : bytes := [121].
  Definition cmd : bytes := [116; 116; 116].

  (* ---- A: in -> x ; B: x -> y.  `dud run B; dud commit B` (Link strategy) ---- *)
  Definition idx0 : index :=
    [ (sA, mkStage [] cmd [] [art f_in] [art fx]); (sB, mkStage [] cmd [] [art fx] [art fy]) ].
  Definition root0 : node := Dir [(f_in, File [1; 2; 3])].

  Definition run1 := Eval vm_compute in run_targets idH cat_exec idx0 [] true 3 [sB] (Ok (root0, [], [])).
  Definition root1 := Eval vm_compute in match run1 with Ok (r, _, _) => r | Err => Other end.
  Definition cm := Eval vm_compute in commit_stage idH 3 (mkI idx0 root1 []) Link [] [] sB.
  Definition idx1 := Eval vm_compute in match cm with Ok (st, _) => i_idx st | Err => [] end.
  Definition root2 := Eval vm_compute in match cm with Ok (st, _) => i_root st | Err => Other end.
  Definition c2 := Eval vm_compute in match cm with Ok (st, _) => i_cache st | Err => [] end.

  (* the first run executes A then B: x = ttt123, y = tttttt123 *)
  Example chain_first_run :
    run_targets idH cat_exec idx0 [] true 3 [sB] (Ok (root0, [], []))
    = Ok (Dir [(f_in, File [1; 2; 3]); (fx, File (cmd ++ [1; 2; 3])); (fy, File (cmd ++ cmd ++ [1; 2; 3]))],
          [(sA, true); (sB, true)], [sB; sA]).
  Proof. vm_compute. reflexivity. Qed.

  (* the commit replaces the outputs by links into the cache *)
  Example chain_commit :
    commit_stage idH 3 (mkI idx0 root1 []) Link [] [] sB = Ok (mkI idx1 root2 c2, [sB; sA]) /\
    root2 = Dir [(f_in, File [1; 2; 3]); (fx, LinkC (cmd ++ [1; 2; 3])); (fy, LinkC (cmd ++ cmd ++ [1; 2; 3]))].
  Proof. split; vm_compute; reflexivity. Qed.

  (* ---- the premises of run_outputs_fresh, for the committed index and cache ---- *)
  Example chain_framed : exec_framed cat_exec idx1 c2.
  Proof. apply cat_exec_framed. Qed.

  Example chain_wf : idx_wf idx1.
  Proof. apply idx_wfb_sound. vm_compute. reflexivity. Qed.

  Example chain_inputs_wf : inputs_wf idx1.
  Proof. apply inputs_wfb_sound. vm_compute. reflexivity. Qed.

  Example chain_functional : exec_functional cat_exec idx1 c2.
  Proof.
    intros sp stg r1 r2 Hstg Hin. apply alookup_In in Hstg.
    destruct Hstg as [Hs|[Hs|[]]]; inversion Hs; subst sp stg;
      (eapply cat_exec_functional_stage;
       [reflexivity|reflexivity|vm_compute; reflexivity|vm_compute; reflexivity|exact Hin]).
  Qed.

  (* the snapshot: in the workspace the commit leaves, every stage is clean ... *)
  Example chain_all_clean : forall sp stg, alookup sp idx1 = Some stg -> clean0 idH idx1 c2 root2 stg.
  Proof.
    intros sp stg Hs. apply alookup_In in Hs. destruct Hs as [Hs|[Hs|[]]]; inversion Hs; subst sp stg; split.
    - split; [discriminate|vm_compute; reflexivity].
    - intros a [Ha|[]] Hfo; subst a; vm_compute; reflexivity.
    - intros a op up [Ha|[]] Hfo; subst a. vm_compute in Hfo. discriminate Hfo.
    - intros o [Ho|[]]; subst o; vm_compute; reflexivity.
    - split; [discriminate|vm_compute; reflexivity].
    - intros a [Ha|[]] Hfo; subst a; vm_compute; reflexivity.
    - intros a op up [Ha|[]] Hfo; subst a. vm_compute in Hfo. inversion Hfo; subst op up. reflexivity.
    - intros o [Ho|[]]; subst o; vm_compute; reflexivity.
  Qed.

  (* ... and fresh: the commit was made right after a successful run *)
  Example chain_snapshot_fresh :
    forall sp stg, alookup sp idx1 = Some stg -> s_cmd stg <> [] -> fresh cat_exec c2 sp stg root2.
  Proof.
    intros sp stg Hs _. apply alookup_In in Hs.
    destruct Hs as [Hs|[Hs|[]]]; inversion Hs; subst sp stg;
      (eexists; split; [vm_compute; reflexivity|]; intros o [Ho|[]]; subst o; split; vm_compute; reflexivity).
  Qed.

  Example chain_keys : NoDup (map fst idx1).
  Proof.
    cbn [idx1 map fst]. constructor; [intros [Hx|[]]; discriminate Hx|].
    constructor; [intros []|constructor].
  Qed.

  Example chain_below : owned_below idx1.
  Proof.
    intros sp stg a op up Hstg Ha Hfo. apply alookup_In in Hstg.
    destruct Hstg as [Hs|[Hs|[]]]; inversion Hs; subst sp stg; destruct Ha as [Ha|[]]; subst a;
      vm_compute in Hfo; [discriminate Hfo|]. inversion Hfo; subst op up. vm_compute. reflexivity.
  Qed.

  Example chain_cache_ok : cache_ok idH c2.
  Proof.
    intros d o Hget. unfold cget in Hget. apply alookup_In in Hget.
    destruct Hget as [Hg|[Hg|[]]]; inversion Hg; subst; reflexivity.
  Qed.

  Example chain_determined : cs_determines idH idx1 c2.
  Proof.
    apply cs_determines_files.
    - intros x y Hxy. exact Hxy.
    - exact chain_cache_ok.
    - intros sp stg b Hstg Hb. apply alookup_In in Hstg.
      destruct Hstg as [Hs|[Hs|[]]]; inversion Hs; subst sp stg;
        destruct Hb as [Hb|[Hb|[]]]; subst b; reflexivity.
  Qed.

  (* "commits are made only after successful runs" *)
  Example chain_committed_fresh : committed_fresh idH cat_exec idx1 c2.
  Proof.
    apply (committed_fresh_intro idH cat_exec idx1 c2 chain_keys chain_below chain_determined root2
                                 chain_functional chain_all_clean chain_snapshot_fresh).
  Qed.

  (* ---- the theorem on a run straight after the commit: nothing is executed, every visited
     stage is fresh, although x and y are now links and the command would write files ---- *)
  Example chain_second_run_quiet :
    run_targets idH cat_exec idx1 c2 true 3 [sB] (Ok (root2, [], []))
    = Ok (root2, [(sA, false); (sB, false)], []).
  Proof. vm_compute. reflexivity. Qed.

  Example chain_second_run_fresh sp stg b :
    alookup sp [(sA, false); (sB, false)] = Some b -> alookup sp idx1 = Some stg -> s_cmd stg <> [] ->
    fresh cat_exec c2 sp stg root2.
  Proof.
    apply (run_outputs_fresh idH cat_exec idx1 c2 chain_framed chain_wf chain_inputs_wf 3 [sB] root2 root2
                             _ _ chain_functional chain_committed_fresh chain_second_run_quiet).
  Qed.

  (* entry equality (RunProofs.slot_eq) instead of equality of contents would be false here:
     re-executing B in the committed workspace writes a regular file where the link was *)
  Example slot_equality_is_too_fine :
    exists r2, cat_exec sB (mkStage [] cmd [] [art fx] [art fy]) root2 c2 = Ok r2 /\
               get r2 [fy] = Some (File (cmd ++ cmd ++ [1; 2; 3])) /\
               get root2 [fy] = Some (LinkC (cmd ++ cmd ++ [1; 2; 3])) /\
               same_at c2 r2 root2 [fy].
  Proof. eexists. split; [vm_compute; reflexivity|]. repeat split; vm_compute; reflexivity. Qed.

  (* ---- the theorem on a run after the source file was edited: A and B are executed, and
     are fresh in the final workspace ---- *)
  Definition root3 : node :=
    Dir [(f_in, File [7; 8; 9]); (fx, LinkC (cmd ++ [1; 2; 3])); (fy, LinkC (cmd ++ cmd ++ [1; 2; 3]))].
  Definition root4 : node :=
    Dir [(f_in, File [7; 8; 9]); (fx, File (cmd ++ [7; 8; 9])); (fy, File (cmd ++ cmd ++ [7; 8; 9]))].

  Example chain_edited_run :
    run_targets idH cat_exec idx1 c2 true 3 [sB] (Ok (root3, [], []))
    = Ok (root4, [(sA, true); (sB, true)], [sB; sA]).
  Proof. vm_compute. reflexivity. Qed.

  Example chain_edited_run_fresh sp stg b :
    alookup sp [(sA, true); (sB, true)] = Some b -> alookup sp idx1 = Some stg -> s_cmd stg <> [] ->
    fresh cat_exec c2 sp stg root4.
  Proof.
    apply (run_outputs_fresh idH cat_exec idx1 c2 chain_framed chain_wf chain_inputs_wf 3 [sB] root3 root4
                             _ _ chain_functional chain_committed_fresh chain_edited_run).
  Qed.

  (* ---- COUNTEREXAMPLE: [inputs_wf] cannot be dropped.  C: d (a directory) -> d/f.  The input
     is not owned by C (ownership looks upwards only), so there is no cycle; every other premise
     holds, the run succeeds and executes C, and C is NOT fresh afterwards: the command counted 1
     entry in d, and by writing d/f made it 2.  (Stage.validate refuses such a stage.) ---- *)
  Definition sC : bytes := [99].
  Definition dd : bytes := [100].
  Definition ddf : bytes := [100; 47; 102].
  Definition stgC : stage := mkStage [] cmd [] [mkArt [] dd true false false] [art ddf].
  Definition kdx : index := [(sC, stgC)].
  Definition kroot : node := Dir [(dd, Dir [([103], File [1])])].
  Definition kroot' : node := Dir [(dd, Dir [([102], File [1]); ([103], File [1])])].

  Example self_overlap_run :
    run_targets idH len_exec kdx [] true 2 [sC] (Ok (kroot, [], [])) = Ok (kroot', [(sC, true)], [sC]).
  Proof. vm_compute. reflexivity. Qed.

  Example self_overlap_framed : exec_framed len_exec kdx [].
  Proof. apply len_exec_framed. Qed.

  Example self_overlap_wf : idx_wf kdx.
  Proof. apply idx_wfb_sound. vm_compute. reflexivity. Qed.

  Example self_overlap_committed_fresh : committed_fresh idH len_exec kdx [].
  Proof.
    intros sp stg root Hstg _ Hup. exfalso.
    destruct (c0_def _ _ _ _ _ (Hup sp stg (or_introl eq_refl) Hstg)) as [Hne _].
    apply alookup_In in Hstg. destruct Hstg as [Hs|[]]. inversion Hs; subst sp stg. apply Hne. reflexivity.
  Qed.

  Example self_overlap_functional : exec_functional len_exec kdx [].
  Proof.
    intros sp stg r1 r2 Hstg Hin. apply alookup_In in Hstg. destruct Hstg as [Hs|[]].
    inversion Hs; subst sp stg.
    assert (Hs1 : same_at [] r1 r2 [dd]) by (apply (Hin (mkArt [] dd true false false)); left; reflexivity).
    destruct Hs1 as [Hv _].
    assert (Hlen : dir_len (get r1 [dd]) = dir_len (get r2 [dd])).
    { rewrite <- !(dir_len_view []). rewrite Hv. reflexivity. }
    unfold len_exec. cbn [stgC s_inputs s_outputs a_path art].
    change (comps dd) with [dd]. change (comps ddf) with [dd; [102]].
    rewrite Hlen. destruct (dir_len (get r2 [dd])) as [k|] eqn:Hk2; [|exact I].
    assert (Hput : forall r, dir_len (get r [dd]) = Some k ->
              exists es es', alookup dd es = Some (Dir es') /\
                put r [dd; [102]] (Some (File [N.of_nat k]))
                = Some (Dir (ins_sorted dd (Dir (ins_sorted [102] (File [N.of_nat k]) es')) es))).
    { intros r Hr. destruct r as [b0|d0|t0|es0|]; cbn [get dir_len] in Hr; try discriminate.
      destruct (alookup dd es0) as [m|] eqn:Hm; [|discriminate].
      cbn [get] in Hr. destruct m as [b1|d1|t1|es1|]; try discriminate.
      exists es0, es1. split; [exact Hm|]. cbn [put]. rewrite Hm.
      destruct (alookup [102] es1); reflexivity. }
    destruct (Hput r1 Hlen) as [e1 [e1' [_ Hp1]]]. destruct (Hput r2 Hk2) as [e2 [e2' [_ Hp2]]].
    rewrite Hp1, Hp2. intros o [Ho|[]]. subst o. cbn [a_path art]. change (comps ddf) with [dd; [102]].
    unfold same_at, view. cbn [get blocked]. rewrite !alookup_ins_same. cbn [get blocked].
    split; reflexivity.
  Qed.

  Example self_overlap_not_fresh : ~ fresh len_exec [] sC stgC kroot'.
  Proof.
    intros [r2 [Hex Hout]]. vm_compute in Hex. inversion Hex; subst r2.
    destruct (Hout (art ddf) (or_introl eq_refl)) as [Hv _]. vm_compute in Hv. discriminate Hv.
  Qed.

  Example self_overlap_not_inputs_wf : inputs_wfb kdx = false /\ validate sC stgC = false.
  Proof. split; vm_compute; reflexivity. Qed.

  Example self_overlap_inputs_wf_needed : ~ inputs_wf kdx.
  Proof.
    intros Hwf.
    assert (Hf : fresh len_exec [] sC stgC kroot').
    { apply (run_outputs_fresh idH len_exec kdx [] self_overlap_framed self_overlap_wf Hwf 2 [sC] kroot kroot'
                               _ _ self_overlap_functional self_overlap_committed_fresh self_overlap_run
                               sC stgC true); [reflexivity|reflexivity|discriminate]. }
    exact (self_overlap_not_fresh Hf).
  Qed.
End FreshExamples.

Print Assumptions run_executed_made.
Print Assumptions run_outputs_produced.
Print Assumptions run_outputs_fresh.
Print Assumptions produced_fresh.
Print Assumptions committed_fresh_intro.
Print Assumptions short_top_file_determines.
Print Assumptions cs_determines_files.
Print Assumptions FreshExamples.chain_committed_fresh.
Print Assumptions FreshExamples.chain_second_run_fresh.
Print Assumptions FreshExamples.chain_edited_run_fresh.
Print Assumptions FreshExamples.self_overlap_inputs_wf_needed.
