(* A fetch (or push) whose rclone run FAILED part-way, and the retry after it.

   Defect (repaired in src/cache: remoteCopy): when rclone failed, remoteCopy returned before
   setFilePerms, so the objects that had already arrived kept mode 0644 (transfer_mode); the retry
   of the fetch found them present, did not list them, and they stayed writable for good.
   The repaired code runs setFilePerms on the listed files also when rclone fails.

   1. [transfer_some]: what a failed rclone run leaves behind; [interrupted_copy] (repaired:
      followed by fix_perms on the whole list) and [interrupted_copy_old] (pre-repair: no fix-up)
   2. lookup laws; interrupted_copy preserves all_ro, every existing object, cache_ok
   3. fetch_arts preserves all_ro
   4. the retry theorem: after ANY sequence of interrupted copies, a successful fetch leaves a
      cache in which every object is read-only
   5. the same statement is false for the pre-repair behaviour (closed counterexample)
   6. non-vacuity: an interruption that transferred a part, a retry that transferred the rest *)
From Coq Require Import NArith List Bool Lia PeanoNat String.
From DudV Require Import Base.Bytes Base.JsonStr Base.Json Model.Fs Model.Cache Model.Stage Model.Index
  Model.System Model.Remote Proofs.CacheDefs Proofs.CheckoutProofs Proofs.CommitProofs Proofs.RemoteProofs.
Import ListNotations.
Local Open Scope N_scope.

(* ================================================================== *)
(* 1. the model of an interrupted copy                                 *)
(* ================================================================== *)

(* rclone over a list of objects, WITHOUT the all-or-nothing result of [transfer]: every listed
   object that exists at the source and is absent at the destination arrives (mode 0644), a
   listed object that is MISSING AT THE SOURCE IS SKIPPED (rclone reports it and goes on with the
   other files), nothing is overwritten. *)
Fixpoint transfer_some (files : list bytes) (src dst : cache) : cache :=
  match files with
  | [] => dst
  | d :: r =>
    let dst' := match cget src d, cget dst d with
                | Some o, None => ins_sorted d (mkObj (o_data o) transfer_mode) dst
                | _, _ => dst
                end in
    transfer_some r src dst'
  end.

(* the run is cut after the first [n] listed files *)
Definition transfer_upto (n : nat) (files : list bytes) (src dst : cache) : cache :=
  transfer_some (firstn n files) src dst.

(* REPAIRED remoteCopy on the failure path: setFilePerms on the whole list all the same *)
Definition interrupted_copy (n : nat) (files : list bytes) (src dst : cache) : cache :=
  fix_perms files (transfer_upto n files src dst).

(* PRE-REPAIR remoteCopy on the failure path: return at once *)
Definition interrupted_copy_old (n : nat) (files : list bytes) (src dst : cache) : cache :=
  transfer_upto n files src dst.

Definition all_ro (c : cache) : Prop := forall d o, cget c d = Some o -> o_mode o = cache_perms.

(* a sequence of failed runs against the same remote, each with its own list and cut *)
Definition interruptions (l : list (nat * list bytes)) (remote c : cache) : cache :=
  fold_left (fun c nf => interrupted_copy (fst nf) (snd nf) remote c) l c.

(* the other reading of "interrupted" -- stop at the first listed object that is missing at the
   source -- is a special case: it is transfer_upto with a smaller cut *)
Fixpoint transfer_stop (n : nat) (files : list bytes) (src dst : cache) : cache :=
  match n, files with
  | S k, d :: r =>
    match cget src d with
    | None => dst
    | Some o =>
      transfer_stop k r src (match cget dst d with
                             | Some _ => dst
                             | None => ins_sorted d (mkObj (o_data o) transfer_mode) dst
                             end)
    end
  | _, _ => dst
  end.

Lemma transfer_stop_is_upto n : forall files src dst,
  exists n', (n' <= n)%nat /\ transfer_stop n files src dst = transfer_upto n' files src dst.
Proof.
  unfold transfer_upto.
  induction n as [|k IH]; intros files src dst; [exists O; split; [lia|reflexivity]|].
  destruct files as [|d r]; [exists O; split; [lia|reflexivity]|].
  cbn [transfer_stop]. destruct (cget src d) as [o|] eqn:Hs; [|exists O; split; [lia|reflexivity]].
  destruct (IH r src (match cget dst d with
                      | Some _ => dst
                      | None => ins_sorted d (mkObj (o_data o) transfer_mode) dst
                      end)) as (n' & Hle & E).
  exists (S n'). split; [lia|]. rewrite E. cbn [firstn transfer_some]. rewrite Hs.
  destruct (cget dst d); reflexivity.
Qed.

(* ================================================================== *)
(* 2. lookup laws and the invariants                                   *)
(* ================================================================== *)

Lemma transfer_some_lookup files : forall src dst d,
  cget (transfer_some files src dst) d =
  match cget dst d with
  | Some o => Some o
  | None => if mem d files
            then match cget src d with
                 | Some o => Some (mkObj (o_data o) transfer_mode)
                 | None => None
                 end
            else None
  end.
Proof.
  induction files as [|d0 r IH]; intros src dst d; cbn [transfer_some].
  - cbn [mem existsb]. destruct (cget dst d); reflexivity.
  - rewrite IH. rewrite mem_cons. destruct (cget src d0) as [o0|] eqn:Hs0.
    + destruct (cget dst d0) as [od0|] eqn:Hd0.
      * destruct (cget dst d) as [od|] eqn:Hd; [reflexivity|].
        destruct (beqb d d0) eqn:E; [|reflexivity].
        apply beqb_eq in E. subst d0. rewrite Hd in Hd0. discriminate Hd0.
      * rewrite cget_ins. destruct (beqb d d0) eqn:E.
        -- apply beqb_eq in E. subst d0. rewrite Hd0, Hs0. cbn [orb]. reflexivity.
        -- cbn [orb]. reflexivity.
    + destruct (cget dst d) as [od|] eqn:Hd; [reflexivity|].
      destruct (beqb d d0) eqn:E; [|reflexivity].
      apply beqb_eq in E. subst d0. rewrite Hs0. cbn [orb]. destruct (mem d r); reflexivity.
Qed.

(* a run that did not fail is a cut at the end of the list *)
Lemma transfer_ok_some files : forall src dst dst',
  transfer files src dst = Ok dst' -> transfer_some files src dst = dst'.
Proof.
  induction files as [|d0 r IH]; intros src dst dst' Ht; cbn [transfer] in Ht; cbn [transfer_some].
  - injection Ht as <-. reflexivity.
  - destruct (cget src d0) as [o0|]; [|discriminate Ht].
    destruct (cget dst d0) as [od0|]; exact (IH _ _ _ Ht).
Qed.

Lemma remote_copy_is_interrupted files src dst dst' :
  remote_copy files src dst = Ok dst' -> interrupted_copy (List.length files) files src dst = dst'.
Proof.
  unfold remote_copy, interrupted_copy, transfer_upto. rewrite firstn_all.
  destruct (transfer files src dst) as [dst1|] eqn:Ht; [|intros Hx; discriminate Hx].
  intros [= <-]. rewrite (transfer_ok_some _ _ _ _ Ht). reflexivity.
Qed.

Lemma mem_firstn d n : forall l, mem d (firstn n l) = true -> mem d l = true.
Proof.
  induction n as [|k IH]; intros l Hm; [discriminate Hm|].
  destruct l as [|x r]; [discriminate Hm|]. cbn [firstn] in Hm. rewrite mem_cons in *.
  destruct (beqb d x); [reflexivity|]. cbn [orb] in *. exact (IH _ Hm).
Qed.

(* the exact lookup law of the pre-repair failure path *)
Lemma interrupted_copy_old_lookup n files src dst d :
  cget (interrupted_copy_old n files src dst) d =
  match cget dst d with
  | Some o => Some o
  | None => if mem d (firstn n files)
            then match cget src d with
                 | Some o => Some (mkObj (o_data o) transfer_mode)
                 | None => None
                 end
            else None
  end.
Proof. unfold interrupted_copy_old, transfer_upto. apply transfer_some_lookup. Qed.

(* the exact lookup law of the repaired failure path: what was there keeps its bytes and, if
   listed, becomes read-only; what arrived (one of the first n, present at the source) is a
   read-only copy of the source's object; nothing else appears *)
Theorem interrupted_copy_lookup n files src dst d :
  cget (interrupted_copy n files src dst) d =
  match cget dst d with
  | Some o => Some (if mem d files then mkObj (o_data o) cache_perms else o)
  | None => if mem d (firstn n files)
            then match cget src d with
                 | Some o => Some (mkObj (o_data o) cache_perms)
                 | None => None
                 end
            else None
  end.
Proof.
  unfold interrupted_copy, transfer_upto. rewrite fix_perms_lookup, transfer_some_lookup.
  destruct (cget dst d) as [o|]; [reflexivity|].
  destruct (mem d (firstn n files)) eqn:Hm; [|reflexivity].
  rewrite (mem_firstn _ _ _ Hm). destruct (cget src d) as [o|]; reflexivity.
Qed.

Theorem interrupted_copy_all_ro n files src dst :
  all_ro dst -> all_ro (interrupted_copy n files src dst).
Proof.
  intros Hro d o' Hd. rewrite interrupted_copy_lookup in Hd.
  destruct (cget dst d) as [o|] eqn:Hdst.
  - injection Hd as <-. destruct (mem d files); [reflexivity|exact (Hro _ _ Hdst)].
  - destruct (mem d (firstn n files)); [|discriminate Hd].
    destruct (cget src d) as [o|]; [|discriminate Hd]. injection Hd as <-. reflexivity.
Qed.

(* every object that was there is still there, with its bytes *)
Theorem interrupted_copy_le n files src dst : cache_le dst (interrupted_copy n files src dst).
Proof.
  intros d o Hd. rewrite interrupted_copy_lookup, Hd.
  destruct (mem d files); eexists; split; reflexivity.
Qed.

Theorem interrupted_copy_cache_ok H n files src dst :
  cache_ok H src -> cache_ok H dst -> cache_ok H (interrupted_copy n files src dst).
Proof.
  intros Hsrc Hdst d o' Hd. rewrite interrupted_copy_lookup in Hd.
  destruct (cget dst d) as [o|] eqn:Hdd.
  - injection Hd as <-. destruct (Hdst _ _ Hdd) as (E & Hm).
    destruct (mem d files); cbn [o_data o_mode]; split; first [exact E|exact Hm|reflexivity].
  - destruct (mem d (firstn n files)); [|discriminate Hd].
    destruct (cget src d) as [o|] eqn:Hs; [|discriminate Hd]. injection Hd as <-.
    cbn [o_data o_mode]. split; [exact (proj1 (Hsrc _ _ Hs))|reflexivity].
Qed.

(* the pre-repair failure path loses nothing either; what it breaks is the mode *)
Lemma interrupted_copy_old_le n files src dst : cache_le dst (interrupted_copy_old n files src dst).
Proof.
  intros d o Hd. rewrite interrupted_copy_old_lookup, Hd. eexists; split; reflexivity.
Qed.

(* ... folded over a sequence of failed runs *)
Lemma interruptions_all_ro l remote : forall c, all_ro c -> all_ro (interruptions l remote c).
Proof.
  induction l as [|[n files] r IH]; intros c Hro; [exact Hro|].
  cbn [interruptions fold_left fst snd]. apply IH. apply interrupted_copy_all_ro. exact Hro.
Qed.

Lemma interruptions_le l remote : forall c, cache_le c (interruptions l remote c).
Proof.
  induction l as [|[n files] r IH]; intros c; [apply cache_le_refl|].
  cbn [interruptions fold_left fst snd].
  eapply cache_le_trans; [apply (interrupted_copy_le n files remote c)|apply IH].
Qed.

Lemma interruptions_cache_ok H l remote : forall c,
  cache_ok H remote -> cache_ok H c -> cache_ok H (interruptions l remote c).
Proof.
  induction l as [|[n files] r IH]; intros c Hr Hc; [exact Hc|].
  cbn [interruptions fold_left fst snd]. apply IH; [exact Hr|].
  apply interrupted_copy_cache_ok; assumption.
Qed.

(* ================================================================== *)
(* 3. fetch keeps a read-only cache read-only                          *)
(* ================================================================== *)

Lemma fetch_arts_all_ro fuel arts c remote c' :
  all_ro c -> fetch_arts fuel arts c remote = Ok c' -> all_ro c'.
Proof.
  intros Hro Hf d o' Hd. destruct (cget c d) as [o|] eqn:Hc.
  - rewrite (fetch_frame _ _ _ _ _ Hf d o Hc) in Hd. injection Hd as <-. exact (Hro _ _ Hc).
  - destruct (fetch_new _ _ _ _ _ Hf d o' Hc Hd) as (orr & _ & ->). reflexivity.
Qed.

(* ================================================================== *)
(* 4. the retry theorem                                                *)
(* ================================================================== *)

(* Whatever failed runs came before (any number, any lists, any cuts), a fetch that then
   succeeds leaves a cache in which EVERY object is read-only, and which still has every object
   of the cache the story started from. *)
Theorem fetch_retry_all_ro fuel arts (l : list (nat * list bytes)) c remote c' :
  all_ro c ->
  fetch_arts fuel arts (interruptions l remote c) remote = Ok c' ->
  all_ro c' /\ cache_le c c'.
Proof.
  intros Hro Hf. split.
  - exact (fetch_arts_all_ro _ _ _ _ _ (interruptions_all_ro l remote c Hro) Hf).
  - eapply cache_le_trans; [apply interruptions_le|exact (fetch_le _ _ _ _ _ Hf)].
Qed.

(* the same for content-addressed caches: the result is content-addressed (which includes
   read-only) *)
Theorem fetch_retry_cache_ok H fuel arts (l : list (nat * list bytes)) c remote c' :
  cache_ok H c -> cache_ok H remote ->
  fetch_arts fuel arts (interruptions l remote c) remote = Ok c' ->
  cache_ok H c' /\ cache_le c c'.
Proof.
  intros Hc Hr Hf. split.
  - exact (fetch_cache_ok H _ _ _ _ _ (interruptions_cache_ok H l remote c Hr Hc) Hr Hf).
  - eapply cache_le_trans; [apply interruptions_le|exact (fetch_le _ _ _ _ _ Hf)].
Qed.

(* ================================================================== *)
(* 5. / 6. the scenario: `dud fetch` of a two-level directory, rclone   *)
(*         failing on the second level after one of its two files       *)
(* ================================================================== *)

Lemma all_ro_check (c : cache) :
  forallb (fun kv => o_mode (snd kv) =? cache_perms) c = true -> all_ro c.
Proof.
  intros Hall d o Hd. apply CheckoutProofs.alookup_In in Hd. rewrite forallb_forall in Hall.
  specialize (Hall _ Hd). cbn [snd] in Hall. apply N.eqb_eq in Hall. exact Hall.
Qed.

Module Retry.
  Import Demo.
  (* Demo (RemoteProofs): a0 is the committed directory {a, sub/{x, y}}, r0 the remote with its
     4 objects (top manifest, manifest of sub, "hello", "world"), cpart the local cache holding
     only the top manifest, i.e. the state after the first level of `dud fetch` went through. *)

  (* the second level of the fetch lists the two children of the top manifest *)
  Definition kids : list artifact :=
    match cget cpart (a_cs a0) with
    | Some o => match dec_manifest (o_data o) with Some m => map snd (m_contents m) | None => [] end
    | None => []
    end.
  Definition lvl2 : list bytes := fetch_missing cpart kids.
  Definition k_hello : bytes := Hd (str "hello").

  (* rclone copies the first of the two and fails *)
  Definition c_new : cache := interrupted_copy 1 lvl2 r0 cpart.      (* repaired *)
  Definition c_old : cache := interrupted_copy_old 1 lvl2 r0 cpart.  (* pre-repair *)
  Definition c_new' : cache := match fetch_arts 64 [a0] c_new r0 with Ok c => c | Err => [] end.
  Definition c_old' : cache := match fetch_arts 64 [a0] c_old r0 with Ok c => c | Err => [] end.

  Example lvl2_is : List.length lvl2 = 2%nat /\ nth 0 lvl2 [] = k_hello.
  Proof. vm_compute. split; reflexivity. Qed.

  (* the interruption really transferred something (1 object -> 2 objects) and the retry
     really transferred the rest (2 -> 4) *)
  Example progress :
    List.length cpart = 1%nat /\ List.length c_new = 2%nat /\ List.length c_old = 2%nat /\
    cget cpart k_hello = None /\
    cget c_new k_hello = Some (mkObj (str "hello") cache_perms) /\
    cget c_old k_hello = Some (mkObj (str "hello") transfer_mode) /\
    fetch_arts 64 [a0] c_new r0 = Ok c_new' /\ List.length c_new' = 4%nat /\
    fetch_arts 64 [a0] c_old r0 = Ok c_old' /\ List.length c_old' = 4%nat.
  Proof. vm_compute. repeat split; reflexivity. Qed.

  (* 6. the premises of fetch_retry_all_ro hold here, so does (by the theorem) its conclusion;
     the retried fetch ends in the very cache an undisturbed fetch produces, and checkout from
     it reproduces the tree *)
  Example fetch_retry_premises :
    all_ro cpart /\
    interruptions [(1%nat, lvl2)] r0 cpart = c_new /\
    fetch_arts 64 [a0] (interruptions [(1%nat, lvl2)] r0 cpart) r0 = Ok c_new' /\
    (List.length cpart < List.length c_new < List.length c_new')%nat.
  Proof.
    split; [apply all_ro_check; vm_compute; reflexivity|].
    vm_compute. repeat split; reflexivity || lia.
  Qed.

  Example fetch_retry_conclusion : all_ro c_new' /\ cache_le cpart c_new'.
  Proof.
    destruct fetch_retry_premises as (Hro & _ & Hf & _).
    exact (fetch_retry_all_ro _ _ _ _ _ _ Hro Hf).
  Qed.

  Example retry_same_as_undisturbed :
    c_new' = c1 /\ checkout_node Hd 64 a0 None c_new' Copy = Ok (Some tree).
  Proof. vm_compute. split; reflexivity. Qed.

  (* two failed runs in a row (the second one copies nothing new: cut 0), then the retry *)
  Example fetch_retry_twice :
    fetch_arts 64 [a0] (interruptions [(1%nat, lvl2); (0%nat, lvl2)] r0 cpart) r0 = Ok c_new'.
  Proof. vm_compute. reflexivity. Qed.

  (* 5. PRE-REPAIR: the retry succeeds and "hello" is writable in the end *)
  Example old_keeps_0644 :
    fetch_arts 64 [a0] c_old r0 = Ok c_old' /\
    cget c_old' k_hello = Some (mkObj (str "hello") transfer_mode).
  Proof. vm_compute. split; reflexivity. Qed.
  (* the lists are the ones the tool passes to rclone: the retry does not list "hello" again *)
  Example old_retry_skips :
    mem k_hello (fetch_missing c_old kids) = false /\ mem k_hello (fetch_missing cpart kids) = true.
  Proof. vm_compute. split; reflexivity. Qed.
End Retry.

Theorem fetch_retry_old_refuted :
  exists (fuel : nat) (arts : list artifact) (n : nat) (files : list bytes) (c remote c' : cache),
    all_ro c /\ all_ro remote /\
    fetch_arts fuel arts (interrupted_copy_old n files remote c) remote = Ok c' /\
    (exists d o, cget c' d = Some o /\ o_mode o = transfer_mode) /\
    ~ all_ro c'.
Proof.
  exists 64%nat, [Demo.a0], 1%nat, Retry.lvl2, Demo.cpart, Demo.r0, Retry.c_old'.
  destruct Retry.old_keeps_0644 as (Hf & Hk).
  split; [apply all_ro_check; vm_compute; reflexivity|].
  split; [apply all_ro_check; vm_compute; reflexivity|].
  split; [exact Hf|]. split.
  - exists Retry.k_hello, (mkObj (Demo.str "hello") transfer_mode). split; [exact Hk|reflexivity].
  - intros Hro. specialize (Hro _ _ Hk). cbn [o_mode] in Hro. discriminate Hro.
Qed.

(* in the form of the retry theorem with interrupted_copy_old in the place of interrupted_copy *)
Corollary fetch_retry_all_ro_old_false :
  ~ (forall fuel arts n files c remote c',
       all_ro c -> fetch_arts fuel arts (interrupted_copy_old n files remote c) remote = Ok c' ->
       all_ro c').
Proof.
  intros Hall.
  destruct fetch_retry_old_refuted as (fuel & arts & n & files & c & remote & c' & Hro & _ & Hf & _ & Hn).
  exact (Hn (Hall _ _ _ _ _ _ _ Hro Hf)).
Qed.

Print Assumptions transfer_stop_is_upto.
Print Assumptions remote_copy_is_interrupted.
Print Assumptions interrupted_copy_lookup.
Print Assumptions interrupted_copy_all_ro.
Print Assumptions interrupted_copy_le.
Print Assumptions interrupted_copy_cache_ok.
Print Assumptions fetch_arts_all_ro.
Print Assumptions fetch_retry_all_ro.
Print Assumptions fetch_retry_cache_ok.
Print Assumptions fetch_retry_old_refuted.
Print Assumptions fetch_retry_all_ro_old_false.
Print Assumptions Retry.fetch_retry_premises.
Print Assumptions Retry.fetch_retry_conclusion.
Print Assumptions Retry.retry_same_as_undisturbed.
