(* C11: `dud push` / `dud fetch` (Model/Remote.v).
   1. lookup laws of transfer / fix_perms / remote_copy
   2. gather = reach (as sets), push closure
   3. push fails on missing objects; exact success criterion
   4. fetch: frame, provenance of new objects, completeness (under man_plain + no_slash); FetchCex is the
      witness of the defect of the pre-repair merge (keyed by the bare checksum)
   5. checkout only depends on the reachable objects; fetch-then-checkout
   6. scope of rstep_push / rstep_fetch
   7. non-vacuity example *)
From Coq Require Import NArith List Bool Sorted Lia PeanoNat String.
From DudV Require Import Base.Bytes Base.JsonStr Base.Json Model.Fs Model.Cache Model.Stage Model.Index
  Model.System Model.Remote Proofs.CacheDefs Proofs.CheckoutProofs Proofs.CommitProofs.
Import ListNotations.
Local Open Scope N_scope.

(* ================================================================== *)
(* 0. small facts                                                      *)
(* ================================================================== *)

Lemma mem_In d l : mem d l = true <-> In d l.
Proof.
  unfold mem. rewrite existsb_exists. split.
  - intros (x & Hin & Hx). apply beqb_eq in Hx. subst x. exact Hin.
  - intros Hin. exists d. split; [exact Hin|apply beqb_refl].
Qed.

Lemma mem_false d l : mem d l = false <-> ~ In d l.
Proof.
  split.
  - intros Hm Hin. apply mem_In in Hin. rewrite Hin in Hm. discriminate Hm.
  - intros Hn. destruct (mem d l) eqn:E; [|reflexivity]. apply mem_In in E. contradiction.
Qed.

Lemma mem_cons d x l : mem d (x :: l) = beqb d x || mem d l.
Proof. reflexivity. Qed.

Lemma in_add_key d k l : In d (add_key k l) <-> d = k \/ In d l.
Proof.
  unfold add_key. destruct (mem k l) eqn:E.
  - apply mem_In in E. split; [intros Hin; right; exact Hin|].
    intros [->|Hin]; assumption.
  - cbn [In]. split; intros [Hk|Hin]; auto.
Qed.

Lemma in_cache_true c d : in_cache c d = true <-> exists o, cget c d = Some o.
Proof.
  unfold in_cache. destruct (cget c d) as [o|]; split.
  - intros _. exists o. reflexivity.
  - intros _. reflexivity.
  - intros Hd. discriminate Hd.
  - intros (o & Ho). discriminate Ho.
Qed.

Lemma in_cache_false c d : in_cache c d = false <-> cget c d = None.
Proof.
  unfold in_cache. destruct (cget c d) as [o|]; split; intros Hx; try reflexivity; discriminate Hx.
Qed.

Lemma cget_ins c k v d : cget (ins_sorted k v c) d = if beqb d k then Some v else cget c d.
Proof. unfold cget. apply alookup_ins_sorted. Qed.

(* ================================================================== *)
(* 1. transfer / fix_perms / remote_copy                               *)
(* ================================================================== *)

(* the exact lookup law of the rclone contract *)
Lemma transfer_lookup files : forall src dst dst',
  transfer files src dst = Ok dst' ->
  forall d, cget dst' d =
            match cget dst d with
            | Some o => Some o
            | None => if mem d files
                      then match cget src d with
                           | Some o => Some (mkObj (o_data o) transfer_mode)
                           | None => None
                           end
                      else None
            end.
Proof.
  induction files as [|d0 r IH]; intros src dst dst' Ht d; cbn [transfer] in Ht.
  - injection Ht as <-. cbn [mem existsb]. destruct (cget dst d); reflexivity.
  - destruct (cget src d0) as [o0|] eqn:Hs0; [|discriminate Ht].
    rewrite (IH _ _ _ Ht d). rewrite mem_cons.
    destruct (cget dst d0) as [od0|] eqn:Hd0.
    + destruct (cget dst d) as [od|] eqn:Hd; [reflexivity|].
      destruct (beqb d d0) eqn:E; [|reflexivity].
      apply beqb_eq in E. subst d0. rewrite Hd in Hd0. discriminate Hd0.
    + rewrite cget_ins. destruct (beqb d d0) eqn:E.
      * apply beqb_eq in E. subst d0. rewrite Hd0, Hs0. cbn [orb]. reflexivity.
      * cbn [orb]. reflexivity.
Qed.

Lemma transfer_src files : forall src dst dst',
  transfer files src dst = Ok dst' -> forall d, In d files -> exists o, cget src d = Some o.
Proof.
  induction files as [|d0 r IH]; intros src dst dst' Ht d Hin; cbn [transfer] in Ht; [destruct Hin|].
  destruct (cget src d0) as [o0|] eqn:Hs0; [|discriminate Ht].
  destruct Hin as [<-|Hin]; [exists o0; exact Hs0|].
  exact (IH _ _ _ Ht d Hin).
Qed.

(* rclone fails only when a listed object is missing at the source *)
Lemma transfer_total files : forall src dst,
  (forall d, In d files -> exists o, cget src d = Some o) -> exists dst', transfer files src dst = Ok dst'.
Proof.
  induction files as [|d0 r IH]; intros src dst Hall; cbn [transfer]; [exists dst; reflexivity|].
  destruct (Hall d0 (or_introl eq_refl)) as (o0 & Hs0). rewrite Hs0.
  apply IH. intros d Hin. apply Hall. right. exact Hin.
Qed.

Lemma transfer_err files : forall src dst d,
  In d files -> cget src d = None -> transfer files src dst = Err.
Proof.
  intros src dst d Hin Hn. destruct (transfer files src dst) as [dst'|] eqn:Ht; [|reflexivity].
  destruct (transfer_src _ _ _ _ Ht d Hin) as (o & Ho). rewrite Ho in Hn. discriminate Hn.
Qed.

Lemma fix_perms_lookup files : forall dst d,
  cget (fix_perms files dst) d =
  match cget dst d with
  | Some o => Some (if mem d files then mkObj (o_data o) cache_perms else o)
  | None => None
  end.
Proof.
  induction files as [|d0 r IH]; intros dst d; cbn [fix_perms].
  - cbn [mem existsb]. destruct (cget dst d); reflexivity.
  - rewrite IH. rewrite mem_cons. destruct (cget dst d0) as [o0|] eqn:Hd0.
    + rewrite cget_ins. destruct (beqb d d0) eqn:E.
      * apply beqb_eq in E. subst d0. rewrite Hd0. cbn [orb o_data].
        destruct (mem d r); reflexivity.
      * cbn [orb]. reflexivity.
    + destruct (beqb d d0) eqn:E; [|reflexivity].
      apply beqb_eq in E. subst d0. rewrite Hd0. reflexivity.
Qed.

(* the exact lookup law of remoteCopy *)
Theorem remote_copy_lookup files src dst dst' :
  remote_copy files src dst = Ok dst' ->
  forall d, cget dst' d =
            if mem d files
            then match cget dst d, cget src d with
                 | Some o, _ => Some (mkObj (o_data o) cache_perms)
                 | None, Some o => Some (mkObj (o_data o) cache_perms)
                 | None, None => None
                 end
            else cget dst d.
Proof.
  unfold remote_copy. destruct (transfer files src dst) as [dst1|] eqn:Ht; [|intros Hx; discriminate Hx].
  intros [= <-] d. rewrite fix_perms_lookup. rewrite (transfer_lookup _ _ _ _ Ht d).
  destruct (mem d files).
  - destruct (cget dst d) as [o|]; [reflexivity|]. destruct (cget src d) as [o|]; reflexivity.
  - destruct (cget dst d) as [o|]; reflexivity.
Qed.

(* ... and in the itemised form of the property *)
Theorem remote_copy_listed files src dst dst' :
  remote_copy files src dst = Ok dst' ->
  forall d, In d files ->
    exists o o', cget src d = Some o /\ cget dst' d = Some o' /\
                 o_data o' = match cget dst d with Some od => o_data od | None => o_data o end /\
                 o_mode o' = cache_perms.
Proof.
  intros Hrc d Hin. pose proof (remote_copy_lookup _ _ _ _ Hrc d) as Hl.
  unfold remote_copy in Hrc. destruct (transfer files src dst) as [dst1|] eqn:Ht; [|discriminate Hrc].
  destruct (transfer_src _ _ _ _ Ht d Hin) as (o & Ho).
  apply mem_In in Hin. rewrite Hin, Ho in Hl. exists o.
  destruct (cget dst d) as [od|]; eexists; (split; [exact Ho|split; [exact Hl|split; reflexivity]]).
Qed.

Theorem remote_copy_unlisted files src dst dst' :
  remote_copy files src dst = Ok dst' -> forall d, ~ In d files -> cget dst' d = cget dst d.
Proof.
  intros Hrc d Hn. rewrite (remote_copy_lookup _ _ _ _ Hrc d). apply mem_false in Hn. rewrite Hn. reflexivity.
Qed.

Theorem remote_copy_no_new_keys files src dst dst' :
  remote_copy files src dst = Ok dst' ->
  forall d o', cget dst' d = Some o' -> In d files \/ exists o, cget dst d = Some o.
Proof.
  intros Hrc d o' Hd. rewrite (remote_copy_lookup _ _ _ _ Hrc d) in Hd.
  destruct (mem d files) eqn:E; [left; apply mem_In; exact E|right; exists o'; exact Hd].
Qed.

Theorem remote_copy_le files src dst dst' :
  remote_copy files src dst = Ok dst' -> cache_le dst dst'.
Proof.
  intros Hrc d o Hd. rewrite (remote_copy_lookup _ _ _ _ Hrc d), Hd.
  destruct (mem d files); eexists; split; reflexivity.
Qed.

Theorem remote_copy_ok_iff files src dst :
  (exists dst', remote_copy files src dst = Ok dst') <-> (forall d, In d files -> exists o, cget src d = Some o).
Proof.
  unfold remote_copy. split.
  - intros (dst' & Hrc) d Hin. destruct (transfer files src dst) as [dst1|] eqn:Ht; [|discriminate Hrc].
    exact (transfer_src _ _ _ _ Ht d Hin).
  - intros Hall. destruct (transfer_total files src dst Hall) as (dst1 & ->). eexists. reflexivity.
Qed.

(* an object that already existed and is not listed keeps even its mode; a listed one that
   existed keeps its bytes and becomes read-only *)
Corollary remote_copy_keeps files src dst dst' d o :
  remote_copy files src dst = Ok dst' -> cget dst d = Some o ->
  exists o', cget dst' d = Some o' /\ o_data o' = o_data o /\ (o_mode o' = o_mode o \/ o_mode o' = cache_perms).
Proof.
  intros Hrc Hd. rewrite (remote_copy_lookup _ _ _ _ Hrc d), Hd.
  destruct (mem d files); eexists; (split; [reflexivity|split; [reflexivity|]]); [right|left]; reflexivity.
Qed.

Print Assumptions remote_copy_lookup.
Print Assumptions remote_copy_listed.
Print Assumptions remote_copy_unlisted.
Print Assumptions remote_copy_no_new_keys.
Print Assumptions remote_copy_le.
Print Assumptions remote_copy_ok_iff.

(* ================================================================== *)
(* 2. gather = reach                                                   *)
(* ================================================================== *)

(* the inner loop of gather as a top-level function *)
Fixpoint gather_kids (f : nat) (c : cache) (kids : list (bytes * artifact)) (acc : list bytes)
  : res (list bytes) :=
  match kids with
  | [] => Ok acc
  | (_, ch) :: r => match gather f ch c acc with
                    | Ok acc' => gather_kids f c r acc'
                    | Err => Err
                    end
  end.

Lemma gather_S f a c acc :
  gather (S f) a c acc =
  if a_skip a then Ok acc
  else if negb (has_cs (a_cs a)) then Err
  else match cget c (a_cs a) with
       | None => Err
       | Some o =>
         if a_isdir a then
           match dec_manifest (o_data o) with
           | None => Err
           | Some m => match gather_kids f c (m_contents m) acc with
                       | Ok acc' => Ok (add_key (a_cs a) acc')
                       | Err => Err
                       end
           end
         else Ok (add_key (a_cs a) acc)
       end.
Proof.
  cbn [gather]. destruct (a_skip a); [reflexivity|].
  destruct (negb (has_cs (a_cs a))); [reflexivity|].
  destruct (cget c (a_cs a)) as [o|]; [|reflexivity].
  destruct (a_isdir a); [|reflexivity].
  destruct (dec_manifest (o_data o)) as [m|]; [|reflexivity].
  assert (Hgo : forall kids acc0,
    (fix go (kids : list (bytes * artifact)) (acc : list bytes) {struct kids} : res (list bytes) :=
       match kids with
       | [] => Ok acc
       | (_, ch) :: r => match gather f ch c acc with
                         | Ok acc' => go r acc'
                         | Err => Err
                         end
       end) kids acc0 = gather_kids f c kids acc0).
  { induction kids as [|[k ch] r IH]; intros acc0; [reflexivity|].
    cbn [gather_kids]. destruct (gather f ch c acc0); [apply IH|reflexivity]. }
  rewrite Hgo. reflexivity.
Qed.

(* the artifacts (not just the keys) reachable within the fuel; reach is their checksums *)
Fixpoint rart (fuel : nat) (a : artifact) (c : cache) : list artifact :=
  match fuel with
  | O => []
  | S f =>
    if a_skip a then []
    else a ::
         (if a_isdir a then
            match cget c (a_cs a) with
            | Some o => match dec_manifest (o_data o) with
                        | Some m => flat_map (fun kv => rart f (snd kv) c) (m_contents m)
                        | None => []
                        end
            | None => []
            end
          else [])
  end.

Lemma reach_rart fuel : forall a c, reach fuel a c = map a_cs (rart fuel a c).
Proof.
  induction fuel as [|f IH]; intros a c; [reflexivity|].
  cbn [reach rart]. destruct (a_skip a); [reflexivity|]. cbn [map]. f_equal.
  destruct (a_isdir a); [|reflexivity].
  destruct (cget c (a_cs a)) as [o|]; [|reflexivity].
  destruct (dec_manifest (o_data o)) as [m|]; [|reflexivity].
  induction (m_contents m) as [|kv r IHr]; [reflexivity|].
  cbn [flat_map]. rewrite map_app, IH, IHr. reflexivity.
Qed.

Lemma rart_noskip fuel : forall a c x, In x (rart fuel a c) -> a_skip x = false.
Proof.
  induction fuel as [|f IH]; intros a c x Hin; [destruct Hin|].
  cbn [rart] in Hin. destruct (a_skip a) eqn:Hs; [destruct Hin|].
  destruct Hin as [<-|Hin]; [exact Hs|].
  destruct (a_isdir a); [|destruct Hin].
  destruct (cget c (a_cs a)) as [o|]; [|destruct Hin].
  destruct (dec_manifest (o_data o)) as [m|]; [|destruct Hin].
  apply in_flat_map in Hin as (kv & _ & Hin). exact (IH _ _ _ Hin).
Qed.

(* "every object the push of [a] needs is there": the artifact has a checksum, its object is
   present, a directory object decodes, and the same holds for every child, within the fuel *)
Fixpoint complete (fuel : nat) (a : artifact) (c : cache) : Prop :=
  match fuel with
  | O => False
  | S f =>
    if a_skip a then True
    else has_cs (a_cs a) = true /\
         exists o, cget c (a_cs a) = Some o /\
                   (a_isdir a = true ->
                    exists m, dec_manifest (o_data o) = Some m /\
                              Forall (fun kv => complete f (snd kv) c) (m_contents m))
  end.

Definition obj_ok (c : cache) (x : artifact) : Prop :=
  has_cs (a_cs x) = true /\
  exists o, cget c (a_cs x) = Some o /\ (a_isdir x = true -> dec_manifest (o_data o) <> None).

(* completeness implies that every reachable artifact is fine *)
Lemma complete_rart fuel : forall a c, complete fuel a c -> Forall (obj_ok c) (rart fuel a c).
Proof.
  induction fuel as [|f IH]; intros a c Hc; [constructor|].
  cbn [complete rart] in *. destruct (a_skip a); [constructor|].
  destruct Hc as (Hh & o & Ho & Hd). constructor.
  - split; [exact Hh|]. exists o. split; [exact Ho|].
    intros Hdir. destruct (Hd Hdir) as (m & Hm & _). rewrite Hm. discriminate.
  - destruct (a_isdir a); [|constructor]. rewrite Ho.
    destruct (Hd eq_refl) as (m & Hm & Hall). rewrite Hm.
    apply Forall_forall. intros x Hin. apply in_flat_map in Hin as (kv & Hkv & Hin).
    rewrite Forall_forall in Hall. specialize (IH _ _ (Hall _ Hkv)).
    rewrite Forall_forall in IH. exact (IH _ Hin).
Qed.

Lemma complete_fuel_mono f : forall f' a c, (f <= f')%nat -> complete f a c -> complete f' a c.
Proof.
  induction f as [|f IH]; intros f' a c Hle Hc; [destruct Hc|].
  destruct f' as [|f']; [lia|]. cbn [complete] in *.
  destruct (a_skip a); [exact I|].
  destruct Hc as (Hh & o & Ho & Hd). split; [exact Hh|]. exists o. split; [exact Ho|].
  intros Hdir. destruct (Hd Hdir) as (m & Hm & Hall). exists m. split; [exact Hm|].
  eapply Forall_impl; [|exact Hall]. intros kv Hkv. apply (IH f'); [lia|exact Hkv].
Qed.

(* gather succeeds exactly on complete artifacts, and then adds exactly reach *)
Lemma gather_spec fuel : forall a c acc acc',
  gather fuel a c acc = Ok acc' ->
  complete fuel a c /\ forall d, In d acc' <-> In d acc \/ In d (reach fuel a c).
Proof.
  induction fuel as [|f IH]; intros a c acc acc' Hg; [discriminate Hg|].
  rewrite gather_S in Hg. cbn [complete reach].
  destruct (a_skip a).
  { injection Hg as <-. split; [exact I|]. intros d. cbn [In]. tauto. }
  destruct (has_cs (a_cs a)) eqn:Hh; [|discriminate Hg]. cbn [negb] in Hg.
  destruct (cget c (a_cs a)) as [o|] eqn:Ho; [|discriminate Hg].
  destruct (a_isdir a) eqn:Hdir.
  - destruct (dec_manifest (o_data o)) as [m|] eqn:Hm; [|discriminate Hg].
    destruct (gather_kids f c (m_contents m) acc) as [acc1|] eqn:Hk; [|discriminate Hg].
    injection Hg as <-.
    assert (Hkids : forall kids acc0 acc1,
              gather_kids f c kids acc0 = Ok acc1 ->
              Forall (fun kv => complete f (snd kv) c) kids /\
              forall d, In d acc1 <-> In d acc0 \/ In d (flat_map (fun kv => reach f (snd kv) c) kids)).
    { induction kids as [|[k ch] r IHr]; intros acc0 acc2 Hgk; cbn [gather_kids] in Hgk.
      - injection Hgk as <-. split; [constructor|]. intros d. cbn [flat_map In]. tauto.
      - destruct (gather f ch c acc0) as [acc3|] eqn:Hg1; [|discriminate Hgk].
        destruct (IH _ _ _ _ Hg1) as (Hc1 & Hs1). destruct (IHr _ _ Hgk) as (Hc2 & Hs2).
        split; [constructor; assumption|]. intros d. cbn [flat_map snd]. rewrite in_app_iff, Hs2, Hs1. tauto. }
    destruct (Hkids _ _ _ Hk) as (Hc & Hs). split.
    + split; [reflexivity|]. exists o. split; [reflexivity|]. intros _. exists m. split; [exact Hm|exact Hc].
    + intros d. rewrite in_add_key, Hs. cbn [In]. intuition.
  - injection Hg as <-. split.
    + split; [reflexivity|]. exists o. split; [reflexivity|]. intros Hx; discriminate Hx.
    + intros d. rewrite in_add_key. cbn [In]. intuition.
Qed.

Lemma gather_total fuel : forall a c acc, complete fuel a c -> exists acc', gather fuel a c acc = Ok acc'.
Proof.
  induction fuel as [|f IH]; intros a c acc Hc; [destruct Hc|].
  rewrite gather_S. cbn [complete] in Hc. destruct (a_skip a); [eexists; reflexivity|].
  destruct Hc as (Hh & o & Ho & Hd). rewrite Hh, Ho. cbn [negb].
  destruct (a_isdir a); [|eexists; reflexivity].
  destruct (Hd eq_refl) as (m & Hm & Hall). rewrite Hm.
  assert (Hkids : forall kids acc0, Forall (fun kv => complete f (snd kv) c) kids ->
                                    exists acc1, gather_kids f c kids acc0 = Ok acc1).
  { induction kids as [|[k ch] r IHr]; intros acc0 Hk; cbn [gather_kids]; [eexists; reflexivity|].
    inversion Hk as [|x y Hx Hr]; subst. cbn [snd] in Hx.
    destruct (IH _ _ acc0 Hx) as (acc3 & ->). apply IHr. exact Hr. }
  destruct (Hkids _ acc Hall) as (acc1 & ->). eexists. reflexivity.
Qed.

Theorem gather_ok_iff fuel a c acc : (exists acc', gather fuel a c acc = Ok acc') <-> complete fuel a c.
Proof.
  split; [intros (acc' & Hg); exact (proj1 (gather_spec _ _ _ _ _ Hg))|apply gather_total].
Qed.

Theorem gather_adds_reach fuel a c acc acc' :
  gather fuel a c acc = Ok acc' -> forall d, In d acc' <-> In d acc \/ In d (reach fuel a c).
Proof. intros Hg. exact (proj2 (gather_spec _ _ _ _ _ Hg)). Qed.

(* every reachable object of a complete artifact is present *)
Lemma complete_reach_present fuel a c d :
  complete fuel a c -> In d (reach fuel a c) -> exists o, cget c d = Some o.
Proof.
  intros Hc Hin. rewrite reach_rart in Hin. apply in_map_iff in Hin as (x & <- & Hx).
  pose proof (complete_rart _ _ _ Hc) as Hall. rewrite Forall_forall in Hall.
  destruct (Hall _ Hx) as (_ & o & Ho & _). exists o. exact Ho.
Qed.

Lemma gather_all_spec fuel arts : forall c acc acc',
  gather_all fuel arts c acc = Ok acc' ->
  Forall (fun a => complete fuel a c) arts /\
  forall d, In d acc' <-> In d acc \/ exists a, In a arts /\ In d (reach fuel a c).
Proof.
  induction arts as [|a r IH]; intros c acc acc' Hg; cbn [gather_all] in Hg.
  - injection Hg as <-. split; [constructor|]. intros d. split; [intros Hd; left; exact Hd|].
    intros [Hd|(a & [] & _)]. exact Hd.
  - destruct (gather fuel a c acc) as [acc1|] eqn:Hg1; [|discriminate Hg].
    destruct (gather_spec _ _ _ _ _ Hg1) as (Hc1 & Hs1). destruct (IH _ _ _ Hg) as (Hc2 & Hs2).
    split; [constructor; assumption|]. intros d. rewrite Hs2, Hs1. split.
    + intros [[Hd|Hd]|(a' & Ha' & Hd)]; [left; exact Hd|right; exists a; split; [left; reflexivity|exact Hd]|].
      right. exists a'. split; [right; exact Ha'|exact Hd].
    + intros [Hd|(a' & [<-|Ha'] & Hd)]; [left; left; exact Hd|left; right; exact Hd|].
      right. exists a'. split; [exact Ha'|exact Hd].
Qed.

Lemma gather_all_total fuel arts : forall c acc,
  Forall (fun a => complete fuel a c) arts -> exists acc', gather_all fuel arts c acc = Ok acc'.
Proof.
  induction arts as [|a r IH]; intros c acc Hall; cbn [gather_all]; [eexists; reflexivity|].
  inversion Hall as [|x y Hx Hr]; subst. destruct (gather_total _ _ _ acc Hx) as (acc1 & ->).
  apply IH. exact Hr.
Qed.

Print Assumptions gather_ok_iff.
Print Assumptions gather_adds_reach.

(* ================================================================== *)
(* 2b. push                                                            *)
(* ================================================================== *)

(* push_arts in one piece: the gathered list is exactly the union of the reach sets, and the
   new remote is remote_copy of it (the empty-list shortcut is the same thing) *)
Lemma push_arts_inv arts c r r' :
  push_arts arts c r = Ok r' ->
  exists files,
    gather_all 64 arts c [] = Ok files /\
    Forall (fun a => complete 64 a c) arts /\
    (forall d, In d files <-> exists a, In a arts /\ In d (reach 64 a c)) /\
    remote_copy files c r = Ok r'.
Proof.
  unfold push_arts. intros Hp. destruct (gather_all 64 arts c []) as [files|] eqn:Hg; [|discriminate Hp].
  destruct (gather_all_spec _ _ _ _ _ Hg) as (Hc & Hs).
  exists files. split; [reflexivity|]. split; [exact Hc|]. split.
  - intros d. rewrite Hs. cbn [In]. tauto.
  - destruct files as [|d0 fr]; [|exact Hp]. injection Hp as <-. reflexivity.
Qed.

(* C11, push half: the remote holds every reachable object, with the local bytes unless the
   remote already had an object under that key; nothing on the remote is lost or changes bytes *)
Theorem C11_push_closure arts c r r' :
  push_arts arts c r = Ok r' ->
  (forall a d, In a arts -> In d (reach 64 a c) ->
     exists o o', cget c d = Some o /\ cget r' d = Some o' /\ o_mode o' = cache_perms /\
                  (cget r d = None -> o_data o' = o_data o)) /\
  cache_le r r'.
Proof.
  intros Hp. destruct (push_arts_inv _ _ _ _ Hp) as (files & _ & _ & Hs & Hrc). split.
  - intros a d Ha Hd. assert (Hin : In d files) by (apply Hs; exists a; split; assumption).
    destruct (remote_copy_listed _ _ _ _ Hrc d Hin) as (o & o' & Ho & Ho' & Hdat & Hmode).
    exists o, o'. split; [exact Ho|]. split; [exact Ho'|]. split; [exact Hmode|].
    intros Hn. rewrite Hn in Hdat. exact Hdat.
  - exact (remote_copy_le _ _ _ _ Hrc).
Qed.

(* with content-addressed caches on both sides the bytes are the local ones unconditionally *)
Theorem C11_push_closure_ok H arts c r r' :
  H_inj H -> cache_ok H c -> cache_ok H r ->
  push_arts arts c r = Ok r' ->
  (forall a d, In a arts -> In d (reach 64 a c) ->
     exists o o', cget c d = Some o /\ cget r' d = Some o' /\ o_data o' = o_data o /\
                  o_mode o' = cache_perms) /\
  cache_le r r' /\ cache_ok H r'.
Proof.
  intros Hinj Hokc Hokr Hp. destruct (push_arts_inv _ _ _ _ Hp) as (files & _ & _ & Hs & Hrc).
  assert (Hpt : forall d, In d files ->
            exists o o', cget c d = Some o /\ cget r' d = Some o' /\ o_data o' = o_data o /\
                         o_mode o' = cache_perms).
  { intros d Hin. destruct (remote_copy_listed _ _ _ _ Hrc d Hin) as (o & o' & Ho & Ho' & Hdat & Hmode).
    exists o, o'. split; [exact Ho|]. split; [exact Ho'|]. split; [|exact Hmode].
    destruct (cget r d) as [od|] eqn:Hr; [|exact Hdat].
    rewrite Hdat. apply Hinj. destruct (Hokr _ _ Hr) as (<- & _). destruct (Hokc _ _ Ho) as (E & _). exact E. }
  split; [|split].
  - intros a d Ha Hd. apply Hpt. apply Hs. exists a. split; assumption.
  - exact (remote_copy_le _ _ _ _ Hrc).
  - intros d o' Hd. destruct (List.in_dec (list_eq_dec N.eq_dec) d files) as [Hin|Hn].
    + destruct (Hpt d Hin) as (o & o2 & Ho & Ho2 & Hdat & Hmode). rewrite Hd in Ho2. injection Ho2 as <-.
      rewrite Hdat. destruct (Hokc _ _ Ho) as (E & _). split; [exact E|exact Hmode].
    + rewrite (remote_copy_unlisted _ _ _ _ Hrc d Hn) in Hd. exact (Hokr _ _ Hd).
Qed.

(* push touches nothing but reachable keys *)
Theorem C11_push_frame arts c r r' :
  push_arts arts c r = Ok r' ->
  forall d, (forall a, In a arts -> ~ In d (reach 64 a c)) -> cget r' d = cget r d.
Proof.
  intros Hp d Hn. destruct (push_arts_inv _ _ _ _ Hp) as (files & _ & _ & Hs & Hrc).
  apply (remote_copy_unlisted _ _ _ _ Hrc). intros Hin. apply Hs in Hin as (a & Ha & Hd).
  exact (Hn a Ha Hd).
Qed.

(* ================================================================== *)
(* 3. push fails rather than succeed on an incomplete cache            *)
(* ================================================================== *)

(* the exact success criterion *)
Theorem C11_push_ok_iff arts c r :
  (exists r', push_arts arts c r = Ok r') <-> Forall (fun a => complete 64 a c) arts.
Proof.
  split.
  - intros (r' & Hp). destruct (push_arts_inv _ _ _ _ Hp) as (files & _ & Hc & _). exact Hc.
  - intros Hall. unfold push_arts. destruct (gather_all_total 64 arts c [] Hall) as (files & Hg).
    rewrite Hg. destruct (gather_all_spec _ _ _ _ _ Hg) as (_ & Hs).
    destruct files as [|d0 fr]; [eexists; reflexivity|].
    apply remote_copy_ok_iff. intros d Hin. apply Hs in Hin as [[]|(a & Ha & Hd)].
    rewrite Forall_forall in Hall. exact (complete_reach_present _ _ _ _ (Hall _ Ha) Hd).
Qed.

(* some reachable artifact lacks a checksum, or its object is absent, or a directory object
   does not decode: push fails *)
Theorem C11_push_fails_on_bad arts c r a x :
  In a arts -> In x (rart 64 a c) -> ~ obj_ok c x -> push_arts arts c r = Err.
Proof.
  intros Ha Hx Hbad. destruct (push_arts arts c r) as [r'|] eqn:Hp; [|reflexivity]. exfalso.
  destruct (push_arts_inv _ _ _ _ Hp) as (files & _ & Hc & _).
  rewrite Forall_forall in Hc. pose proof (complete_rart _ _ _ (Hc _ Ha)) as Hall.
  rewrite Forall_forall in Hall. exact (Hbad (Hall _ Hx)).
Qed.

Theorem C11_push_fails_on_missing arts c r a d :
  In a arts -> In d (reach 64 a c) -> cget c d = None -> push_arts arts c r = Err.
Proof.
  intros Ha Hd Hn. destruct (push_arts arts c r) as [r'|] eqn:Hp; [|reflexivity]. exfalso.
  destruct (push_arts_inv _ _ _ _ Hp) as (files & _ & Hc & _).
  rewrite Forall_forall in Hc. destruct (complete_reach_present _ _ _ _ (Hc _ Ha) Hd) as (o & Ho).
  rewrite Ho in Hn. discriminate Hn.
Qed.

Corollary C11_push_fails_no_checksum arts c r a x :
  In a arts -> In x (rart 64 a c) -> has_cs (a_cs x) = false -> push_arts arts c r = Err.
Proof.
  intros Ha Hx Hh. apply (C11_push_fails_on_bad _ _ _ a x Ha Hx). intros (Hh' & _).
  rewrite Hh in Hh'. discriminate Hh'.
Qed.

Corollary C11_push_fails_undecodable arts c r a x o :
  In a arts -> In x (rart 64 a c) -> a_isdir x = true -> cget c (a_cs x) = Some o ->
  dec_manifest (o_data o) = None -> push_arts arts c r = Err.
Proof.
  intros Ha Hx Hdir Ho Hm. apply (C11_push_fails_on_bad _ _ _ a x Ha Hx).
  intros (_ & o' & Ho' & Hd). rewrite Ho in Ho'. injection Ho' as <-. exact (Hd Hdir Hm).
Qed.

(* a tree deeper than the fuel makes push fail as well (gather runs out of fuel) *)
Corollary C11_push_fails_too_deep arts c r a :
  In a arts -> ~ complete 64 a c -> push_arts arts c r = Err.
Proof.
  intros Ha Hn. destruct (push_arts arts c r) as [r'|] eqn:Hp; [|reflexivity]. exfalso.
  destruct (push_arts_inv _ _ _ _ Hp) as (files & _ & Hc & _). rewrite Forall_forall in Hc.
  exact (Hn (Hc _ Ha)).
Qed.

Print Assumptions C11_push_closure.
Print Assumptions C11_push_closure_ok.
Print Assumptions C11_push_frame.
Print Assumptions C11_push_ok_iff.
Print Assumptions C11_push_fails_on_bad.
Print Assumptions C11_push_fails_on_missing.
Print Assumptions C11_push_fails_no_checksum.
Print Assumptions C11_push_fails_undecodable.

(* ================================================================== *)
(* 4. fetch                                                            *)
(* ================================================================== *)

Definition noskip (arts : list artifact) : list artifact := filter (fun a => negb (a_skip a)) arts.

Definition fetch_missing (c : cache) (arts' : list artifact) : list bytes :=
  fold_right (fun a acc => if in_cache c (a_cs a) then acc else add_key (a_cs a) acc) [] arts'.

Definition fetch_level (c remote : cache) (missing : list bytes) : res cache :=
  match missing with
  | [] => Ok c
  | _ => remote_copy missing remote c
  end.

Definition merge_kids (l : list (bytes * artifact)) (acc : list (bytes * artifact)) : list (bytes * artifact) :=
  fold_left (fun acc kv => ins_sorted (child_key (snd kv)) (snd kv) acc) l acc.

Fixpoint fetch_kids (c1 : cache) (dirs : list artifact) (acc : list (bytes * artifact))
  : res (list (bytes * artifact)) :=
  match dirs with
  | [] => Ok acc
  | a :: r =>
    match cget c1 (a_cs a) with
    | None => Err
    | Some o =>
      match dec_manifest (o_data o) with
      | None => Err
      | Some m => fetch_kids c1 r (merge_kids (m_contents m) acc)
      end
    end
  end.

Lemma fetch_S f arts c r :
  fetch_arts (S f) arts c r =
  if negb (forallb (fun a => has_cs (a_cs a)) (noskip arts)) then Err
  else match fetch_level c r (fetch_missing c (noskip arts)) with
       | Err => Err
       | Ok c1 =>
         match fetch_kids c1 (filter a_isdir (noskip arts)) [] with
         | Err => Err
         | Ok [] => Ok c1
         | Ok children => fetch_arts f (map snd children) c1 r
         end
       end.
Proof.
  cbn [fetch_arts]. fold (noskip arts). fold (fetch_missing c (noskip arts)).
  destruct (negb (forallb (fun a => has_cs (a_cs a)) (noskip arts))); [reflexivity|].
  change (match fetch_missing c (noskip arts) with
          | [] => Ok c
          | _ :: _ => remote_copy (fetch_missing c (noskip arts)) r c
          end) with (fetch_level c r (fetch_missing c (noskip arts))).
  destruct (fetch_level c r (fetch_missing c (noskip arts))) as [c1|]; [|reflexivity].
  assert (Hk : forall dirs acc,
    (fix kids (dirs : list artifact) (acc : list (bytes * artifact)) {struct dirs}
       : res (list (bytes * artifact)) :=
       match dirs with
       | [] => Ok acc
       | a :: r0 =>
         match cget c1 (a_cs a) with
         | None => Err
         | Some o =>
           match dec_manifest (o_data o) with
           | None => Err
           | Some m => kids r0 (fold_left (fun acc0 kv => ins_sorted (child_key (snd kv)) (snd kv) acc0) (m_contents m) acc)
           end
         end
       end) dirs acc = fetch_kids c1 dirs acc).
  { induction dirs as [|a r0 IH]; intros acc; [reflexivity|]. cbn [fetch_kids].
    destruct (cget c1 (a_cs a)) as [o|]; [|reflexivity].
    destruct (dec_manifest (o_data o)) as [m|]; [|reflexivity]. apply IH. }
  rewrite Hk. reflexivity.
Qed.

Lemma in_noskip a arts : In a (noskip arts) <-> In a arts /\ a_skip a = false.
Proof.
  unfold noskip. rewrite filter_In. destruct (a_skip a); cbn [negb]; intuition discriminate.
Qed.

Lemma in_fetch_missing c arts' d :
  In d (fetch_missing c arts') <-> cget c d = None /\ exists a, In a arts' /\ a_cs a = d.
Proof.
  induction arts' as [|a r IH]; cbn [fetch_missing fold_right].
  - split; [intros []|intros (_ & a & [] & _)].
  - fold (fetch_missing c r). destruct (in_cache c (a_cs a)) eqn:Hic.
    + rewrite IH. apply in_cache_true in Hic as (o & Ho). split.
      * intros (Hn & a' & Ha' & E). split; [exact Hn|]. exists a'. split; [right; exact Ha'|exact E].
      * intros (Hn & a' & [<-|Ha'] & E); [subst d; rewrite Ho in Hn; discriminate Hn|].
        split; [exact Hn|]. exists a'. split; [exact Ha'|exact E].
    + rewrite in_add_key, IH. apply in_cache_false in Hic. split.
      * intros [->|(Hn & a' & Ha' & E)].
        -- split; [exact Hic|]. exists a. split; [left; reflexivity|reflexivity].
        -- split; [exact Hn|]. exists a'. split; [right; exact Ha'|exact E].
      * intros (Hn & a' & [<-|Ha'] & E); [left; symmetry; exact E|].
        right. split; [exact Hn|]. exists a'. split; [exact Ha'|exact E].
Qed.

(* one level of fetch: objects present stay exactly as they are; the absent checksums of the
   level arrive with the remote's bytes, read-only; nothing else changes *)
Lemma fetch_level_lookup c r arts' c1 :
  fetch_level c r (fetch_missing c arts') = Ok c1 ->
  (forall d, cget c1 d =
             match cget c d with
             | Some o => Some o
             | None => if mem d (map a_cs arts')
                       then match cget r d with
                            | Some o => Some (mkObj (o_data o) cache_perms)
                            | None => None
                            end
                       else None
             end) /\
  (forall a, In a arts' -> exists o, cget c1 (a_cs a) = Some o).
Proof.
  intros Hl.
  assert (Hlk : forall d, cget c1 d =
            if mem d (fetch_missing c arts')
            then match cget c d, cget r d with
                 | Some o, _ => Some (mkObj (o_data o) cache_perms)
                 | None, Some o => Some (mkObj (o_data o) cache_perms)
                 | None, None => None
                 end
            else cget c d).
  { unfold fetch_level in Hl. destruct (fetch_missing c arts') as [|d0 fr] eqn:Hm.
    - injection Hl as <-. intros d. reflexivity.
    - exact (remote_copy_lookup _ _ _ _ Hl). }
  assert (Hsrc : forall d, In d (fetch_missing c arts') -> exists o, cget r d = Some o).
  { unfold fetch_level in Hl. destruct (fetch_missing c arts') as [|d0 fr] eqn:Hm; [intros d []|].
    apply (proj1 (remote_copy_ok_iff (d0 :: fr) r c)). exists c1. exact Hl. }
  assert (Hfirst : forall d, cget c1 d =
             match cget c d with
             | Some o => Some o
             | None => if mem d (map a_cs arts')
                       then match cget r d with
                            | Some o => Some (mkObj (o_data o) cache_perms)
                            | None => None
                            end
                       else None
             end).
  { intros d. rewrite Hlk. destruct (mem d (fetch_missing c arts')) eqn:Hmem.
    - apply mem_In in Hmem. pose proof Hmem as Hmem'. apply in_fetch_missing in Hmem as (Hn & a & Ha & E).
      rewrite Hn. assert (Hma : mem d (map a_cs arts') = true).
      { apply mem_In. apply in_map_iff. exists a. split; [exact E|exact Ha]. }
      rewrite Hma. reflexivity.
    - destruct (cget c d) as [o|] eqn:Hc; [reflexivity|].
      destruct (mem d (map a_cs arts')) eqn:Hma; [|reflexivity].
      apply mem_In in Hma. apply in_map_iff in Hma as (a & E & Ha).
      apply mem_false in Hmem. exfalso. apply Hmem. apply in_fetch_missing.
      split; [exact Hc|]. exists a. split; [exact Ha|exact E]. }
  split; [exact Hfirst|].
  intros a Ha. rewrite Hfirst. destruct (cget c (a_cs a)) as [o|] eqn:Hc; [exists o; reflexivity|].
  assert (Hma : mem (a_cs a) (map a_cs arts') = true) by (apply mem_In; apply in_map; exact Ha).
  rewrite Hma. destruct (Hsrc (a_cs a)) as (o & Ho).
  { apply in_fetch_missing. split; [exact Hc|]. exists a. split; [exact Ha|reflexivity]. }
  rewrite Ho. eexists. reflexivity.
Qed.

(* the merged children map *)
Lemma merge_kids_spec l : forall acc,
  (forall key w, alookup key acc = Some w -> exists w', alookup key (merge_kids l acc) = Some w') /\
  (forall k ch, In (k, ch) l -> exists w, alookup (child_key ch) (merge_kids l acc) = Some w) /\
  (forall key w, In (key, w) (merge_kids l acc) -> In (key, w) acc \/ (key = child_key w /\ exists k, In (k, w) l)).
Proof.
  induction l as [|[k0 ch0] r IH]; intros acc; cbn [merge_kids fold_left].
  - split; [intros key w Hw; exists w; exact Hw|]. split; [intros k ch []|]. intros key w Hin. left. exact Hin.
  - cbn [snd]. fold (merge_kids r (ins_sorted (child_key ch0) ch0 acc)).
    destruct (IH (ins_sorted (child_key ch0) ch0 acc)) as (I1 & I2 & I3). split; [|split].
    + intros key w Hw. destruct (beqb key (child_key ch0)) eqn:E.
      * apply (I1 key ch0). rewrite alookup_ins_sorted, E. reflexivity.
      * apply (I1 key w). rewrite alookup_ins_sorted, E. exact Hw.
    + intros k ch [Heq|Hin].
      * injection Heq as -> ->. apply (I1 (child_key ch) ch). rewrite alookup_ins_sorted, beqb_refl. reflexivity.
      * exact (I2 k ch Hin).
    + intros key w Hin. destruct (I3 key w Hin) as [Hin'|(E & k & Hk)].
      * apply in_ins_sorted in Hin' as [Heq|Hin'].
        -- injection Heq as -> ->. right. split; [reflexivity|]. exists k0. left. reflexivity.
        -- left. exact Hin'.
      * right. split; [exact E|]. exists k. right. exact Hk.
Qed.

Definition kid_of (c : cache) (a ch : artifact) : Prop :=
  exists o m k, cget c (a_cs a) = Some o /\ dec_manifest (o_data o) = Some m /\ In (k, ch) (m_contents m).

Lemma fetch_kids_spec c1 dirs : forall acc out,
  fetch_kids c1 dirs acc = Ok out ->
  (forall key w, alookup key acc = Some w -> exists w', alookup key out = Some w') /\
  (forall a, In a dirs -> exists o m, cget c1 (a_cs a) = Some o /\ dec_manifest (o_data o) = Some m /\
                                      forall k ch, In (k, ch) (m_contents m) ->
                                                   exists w, alookup (child_key ch) out = Some w) /\
  (forall key w, In (key, w) out -> In (key, w) acc \/ (key = child_key w /\ exists a, In a dirs /\ kid_of c1 a w)).
Proof.
  induction dirs as [|a r IH]; intros acc out Hk; cbn [fetch_kids] in Hk.
  - injection Hk as <-. split; [intros key w Hw; exists w; exact Hw|]. split; [intros a []|].
    intros key w Hin. left. exact Hin.
  - destruct (cget c1 (a_cs a)) as [o|] eqn:Ho; [|discriminate Hk].
    destruct (dec_manifest (o_data o)) as [m|] eqn:Hm; [|discriminate Hk].
    destruct (IH _ _ Hk) as (I1 & I2 & I3).
    destruct (merge_kids_spec (m_contents m) acc) as (M1 & M2 & M3). split; [|split].
    + intros key w Hw. destruct (M1 _ _ Hw) as (w' & Hw'). exact (I1 _ _ Hw').
    + intros a' [<-|Ha'].
      * exists o, m. split; [exact Ho|]. split; [exact Hm|]. intros k ch Hin.
        destruct (M2 _ _ Hin) as (w & Hw). exact (I1 _ _ Hw).
      * exact (I2 a' Ha').
    + intros key w Hin. destruct (I3 _ _ Hin) as [Hin'|(E & a' & Ha' & Hkid)].
      * destruct (M3 _ _ Hin') as [Hacc|(E & k & Hk')]; [left; exact Hacc|].
        right. split; [exact E|]. exists a. split; [left; reflexivity|]. exists o, m, k. repeat split; assumption.
      * right. split; [exact E|]. exists a'. split; [right; exact Ha'|exact Hkid].
Qed.

(* one step of fetch, inverted *)
Lemma fetch_inv f arts c r c' :
  fetch_arts (S f) arts c r = Ok c' ->
  exists c1 children,
    forallb (fun a => has_cs (a_cs a)) (noskip arts) = true /\
    fetch_level c r (fetch_missing c (noskip arts)) = Ok c1 /\
    fetch_kids c1 (filter a_isdir (noskip arts)) [] = Ok children /\
    ((children = [] /\ c' = c1) \/ (children <> [] /\ fetch_arts f (map snd children) c1 r = Ok c')).
Proof.
  rewrite fetch_S. destruct (forallb (fun a => has_cs (a_cs a)) (noskip arts)); [|intros Hx; discriminate Hx].
  cbn [negb]. destruct (fetch_level c r (fetch_missing c (noskip arts))) as [c1|]; [|intros Hx; discriminate Hx].
  destruct (fetch_kids c1 (filter a_isdir (noskip arts)) []) as [children|] eqn:Hk; [|intros Hx; discriminate Hx].
  intros Hf. exists c1, children. split; [reflexivity|]. split; [reflexivity|]. split; [exact Hk|].
  clear Hk. destruct children as [|x xs]; [left; split; [reflexivity|]; injection Hf as <-; reflexivity|].
  right. split; [discriminate|exact Hf].
Qed.

(* fetch never touches an object that is already there (not even its mode) *)
Theorem fetch_frame fuel : forall arts c r c',
  fetch_arts fuel arts c r = Ok c' -> forall d o, cget c d = Some o -> cget c' d = Some o.
Proof.
  induction fuel as [|f IH]; intros arts c r c' Hf d o Hd; [discriminate Hf|].
  destruct (fetch_inv _ _ _ _ _ Hf) as (c1 & children & _ & Hl & _ & Hrest).
  destruct (fetch_level_lookup _ _ _ _ Hl) as (Hlk & _).
  assert (H1 : cget c1 d = Some o) by (rewrite Hlk, Hd; reflexivity).
  destruct Hrest as [(_ & ->)|(_ & Hrec)]; [exact H1|]. exact (IH _ _ _ _ Hrec d o H1).
Qed.

(* whatever fetch adds is a read-only copy of the remote's object under that key *)
Theorem fetch_new fuel : forall arts c r c',
  fetch_arts fuel arts c r = Ok c' ->
  forall d o', cget c d = None -> cget c' d = Some o' ->
    exists orr, cget r d = Some orr /\ o' = mkObj (o_data orr) cache_perms.
Proof.
  induction fuel as [|f IH]; intros arts c r c' Hf d o' Hn Hd; [discriminate Hf|].
  destruct (fetch_inv _ _ _ _ _ Hf) as (c1 & children & _ & Hl & _ & Hrest).
  destruct (fetch_level_lookup _ _ _ _ Hl) as (Hlk & _).
  destruct (cget c1 d) as [o1|] eqn:H1.
  - assert (E : o' = o1).
    { destruct Hrest as [(_ & ->)|(_ & Hrec)]; [rewrite H1 in Hd; injection Hd as <-; reflexivity|].
      rewrite (fetch_frame _ _ _ _ _ Hrec d o1 H1) in Hd. injection Hd as <-. reflexivity. }
    subst o1. rewrite Hlk, Hn in H1. destruct (mem d (map a_cs (noskip arts))); [|discriminate H1].
    destruct (cget r d) as [orr|]; [|discriminate H1]. injection H1 as <-. exists orr. split; reflexivity.
  - destruct Hrest as [(_ & ->)|(_ & Hrec)]; [rewrite H1 in Hd; discriminate Hd|].
    exact (IH _ _ _ _ Hrec d o' H1 Hd).
Qed.

Corollary fetch_le fuel arts c r c' : fetch_arts fuel arts c r = Ok c' -> cache_le c c'.
Proof.
  intros Hf d o Hd. exists o. split; [exact (fetch_frame _ _ _ _ _ Hf d o Hd)|reflexivity].
Qed.

Corollary fetch_cache_ok H fuel arts c r c' :
  cache_ok H c -> cache_ok H r -> fetch_arts fuel arts c r = Ok c' -> cache_ok H c'.
Proof.
  intros Hc Hr Hf d o' Hd. destruct (cget c d) as [o|] eqn:Hcd.
  - rewrite (fetch_frame _ _ _ _ _ Hf d o Hcd) in Hd. injection Hd as <-. exact (Hc _ _ Hcd).
  - destruct (fetch_new _ _ _ _ _ Hf d o' Hcd Hd) as (orr & Horr & ->). cbn [o_data o_mode].
    split; [exact (proj1 (Hr _ _ Horr))|reflexivity].
Qed.

Print Assumptions fetch_frame.
Print Assumptions fetch_new.

(* ---- completeness of fetch ---- *)

(* reach only looks at checksum, kind and skip flag of an artifact *)
Lemma reach_ext fuel a b c :
  a_cs a = a_cs b -> a_isdir a = a_isdir b -> a_skip a = a_skip b -> reach fuel a c = reach fuel b c.
Proof.
  intros E1 E2 E3. destruct fuel as [|f]; [reflexivity|]. cbn [reach]. rewrite E1, E2, E3. reflexivity.
Qed.

(* the children (at any depth) that fetch meets below the artifacts [arts], reading the
   manifests from cache [c] *)
Inductive desc (c : cache) (arts : list artifact) : artifact -> Prop :=
| desc_top a ch : In a arts -> a_skip a = false -> a_isdir a = true -> kid_of c a ch -> desc c arts ch
| desc_step a ch : desc c arts a -> a_skip a = false -> a_isdir a = true -> kid_of c a ch -> desc c arts ch.

(* What the merge of one level still needs after the repair (key = checksum, plus a slash for
   directories): children under the same key agree on the skip flag, and the two key spaces do
   not meet, i.e. no file child has a slash in its checksum (true of hex digests). *)
Definition kids_skip_consistent (c : cache) (arts : list artifact) : Prop :=
  forall x y, desc c arts x -> desc c arts y -> child_key x = child_key y -> a_skip x = a_skip y.
Definition no_slash (c : cache) (arts : list artifact) : Prop :=
  forall x, desc c arts x -> a_isdir x = false -> ~ In 47 (a_cs x).
Definition kids_ok (c : cache) (arts : list artifact) : Prop :=
  kids_skip_consistent c arts /\ no_slash c arts.

Lemma kids_ok_sub c c' arts arts' :
  (forall x, desc c' arts' x -> desc c arts x) -> kids_ok c arts -> kids_ok c' arts'.
Proof.
  intros Hsub (HSK & HNS). split.
  - intros x y Hx Hy. apply HSK; apply Hsub; assumption.
  - intros x Hx. apply HNS. apply Hsub. exact Hx.
Qed.

(* children of decoded manifests carry no flags (man_plain, part of cache_inv): the skip clause
   is then automatic *)
Lemma desc_plain c arts x : man_plain c -> desc c arts x -> a_skip x = false.
Proof.
  intros Hmp Hx.
  assert (Hk : forall a, kid_of c a x -> a_skip x = false).
  { intros a (o & m & k & Ho & Hm & Hin). pose proof (Hmp _ _ _ Ho Hm) as Hp. rewrite Forall_forall in Hp.
    destruct (Hp _ Hin) as (_ & E). exact E. }
  destruct Hx as [a x _ _ _ Hkx|a x _ _ _ Hkx]; exact (Hk a Hkx).
Qed.

Lemma kids_ok_of_man_plain c arts : man_plain c -> no_slash c arts -> kids_ok c arts.
Proof.
  intros Hmp HNS. split; [|exact HNS]. intros x y Hx Hy _.
  rewrite (desc_plain _ _ _ Hmp Hx), (desc_plain _ _ _ Hmp Hy). reflexivity.
Qed.

Lemma child_key_inj x y :
  (a_isdir x = false -> ~ In 47 (a_cs x)) -> (a_isdir y = false -> ~ In 47 (a_cs y)) ->
  child_key x = child_key y -> a_cs x = a_cs y /\ a_isdir x = a_isdir y.
Proof.
  unfold child_key. intros Hx Hy E. destruct (a_isdir x) eqn:Ex, (a_isdir y) eqn:Ey.
  - apply app_inv_tail in E. split; [exact E|reflexivity].
  - exfalso. apply (Hy eq_refl). rewrite <- E. apply in_or_app. right. left. reflexivity.
  - exfalso. apply (Hx eq_refl). rewrite E. apply in_or_app. right. left. reflexivity.
  - split; [exact E|reflexivity].
Qed.

Lemma desc_mono c arts arts' :
  (forall a, In a arts' -> a_skip a = false -> a_isdir a = true -> In a arts \/ desc c arts a) ->
  forall x, desc c arts' x -> desc c arts x.
Proof.
  intros Hsub x Hx. induction Hx as [a ch Ha Hs Hd Hk|a ch Ha IH Hs Hd Hk].
  - destruct (Hsub a Ha Hs Hd) as [Hin|Hde]; [eapply desc_top|eapply desc_step]; eassumption.
  - eapply desc_step; eassumption.
Qed.

Lemma kid_of_frame c1 c' a ch :
  (forall d o, cget c1 d = Some o -> cget c' d = Some o) -> kid_of c1 a ch -> kid_of c' a ch.
Proof.
  intros Hfr (o & m & k & Ho & Hm & Hin). exists o, m, k. split; [exact (Hfr _ _ Ho)|]. split; assumption.
Qed.

Theorem fetch_complete_gen fuel : forall arts c r c',
  fetch_arts fuel arts c r = Ok c' ->
  kids_ok c' arts ->
  forall a, In a arts -> a_skip a = false ->
  forall F d, In d (reach F a c') -> exists o, cget c' d = Some o.
Proof.
  induction fuel as [|f IH]; intros arts c r c' Hf HKC a Ha Hs F d Hd; [discriminate Hf|].
  destruct (fetch_inv _ _ _ _ _ Hf) as (c1 & children & _ & Hl & Hk & Hrest).
  destruct (fetch_level_lookup _ _ _ _ Hl) as (_ & Hpres).
  destruct (fetch_kids_spec _ _ _ _ Hk) as (_ & K2 & K3).
  assert (Hfr : forall d o, cget c1 d = Some o -> cget c' d = Some o).
  { destruct Hrest as [(_ & ->)|(_ & Hrec)]; [intros d0 o0 H0; exact H0|exact (fetch_frame _ _ _ _ _ Hrec)]. }
  destruct F as [|F]; [destruct Hd|]. cbn [reach] in Hd. rewrite Hs in Hd.
  assert (Hans : In a (noskip arts)) by (apply in_noskip; split; assumption).
  destruct Hd as [<-|Hd].
  { destruct (Hpres a Hans) as (o & Ho). exists o. exact (Hfr _ _ Ho). }
  destruct (a_isdir a) eqn:Hdir; [|destruct Hd].
  assert (Hadirs : In a (filter a_isdir (noskip arts))) by (apply filter_In; split; assumption).
  destruct (K2 a Hadirs) as (o & m & Ho & Hm & Hwin).
  rewrite (Hfr _ _ Ho), Hm in Hd. apply in_flat_map in Hd as ([k ch] & Hkin & Hd). cbn [snd] in Hd.
  destruct (Hwin k ch Hkin) as (w & Hw).
  destruct Hrest as [(-> & _)|(_ & Hrec)]; [discriminate Hw|].
  pose proof (CheckoutProofs.alookup_In _ _ _ Hw) as Hwin'.
  assert (Hkidc' : forall x, In x (noskip arts) -> a_isdir x = true -> forall y, kid_of c1 x y -> desc c' arts y).
  { intros x Hx Hxd y Hy. apply in_noskip in Hx as (Hx & Hxs).
    eapply desc_top; [exact Hx|exact Hxs|exact Hxd|]. exact (kid_of_frame _ _ _ _ Hfr Hy). }
  assert (Hdw : forall key w0, In (key, w0) children -> key = child_key w0 /\ desc c' arts w0).
  { intros key w0 Hin. destruct (K3 _ _ Hin) as [[]|(E & x & Hx & Hkid)]. split; [exact E|].
    apply filter_In in Hx as (Hx & Hxd). exact (Hkidc' x Hx Hxd w0 Hkid). }
  destruct (Hdw _ _ Hwin') as (Ekey & Hdescw).
  assert (Hdescch : desc c' arts ch).
  { apply (Hkidc' a Hans Hdir). exists o, m, k. repeat split; assumption. }
  destruct HKC as (HSK & HNS).
  destruct (child_key_inj ch w (HNS ch Hdescch) (HNS w Hdescw) Ekey) as (Ecs & Ed).
  pose proof (HSK ch w Hdescch Hdescw Ekey) as Esk.
  destruct (a_skip ch) eqn:Hchs.
  { destruct F as [|F]; [destruct Hd|]. cbn [reach] in Hd. rewrite Hchs in Hd. destruct Hd. }
  rewrite (reach_ext F ch w c' Ecs Ed) in Hd by (rewrite Hchs; exact Esk).
  refine (IH (map snd children) c1 r c' Hrec _ w _ _ F d Hd).
  - apply (kids_ok_sub c' c' arts); [|split; assumption].
    apply desc_mono. intros a0 Ha0 _ _. right. apply in_map_iff in Ha0 as ([key w0] & <- & Hin).
    exact (proj2 (Hdw _ _ Hin)).
  - apply in_map_iff. exists (child_key ch, w). split; [reflexivity|exact Hwin'].
  - rewrite <- Esk. reflexivity.
Qed.

(* C11, fetch half *)
Theorem C11_fetch_complete fuel arts c r c' :
  fetch_arts fuel arts c r = Ok c' ->
  cache_le c c' /\
  (forall d o, cget c d = Some o -> cget c' d = Some o) /\
  (forall d o', cget c d = None -> cget c' d = Some o' ->
     o_mode o' = cache_perms /\ exists orr, cget r d = Some orr /\ o_data o' = o_data orr) /\
  (man_plain c' -> no_slash c' arts ->
   forall a, In a arts -> a_skip a = false ->
   forall fuel' d, In d (reach fuel' a c') -> exists o, cget c' d = Some o).
Proof.
  intros Hf. split; [exact (fetch_le _ _ _ _ _ Hf)|]. split; [exact (fetch_frame _ _ _ _ _ Hf)|]. split.
  - intros d o' Hn Hd. destruct (fetch_new _ _ _ _ _ Hf d o' Hn Hd) as (orr & Horr & ->).
    split; [reflexivity|]. exists orr. split; [exact Horr|reflexivity].
  - intros Hmp HNS. exact (fetch_complete_gen _ _ _ _ _ Hf (kids_ok_of_man_plain _ _ Hmp HNS)).
Qed.

Print Assumptions C11_fetch_complete.

(* ---- the pre-repair merge (keyed by the bare checksum) loses objects ---- *)
Module FetchCex.
  (* LocalCache.Fetch before the repair: identical to fetch_arts except for the merge key *)
  Fixpoint fetch_arts_old (fuel : nat) (arts : list artifact) (c remote : cache) : res cache :=
    match fuel with
    | O => Err
    | S f =>
      let arts' := filter (fun a => negb (a_skip a)) arts in
      if negb (forallb (fun a => has_cs (a_cs a)) arts') then Err
      else
        let missing := fold_right (fun a acc => if in_cache c (a_cs a) then acc else add_key (a_cs a) acc) [] arts' in
        let c1 := match missing with
                  | [] => Ok c
                  | _ => remote_copy missing remote c
                  end in
        match c1 with
        | Err => Err
        | Ok c1 =>
          let fix kids (dirs : list artifact) (acc : list (bytes * artifact)) : res (list (bytes * artifact)) :=
            match dirs with
            | [] => Ok acc
            | a :: r =>
              match cget c1 (a_cs a) with
              | None => Err
              | Some o =>
                match dec_manifest (o_data o) with
                | None => Err
                | Some m => kids r (fold_left (fun acc kv => ins_sorted (a_cs (snd kv)) (snd kv) acc) (m_contents m) acc)
                end
              end
            end in
          match kids (filter a_isdir arts') [] with
          | Err => Err
          | Ok [] => Ok c1
          | Ok children => fetch_arts_old f (map snd children) c1 remote
          end
        end
    end.

  Definition Hx (b : bytes) : bytes := 1 :: 2 :: 3 :: b.
  Definition str (x : string) : bytes := of_string x.
  Definition hello := str "hello".
  (* a regular file whose bytes are exactly the manifest of its sibling directory `sub` *)
  Definition mb := enc_manifest (mkMan (str "sub") [(str "x", mkArt (Hx hello) (str "x") false false false)]).
  Definition tree := Dir [(str "sub", Dir [(str "x", File hello)]); (str "z", File mb)].
  Definition top := mkArt [] (str "data") true false false.
  Definition committed := commit_node Hx top tree [] Copy.
  Definition c0 : cache := match committed with Ok (_, c, _) => c | Err => [] end.
  Definition a0 : artifact := match committed with Ok (_, _, a) => a | Err => top end.
  Definition r0 : cache := match push_arts [a0] c0 [] with Ok r => r | Err => [] end.
  Definition fetched_old := fetch_arts_old 64 [a0] [] r0.
  Definition c1 : cache := match fetched_old with Ok c => c | Err => [] end.
  Definition fetched := fetch_arts 64 [a0] [] r0.
  Definition c2 : cache := match fetched with Ok c => c | Err => [] end.

  (* commit, push and both fetches succeed; three objects are committed and pushed *)
  Example commit_ok : exists n, committed = Ok (n, c0, a0) /\ List.length c0 = 3%nat.
  Proof. vm_compute. eexists. split; reflexivity. Qed.
  Example push_ok : push_arts [a0] c0 [] = Ok r0 /\ List.length r0 = 3%nat.
  Proof. vm_compute. split; reflexivity. Qed.
  (* PRE-REPAIR: two of the three objects are fetched *)
  Example fetch_old_ok : fetched_old = Ok c1 /\ List.length c1 = 2%nat.
  Proof. vm_compute. split; reflexivity. Qed.
  (* the file `sub/x` is reachable but was not fetched: the child `z` (a file) and the child
     `sub` (a directory) have the same checksum, and the file won the slot of the children map *)
  Example missing_old : In (Hx hello) (reach 64 a0 c1) /\ cget c1 (Hx hello) = None.
  Proof. vm_compute. split; [right; right; left; reflexivity|reflexivity]. Qed.
  Example checkout_old_fails :
    checkout_node Hx 64 a0 None c1 Copy = Err /\ checkout_node Hx 64 a0 None c0 Copy = Ok (Some tree).
  Proof. vm_compute. split; reflexivity. Qed.
  (* REPAIRED: all three objects are fetched, read-only, and checkout reproduces the tree *)
  Example fetch_new_ok :
    fetched = Ok c2 /\ List.length c2 = 3%nat /\
    forallb (fun d => in_cache c2 d) (reach 64 a0 c2) = true /\
    forallb (fun kv => o_mode (snd kv) =? cache_perms) c2 = true.
  Proof. vm_compute. repeat split; reflexivity. Qed.
  Example checkout_new_ok : checkout_node Hx 64 a0 None c2 Copy = Ok (Some tree).
  Proof. vm_compute. reflexivity. Qed.
  Example all_content_addressed : cache_ok Hx c0 /\ cache_ok Hx r0 /\ cache_ok Hx c1 /\ cache_ok Hx c2.
  Proof.
    assert (Hgen : forall c : cache,
              forallb (fun kv => beqb (fst kv) (Hx (o_data (snd kv))) && (o_mode (snd kv) =? cache_perms)) c = true ->
              cache_ok Hx c).
    { intros c Hall d o Hd. apply CheckoutProofs.alookup_In in Hd. rewrite forallb_forall in Hall.
      specialize (Hall _ Hd). cbn [fst snd] in Hall. apply andb_prop in Hall as (E1 & E2).
      apply beqb_eq in E1. apply N.eqb_eq in E2. split; assumption. }
    split; [|split; [|split]]; apply Hgen; vm_compute; reflexivity.
  Qed.

  (* completeness is false for the pre-repair merge, even between content-addressed caches
     whose manifests carry no flags *)
  Theorem fetch_old_complete_refuted :
    ~ (forall fuel arts c r c', fetch_arts_old fuel arts c r = Ok c' ->
         forall a, In a arts -> a_skip a = false ->
         forall fuel' d, In d (reach fuel' a c') -> exists o, cget c' d = Some o).
  Proof.
    intros Hall. destruct fetch_old_ok as (Hf & _). destruct missing_old as (Hin & Hn).
    destruct (Hall 64%nat [a0] [] r0 c1 Hf a0 (or_introl eq_refl) eq_refl 64%nat _ Hin) as (o & Ho).
    rewrite Ho in Hn. discriminate Hn.
  Qed.
End FetchCex.
Print Assumptions FetchCex.fetch_old_complete_refuted.
Print Assumptions FetchCex.checkout_new_ok.

(* ---- the no_slash premise is needed: a file checksum ending in a slash meets the key of a
   directory (toy caches; real digests are hexadecimal) ---- *)
Module SlashCex.
  Definition str (x : string) : bytes := of_string x.
  Definition kx := str "xxx".
  Definition kd := str "abc".
  Definition kf := str "abc/".
  Definition kt := str "top".
  Definition md := enc_manifest (mkMan (str "d") [(str "x", mkArt kx (str "x") false false false)]).
  Definition mt := enc_manifest (mkMan (str "data")
                     [(str "d", mkArt kd (str "d") true false false);
                      (str "f", mkArt kf (str "f") false false false)]).
  Definition r0 : cache :=
    [(kd, mkObj md cache_perms); (kf, mkObj (str "F") cache_perms); (kt, mkObj mt cache_perms);
     (kx, mkObj (str "X") cache_perms)].
  Definition a0 := mkArt kt (str "data") true false false.
  Definition c1 : cache := match fetch_arts 64 [a0] [] r0 with Ok c => c | Err => [] end.

  Example fetch_ok : fetch_arts 64 [a0] [] r0 = Ok c1 /\ List.length c1 = 2%nat.
  Proof. vm_compute. split; reflexivity. Qed.
  (* the directory object itself (and with it everything below) is never fetched *)
  Example missing : In kd (reach 64 a0 c1) /\ cget c1 kd = None.
  Proof. vm_compute. split; [right; left; reflexivity|reflexivity]. Qed.
  Example plain : man_plain c1.
  Proof.
    intros d o m Hd Hm. apply CheckoutProofs.alookup_In in Hd.
    destruct Hd as [E|[E|[]]]; injection E as <- <-; vm_compute in Hm; try discriminate Hm;
      injection Hm as <-; repeat constructor.
  Qed.

  Theorem no_slash_needed :
    ~ (forall fuel arts c r c', fetch_arts fuel arts c r = Ok c' -> man_plain c' ->
         forall a, In a arts -> a_skip a = false ->
         forall fuel' d, In d (reach fuel' a c') -> exists o, cget c' d = Some o).
  Proof.
    intros Hall. destruct fetch_ok as (Hf & _). destruct missing as (Hin & Hn).
    destruct (Hall 64%nat [a0] [] r0 c1 Hf plain a0 (or_introl eq_refl) eq_refl 64%nat _ Hin) as (o & Ho).
    rewrite Ho in Hn. discriminate Hn.
  Qed.
End SlashCex.
Print Assumptions SlashCex.no_slash_needed.

(* ================================================================== *)
(* 5. checkout only reads the reachable objects                        *)
(* ================================================================== *)

Section CheckoutAgree.
  Variable H : bytes -> bytes.

  Lemma checkout_file_agree a slot c1 c2 st :
    cget c1 (a_cs a) = cget c2 (a_cs a) -> checkout_file H a slot c1 st = checkout_file H a slot c2 st.
  Proof.
    intros E. unfold checkout_file, qmatch, in_cache. rewrite E. reflexivity.
  Qed.

  (* children of manifests never carry the skip flag (man_plain, part of cache_inv); without
     this the statement is false: checkout_node ignores a_skip while reach stops at it *)
  Theorem C11_checkout_agree fuel : forall a slot c1 c2 st,
    a_skip a = false -> man_plain c1 ->
    (forall d, In d (reach fuel a c1) -> cget c1 d = cget c2 d) ->
    checkout_node H fuel a slot c1 st = checkout_node H fuel a slot c2 st.
  Proof.
    induction fuel as [|f IH]; intros a slot c1 c2 st Hs Hmp Hag; [reflexivity|].
    cbn [reach] in Hag. rewrite Hs in Hag.
    pose proof (Hag (a_cs a) (or_introl eq_refl)) as E0.
    rewrite !checkout_node_S. destruct (a_isdir a) eqn:Hdir; [|apply checkout_file_agree; exact E0].
    destruct (negb (has_cs (a_cs a))); [reflexivity|]. rewrite <- E0.
    destruct (cget c1 (a_cs a)) as [o|] eqn:Ho; [|reflexivity].
    destruct (dec_manifest (o_data o)) as [m|] eqn:Hm; [|destruct slot as [[b|d0|t|es|]|]; reflexivity].
    assert (Hgo : forall kids, (forall kv, In kv kids -> In kv (m_contents m)) ->
              forall es, co_go H f c1 st kids es = co_go H f c2 st kids es).
    { induction kids as [|[k ch] rk IHk]; intros Hsub es; [reflexivity|]. cbn [co_go].
      assert (Hin : In (k, ch) (m_contents m)) by (apply Hsub; left; reflexivity).
      pose proof (Hmp _ _ _ Ho Hm) as Hp. rewrite Forall_forall in Hp. destruct (Hp _ Hin) as (_ & Hchs).
      cbn [snd] in Hchs.
      rewrite (IH ch (alookup k es) c1 c2 st Hchs Hmp).
      - destruct (checkout_node H f ch (alookup k es) c2 st) as [v|]; [|reflexivity].
        apply IHk. intros kv Hkv. apply Hsub. right. exact Hkv.
      - intros d Hd. apply Hag. right. apply in_flat_map. exists (k, ch). split; [exact Hin|exact Hd]. }
    rewrite (Hgo (m_contents m) (fun kv Hkv => Hkv)). reflexivity.
  Qed.

  (* the premise is needed *)
  Example C11_checkout_agree_needs_noskip :
    let a := mkArt [1; 2; 3] [120] false false true in
    let c1 : cache := [([1; 2; 3], mkObj [7] cache_perms)] in
    (forall d, In d (reach 5 a c1) -> cget c1 d = cget [] d) /\
    checkout_node H 5 a None c1 Link <> checkout_node H 5 a None [] Link.
  Proof. cbn zeta. split; [intros d []|]. vm_compute. discriminate. Qed.
End CheckoutAgree.

Print Assumptions C11_checkout_agree.

(* ---- fetch, then checkout ---- *)

Lemma rart_kid F : forall a c x ch,
  In x (rart F a c) -> a_isdir x = true -> kid_of c x ch -> a_skip ch = false -> In ch (rart (S F) a c).
Proof.
  induction F as [|F IH]; intros a c x ch Hx Hd Hk Hs; [destruct Hx|].
  cbn [rart] in Hx. destruct (a_skip a) eqn:Hsa; [destruct Hx|].
  change (rart (S (S F)) a c) with
    (if a_skip a then [] else a :: (if a_isdir a then
        match cget c (a_cs a) with
        | Some o => match dec_manifest (o_data o) with
                    | Some m => flat_map (fun kv => rart (S F) (snd kv) c) (m_contents m)
                    | None => []
                    end
        | None => []
        end else [])).
  rewrite Hsa. right. destruct Hx as [<-|Hx].
  - rewrite Hd. destruct Hk as (o & m & k & Ho & Hm & Hin). rewrite Ho, Hm.
    apply in_flat_map. exists (k, ch). split; [exact Hin|]. cbn [snd rart]. rewrite Hs. left. reflexivity.
  - destruct (a_isdir a); [|destruct Hx]. destruct (cget c (a_cs a)) as [o|]; [|destruct Hx].
    destruct (dec_manifest (o_data o)) as [m|]; [|destruct Hx].
    apply in_flat_map in Hx as (kv & Hkv & Hx). apply in_flat_map. exists kv. split; [exact Hkv|].
    exact (IH _ _ _ _ Hx Hd Hk Hs).
Qed.

Lemma desc_rart c arts x :
  desc c arts x -> a_skip x = false -> exists a F, In a arts /\ In x (rart F a c).
Proof.
  intros Hx. induction Hx as [a ch Ha Hs Hd Hk|a ch Ha IH Hs Hd Hk]; intros Hchs.
  - exists a, 2%nat. split; [exact Ha|]. apply (rart_kid 1 a c a ch); try assumption.
    cbn [rart]. rewrite Hs. left. reflexivity.
  - destruct (IH Hs) as (a0 & F & Ha0 & Hin). exists a0, (S F). split; [exact Ha0|].
    exact (rart_kid _ _ _ _ _ Hin Hd Hk Hchs).
Qed.

Definition agree_bytes (c1 c2 : cache) : Prop :=
  forall d o1 o2, cget c1 d = Some o1 -> cget c2 d = Some o2 -> o_data o1 = o_data o2.

Definition present_all (c : cache) (arts : list artifact) : Prop :=
  forall a, In a arts -> a_skip a = false -> forall F d, In d (reach F a c) -> exists o, cget c d = Some o.

Lemma desc_transfer c0 c' arts :
  agree_bytes c' c0 -> present_all c0 arts -> forall x, desc c' arts x -> desc c0 arts x.
Proof.
  intros Hag Hpres x Hx. induction Hx as [a ch Ha Hs Hd Hk|a ch Ha IH Hs Hd Hk].
  - eapply desc_top; [exact Ha|exact Hs|exact Hd|].
    destruct Hk as (o & m & k & Ho & Hm & Hin).
    destruct (Hpres a Ha Hs 1%nat (a_cs a)) as (o0 & Ho0).
    { cbn [reach]. rewrite Hs. left. reflexivity. }
    exists o0, m, k. split; [exact Ho0|]. split; [|exact Hin]. rewrite <- (Hag _ _ _ Ho Ho0). exact Hm.
  - eapply desc_step; [exact IH|exact Hs|exact Hd|].
    destruct Hk as (o & m & k & Ho & Hm & Hin).
    destruct (desc_rart _ _ _ IH Hs) as (a0 & F & Ha0 & Hin0).
    assert (Ha0s : a_skip a0 = false).
    { destruct F as [|F]; [destruct Hin0|]. cbn [rart] in Hin0. destruct (a_skip a0); [destruct Hin0|reflexivity]. }
    destruct (Hpres a0 Ha0 Ha0s F (a_cs a)) as (o0 & Ho0).
    { rewrite reach_rart. apply in_map. exact Hin0. }
    exists o0, m, k. split; [exact Ho0|]. split; [|exact Hin]. rewrite <- (Hag _ _ _ Ho Ho0). exact Hm.
Qed.

(* two caches that agree where both have an object, each complete for [x], agree on
   everything reachable from [x] *)
Lemma agree_reach c0 c' F : forall x,
  (forall d o0 o', cget c0 d = Some o0 -> cget c' d = Some o' -> o0 = o') ->
  (forall F d, In d (reach F x c0) -> exists o, cget c0 d = Some o) ->
  (forall F d, In d (reach F x c') -> exists o, cget c' d = Some o) ->
  forall d, In d (reach F x c0) -> cget c0 d = cget c' d.
Proof.
  induction F as [|F IH]; intros x Hag H0 H' d Hd; [destruct Hd|].
  cbn [reach] in Hd. destruct (a_skip x) eqn:Hs; [destruct Hd|].
  assert (Hself : cget c0 (a_cs x) = cget c' (a_cs x)).
  { destruct (H0 1%nat (a_cs x)) as (o0 & Ho0); [cbn [reach]; rewrite Hs; left; reflexivity|].
    destruct (H' 1%nat (a_cs x)) as (o' & Ho'); [cbn [reach]; rewrite Hs; left; reflexivity|].
    rewrite Ho0, Ho'. f_equal. exact (Hag _ _ _ Ho0 Ho'). }
  destruct Hd as [<-|Hd]; [exact Hself|].
  destruct (a_isdir x) eqn:Hdir; [|destruct Hd].
  destruct (cget c0 (a_cs x)) as [o|] eqn:Ho; [|destruct Hd].
  destruct (dec_manifest (o_data o)) as [m|] eqn:Hm; [|destruct Hd].
  apply in_flat_map in Hd as ([k ch] & Hkin & Hd). cbn [snd] in Hd.
  apply (IH ch); [exact Hag| | |exact Hd].
  - intros F0 d0 Hd0. apply (H0 (S F0)). cbn [reach]. rewrite Hs, Hdir, Ho, Hm. right.
    apply in_flat_map. exists (k, ch). split; [exact Hkin|exact Hd0].
  - intros F0 d0 Hd0. apply (H' (S F0)). cbn [reach]. rewrite Hs, Hdir, <- Hself, Hm. right.
    apply in_flat_map. exists (k, ch). split; [exact Hkin|exact Hd0].
Qed.

(* [c0]: the cache right after commit (complete for [a], children consistent, all objects
   read-only); [c]: any part of it; [r]: a remote that agrees with c0 byte-wise wherever both
   have an object.  A successful fetch of [a] yields a cache from which checkout behaves
   exactly as from c0 (for every slot, strategy and fuel), so C01's round trip applies. *)
Theorem C11_fetch_then_checkout_gen H fuel a c0 c r c' :
  a_skip a = false -> man_plain c0 ->
  (forall d o0, cget c0 d = Some o0 -> o_mode o0 = cache_perms) ->
  present_all c0 [a] ->
  no_slash c0 [a] ->
  (forall d o, cget c d = Some o -> cget c0 d = Some o) ->
  agree_bytes r c0 ->
  fetch_arts fuel [a] c r = Ok c' ->
  forall fuel' slot st, checkout_node H fuel' a slot c' st = checkout_node H fuel' a slot c0 st.
Proof.
  intros Hs Hmp Hmodes Hpres HKC Hsub Hagr Hf fuel' slot st.
  assert (Hag : forall d o0 o', cget c0 d = Some o0 -> cget c' d = Some o' -> o0 = o').
  { intros d o0 o' Ho0 Ho'. destruct (cget c d) as [o|] eqn:Hc.
    - rewrite (fetch_frame _ _ _ _ _ Hf d o Hc) in Ho'. injection Ho' as <-.
      rewrite (Hsub _ _ Hc) in Ho0. injection Ho0 as <-. reflexivity.
    - destruct (fetch_new _ _ _ _ _ Hf d o' Hc Ho') as (orr & Horr & ->).
      destruct o0 as [b0 m0]. pose proof (Hmodes _ _ Ho0) as Hm0. pose proof (Hagr _ _ _ Horr Ho0) as Hb.
      cbn [o_data o_mode] in *. rewrite Hm0, Hb. reflexivity. }
  assert (Hagb : agree_bytes c' c0).
  { intros d o' o0 Ho' Ho0. rewrite (Hag _ _ _ Ho0 Ho'). reflexivity. }
  assert (HKC' : kids_ok c' [a]).
  { apply (kids_ok_sub c0 c' [a] [a]); [|exact (kids_ok_of_man_plain _ _ Hmp HKC)].
    intros x Hx. eapply desc_transfer; eassumption. }
  symmetry. apply C11_checkout_agree; [exact Hs|exact Hmp|].
  apply agree_reach; [exact Hag|exact (Hpres a (or_introl eq_refl) Hs)|].
  exact (fetch_complete_gen _ _ _ _ _ Hf HKC' a (or_introl eq_refl) Hs).
Qed.

(* the same with content-addressed caches: agreement comes from the hash *)
Theorem C11_fetch_then_checkout H fuel a c0 c r c' :
  H_inj H -> cache_ok H c0 -> cache_ok H r -> man_plain c0 ->
  a_skip a = false ->
  present_all c0 [a] ->
  no_slash c0 [a] ->
  (forall d o, cget c d = Some o -> cget c0 d = Some o) ->
  fetch_arts fuel [a] c r = Ok c' ->
  forall fuel' slot st, checkout_node H fuel' a slot c' st = checkout_node H fuel' a slot c0 st.
Proof.
  intros Hinj Hok0 Hokr Hmp Hs Hpres HKC Hsub Hf.
  apply (C11_fetch_then_checkout_gen H fuel a c0 c r c'); try assumption.
  - intros d o0 Ho0. exact (proj2 (Hok0 _ _ Ho0)).
  - intros d orr o0 Horr Ho0. apply Hinj. destruct (Hokr _ _ Horr) as (<- & _).
    destruct (Hok0 _ _ Ho0) as (E & _). exact E.
Qed.

Print Assumptions C11_fetch_then_checkout_gen.
Print Assumptions C11_fetch_then_checkout.

(* ================================================================== *)
(* 6. scope of the commands                                            *)
(* ================================================================== *)

Inductive subseq {A : Type} : list A -> list A -> Prop :=
| ss_nil : subseq [] []
| ss_skip x l1 l2 : subseq l1 l2 -> subseq l1 (x :: l2)
| ss_take x l1 l2 : subseq l1 l2 -> subseq (x :: l1) (x :: l2).

Lemma subseq_In {A} (l1 l2 : list A) : subseq l1 l2 -> forall x, In x l1 -> In x l2.
Proof.
  intros Hs. induction Hs as [|x l1 l2 Hs IH|x l1 l2 Hs IH]; intros y Hy.
  - destruct Hy.
  - right. exact (IH y Hy).
  - destruct Hy as [<-|Hy]; [left; reflexivity|right; exact (IH y Hy)].
Qed.

(* without recursion a stage is visited by itself: no input is followed *)
Lemma walk_stage_single f idx done t :
  walk_stage (S f) idx false done [] t =
  if mem t done then Ok done
  else match alookup t idx with
       | None => Err
       | Some _ => Ok (t :: done)
       end.
Proof.
  cbn [walk_stage]. destruct (mem t done); [reflexivity|].
  change (mem t []) with false. cbv iota.
  destruct (alookup t idx) as [stg|]; [|reflexivity].
  generalize (s_inputs stg). intros l.
  induction l as [|a l IH]; [reflexivity|].
  cbn. destruct (find_owner idx (a_path a)) as [[op oa]|]; exact IH.
Qed.

Definition visit_step (idx : index) (recursive : bool) (acc : res (list bytes)) (t : bytes) : res (list bytes) :=
  match acc with
  | Ok done => walk_stage (S (List.length idx)) idx recursive done [] t
  | Err => Err
  end.

Lemma visit_fold_err idx recursive ts : fold_left (visit_step idx recursive) ts Err = Err.
Proof. induction ts as [|t r IH]; [reflexivity|exact IH]. Qed.

Lemma visit_fold_single idx ts : forall done done',
  NoDup done ->
  fold_left (visit_step idx false) ts (Ok done) = Ok done' ->
  exists new, done' = new ++ done /\ NoDup done' /\ subseq (rev new) ts /\
              (forall t, In t ts -> In t done') /\
              (forall t, In t new -> alookup t idx <> None).
Proof.
  induction ts as [|t r IH]; intros done done' Hnd Hf; cbn [fold_left] in Hf.
  - injection Hf as <-. exists []. split; [reflexivity|]. split; [exact Hnd|]. split; [constructor|].
    split; [intros t []|intros t []].
  - unfold visit_step at 2 in Hf. rewrite walk_stage_single in Hf.
    destruct (mem t done) eqn:Hm.
    + destruct (IH _ _ Hnd Hf) as (new & E & Hnd' & Hss & Hin & Hidx). exists new.
      split; [exact E|]. split; [exact Hnd'|]. split; [apply ss_skip; exact Hss|]. split; [|exact Hidx].
      intros t0 [<-|Ht0]; [|exact (Hin _ Ht0)]. rewrite E. apply in_or_app. right. apply mem_In. exact Hm.
    + destruct (alookup t idx) as [stg|] eqn:Hl; [|rewrite visit_fold_err in Hf; discriminate Hf].
      assert (Hnd1 : NoDup (t :: done)) by (constructor; [apply mem_false; exact Hm|exact Hnd]).
      destruct (IH _ _ Hnd1 Hf) as (new & E & Hnd' & Hss & Hin & Hidx). exists (new ++ [t]).
      split; [rewrite <- app_assoc; exact E|]. split; [exact Hnd'|]. split; [|split].
      * rewrite rev_app_distr. cbn [rev app]. apply ss_take. exact Hss.
      * intros t0 [<-|Ht0]; [|exact (Hin _ Ht0)]. rewrite E. apply in_or_app. right. left. reflexivity.
      * intros t0 Ht0. apply in_app_or in Ht0 as [Ht0|[<-|[]]]; [exact (Hidx _ Ht0)|].
        rewrite Hl. discriminate.
Qed.

(* --single-stage: exactly the targets, each once, in command-line order *)
Theorem C11_scope_single idx ts sps :
  visited idx false ts = Ok sps ->
  NoDup sps /\ subseq sps ts /\ (forall t, In t ts -> In t sps) /\
  (forall t, In t sps -> exists s, alookup t idx = Some s).
Proof.
  unfold visited.
  change (fold_left _ ts (Ok [])) with (fold_left (visit_step idx false) ts (Ok [])).
  destruct (fold_left (visit_step idx false) ts (Ok [])) as [done|] eqn:Hf; [|intros Hx; discriminate Hx].
  intros [= <-]. destruct (visit_fold_single _ _ _ _ (NoDup_nil _) Hf) as (new & E & Hnd & Hss & Hin & Hidx).
  rewrite app_nil_r in E. subst new. split; [apply NoDup_rev; exact Hnd|]. split; [exact Hss|]. split.
  - intros t Ht. apply -> in_rev. exact (Hin _ Ht).
  - intros t Ht. apply in_rev in Ht. destruct (alookup t idx) as [s|] eqn:Hl; [exists s; reflexivity|].
    exfalso. exact (Hidx _ Ht Hl).
Qed.

Definition push_stages (idx : index) (c : cache) (sps : list bytes) (r : res cache) : res cache :=
  fold_left (fun acc sp => match acc with
                           | Ok r => push_arts (stage_outputs idx sp) c r
                           | Err => Err end) sps r.

Definition fetch_stages (idx : index) (remote : cache) (sps : list bytes) (c : res cache) : res cache :=
  fold_left (fun acc sp => match acc with
                           | Ok c => fetch_arts 64 (stage_outputs idx sp) c remote
                           | Err => Err end) sps c.

Definition recursive_of (targets : list bytes) (single : bool) : bool :=
  match targets with [] => true | _ => negb single end.

(* the commands are: traversal, then one Push / Fetch per visited stage with that stage's
   outputs; nothing else of the world is looked at *)
Theorem C11_scope_push w r targets single r' :
  rstep_push w r targets single = Ok r' ->
  w_lock w = false /\
  exists idx sps,
    load_index (w_index w) (w_stages w) [] = Some idx /\
    visited idx (recursive_of targets single) (all_or targets idx) = Ok sps /\
    push_stages idx (w_cache w) sps (Ok r) = Ok r'.
Proof.
  unfold rstep_push. destruct (w_lock w); [intros Hx; discriminate Hx|].
  destruct (load_index (w_index w) (w_stages w) []) as [idx|]; [|intros Hx; discriminate Hx].
  destruct idx as [|e idx]; [intros Hx; discriminate Hx|].
  fold (recursive_of targets single).
  destruct (visited (e :: idx) (recursive_of targets single) (all_or targets (e :: idx))) as [sps|] eqn:Hv;
    [|intros Hx; discriminate Hx].
  intros Hp. split; [reflexivity|]. exists (e :: idx), sps. split; [reflexivity|]. split; [exact Hv|exact Hp].
Qed.

Theorem C11_scope_fetch w r targets single c' :
  rstep_fetch w r targets single = Ok c' ->
  w_lock w = false /\
  exists idx sps,
    load_index (w_index w) (w_stages w) [] = Some idx /\
    visited idx (recursive_of targets single) (all_or targets idx) = Ok sps /\
    fetch_stages idx r sps (Ok (w_cache w)) = Ok c'.
Proof.
  unfold rstep_fetch. destruct (w_lock w); [intros Hx; discriminate Hx|].
  destruct (load_index (w_index w) (w_stages w) []) as [idx|]; [|intros Hx; discriminate Hx].
  fold (recursive_of targets single).
  destruct (visited idx (recursive_of targets single) (all_or targets idx)) as [sps|] eqn:Hv;
    [|intros Hx; discriminate Hx].
  intros Hp. split; [reflexivity|]. exists idx, sps. split; [reflexivity|]. split; [exact Hv|exact Hp].
Qed.

Lemma push_stages_err idx c sps : push_stages idx c sps Err = Err.
Proof. induction sps as [|sp rest IH]; [reflexivity|exact IH]. Qed.

Lemma fetch_stages_err idx r sps : fetch_stages idx r sps Err = Err.
Proof. induction sps as [|sp rest IH]; [reflexivity|exact IH]. Qed.

(* a key that appears on the remote during a push carries the local bytes *)
Lemma push_arts_new arts c r r1 d o1 :
  push_arts arts c r = Ok r1 -> cget r d = None -> cget r1 d = Some o1 ->
  exists o, cget c d = Some o /\ o_data o1 = o_data o.
Proof.
  intros Hp Hn H1. destruct (push_arts_inv _ _ _ _ Hp) as (files & _ & _ & _ & Hrc).
  rewrite (remote_copy_lookup _ _ _ _ Hrc d), Hn in H1.
  destruct (mem d files); [|discriminate H1].
  destruct (cget c d) as [o|]; [|discriminate H1]. injection H1 as <-. exists o. split; reflexivity.
Qed.

(* the push command: closure, monotonicity, frame and failure, over the visited stages only *)
Theorem C11_push_stages idx c sps : forall r r',
  push_stages idx c sps (Ok r) = Ok r' ->
  cache_le r r' /\
  (forall sp a d, In sp sps -> In a (stage_outputs idx sp) -> In d (reach 64 a c) ->
     exists o o', cget c d = Some o /\ cget r' d = Some o' /\ (cget r d = None -> o_data o' = o_data o)) /\
  (forall d, (forall a, In a (flat_map (stage_outputs idx) sps) -> ~ In d (reach 64 a c)) -> cget r' d = cget r d) /\
  Forall (fun a => complete 64 a c) (flat_map (stage_outputs idx) sps).
Proof.
  induction sps as [|sp rest IH]; intros r r' Hp; cbn [push_stages fold_left] in Hp.
  - injection Hp as <-. split; [apply cache_le_refl|]. split; [intros sp a d []|]. split; [reflexivity|constructor].
  - destruct (push_arts (stage_outputs idx sp) c r) as [r1|] eqn:Hp1;
      [|change (push_stages idx c rest Err = Ok r') in Hp; rewrite push_stages_err in Hp; discriminate Hp].
    change (push_stages idx c rest (Ok r1) = Ok r') in Hp.
    destruct (IH _ _ Hp) as (Hle & Hcl & Hfr & Hcomp).
    destruct (C11_push_closure _ _ _ _ Hp1) as (Hcl1 & Hle1).
    split; [exact (cache_le_trans _ _ _ Hle1 Hle)|]. split; [|split].
    + intros sp0 a d [<-|Hsp] Ha Hd.
      * destruct (Hcl1 a d Ha Hd) as (o & o1 & Ho & Ho1 & _ & Hdat).
        destruct (Hle _ _ Ho1) as (o' & Ho' & Hdat'). exists o, o'. split; [exact Ho|]. split; [exact Ho'|].
        intros Hn. rewrite Hdat'. exact (Hdat Hn).
      * destruct (Hcl sp0 a d Hsp Ha Hd) as (o & o' & Ho & Ho' & Hdat). exists o, o'.
        split; [exact Ho|]. split; [exact Ho'|]. intros Hn.
        destruct (cget r1 d) as [o1|] eqn:H1; [|exact (Hdat eq_refl)].
        destruct (push_arts_new _ _ _ _ _ _ Hp1 Hn H1) as (o2 & Ho2 & Hdat2).
        rewrite Ho in Ho2. injection Ho2 as <-.
        destruct (Hle _ _ H1) as (o3 & Ho3 & Hdat3). rewrite Ho' in Ho3. injection Ho3 as <-.
        rewrite Hdat3. exact Hdat2.
    + intros d Hn. rewrite Hfr.
      * apply (C11_push_frame _ _ _ _ Hp1). intros a Ha. apply Hn. cbn [flat_map]. apply in_or_app. left. exact Ha.
      * intros a Ha. apply Hn. cbn [flat_map]. apply in_or_app. right. exact Ha.
    + cbn [flat_map]. apply Forall_app. split; [|exact Hcomp].
      destruct (push_arts_inv _ _ _ _ Hp1) as (files & _ & Hc & _). exact Hc.
Qed.

Lemma reach_agree F : forall a c1 c2,
  (forall d, In d (reach F a c1) -> cget c1 d = cget c2 d) -> reach F a c1 = reach F a c2.
Proof.
  induction F as [|F IH]; intros a c1 c2 Hag; [reflexivity|].
  cbn [reach] in *. destruct (a_skip a); [reflexivity|]. f_equal.
  rewrite <- (Hag (a_cs a) (or_introl eq_refl)).
  destruct (a_isdir a); [|reflexivity].
  destruct (cget c1 (a_cs a)) as [o|]; [|reflexivity].
  destruct (dec_manifest (o_data o)) as [m|]; [|reflexivity].
  assert (Hsub : forall kids, (forall kv, In kv kids -> In kv (m_contents m)) ->
            flat_map (fun kv => reach F (snd kv) c1) kids = flat_map (fun kv => reach F (snd kv) c2) kids).
  { induction kids as [|kv rk IHk]; intros Hs; [reflexivity|]. cbn [flat_map]. f_equal.
    - apply IH. intros d Hd. apply Hag. right. apply in_flat_map. exists kv. split; [|exact Hd].
      apply Hs. left. reflexivity.
    - apply IHk. intros kv' Hkv'. apply Hs. right. exact Hkv'. }
  exact (Hsub _ (fun kv Hkv => Hkv)).
Qed.

Lemma desc_frame c1 c' arts x :
  (forall d o, cget c1 d = Some o -> cget c' d = Some o) -> desc c1 arts x -> desc c' arts x.
Proof.
  intros Hfr Hx. induction Hx as [a ch Ha Hs Hd Hk|a ch Ha IH Hs Hd Hk].
  - eapply desc_top; try eassumption. exact (kid_of_frame _ _ _ _ Hfr Hk).
  - eapply desc_step; try eassumption. exact (kid_of_frame _ _ _ _ Hfr Hk).
Qed.

(* the fetch command: frame, provenance and completeness, over the visited stages only *)
Theorem C11_fetch_stages idx r sps : forall c c',
  fetch_stages idx r sps (Ok c) = Ok c' ->
  (forall d o, cget c d = Some o -> cget c' d = Some o) /\
  (forall d o', cget c d = None -> cget c' d = Some o' ->
     exists orr, cget r d = Some orr /\ o' = mkObj (o_data orr) cache_perms) /\
  (forall sp, In sp sps -> kids_ok c' (stage_outputs idx sp) ->
     forall a, In a (stage_outputs idx sp) -> a_skip a = false ->
     forall F d, In d (reach F a c') -> exists o, cget c' d = Some o).
Proof.
  induction sps as [|sp rest IH]; intros c c' Hf; cbn [fetch_stages fold_left] in Hf.
  - injection Hf as <-. split; [intros d o Hd; exact Hd|]. split; [|intros sp []].
    intros d o' Hn Hd. rewrite Hn in Hd. discriminate Hd.
  - destruct (fetch_arts 64 (stage_outputs idx sp) c r) as [c1|] eqn:Hf1;
      [|change (fetch_stages idx r rest Err = Ok c') in Hf; rewrite fetch_stages_err in Hf; discriminate Hf].
    change (fetch_stages idx r rest (Ok c1) = Ok c') in Hf.
    destruct (IH _ _ Hf) as (Hfr & Hnew & Hcomp).
    pose proof (fetch_frame _ _ _ _ _ Hf1) as Hfr1. split; [|split].
    + intros d o Hd. exact (Hfr _ _ (Hfr1 _ _ Hd)).
    + intros d o' Hn Hd. destruct (cget c1 d) as [o1|] eqn:H1.
      * rewrite (Hfr _ _ H1) in Hd. injection Hd as <-. exact (fetch_new _ _ _ _ _ Hf1 d o1 Hn H1).
      * exact (Hnew d o' H1 Hd).
    + intros sp0 [<-|Hsp] HKC a Ha Hs F d Hd; [|exact (Hcomp sp0 Hsp HKC a Ha Hs F d Hd)].
      assert (HKC1 : kids_ok c1 (stage_outputs idx sp)).
      { apply (kids_ok_sub c' c1 (stage_outputs idx sp) (stage_outputs idx sp)); [|exact HKC].
        intros x Hx. eapply desc_frame; eassumption. }
      pose proof (fetch_complete_gen _ _ _ _ _ Hf1 HKC1 a Ha Hs) as Hpres.
      assert (E : reach F a c1 = reach F a c').
      { apply reach_agree. intros d0 Hd0. destruct (Hpres F d0 Hd0) as (o0 & Ho0).
        rewrite Ho0. symmetry. exact (Hfr _ _ Ho0). }
      rewrite <- E in Hd. destruct (Hpres F d Hd) as (o0 & Ho0). exists o0. exact (Hfr _ _ Ho0).
Qed.

Print Assumptions C11_scope_single.
Print Assumptions C11_scope_push.
Print Assumptions C11_scope_fetch.
Print Assumptions C11_push_stages.
Print Assumptions C11_fetch_stages.

(* ================================================================== *)
(* 6b. fuel: reach 64 of a pushed artifact is reach at every fuel      *)
(* ================================================================== *)

Lemma reach_mono F : forall F' a c, (F <= F')%nat -> incl (reach F a c) (reach F' a c).
Proof.
  induction F as [|F IH]; intros F' a c Hle d Hd; [destruct Hd|].
  destruct F' as [|F']; [lia|]. cbn [reach] in *. destruct (a_skip a); [destruct Hd|].
  destruct Hd as [<-|Hd]; [left; reflexivity|]. right.
  destruct (a_isdir a); [|destruct Hd]. destruct (cget c (a_cs a)) as [o|]; [|destruct Hd].
  destruct (dec_manifest (o_data o)) as [m|]; [|destruct Hd].
  apply in_flat_map in Hd as (kv & Hkv & Hd). apply in_flat_map. exists kv. split; [exact Hkv|].
  apply (IH F'); [lia|exact Hd].
Qed.

Lemma complete_reach_stable F : forall F' a c,
  (F <= F')%nat -> complete F a c -> reach F' a c = reach F a c.
Proof.
  induction F as [|F IH]; intros F' a c Hle Hc; [destruct Hc|].
  destruct F' as [|F']; [lia|]. cbn [reach complete] in *. destruct (a_skip a); [reflexivity|]. f_equal.
  destruct Hc as (_ & o & Ho & Hd). destruct (a_isdir a); [|reflexivity]. rewrite Ho.
  destruct (Hd eq_refl) as (m & Hm & Hall). rewrite Hm. clear Hm.
  induction (m_contents m) as [|kv rk IHk]; [reflexivity|]. inversion Hall as [|x y Hx Hr]; subst.
  cbn [flat_map]. f_equal; [apply IH; [lia|exact Hx]|exact (IHk Hr)].
Qed.

Lemma complete_present_all F a c : complete F a c -> present_all c [a].
Proof.
  intros Hc a' [<-|[]] _ F' d Hd. apply (complete_reach_present F a c d Hc).
  destruct (Nat.le_ge_cases F F') as [Hle|Hge].
  - rewrite <- (complete_reach_stable F F' a c Hle Hc). exact Hd.
  - exact (reach_mono F' F a c Hge d Hd).
Qed.

(* push closure at every fuel *)
Corollary C11_push_closure_all_fuel arts c r r' :
  push_arts arts c r = Ok r' ->
  forall a F d, In a arts -> In d (reach F a c) ->
    exists o o', cget c d = Some o /\ cget r' d = Some o' /\ o_mode o' = cache_perms /\
                 (cget r d = None -> o_data o' = o_data o).
Proof.
  intros Hp a F d Ha Hd. destruct (push_arts_inv _ _ _ _ Hp) as (files & _ & Hc & _).
  rewrite Forall_forall in Hc. specialize (Hc _ Ha).
  apply (proj1 (C11_push_closure _ _ _ _ Hp) a d Ha).
  destruct (Nat.le_ge_cases 64 F) as [Hle|Hge].
  - rewrite <- (complete_reach_stable 64 F a c Hle Hc). exact Hd.
  - exact (reach_mono F 64 a c Hge d Hd).
Qed.

(* end to end: push from the committed cache, fetch into any part of it, checkout agrees *)
Theorem C11_push_fetch_checkout H a c0 r r' c c' fuel :
  H_inj H -> cache_ok H c0 -> cache_ok H r -> man_plain c0 ->
  a_skip a = false ->
  no_slash c0 [a] ->
  (forall d o, cget c d = Some o -> cget c0 d = Some o) ->
  push_arts [a] c0 r = Ok r' ->
  fetch_arts fuel [a] c r' = Ok c' ->
  (forall d o', cget c' d = Some o' -> o_mode o' = cache_perms) /\
  forall fuel' slot st, checkout_node H fuel' a slot c' st = checkout_node H fuel' a slot c0 st.
Proof.
  intros Hinj Hok0 Hokr Hmp Hs HKC Hsub Hp Hf.
  destruct (C11_push_closure_ok H _ _ _ _ Hinj Hok0 Hokr Hp) as (_ & _ & Hokr').
  assert (Hokc : cache_ok H c) by (intros d o Hd; exact (Hok0 _ _ (Hsub _ _ Hd))).
  split.
  - intros d o' Hd. exact (proj2 (fetch_cache_ok H _ _ _ _ _ Hokc Hokr' Hf d o' Hd)).
  - apply (C11_fetch_then_checkout H fuel a c0 c r' c'); try assumption.
    destruct (push_arts_inv _ _ _ _ Hp) as (files & _ & Hc & _).
    inversion Hc as [|x y Hx _]; subst. exact (complete_present_all _ _ _ Hx).
Qed.

Print Assumptions C11_push_closure_all_fuel.
Print Assumptions C11_push_fetch_checkout.

(* ================================================================== *)
(* 7. non-vacuity                                                      *)
(* ================================================================== *)

Module Demo.
  Definition Hd (b : bytes) : bytes := 1 :: 2 :: 3 :: b.
  Definition str (x : string) : bytes := of_string x.
  Definition tree : node :=
    Dir [(str "a", File (str "hello"));
         (str "sub", Dir [(str "x", File (str "world")); (str "y", File (str "hello"))])].
  Definition top := mkArt [] (str "data") true false false.
  Definition committed := commit_node Hd top tree [] Copy.
  Definition c0 : cache := match committed with Ok (_, c, _) => c | Err => [] end.
  Definition a0 : artifact := match committed with Ok (_, _, a) => a | Err => top end.
  Definition r0 : cache := match push_arts [a0] c0 [] with Ok r => r | Err => [] end.
  Definition c1 : cache := match fetch_arts 64 [a0] [] r0 with Ok c => c | Err => [] end.
  (* a local cache that only has the top-level manifest *)
  Definition cpart : cache := filter (fun kv => beqb (fst kv) (a_cs a0)) c0.
  Definition c2 : cache := match fetch_arts 64 [a0] cpart r0 with Ok c => c | Err => [] end.

  (* commit a 2-level tree (4 objects: 2 manifests, 2 distinct files) *)
  Example demo_commit : committed = Ok (tree, c0, a0) /\ List.length c0 = 4%nat.
  Proof. vm_compute. split; reflexivity. Qed.
  (* push to an empty remote: everything arrives *)
  Example demo_push : push_arts [a0] c0 [] = Ok r0 /\ List.length r0 = 4%nat /\
                      forallb (fun d => in_cache r0 d) (reach 64 a0 c0) = true.
  Proof. vm_compute. repeat split; reflexivity. Qed.
  (* fetch into an empty cache: everything arrives, read-only *)
  Example demo_fetch : fetch_arts 64 [a0] [] r0 = Ok c1 /\ List.length c1 = 4%nat /\
                       forallb (fun kv => o_mode (snd kv) =? cache_perms) c1 = true.
  Proof. vm_compute. repeat split; reflexivity. Qed.
  (* checkout from the fetched cache reproduces the committed tree *)
  Example demo_checkout : checkout_node Hd 64 a0 None c1 Copy = Ok (Some tree).
  Proof. vm_compute. reflexivity. Qed.
  (* the same from a cache that had a part of the objects *)
  Example demo_partial :
    List.length cpart = 1%nat /\ fetch_arts 64 [a0] cpart r0 = Ok c2 /\
    checkout_node Hd 64 a0 None c2 Copy = Ok (Some tree).
  Proof. vm_compute. repeat split; reflexivity. Qed.
  (* push from a cache that lacks a reachable file fails *)
  Example demo_push_fails : push_arts [a0] (filter (fun kv => negb (beqb (fst kv) (Hd (str "world")))) c0) [] = Err.
  Proof. vm_compute. reflexivity. Qed.
  (* an up-to-date remote is left as it is; pushing twice is pushing once *)
  Example demo_push_idem : push_arts [a0] c0 r0 = Ok r0.
  Proof. vm_compute. reflexivity. Qed.
End Demo.

Print Assumptions FetchCex.checkout_old_fails.
Print Assumptions Demo.demo_checkout.
Print Assumptions Demo.demo_partial.

(* FINDING (reproduced on the real tool, 18 of 20 runs): LocalCache.Fetch keys the merged children
   of one level by checksum only (children[art.Checksum] = art).  A regular file whose bytes are
   the manifest JSON of a sibling directory has that directory's checksum; when the file entry
   wins the map slot the directory's contents are never fetched, `dud fetch` exits 0 and
   `dud checkout` then fails with "checksum missing from cache".  FetchCex is that scenario in
   the model, for the pre-repair merge fetch_arts_old.  REPAIRED: the merge key is now the checksum
   plus a slash for directories (child_key); the repaired fetch_arts fetches all three objects. *)
