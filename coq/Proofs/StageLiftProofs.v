(* Lifting of failure and verification from ONE artifact to the STAGE and COMMAND level.

   The artifact-level theorems (C19: a copy checkout never succeeds with corrupted bytes, C06: an
   entry in the way makes checkout fail, C04: commit of one artifact) are about
   Cache.checkout_node / Cache.commit_node.  A dud command runs them for EVERY output of EVERY
   visited stage (Index.checkout_stage / Index.commit_stage, folded over the command-line targets
   by PipelineProofs.checkout_targets / commit_targets, which is what System.step runs).  The
   theorems below say that a failure of any one of them is a failure of the command, and that a
   successful copy checkout has verified every output of every visited stage.

   Vocabulary
     pframe c st root root'      every entry of root' is [preserved] w.r.t. the entry of root at the
                                 same path (unchanged, new, a matching link replaced by a copy of the
                                 object, or a directory whose entries are each preserved): C06_frame
                                 lifted from the slot of the artifact to the whole workspace
     co_bad_stage Q sp           stage sp (of idx) has an output whose top-level checkout is Err in
                                 every workspace that satisfies Q;  Q is any predicate that every
                                 successful checkout_top preserves (Q := True: "every workspace";
                                 Q := pframe c strat root: "every workspace that the command can have
                                 produced from root")
     cm_bad_stage Q sp           the same for commit (Q over workspace and cache)

   Main theorems (all closed under the global context)
     1  checkout_stage_fails_if_output_fails(_frame,_inv)
        checkout_targets_fails_if_output_fails(_frame,_inv)     target or (recursive) upstream stage
        checkout_targets_missing_object_fails                   instance: object not in the cache
        checkout_targets_obstructed_fails                       instance: C06 entry in the way
        checkout_targets_corrupt_fails                          instance: C19 corrupt object reached
        checkout_step_fails_if_output_fails                     System.step
     2  checkout_targets_copy_verified, checkout_targets_copy_verified_file,
        checkout_targets_preserved, checkout_targets_done_scope, checkout_step_copy_verified
        (no premise on the output paths is needed: [preserved] never touches a regular file, so a
        later output cannot replace bytes that an earlier one placed or accepted)
     3  commit_stage_fails_if_output_fails(_inv), commit_targets_fails_if_output_fails(_inv,
        _upstream), commit_step_fails_if_output_fails(_inv),
        commit_targets_missing_output_fails, commit_step_missing_output_fails   instance: the output
        is not in the workspace (the premise of the plain forms holds of no artifact, see there),
        commit_step_failing_output_no_stage_write (world unchanged: no stage file is written)
     4  Module Examples: three outputs, the object of the first / middle / last missing or corrupted *)
From Coq Require Import NArith List Bool Lia Relations String.
From DudV Require Import Base.Bytes Base.Json Base.GoPath Model.Fs Model.Cache Model.Stage Model.Index.
From DudV Require Model.System.
From DudV Require Import Proofs.CacheDefs Proofs.CheckoutProofs Proofs.PipelineProofs.
From DudV Require Proofs.SystemProofs Proofs.CommitProofs.
Import ListNotations.

(* ------------------------------------------------------------------------------------------ *)
(* C06_frame for the whole workspace                                                           *)
(* ------------------------------------------------------------------------------------------ *)
Section Frame.
  Variable c : cache.
  Variable st : strategy.

  Definition pframe (root root' : node) : Prop :=
    forall p, preserved c st (get root p) (get root' p).

  Lemma pframe_refl root : pframe root root.
  Proof. intros p. apply p_same. Qed.

  Lemma pframe_trans r1 r2 r3 : pframe r1 r2 -> pframe r2 r3 -> pframe r1 r3.
  Proof. intros H12 H23 p. eapply preserved_trans; [apply H12|apply H23]. Qed.

  Lemma preserved_some_inv n r : preserved c st (Some n) r -> exists n', r = Some n'.
  Proof. intros Hp. inversion Hp; subst; eauto. Qed.

  (* a regular file is never touched *)
  Lemma preserved_file b r : preserved c st (Some (File b)) r -> r = Some (File b).
  Proof. intros Hp. inversion Hp; subst; reflexivity. Qed.

  Lemma preserved_get : forall p n n',
    preserved c st (Some n) (Some n') -> preserved c st (get n p) (get n' p).
  Proof.
    induction p as [|k r IH]; intros n n' Hp; [exact Hp|].
    inversion Hp as [s Hs1 Hs2| |d o Hst Hc Hs1 Hs2|es es' Hk Hs1 Hs2]; subst.
    - apply p_same.
    - cbn [get]. apply p_new.
    - cbn [get]. specialize (Hk k). destruct (alookup k es) as [m|] eqn:Hm.
      + destruct (preserved_some_inv _ _ Hk) as [m' Hm']. rewrite Hm' in Hk. rewrite Hm'.
        apply IH. exact Hk.
      + apply p_new.
  Qed.

  Lemma dir_entry_frame es k m' :
    (forall p, preserved c st (match alookup k es with Some m => get m p | None => None end) (get m' p)) ->
    pframe (Dir es) (Dir (dset es k (Some m'))).
  Proof.
    intros Hm p. destruct p as [|k' r]; cbn [get].
    - apply p_dir. intros k'. destruct (bytes_dec k' k) as [Heq|Hne].
      + subst k'. rewrite alookup_dset_same. specialize (Hm []). cbn [get] in Hm.
        destruct (alookup k es); exact Hm.
      + rewrite alookup_dset_other by exact Hne. apply p_same.
    - destruct (bytes_dec k' k) as [Heq|Hne].
      + subst k'. rewrite alookup_dset_same. specialize (Hm r). destruct (alookup k es); exact Hm.
      + rewrite alookup_dset_other by exact Hne. apply p_same.
  Qed.

  Lemma put_frame v : forall q root root',
    put root q (Some v) = Some root' ->
    preserved c st (get root q) (Some v) -> pframe root root'.
  Proof.
    induction q as [|k r IH]; intros root root' Hput Hpres.
    - cbn [put] in Hput. injection Hput as <-. cbn [get] in Hpres.
      intros p. apply preserved_get. exact Hpres.
    - destruct root as [b|d|t|es|]; cbn [put] in Hput; try discriminate.
      cbn [get] in Hpres.
      assert (Hex : exists m', root' = Dir (dset es k (Some m')) /\
                forall p, preserved c st (match alookup k es with Some m => get m p | None => None end)
                                    (get m' p)).
      { destruct (alookup k es) as [m|] eqn:Hm.
        - destruct r as [|y r].
          + injection Hput as <-. exists v. split; [reflexivity|]. cbn [get] in Hpres.
            intros p. apply preserved_get. exact Hpres.
          + destruct (put m (y :: r) (Some v)) as [m'|] eqn:Hpm; [|discriminate].
            injection Hput as <-. exists m'. split; [reflexivity|]. exact (IH m m' Hpm Hpres).
        - destruct r as [|y r].
          + injection Hput as <-. exists v. split; [reflexivity|]. intros p. apply p_new.
          + destruct (put (Dir []) (y :: r) (Some v)) as [m'|] eqn:Hpm; [|discriminate].
            injection Hput as <-. exists m'. split; [reflexivity|]. intros p. apply p_new. }
      destruct Hex as [m' [Hr Hm']]. subst root'. apply dir_entry_frame. exact Hm'.
  Qed.
End Frame.

(* ------------------------------------------------------------------------------------------ *)
(* C19_tree_verified for an arbitrary slot, and its stability under [preserved]                *)
(* ------------------------------------------------------------------------------------------ *)
Section Verified.
  Variable H : bytes -> bytes.
  Variable c : cache.

  (* C19_tree_verified is stated for an absent slot; the same holds for every slot *)
  Lemma copy_tree_verified_any : forall fuel a slot n,
    checkout_node H fuel a slot c Copy = Ok (Some n) -> verified H c a n.
  Proof.
    induction fuel as [|f IHf]; intros a slot n Hr; [discriminate|].
    destruct (a_isdir a) eqn:Hd.
    - apply checkout_dir_inv in Hr as (o & m & es' & Hh & Hc & Hm & _ & Hg & Heq); [|exact Hd].
      injection Heq as ->.
      eapply v_dir; [exact Hd|exact Hc|exact Hm|].
      intros k ch Hin.
      destruct (co_go_child _ _ _ _ _ _ _ (dec_manifest_sorted _ _ Hm) Hg _ _ Hin) as (v & Hv & Hl).
      destruct (checkout_node_some _ _ _ _ _ _ _ Hv) as [n0 Hn0]. rewrite Hn0 in Hv, Hl.
      exists n0. split; [exact Hl|]. eapply IHf. exact Hv.
    - rewrite checkout_file_node in Hr by exact Hd.
      apply checkout_file_ok in Hr
        as (_ & o & _ & [(b0 & Hs & Hb & Hrs)|[(_ & Hst & _)|[(_ & Hst & _)|(_ & _ & Ho & Hrs)]]]);
        try discriminate.
      + subst slot. injection Hrs as ->. apply v_file; assumption.
      + injection Hrs as ->. apply v_file; assumption.
  Qed.

  Lemma verified_preserved : forall n a n',
    verified H c a n -> preserved c Copy (Some n) (Some n') -> verified H c a n'.
  Proof.
    induction n as [b|d|t| |es IH] using node_ind'; intros a n' Hv Hp.
    - apply preserved_file in Hp. injection Hp as ->. exact Hv.
    - inversion Hv.
    - inversion Hv.
    - inversion Hv.
    - inversion Hv as [|a0 o m es0 Hd Hc Hm Hkids]; subst.
      inversion Hp as [s Hs1 Hs2| | |es1 es' Hk Hs1 Hs2]; subst; [exact Hv|].
      eapply v_dir; [exact Hd|exact Hc|exact Hm|].
      intros k ch Hin. destruct (Hkids k ch Hin) as [n0 [Hl0 Hv0]].
      specialize (Hk k). rewrite Hl0 in Hk.
      destruct (preserved_some_inv _ _ _ _ Hk) as [n0' Hl0']. rewrite Hl0' in Hk.
      exists n0'. split; [exact Hl0'|].
      rewrite Forall_forall in IH. apply (IH (k, n0) (alookup_In _ _ _ Hl0) ch n0' Hv0 Hk).
  Qed.

  Lemma verified_file a n : a_isdir a = false -> verified H c a n -> exists b, n = File b /\ H b = a_cs a.
  Proof.
    intros Hd Hv. inversion Hv as [a0 b Hd0 Hb|a0 o m es Hd0]; subst; [eauto|congruence].
  Qed.
End Verified.

(* ------------------------------------------------------------------------------------------ *)
(* checkout: one top-level artifact, the outputs of one stage                                  *)
(* ------------------------------------------------------------------------------------------ *)
Section CheckoutArts.
  Variable H : bytes -> bytes.
  Variable c : cache.
  Variable strat : strategy.

  Lemma checkout_top_frame fuel a root root' :
    checkout_top H fuel a root c strat = Ok root' -> pframe c strat root root'.
  Proof.
    unfold checkout_top. destruct (a_skip a) eqn:Hs.
    - intros Heq. injection Heq as <-. apply pframe_refl.
    - unfold slot_of. destruct (blocked root (comps (a_path a))) eqn:Hb; [discriminate|].
      unfold checkout_art. rewrite Hs.
      destruct (checkout_node H fuel a (get root (comps (a_path a))) c strat) as [slot'|] eqn:Hn;
        [|discriminate].
      destruct (checkout_node_some _ _ _ _ _ _ _ Hn) as [n' Hn']. subst slot'.
      destruct (put root (comps (a_path a)) (Some n')) as [r|] eqn:Hput; [|discriminate].
      intros Heq. injection Heq as <-.
      eapply put_frame; [exact Hput|]. eapply checkout_frame_strong. exact Hn.
  Qed.

  Lemma checkout_arts_frame fuel : forall arts root root',
    checkout_arts H fuel arts root c strat = Ok root' -> pframe c strat root root'.
  Proof.
    induction arts as [|a r IH]; intros root root' Hrun; cbn [checkout_arts] in Hrun.
    - injection Hrun as <-. apply pframe_refl.
    - destruct (checkout_top H fuel a root c strat) as [root1|] eqn:Htop; [|discriminate].
      eapply pframe_trans; [eapply checkout_top_frame; exact Htop|apply IH; exact Hrun].
  Qed.

  (* a predicate on workspaces that every successful top-level checkout preserves *)
  Definition co_stable (Q : node -> Prop) : Prop :=
    forall fuel a root root', Q root -> checkout_top H fuel a root c strat = Ok root' -> Q root'.

  Lemma co_stable_True : co_stable (fun _ => True).
  Proof. intros fuel a root root' _ _. exact I. Qed.

  Lemma co_stable_frame root0 : co_stable (pframe c strat root0).
  Proof.
    intros fuel a root root' HQ Htop. eapply pframe_trans; [exact HQ|].
    eapply checkout_top_frame. exact Htop.
  Qed.

  Definition co_bad_output (Q : node -> Prop) (a : artifact) : Prop :=
    forall root, Q root -> checkout_top H 64 a root c strat = Err.

  Lemma co_bad_output_noskip (Q : node -> Prop) (a : artifact) (root : node) :
    Q root -> co_bad_output Q a -> a_skip a = false.
  Proof.
    intros HQ Hbad. specialize (Hbad root HQ). unfold checkout_top in Hbad.
    destruct (a_skip a); [discriminate|reflexivity].
  Qed.

  (* the loop over the outputs looks at every result *)
  Lemma checkout_arts_ok_each Q : co_stable Q -> forall arts root root',
    Q root -> checkout_arts H 64 arts root c strat = Ok root' ->
    Q root' /\ forall a, In a arts -> exists r r', Q r /\ checkout_top H 64 a r c strat = Ok r'.
  Proof.
    intros HQs. induction arts as [|a0 rest IH]; intros root root' HQ Hrun; cbn [checkout_arts] in Hrun.
    - injection Hrun as <-. split; [exact HQ|]. intros a Ha. destruct Ha.
    - destruct (checkout_top H 64 a0 root c strat) as [root1|] eqn:Htop; [|discriminate].
      destruct (IH root1 root' (HQs _ _ _ _ HQ Htop) Hrun) as [HQ' Heach].
      split; [exact HQ'|]. intros a [Ha|Ha].
      + subst a0. exists root, root1. split; [exact HQ|exact Htop].
      + apply Heach. exact Ha.
  Qed.

  Lemma checkout_arts_fails Q arts root a :
    co_stable Q -> Q root -> In a arts -> co_bad_output Q a ->
    checkout_arts H 64 arts root c strat = Err.
  Proof.
    intros HQs HQ Ha Hbad.
    destruct (checkout_arts H 64 arts root c strat) as [root'|] eqn:Hrun; [|reflexivity].
    destruct (checkout_arts_ok_each Q HQs arts root root' HQ Hrun) as [_ Heach].
    destruct (Heach a Ha) as [r [r' [Hr Htop]]]. rewrite (Hbad r Hr) in Htop. discriminate.
  Qed.
End CheckoutArts.

(* with Copy: what a successful top-level checkout leaves at the path of the artifact *)
Section CheckoutPlaced.
  Variable H : bytes -> bytes.
  Variable c : cache.

  Definition art_verified (root : node) (a : artifact) : Prop :=
    exists n, get root (comps (a_path a)) = Some n /\ verified H c a n.

  Lemma art_verified_frame root root' a :
    pframe c Copy root root' -> art_verified root a -> art_verified root' a.
  Proof.
    intros Hf [n [Hg Hv]]. specialize (Hf (comps (a_path a))). rewrite Hg in Hf.
    destruct (preserved_some_inv _ _ _ _ Hf) as [n' Hg']. rewrite Hg' in Hf.
    exists n'. split; [exact Hg'|]. eapply verified_preserved; eassumption.
  Qed.

  Lemma checkout_top_placed fuel a root root' :
    a_skip a = false -> checkout_top H fuel a root c Copy = Ok root' -> art_verified root' a.
  Proof.
    intros Hs. unfold checkout_top. rewrite Hs. unfold slot_of.
    destruct (blocked root (comps (a_path a))); [discriminate|].
    unfold checkout_art. rewrite Hs.
    destruct (checkout_node H fuel a (get root (comps (a_path a))) c Copy) as [slot'|] eqn:Hn;
      [|discriminate].
    destruct (checkout_node_some _ _ _ _ _ _ _ Hn) as [n' Hn']. subst slot'.
    destruct (put root (comps (a_path a)) (Some n')) as [r|] eqn:Hput; [|discriminate].
    intros Heq. injection Heq as <-. exists n'. split.
    - eapply SystemProofs.get_put_same. exact Hput.
    - eapply copy_tree_verified_any. exact Hn.
  Qed.

  Lemma checkout_arts_placed fuel : forall arts root root',
    checkout_arts H fuel arts root c Copy = Ok root' ->
    forall a, In a arts -> a_skip a = false -> art_verified root' a.
  Proof.
    induction arts as [|a0 rest IH]; intros root root' Hrun a Ha Hs; [destruct Ha|].
    cbn [checkout_arts] in Hrun.
    destruct (checkout_top H fuel a0 root c Copy) as [root1|] eqn:Htop; [|discriminate].
    destruct Ha as [Ha|Ha].
    - subst a0. eapply art_verified_frame; [eapply checkout_arts_frame; exact Hrun|].
      eapply checkout_top_placed; eassumption.
    - eapply IH; eassumption.
  Qed.
End CheckoutPlaced.

(* ------------------------------------------------------------------------------------------ *)
(* checkout: stage and command level                                                           *)
(* ------------------------------------------------------------------------------------------ *)
Section CheckoutLift.
  Variable H : bytes -> bytes.
  Variable idx : index.
  Variable c : cache.
  Variable strat : strategy.

  (* induction over a SUCCESSFUL traversal: a reflexive and transitive relation between the
     (workspace, done) pairs that holds across the checkout of the outputs of one stage holds
     across checkout_stage and checkout_targets *)
  Section OkInd.
    Variable recursive : bool.
    Variable R : node -> list bytes -> node -> list bytes -> Prop.
    Hypothesis R_refl : forall root done, R root done root done.
    Hypothesis R_trans : forall r1 d1 r2 d2 r3 d3, R r1 d1 r2 d2 -> R r2 d2 r3 d3 -> R r1 d1 r3 d3.
    Hypothesis R_step : forall sp stg root1 done1 root2,
      alookup sp idx = Some stg ->
      checkout_arts H 64 (s_outputs stg) root1 c strat = Ok root2 ->
      R root1 done1 root2 (sp :: done1).

    Lemma co_ins_ok_ind f stack :
      (forall root done sp root' done',
          checkout_stage H f idx c strat recursive root done stack sp = Ok (root', done') ->
          R root done root' done') ->
      forall arts root done root' done',
        co_ins H idx c strat recursive f stack arts root done = Ok (root', done') ->
        R root done root' done'.
    Proof.
      intros IH. induction arts as [|a r IHr]; intros root done root' done' Hrun; cbn [co_ins] in Hrun.
      - injection Hrun as <- <-. apply R_refl.
      - destruct (find_owner idx (a_path a)) as [[op up]|]; [|apply IHr; exact Hrun].
        destruct recursive; [|apply IHr; exact Hrun].
        destruct (checkout_stage H f idx c strat true root done stack op) as [[root1 done1]|] eqn:Hsub;
          [|discriminate].
        eapply R_trans; [eapply IH; exact Hsub|apply IHr; exact Hrun].
    Qed.

    Lemma checkout_stage_ok_ind : forall f stack root done sp root' done',
      checkout_stage H f idx c strat recursive root done stack sp = Ok (root', done') ->
      R root done root' done'.
    Proof.
      induction f as [|f IH]; intros stack root done sp root' done' Hrun; [discriminate|].
      rewrite checkout_stage_S in Hrun.
      destruct (mem sp done); [injection Hrun as <- <-; apply R_refl|].
      destruct (mem sp stack); [discriminate|].
      destruct (alookup sp idx) as [stg|] eqn:Hstg; [|discriminate].
      destruct (co_ins H idx c strat recursive f (sp :: stack) (s_inputs stg) root done)
        as [[root1 done1]|] eqn:Hins; [|discriminate].
      destruct (checkout_arts H 64 (s_outputs stg) root1 c strat) as [root2|] eqn:Hout; [|discriminate].
      injection Hrun as <- <-.
      eapply R_trans; [eapply co_ins_ok_ind; [apply IH|exact Hins]|].
      eapply R_step; eassumption.
    Qed.

    Lemma checkout_targets_ok_ind fuel : forall ts root done root' done',
      checkout_targets H idx c strat recursive fuel ts (Ok (root, done)) = Ok (root', done') ->
      R root done root' done'.
    Proof.
      induction ts as [|t r IH]; intros root done root' done' Hrun.
      - cbn in Hrun. injection Hrun as <- <-. apply R_refl.
      - rewrite checkout_targets_cons in Hrun.
        destruct (checkout_stage H fuel idx c strat recursive root done [] t) as [[root1 done1]|] eqn:Hone.
        2:{ rewrite checkout_targets_Err in Hrun. discriminate. }
        eapply R_trans; [eapply checkout_stage_ok_ind; exact Hone|apply IH; exact Hrun].
    Qed.
  End OkInd.

  (* ---- which stages are in [done] after a success ---- *)
  Lemma checkout_stage_done recursive f stack root done sp root' done' :
    checkout_stage H f idx c strat recursive root done stack sp = Ok (root', done') -> In sp done'.
  Proof.
    destruct f as [|f]; [discriminate|]. rewrite checkout_stage_S.
    destruct (mem sp done) eqn:Hd.
    { intros Heq. injection Heq as <- <-. apply mem_In. exact Hd. }
    destruct (mem sp stack); [discriminate|].
    destruct (alookup sp idx) as [stg|]; [|discriminate].
    destruct (co_ins H idx c strat recursive f (sp :: stack) (s_inputs stg) root done)
      as [[root1 done1]|]; [|discriminate].
    destruct (checkout_arts H 64 (s_outputs stg) root1 c strat) as [root2|]; [|discriminate].
    intros Heq. injection Heq as <- <-. left. reflexivity.
  Qed.

  Lemma checkout_targets_incl recursive fuel ts root done root' done' :
    checkout_targets H idx c strat recursive fuel ts (Ok (root, done)) = Ok (root', done') ->
    incl done done'.
  Proof.
    apply (checkout_targets_ok_ind recursive (fun _ d _ d' => incl d d')).
    - intros _ d. apply incl_refl.
    - intros _ d1 _ d2 _ d3 H12 H23. eapply incl_tran; eassumption.
    - intros sp stg _ d _ _ _. apply incl_tl. apply incl_refl.
  Qed.

  Lemma checkout_targets_done_targets recursive fuel : forall ts root done root' done',
    checkout_targets H idx c strat recursive fuel ts (Ok (root, done)) = Ok (root', done') ->
    forall t, In t ts -> In t done'.
  Proof.
    induction ts as [|t0 r IH]; intros root done root' done' Hrun t Ht; [destruct Ht|].
    rewrite checkout_targets_cons in Hrun.
    destruct (checkout_stage H fuel idx c strat recursive root done [] t0) as [[root1 done1]|] eqn:Hone.
    2:{ rewrite checkout_targets_Err in Hrun. discriminate. }
    destruct Ht as [Ht|Ht].
    - subst t0. eapply checkout_targets_incl; [exact Hrun|]. eapply checkout_stage_done. exact Hone.
    - eapply IH; eassumption.
  Qed.

  (* the stages a command visits: the targets and, when recursive, everything upstream of them *)
  Definition co_scope (recursive : bool) (ts : list bytes) (s : bytes) : Prop :=
    exists t, In t ts /\ (if recursive then clos_refl_trans bytes (edge idx) s t else s = t).

  Theorem checkout_targets_done_scope recursive fuel ts root root' done' s :
    checkout_targets H idx c strat recursive fuel ts (Ok (root, [])) = Ok (root', done') ->
    co_scope recursive ts s -> In s done'.
  Proof.
    intros Hrun [t [Ht Hs]].
    pose proof (checkout_targets_done_targets _ _ _ _ _ _ _ Hrun t Ht) as Htd.
    destruct recursive.
    - destruct (checkout_targets_post H idx c strat fuel ts _ _ _ _ (core_nil idx) Hrun) as [Hc' _].
      apply upstream_clos in Hs. eapply core_upstream; eassumption.
    - subst s. exact Htd.
  Qed.

  (* ---- 1: a failing output makes the stage and the command fail ---- *)
  Definition co_bad_stage (Q : node -> Prop) (sp : bytes) : Prop :=
    exists stg a, alookup sp idx = Some stg /\ In a (s_outputs stg) /\ co_bad_output H c strat Q a.

  Section Inv.
    Variable Q : node -> Prop.
    Hypothesis Q_stable : co_stable H c strat Q.

    Definition co_rel (root : node) (done : list bytes) (root' : node) (done' : list bytes) : Prop :=
      Q root -> Q root' /\ forall s, In s done' -> In s done \/ ~ co_bad_stage Q s.

    Lemma co_rel_refl root done : co_rel root done root done.
    Proof. intros HQ. split; [exact HQ|]. intros s Hs. left. exact Hs. Qed.

    Lemma co_rel_trans r1 d1 r2 d2 r3 d3 : co_rel r1 d1 r2 d2 -> co_rel r2 d2 r3 d3 -> co_rel r1 d1 r3 d3.
    Proof.
      intros H12 H23 HQ. destruct (H12 HQ) as [HQ2 Hd2]. destruct (H23 HQ2) as [HQ3 Hd3].
      split; [exact HQ3|]. intros s Hs. destruct (Hd3 s Hs) as [Hs2|Hnb]; [apply Hd2; exact Hs2|right; exact Hnb].
    Qed.

    Lemma co_rel_step sp stg root1 done1 root2 :
      alookup sp idx = Some stg ->
      checkout_arts H 64 (s_outputs stg) root1 c strat = Ok root2 ->
      co_rel root1 done1 root2 (sp :: done1).
    Proof.
      intros Hstg Hout HQ.
      destruct (checkout_arts_ok_each H c strat Q Q_stable _ _ _ HQ Hout) as [HQ2 Heach].
      split; [exact HQ2|]. intros s [Hs|Hs]; [|left; exact Hs].
      subst s. right. intros [stg' [a [Hstg' [Ha Hbad]]]].
      rewrite Hstg in Hstg'. injection Hstg' as <-.
      destruct (Heach a Ha) as [r [r' [Hr Htop]]]. rewrite (Hbad r Hr) in Htop. discriminate.
    Qed.

    Theorem checkout_stage_fails_if_output_fails_inv recursive fuel root done inprog sp :
      Q root -> mem sp done = false -> co_bad_stage Q sp ->
      checkout_stage H fuel idx c strat recursive root done inprog sp = Err.
    Proof.
      intros HQ Hnd Hbad.
      destruct (checkout_stage H fuel idx c strat recursive root done inprog sp) as [[root' done']|] eqn:Hrun;
        [|reflexivity].
      exfalso.
      pose proof (checkout_stage_ok_ind recursive co_rel co_rel_refl co_rel_trans co_rel_step
                                        _ _ _ _ _ _ _ Hrun HQ) as [_ Hd].
      destruct (Hd sp (checkout_stage_done _ _ _ _ _ _ _ _ Hrun)) as [Hin|Hnb]; [|exact (Hnb Hbad)].
      apply mem_In in Hin. congruence.
    Qed.

    Theorem checkout_targets_fails_if_output_fails_inv recursive fuel ts root b :
      Q root -> co_scope recursive ts b -> co_bad_stage Q b ->
      checkout_targets H idx c strat recursive fuel ts (Ok (root, [])) = Err.
    Proof.
      intros HQ Hsc Hbad.
      destruct (checkout_targets H idx c strat recursive fuel ts (Ok (root, []))) as [[root' done']|] eqn:Hrun;
        [|reflexivity].
      exfalso.
      pose proof (checkout_targets_ok_ind recursive co_rel co_rel_refl co_rel_trans co_rel_step
                                          _ _ _ _ _ _ Hrun HQ) as [_ Hd].
      destruct (Hd b (checkout_targets_done_scope _ _ _ _ _ _ _ Hrun Hsc)) as [Hin|Hnb];
        [destruct Hin|exact (Hnb Hbad)].
    Qed.
  End Inv.

  (* the plain formulation: the output fails from EVERY workspace *)
  Theorem checkout_stage_fails_if_output_fails recursive fuel root done inprog sp stg a :
    alookup sp idx = Some stg -> mem sp done = false -> In a (s_outputs stg) ->
    (forall root', checkout_top H 64 a root' c strat = Err) ->
    checkout_stage H fuel idx c strat recursive root done inprog sp = Err.
  Proof.
    intros Hstg Hnd Ha Hbad.
    apply (checkout_stage_fails_if_output_fails_inv (fun _ => True) (co_stable_True H c strat));
      [exact I|exact Hnd|].
    exists stg, a. split; [exact Hstg|]. split; [exact Ha|]. intros r _. apply Hbad.
  Qed.

  (* the sharper one: from every workspace that checkouts can have produced from [root] *)
  Theorem checkout_stage_fails_if_output_fails_frame recursive fuel root done inprog sp stg a :
    alookup sp idx = Some stg -> mem sp done = false -> In a (s_outputs stg) ->
    (forall root', pframe c strat root root' -> checkout_top H 64 a root' c strat = Err) ->
    checkout_stage H fuel idx c strat recursive root done inprog sp = Err.
  Proof.
    intros Hstg Hnd Ha Hbad.
    apply (checkout_stage_fails_if_output_fails_inv (pframe c strat root) (co_stable_frame H c strat root));
      [apply pframe_refl|exact Hnd|].
    exists stg, a. split; [exact Hstg|]. split; [exact Ha|exact Hbad].
  Qed.

  (* the command: [b] is a target or (recursive) upstream of a target *)
  Theorem checkout_targets_fails_if_output_fails (recursive : bool) fuel ts root t b stg a :
    In t ts -> (if recursive then clos_refl_trans bytes (edge idx) b t else b = t) ->
    alookup b idx = Some stg -> In a (s_outputs stg) ->
    (forall root', checkout_top H 64 a root' c strat = Err) ->
    checkout_targets H idx c strat recursive fuel ts (Ok (root, [])) = Err.
  Proof.
    intros Ht Hb Hstg Ha Hbad.
    apply (checkout_targets_fails_if_output_fails_inv (fun _ => True) (co_stable_True H c strat)
                                                      recursive fuel ts root b I).
    - exists t. split; [exact Ht|exact Hb].
    - exists stg, a. split; [exact Hstg|]. split; [exact Ha|]. intros r _. apply Hbad.
  Qed.

  Theorem checkout_targets_fails_if_output_fails_frame (recursive : bool) fuel ts root t b stg a :
    In t ts -> (if recursive then clos_refl_trans bytes (edge idx) b t else b = t) ->
    alookup b idx = Some stg -> In a (s_outputs stg) ->
    (forall root', pframe c strat root root' -> checkout_top H 64 a root' c strat = Err) ->
    checkout_targets H idx c strat recursive fuel ts (Ok (root, [])) = Err.
  Proof.
    intros Ht Hb Hstg Ha Hbad.
    apply (checkout_targets_fails_if_output_fails_inv (pframe c strat root) (co_stable_frame H c strat root)
                                                      recursive fuel ts root b (pframe_refl c strat root)).
    - exists t. split; [exact Ht|exact Hb].
    - exists stg, a. split; [exact Hstg|]. split; [exact Ha|exact Hbad].
  Qed.

  (* ---- instances of the premise ---- *)
  (* the object of the artifact is not in the cache: Err from every workspace *)
  Lemma missing_object_fails a root :
    a_skip a = false -> cget c (a_cs a) = None -> checkout_top H 64 a root c strat = Err.
  Proof.
    intros Hs Hc. unfold checkout_top. rewrite Hs. unfold slot_of.
    destruct (blocked root (comps (a_path a))); [reflexivity|].
    unfold checkout_art. rewrite Hs.
    change 64%nat with (S 63). rewrite checkout_node_S. unfold checkout_file. rewrite Hc.
    destruct (a_isdir a); destruct (negb (has_cs (a_cs a))); reflexivity.
  Qed.

  Theorem checkout_targets_missing_object_fails (recursive : bool) fuel ts root t b stg a :
    In t ts -> (if recursive then clos_refl_trans bytes (edge idx) b t else b = t) ->
    alookup b idx = Some stg -> In a (s_outputs stg) ->
    a_skip a = false -> cget c (a_cs a) = None ->
    checkout_targets H idx c strat recursive fuel ts (Ok (root, [])) = Err.
  Proof.
    intros Ht Hb Hstg Ha Hs Hc. eapply checkout_targets_fails_if_output_fails; try eassumption.
    intros root'. apply missing_object_fails; assumption.
  Qed.

  (* C06_obstructed_fails lifted: a regular file with other bytes sits at the path of a file
     output of a visited stage; no checkout removes it, so the command fails *)
  Theorem checkout_targets_obstructed_fails (recursive : bool) fuel ts root t b stg a bs :
    In t ts -> (if recursive then clos_refl_trans bytes (edge idx) b t else b = t) ->
    alookup b idx = Some stg -> In a (s_outputs stg) ->
    a_skip a = false -> a_isdir a = false ->
    get root (comps (a_path a)) = Some (File bs) -> H bs <> a_cs a ->
    checkout_targets H idx c strat recursive fuel ts (Ok (root, [])) = Err.
  Proof.
    intros Ht Hb Hstg Ha Hs Hd Hg Hne.
    eapply checkout_targets_fails_if_output_fails_frame; try eassumption.
    intros root' Hf. specialize (Hf (comps (a_path a))). rewrite Hg in Hf.
    apply preserved_file in Hf.
    unfold checkout_top. rewrite Hs. unfold slot_of.
    destruct (blocked root' (comps (a_path a))); [reflexivity|].
    unfold checkout_art. rewrite Hs, Hf.
    change 64%nat with (S 63). rewrite checkout_file_node by exact Hd.
    rewrite (C06_obstructed_file H a c strat bs Hne). reflexivity.
  Qed.
End CheckoutLift.

(* ---- 2: a successful copy checkout has verified every output of every visited stage ---- *)
Section CopyVerified.
  Variable H : bytes -> bytes.
  Variable idx : index.
  Variable c : cache.

  Definition stage_verified (root : node) (sp : bytes) : Prop :=
    forall stg a, alookup sp idx = Some stg -> In a (s_outputs stg) -> a_skip a = false ->
                  art_verified H c root a.

  Definition cv_rel (root : node) (done : list bytes) (root' : node) (done' : list bytes) : Prop :=
    pframe c Copy root root' /\ forall s, In s done' -> In s done \/ stage_verified root' s.

  Lemma cv_rel_refl root done : cv_rel root done root done.
  Proof. split; [apply pframe_refl|]. intros s Hs. left. exact Hs. Qed.

  Lemma cv_rel_trans r1 d1 r2 d2 r3 d3 : cv_rel r1 d1 r2 d2 -> cv_rel r2 d2 r3 d3 -> cv_rel r1 d1 r3 d3.
  Proof.
    intros [Hf12 Hd12] [Hf23 Hd23]. split; [eapply pframe_trans; eassumption|].
    intros s Hs. destruct (Hd23 s Hs) as [Hs2|Hv]; [|right; exact Hv].
    destruct (Hd12 s Hs2) as [Hs1|Hv]; [left; exact Hs1|right].
    intros stg a Hstg Ha Hsk. eapply art_verified_frame; [exact Hf23|]. eapply Hv; eassumption.
  Qed.

  Lemma cv_rel_step sp stg root1 done1 root2 :
    alookup sp idx = Some stg ->
    checkout_arts H 64 (s_outputs stg) root1 c Copy = Ok root2 ->
    cv_rel root1 done1 root2 (sp :: done1).
  Proof.
    intros Hstg Hout. split; [eapply checkout_arts_frame; exact Hout|].
    intros s [Hs|Hs]; [|left; exact Hs]. subst s. right.
    intros stg' a Hstg' Ha Hsk. rewrite Hstg in Hstg'. injection Hstg' as <-.
    eapply checkout_arts_placed; eassumption.
  Qed.

  (* for every stage the command finished (all of [done]: targets and upstream stages) and every
     non-skip output, file or directory: the entry at the path of the output is there, and every
     regular file of it carries bytes that hash to the checksum its stage file / manifest records *)
  Theorem checkout_targets_copy_verified recursive fuel ts root root' done sp stg a :
    checkout_targets H idx c Copy recursive fuel ts (Ok (root, [])) = Ok (root', done) ->
    In sp done -> alookup sp idx = Some stg -> In a (s_outputs stg) -> a_skip a = false ->
    exists n, get root' (comps (a_path a)) = Some n /\ verified H c a n.
  Proof.
    intros Hrun Hsp Hstg Ha Hsk.
    pose proof (checkout_targets_ok_ind H idx c Copy recursive cv_rel cv_rel_refl cv_rel_trans cv_rel_step
                                        _ _ _ _ _ _ Hrun) as [_ Hd].
    destruct (Hd sp Hsp) as [Hin|Hv]; [destruct Hin|]. exact (Hv stg a Hstg Ha Hsk).
  Qed.

  (* file outputs, spelled out *)
  Corollary checkout_targets_copy_verified_file recursive fuel ts root root' done sp stg a :
    checkout_targets H idx c Copy recursive fuel ts (Ok (root, [])) = Ok (root', done) ->
    In sp done -> alookup sp idx = Some stg -> In a (s_outputs stg) -> a_skip a = false ->
    a_isdir a = false ->
    exists b, get root' (comps (a_path a)) = Some (File b) /\ H b = a_cs a.
  Proof.
    intros Hrun Hsp Hstg Ha Hsk Hd.
    destruct (checkout_targets_copy_verified _ _ _ _ _ _ _ _ _ Hrun Hsp Hstg Ha Hsk) as [n [Hg Hv]].
    destruct (verified_file H c a n Hd Hv) as [b [Hn Hb]]. subst n. exists b. split; assumption.
  Qed.
End CopyVerified.

(* every entry that was there before the command is [preserved] (either strategy) *)
Theorem checkout_targets_preserved H idx c strat recursive fuel ts root done root' done' :
  checkout_targets H idx c strat recursive fuel ts (Ok (root, done)) = Ok (root', done') ->
  forall p, preserved c strat (get root p) (get root' p).
Proof.
  apply (checkout_targets_ok_ind H idx c strat recursive (fun r _ r' _ => pframe c strat r r')).
  - intros r _. apply pframe_refl.
  - intros r1 _ r2 _ r3 _. apply pframe_trans.
  - intros sp stg r1 _ r2 _ Hout. eapply checkout_arts_frame. exact Hout.
Qed.

(* ------------------------------------------------------------------------------------------ *)
(* commit                                                                                      *)
(* ------------------------------------------------------------------------------------------ *)
Section CommitLift.
  Variable H : bytes -> bytes.
  Variable strat : strategy.

  (* a predicate on (workspace, cache) that every successful top-level commit preserves *)
  Definition cm_stable (Q : node -> cache -> Prop) : Prop :=
    forall a root c root' c' a', Q root c -> commit_top H a root c strat = Ok (root', c', a') -> Q root' c'.

  Lemma cm_stable_True : cm_stable (fun _ _ => True).
  Proof. intros a root c root' c' a' _ _. exact I. Qed.

  Definition cm_bad_output (Q : node -> cache -> Prop) (a : artifact) : Prop :=
    forall root c, Q root c -> commit_top H a root c strat = Err.

  Section Inv.
    Variable Q : node -> cache -> Prop.
    Hypothesis Q_stable : cm_stable Q.

    Lemma commit_arts_ok_each : forall arts fs root c l root' c',
      Q root c -> commit_arts H arts fs root c strat = Ok (l, root', c') ->
      Q root' c' /\
      (fs = false -> forall a, In a arts ->
                     exists r c0 r' c0' a', Q r c0 /\ commit_top H a r c0 strat = Ok (r', c0', a')).
    Proof.
      induction arts as [|a0 rest IH]; intros fs root c l root' c' HQ Hrun; cbn [commit_arts] in Hrun.
      - injection Hrun as <- <- <-. split; [exact HQ|]. intros _ a Ha. destruct Ha.
      - match type of Hrun with
        | match commit_top H ?A0 root c strat with _ => _ end = _ =>
          destruct (commit_top H A0 root c strat) as [[[root1 c1] a1]|] eqn:Htop
        end; [|discriminate].
        destruct (commit_arts H rest fs root1 c1 strat) as [[[l2 root2] c2]|] eqn:Hrest; [|discriminate].
        injection Hrun as <- <- <-.
        destruct (IH _ _ _ _ _ _ (Q_stable _ _ _ _ _ _ HQ Htop) Hrest) as [HQ' Heach].
        split; [exact HQ'|]. intros Hfs a [Ha|Ha].
        + subst a0 fs. exists root, c, root1, c1, a1. split; [exact HQ|exact Htop].
        + apply Heach; assumption.
    Qed.

    Lemma commit_arts_fails arts root c a :
      Q root c -> In a arts -> cm_bad_output Q a -> commit_arts H arts false root c strat = Err.
    Proof.
      intros HQ Ha Hbad.
      destruct (commit_arts H arts false root c strat) as [[[l root'] c']|] eqn:Hrun; [|reflexivity].
      destruct (commit_arts_ok_each _ _ _ _ _ _ _ HQ Hrun) as [_ Heach].
      destruct (Heach eq_refl a Ha) as (r & c0 & r' & c0' & a' & Hr & Htop).
      rewrite (Hbad r c0 Hr) in Htop. discriminate.
    Qed.

    (* [idx0]: the index the command starts with.  The index is rewritten during the command, but
       only at the keys of finished stages *)
    Variable idx0 : index.
    Variable done0 : list bytes.              (* the stages that were finished before *)

    Definition cm_bad_stage (sp : bytes) : Prop :=
      exists stg a, alookup sp idx0 = Some stg /\ In a (s_outputs stg) /\ cm_bad_output Q a.

    Definition cm_linv (st : istate) (done : list bytes) : Prop :=
      Q (i_root st) (i_cache st) /\
      (forall s, ~ In s done -> alookup s (i_idx st) = alookup s idx0) /\
      (forall s, In s done -> In s done0 \/ ~ cm_bad_stage s).

    Lemma cm_ins_linv f stack :
      (forall st done sp st' done',
          cm_linv st done -> commit_stage H f st strat done stack sp = Ok (st', done') -> cm_linv st' done') ->
      forall arts st done owned plain st' done',
        cm_linv st done -> cm_ins H strat f stack arts st done = Ok (owned, plain, st', done') ->
        cm_linv st' done'.
    Proof.
      intros IH. induction arts as [|a r IHr]; intros st done owned plain st' done' Hinv Hrun;
        cbn [cm_ins] in Hrun.
      - injection Hrun as <- <- <- <-. exact Hinv.
      - destruct (find_owner (i_idx st) (a_path a)) as [[op up]|].
        + destruct (commit_stage H f st strat done stack op) as [[st1 done1]|] eqn:Hsub; [|discriminate].
          destruct (cm_ins H strat f stack r st1 done1) as [[[[owned2 plain2] st2] done2]|] eqn:Hrest;
            [|discriminate].
          injection Hrun as <- <- <- <-. eapply IHr; [|exact Hrest]. eapply IH; eassumption.
        + destruct (cm_ins H strat f stack r st done) as [[[[owned2 plain2] st2] done2]|] eqn:Hrest;
            [|discriminate].
          injection Hrun as <- <- <- <-. eapply IHr; eassumption.
    Qed.

    Lemma commit_stage_linv : forall f stack st done sp st' done',
      cm_linv st done -> commit_stage H f st strat done stack sp = Ok (st', done') -> cm_linv st' done'.
    Proof.
      induction f as [|f IH]; intros stack st done sp st' done' Hinv Hrun; [discriminate|].
      rewrite commit_stage_S in Hrun.
      destruct (mem sp done) eqn:Hdone; [injection Hrun as <- <-; exact Hinv|].
      destruct (mem sp stack); [discriminate|].
      destruct (alookup sp (i_idx st)) as [stg|] eqn:Hstg; [|discriminate].
      assert (Hstg0 : alookup sp idx0 = Some stg).
      { destruct Hinv as [_ [Hidx _]]. rewrite <- Hstg. symmetry. apply Hidx.
        apply mem_notIn. exact Hdone. }
      unfold cm_finish in Hrun.
      destruct (cm_ins H strat f (sp :: stack) (s_inputs stg) st done)
        as [[[[owned plain] st1] done1]|] eqn:Hins; [|discriminate].
      destruct (cm_ins_linv f (sp :: stack) (IH (sp :: stack)) _ _ _ _ _ _ _ Hinv Hins)
        as [HQ1 [Hidx1 Hnb1]].
      destruct (commit_arts H plain true (i_root st1) (i_cache st1) strat) as [[[plain' root2] c2]|] eqn:Hpl;
        [|discriminate].
      destruct (commit_arts_ok_each _ _ _ _ _ _ _ HQ1 Hpl) as [HQ2 _].
      destruct (commit_arts H (s_outputs stg) false root2 c2 strat) as [[[outs' root3] c3]|] eqn:Hout;
        [|discriminate].
      destruct (commit_arts_ok_each _ _ _ _ _ _ _ HQ2 Hout) as [HQ3 Heach].
      injection Hrun as <- <-. split; [exact HQ3|]. split.
      - intros s Hs. cbn [i_idx]. unfold set_stage.
        rewrite PipelineProofs.alookup_ins_other.
        + apply Hidx1. intros Hin. apply Hs. right. exact Hin.
        + intros Heq. apply Hs. left. symmetry. exact Heq.
      - intros s [Hs|Hs]; [|apply Hnb1; exact Hs].
        subst s. right. intros [stg' [a [Hstg' [Ha Hbad]]]].
        rewrite Hstg0 in Hstg'. injection Hstg' as <-.
        destruct (Heach eq_refl a Ha) as (r & c0 & r' & c0' & a' & Hr & Htop).
        rewrite (Hbad r c0 Hr) in Htop. discriminate.
    Qed.

    Lemma commit_targets_linv fuel : forall ts st done st' done',
      cm_linv st done -> commit_targets H strat fuel ts (Ok (st, done)) = Ok (st', done') -> cm_linv st' done'.
    Proof.
      induction ts as [|t r IH]; intros st done st' done' Hinv Hrun.
      - cbn in Hrun. injection Hrun as <- <-. exact Hinv.
      - rewrite commit_targets_cons in Hrun.
        destruct (commit_stage H fuel st strat done [] t) as [[st1 done1]|] eqn:Hone.
        2:{ rewrite commit_targets_Err in Hrun. discriminate. }
        eapply IH; [|exact Hrun]. eapply commit_stage_linv; eassumption.
    Qed.

  End Inv.

  Lemma cm_linv_init (Q : node -> cache -> Prop) st done : Q (i_root st) (i_cache st) -> cm_linv Q (i_idx st) done st done.
  Proof.
    intros HQ. split; [exact HQ|]. split; [reflexivity|]. intros s Hs. left. exact Hs.
  Qed.

  Lemma commit_stage_done f stack st done sp st' done' :
    commit_stage H f st strat done stack sp = Ok (st', done') -> In sp done'.
  Proof.
    destruct f as [|f]; [discriminate|]. rewrite commit_stage_S.
    destruct (mem sp done) eqn:Hd.
    { intros Heq. injection Heq as <- <-. apply mem_In. exact Hd. }
    destruct (mem sp stack); [discriminate|].
    destruct (alookup sp (i_idx st)) as [stg|]; [|discriminate].
    intros Hfin. apply cm_finish_Ok in Hfin as (owned & plain & st1 & done1 & stg2 & root3 & c3 & _ & _ & Hd').
    subst done'. left. reflexivity.
  Qed.

  Lemma cm_ins_incl f stack :
    (forall st done sp st' done',
        commit_stage H f st strat done stack sp = Ok (st', done') -> incl done done') ->
    forall arts st done owned plain st' done',
      cm_ins H strat f stack arts st done = Ok (owned, plain, st', done') -> incl done done'.
  Proof.
    intros IH. induction arts as [|a r IHr]; intros st done owned plain st' done' Hrun; cbn [cm_ins] in Hrun.
    - injection Hrun as <- <- <- <-. apply incl_refl.
    - destruct (find_owner (i_idx st) (a_path a)) as [[op up]|].
      + destruct (commit_stage H f st strat done stack op) as [[st1 done1]|] eqn:Hsub; [|discriminate].
        destruct (cm_ins H strat f stack r st1 done1) as [[[[owned2 plain2] st2] done2]|] eqn:Hrest;
          [|discriminate].
        injection Hrun as <- <- <- <-. eapply incl_tran; [eapply IH; exact Hsub|eapply IHr; exact Hrest].
      + destruct (cm_ins H strat f stack r st done) as [[[[owned2 plain2] st2] done2]|] eqn:Hrest;
          [|discriminate].
        injection Hrun as <- <- <- <-. eapply IHr; exact Hrest.
  Qed.

  Lemma commit_stage_incl : forall f stack st done sp st' done',
    commit_stage H f st strat done stack sp = Ok (st', done') -> incl done done'.
  Proof.
    induction f as [|f IH]; intros stack st done sp st' done' Hrun; [discriminate|].
    rewrite commit_stage_S in Hrun.
    destruct (mem sp done); [injection Hrun as <- <-; apply incl_refl|].
    destruct (mem sp stack); [discriminate|].
    destruct (alookup sp (i_idx st)) as [stg|]; [|discriminate].
    apply cm_finish_Ok in Hrun as (owned & plain & st1 & done1 & stg2 & root3 & c3 & Hins & _ & Hd').
    subst done'. apply incl_tl. eapply cm_ins_incl; [apply IH|exact Hins].
  Qed.

  Lemma commit_targets_done_targets fuel : forall ts st done st' done',
    commit_targets H strat fuel ts (Ok (st, done)) = Ok (st', done') ->
    incl done done' /\ forall t, In t ts -> In t done'.
  Proof.
    induction ts as [|t0 r IH]; intros st done st' done' Hrun.
    - cbn in Hrun. injection Hrun as <- <-. split; [apply incl_refl|]. intros t Ht. destruct Ht.
    - rewrite commit_targets_cons in Hrun.
      destruct (commit_stage H fuel st strat done [] t0) as [[st1 done1]|] eqn:Hone.
      2:{ rewrite commit_targets_Err in Hrun. discriminate. }
      destruct (IH _ _ _ _ Hrun) as [Hincl Hts]. split.
      + eapply incl_tran; [eapply commit_stage_incl; exact Hone|exact Hincl].
      + intros t [Ht|Ht]; [|apply Hts; exact Ht].
        subst t0. apply Hincl. eapply commit_stage_done. exact Hone.
  Qed.

  (* ---- 3: a failing output makes the stage and the command fail ---- *)
  Theorem commit_stage_fails_if_output_fails_inv (Q : node -> cache -> Prop) fuel st done inprog sp stg a :
    cm_stable Q -> Q (i_root st) (i_cache st) ->
    alookup sp (i_idx st) = Some stg -> mem sp done = false -> In a (s_outputs stg) ->
    cm_bad_output Q a ->
    commit_stage H fuel st strat done inprog sp = Err.
  Proof.
    intros HQs HQ Hstg Hnd Ha Hbad.
    destruct (commit_stage H fuel st strat done inprog sp) as [[st' done']|] eqn:Hrun; [|reflexivity].
    exfalso.
    destruct (commit_stage_linv Q HQs (i_idx st) done _ _ _ _ _ _ _ (cm_linv_init Q st done HQ) Hrun)
      as [_ [_ Hnb]].
    destruct (Hnb sp (commit_stage_done _ _ _ _ _ _ _ Hrun)) as [Hin|Hn].
    - apply mem_In in Hin. congruence.
    - apply Hn. exists stg, a. split; [exact Hstg|]. split; [exact Ha|exact Hbad].
  Qed.

  (* the plain formulation: committing the output fails from EVERY workspace and cache *)
  Theorem commit_stage_fails_if_output_fails fuel st done inprog sp stg a :
    alookup sp (i_idx st) = Some stg -> mem sp done = false -> In a (s_outputs stg) ->
    (forall root c, commit_top H a root c strat = Err) ->
    commit_stage H fuel st strat done inprog sp = Err.
  Proof.
    intros Hstg Hnd Ha Hbad.
    apply (commit_stage_fails_if_output_fails_inv (fun _ _ => True) fuel st done inprog sp stg a
                                                  cm_stable_True I Hstg Hnd Ha).
    intros r c0 _. apply Hbad.
  Qed.

  (* the command, as System.step runs it: [b] is a target, or upstream of a target *)
  Theorem commit_targets_fails_if_output_fails_inv (Q : node -> cache -> Prop) fuel ts idx0 root c t stg a :
    cm_stable Q -> Q root c ->
    In t ts -> alookup t idx0 = Some stg -> In a (s_outputs stg) -> cm_bad_output Q a ->
    commit_targets H strat fuel ts (Ok (mkI idx0 root c, [])) = Err.
  Proof.
    intros HQs HQ Ht Hstg Ha Hbad.
    destruct (commit_targets H strat fuel ts (Ok (mkI idx0 root c, []))) as [[st' done']|] eqn:Hrun;
      [|reflexivity].
    exfalso.
    destruct (commit_targets_linv Q HQs idx0 [] fuel ts _ _ _ _ (cm_linv_init Q (mkI idx0 root c) [] HQ) Hrun)
      as [_ [_ Hnb]].
    destruct (commit_targets_done_targets _ _ _ _ _ _ Hrun) as [_ Hts].
    destruct (Hnb t (Hts t Ht)) as [Hin|Hn]; [destruct Hin|].
    apply Hn. exists stg, a. split; [exact Hstg|]. split; [exact Ha|exact Hbad].
  Qed.

  Theorem commit_targets_fails_if_output_fails fuel ts idx0 root c t stg a :
    In t ts -> alookup t idx0 = Some stg -> In a (s_outputs stg) ->
    (forall root' c', commit_top H a root' c' strat = Err) ->
    commit_targets H strat fuel ts (Ok (mkI idx0 root c, [])) = Err.
  Proof.
    intros Ht Hstg Ha Hbad.
    apply (commit_targets_fails_if_output_fails_inv (fun _ _ => True) fuel ts idx0 root c t stg a
                                                    cm_stable_True I Ht Hstg Ha).
    intros r c0 _. apply Hbad.
  Qed.

  (* commit always recurses into the owners of the inputs: the same for every stage upstream of a
     target (the keys of the index are sorted, as load_index builds them) *)
  Theorem commit_targets_fails_if_output_fails_upstream (Q : node -> cache -> Prop) fuel ts idx0 root c t b stg a :
    ksorted (map fst idx0) ->
    cm_stable Q -> Q root c ->
    In t ts -> clos_refl_trans bytes (edge idx0) b t ->
    alookup b idx0 = Some stg -> In a (s_outputs stg) -> cm_bad_output Q a ->
    commit_targets H strat fuel ts (Ok (mkI idx0 root c, [])) = Err.
  Proof.
    intros Hsorted HQs HQ Ht Hup Hstg Ha Hbad.
    destruct (commit_targets H strat fuel ts (Ok (mkI idx0 root c, []))) as [[st' done']|] eqn:Hrun;
      [|reflexivity].
    exfalso.
    destruct (commit_targets_linv Q HQs idx0 [] fuel ts _ _ _ _ (cm_linv_init Q (mkI idx0 root c) [] HQ) Hrun)
      as [_ [_ Hnb]].
    destruct (commit_targets_post H strat idx0 Hsorted fuel ts (mkI idx0 root c) [] _ _
                                  (conj (ishape_refl idx0) (core_nil idx0)) Hrun) as [[_ Hc'] [_ Hts]].
    apply upstream_clos in Hup.
    pose proof (core_upstream idx0 _ _ _ Hc' Hup (Hts t Ht)) as Hb.
    destruct (Hnb b Hb) as [Hin|Hn]; [destruct Hin|].
    apply Hn. exists stg, a. split; [exact Hstg|]. split; [exact Ha|exact Hbad].
  Qed.
End CommitLift.

(* ------------------------------------------------------------------------------------------ *)
(* C19_corrupt_fails at command level                                                          *)
(* ------------------------------------------------------------------------------------------ *)
(* Every regular file of the workspace after a checkout was there before, at the same path, or is
   the copy of a cache object stored under the digest of its bytes.  Hence "no regular file of the
   workspace hashes to d" is stable when the object stored under d is corrupt, and in such a
   workspace the copy checkout of an artifact that reaches the corrupt object fails. *)
Definition oget (s : option node) (p : list bytes) : option node :=
  match s with Some n => get n p | None => None end.

Lemma get_app_oget : forall q n p, get n (q ++ p) = oget (get n q) p.
Proof.
  induction q as [|k r IH]; intros n p; [reflexivity|].
  cbn [app get]. destruct n as [b|d|t|es|]; try reflexivity.
  destruct (alookup k es) as [m|]; [apply IH|reflexivity].
Qed.

Lemma oget_dir_cons slot k q :
  oget (alookup k (slot_entries slot)) q = oget slot (k :: q).
Proof.
  destruct slot as [[b|d|t|es|]|]; cbn [slot_entries oget get alookup]; try reflexivity.
Qed.

Section NewFiles.
  Variable H : bytes -> bytes.
  Variable c : cache.
  Variable st : strategy.

  Definition from_cache (b : bytes) : Prop := exists o, cget c (H b) = Some o /\ o_data o = b.

  Lemma co_go_new_files f :
    (forall a slot r, checkout_node H f a slot c st = Ok r ->
        forall p b, oget r p = Some (File b) -> oget slot p = Some (File b) \/ from_cache b) ->
    forall kids es es', co_go H f c st kids es = Ok es' ->
      forall k q b, oget (alookup k es') q = Some (File b) ->
                    oget (alookup k es) q = Some (File b) \/ from_cache b.
  Proof.
    intros IHf. induction kids as [|[name child] r IH]; intros es es' Hg k q b Hb; cbn [co_go] in Hg.
    - injection Hg as <-. left. exact Hb.
    - destruct (checkout_node H f child (alookup name es) c st) as [v|] eqn:Hv; [|discriminate].
      destruct (IH _ _ Hg k q b Hb) as [Hmid|Hfc]; [|right; exact Hfc].
      destruct (bytes_dec k name) as [Heq|Hne].
      + subst k. rewrite alookup_dset_same in Hmid. eapply IHf; eassumption.
      + rewrite alookup_dset_other in Hmid by exact Hne. left. exact Hmid.
  Qed.

  Lemma checkout_node_new_files : forall fuel a slot r,
    checkout_node H fuel a slot c st = Ok r ->
    forall p b, oget r p = Some (File b) -> oget slot p = Some (File b) \/ from_cache b.
  Proof.
    induction fuel as [|f IHf]; intros a slot r Hr p b Hb; [discriminate|].
    destruct (a_isdir a) eqn:Hd.
    - apply checkout_dir_inv in Hr as (o & m & es' & _ & _ & _ & _ & Hg & Hreq); [|exact Hd].
      subst r. destruct p as [|k q]; [discriminate|].
      cbn [oget get] in Hb.
      assert (Hb' : oget (alookup k es') q = Some (File b)).
      { destruct (alookup k es'); exact Hb. }
      destruct (co_go_new_files f IHf _ _ _ Hg k q b Hb') as [Hold|Hfc]; [|right; exact Hfc].
      left. rewrite <- oget_dir_cons. exact Hold.
    - rewrite checkout_file_node in Hr by exact Hd.
      apply checkout_file_ok in Hr
        as (_ & o & Hc & [(b0 & Hs & _ & Hrs)|[(_ & _ & Hrs)|[(_ & _ & Hrs)|(_ & _ & Ho & Hrs)]]]).
      + subst r. left. exact Hb.
      + subst r. left. exact Hb.
      + subst r. destruct p; discriminate.
      + subst r. destruct p as [|k q]; [|discriminate]. cbn [oget get] in Hb. injection Hb as <-.
        right. exists o. rewrite Ho. split; [exact Hc|reflexivity].
  Qed.

  Lemma put_new_files (G : Prop) b v : forall q root root',
    put root q (Some v) = Some root' ->
    (forall p', get v p' = Some (File b) -> oget (get root q) p' = Some (File b) \/ G) ->
    forall p, get root' p = Some (File b) -> get root p = Some (File b) \/ G.
  Proof.
    induction q as [|k r IH]; intros root root' Hput Hv p Hp.
    - cbn [put] in Hput. injection Hput as <-. cbn [get oget] in Hv. apply Hv. exact Hp.
    - destruct root as [b0|d|t|es|]; cbn [put] in Hput; try discriminate.
      assert (Hex : exists m', root' = Dir (dset es k (Some m')) /\
                forall p', get m' p' = Some (File b) ->
                           oget (alookup k es) p' = Some (File b) \/ G).
      { cbn [get] in Hv. destruct (alookup k es) as [m|] eqn:Hm.
        - destruct r as [|y r].
          + injection Hput as <-. exists v. split; [reflexivity|]. exact Hv.
          + destruct (put m (y :: r) (Some v)) as [m'|] eqn:Hpm; [|discriminate].
            injection Hput as <-. exists m'. split; [reflexivity|]. cbn [oget].
            exact (IH m m' Hpm Hv).
        - destruct r as [|y r].
          + injection Hput as <-. exists v. split; [reflexivity|]. exact Hv.
          + destruct (put (Dir []) (y :: r) (Some v)) as [m'|] eqn:Hpm; [|discriminate].
            injection Hput as <-. exists m'. split; [reflexivity|]. intros p' Hp'.
            destruct (IH (Dir []) m' Hpm Hv p' Hp') as [Hold|HG]; [|right; exact HG].
            destruct p' as [|z p']; discriminate. }
      destruct Hex as [m' [Hr Hm']]. subst root'.
      destruct p as [|k' r']; [discriminate|]. cbn [get] in Hp |- *.
      destruct (bytes_dec k' k) as [Heq|Hne].
      + subst k'. rewrite alookup_dset_same in Hp.
        destruct (Hm' r' Hp) as [Hold|HG]; [|right; exact HG].
        left. destruct (alookup k es); exact Hold.
      + rewrite alookup_dset_other in Hp by exact Hne. left. exact Hp.
  Qed.

  Lemma checkout_top_new_files fuel a root root' :
    checkout_top H fuel a root c st = Ok root' ->
    forall p b, get root' p = Some (File b) -> get root p = Some (File b) \/ from_cache b.
  Proof.
    unfold checkout_top. destruct (a_skip a) eqn:Hs.
    - intros Heq p b Hp. injection Heq as <-. left. exact Hp.
    - unfold slot_of. destruct (blocked root (comps (a_path a))); [discriminate|].
      unfold checkout_art. rewrite Hs.
      destruct (checkout_node H fuel a (get root (comps (a_path a))) c st) as [slot'|] eqn:Hn;
        [|discriminate].
      destruct (checkout_node_some _ _ _ _ _ _ _ Hn) as [n' Hn']. subst slot'.
      destruct (put root (comps (a_path a)) (Some n')) as [r|] eqn:Hput; [|discriminate].
      intros Heq p b Hp. injection Heq as <-.
      eapply put_new_files; [exact Hput| |exact Hp].
      intros p' Hp'. eapply (checkout_node_new_files _ _ _ _ Hn p' b). exact Hp'.
  Qed.
End NewFiles.

Section CorruptLift.
  Variable H : bytes -> bytes.
  Variable idx : index.
  Variable c : cache.

  (* no regular file anywhere in the workspace has bytes that hash to d *)
  Definition no_file_hashing (d : bytes) (root : node) : Prop :=
    forall p b, get root p = Some (File b) -> H b <> d.

  Lemma no_file_hashing_stable st x :
    corrupt H c x -> co_stable H c st (no_file_hashing (a_cs x)).
  Proof.
    intros (_ & o & Hc & Hne) fuel a root root' HQ Htop p b Hp Hb.
    destruct (checkout_top_new_files H c st _ _ _ _ Htop p b Hp) as [Hold|[o' [Hc' Ho']]].
    - exact (HQ p b Hold Hb).
    - rewrite Hb, Hc in Hc'. injection Hc' as <-. rewrite Ho' in Hne. contradiction.
  Qed.

  (* C19_corrupt_fails for an arbitrary slot that holds no regular file with the digest *)
  Lemma corrupt_fails_any a x :
    reaches c a x -> corrupt H c x ->
    forall fuel slot,
      (forall p b, oget slot p = Some (File b) -> H b <> a_cs x) ->
      checkout_node H fuel a slot c Copy = Err.
  Proof.
    intros Hreach (Hxf & o & Hxc & Hxne).
    induction Hreach as [a|a o' m k ch x Hd Hc Hm Hin Hreach IH]; intros [|f] slot Hslot; try reflexivity.
    - rewrite checkout_file_node by exact Hxf.
      destruct (checkout_file H a slot c Copy) as [r|] eqn:Hr; [|reflexivity]. exfalso.
      apply checkout_file_ok in Hr
        as (_ & o2 & Hc2 & [(b0 & Hs & Hb & _)|[(_ & Hst & _)|[(_ & Hst & _)|(_ & _ & Ho & _)]]]);
        try discriminate.
      + subst slot. exact (Hslot [] b0 eq_refl Hb).
      + rewrite Hxc in Hc2. injection Hc2 as <-. contradiction.
    - destruct (checkout_node H (S f) a slot c Copy) as [r|] eqn:Hr; [|reflexivity]. exfalso.
      apply checkout_dir_inv in Hr as (o2 & m2 & es' & _ & Hc2 & Hm2 & _ & Hg & _); [|exact Hd].
      rewrite Hc in Hc2. injection Hc2 as <-. rewrite Hm in Hm2. injection Hm2 as <-.
      destruct (co_go_child _ _ _ _ _ _ _ (dec_manifest_sorted _ _ Hm) Hg _ _ Hin) as (v & Hv & _).
      rewrite (IH Hxf Hxc Hxne f (alookup k (slot_entries slot))) in Hv; [discriminate|].
      intros p b Hp. rewrite oget_dir_cons in Hp. exact (Hslot _ _ Hp).
  Qed.

  Lemma corrupt_output_bad a x :
    a_skip a = false -> reaches c a x -> corrupt H c x ->
    co_bad_output H c Copy (no_file_hashing (a_cs x)) a.
  Proof.
    intros Hs Hreach Hcor root HQ. unfold checkout_top. rewrite Hs. unfold slot_of.
    destruct (blocked root (comps (a_path a))); [reflexivity|].
    unfold checkout_art. rewrite Hs.
    rewrite (corrupt_fails_any a x Hreach Hcor 64 (get root (comps (a_path a)))); [reflexivity|].
    intros p b Hp. rewrite <- get_app_oget in Hp. exact (HQ _ _ Hp).
  Qed.

  (* C19 for the command: the copy checkout of targets whose visited stages have an output (file,
     or directory at any depth through the manifests) that reaches a corrupt cache object fails,
     from every workspace in which no regular file already carries that digest (e.g. an empty
     one).  Without that premise the statement is false: a file that already has the recorded
     digest is left alone and nothing is copied. *)
  Theorem checkout_targets_corrupt_fails (recursive : bool) fuel ts root t b stg a x :
    In t ts -> (if recursive then clos_refl_trans bytes (edge idx) b t else b = t) ->
    alookup b idx = Some stg -> In a (s_outputs stg) -> a_skip a = false ->
    reaches c a x -> corrupt H c x ->
    (forall p bs, get root p = Some (File bs) -> H bs <> a_cs x) ->
    checkout_targets H idx c Copy recursive fuel ts (Ok (root, [])) = Err.
  Proof.
    intros Ht Hb Hstg Ha Hs Hreach Hcor Hroot.
    apply (checkout_targets_fails_if_output_fails_inv H idx c Copy (no_file_hashing (a_cs x))
             (no_file_hashing_stable Copy x Hcor) recursive fuel ts root b Hroot).
    - exists t. split; [exact Ht|exact Hb].
    - exists stg, a. split; [exact Hstg|]. split; [exact Ha|]. apply corrupt_output_bad; assumption.
  Qed.
End CorruptLift.

(* ------------------------------------------------------------------------------------------ *)
(* an instance for commit: an output that is not in the workspace                              *)
(* ------------------------------------------------------------------------------------------ *)
(* [forall root c, commit_top H a root c strat = Err] holds of NO artifact (a regular file, resp.
   an empty directory with an empty cache, can always be committed), so the plain formulations of
   the commit theorems are only as strong as their premise; the [_inv] forms are the usable ones.
   The invariant of the typical failure: the entry at the path of the output is absent, and no
   commit creates an entry. *)
Section CommitAbsent.
  Variable H : bytes -> bytes.

  Lemma commit_entries_absent nr old st : forall es,
    Forall (fun e => forall a c n' c' a', commit_node H a (snd e) c st = Ok (n', c', a') ->
                       forall p, get (snd e) p = None -> get n' p = None) es ->
    forall c es' c' m,
      CommitProofs.commit_entries (commit_node H) nr old st es c = Ok (es', c', m) ->
      forall k q, oget (alookup k es) q = None -> oget (alookup k es') q = None.
  Proof.
    induction es as [|[name ch] r IH]; intros HF c es' c' m Hrun k q Hq.
    - apply CommitProofs.commit_entries_nil in Hrun. injection Hrun as -> _ _. exact Hq.
    - inversion HF as [|x y Hhead Htail]; subst.
      apply CommitProofs.commit_entries_cons in Hrun
        as [(_ & es1 & Hr & ->)|(_ & _ & ch' & c1 & child' & es1 & m1 & Hch & Hr & -> & _)];
        cbn [alookup] in Hq |- *; destruct (beqb k name).
      + exact Hq.
      + eapply IH; eassumption.
      + cbn [oget] in Hq |- *. cbn [snd] in Hhead. eapply Hhead; eassumption.
      + eapply IH; eassumption.
  Qed.

  Lemma commit_node_absent st : forall n a c n' c' a',
    commit_node H a n c st = Ok (n', c', a') -> forall p, get n p = None -> get n' p = None.
  Proof.
    assert (Hleaf : forall n a c n' c' a', is_dir n = false ->
               commit_node H a n c st = Ok (n', c', a') -> forall p, get n p = None -> get n' p = None).
    { intros n a c n' c' a' Hd Hrun p Hp. destruct p as [|k q]; [discriminate|].
      rewrite (CommitProofs.commit_node_leaf H a n c st Hd) in Hrun.
      destruct (a_isdir a); [discriminate|].
      apply CommitProofs.commit_file_inv in Hrun
        as [(_ & -> & _)|[(_ & b & -> & _ & [(_ & -> & _)|(_ & _ & ->)])|(d & o & -> & _ & -> & _)]];
        try exact Hp; try reflexivity.
      destruct st; reflexivity. }
    induction n as [b|d|t| |es IH] using node_ind'; intros a c n' c' a' Hrun p Hp;
      try (apply (fun Hd => Hleaf _ _ _ _ _ _ Hd Hrun p Hp); reflexivity).
    apply CommitProofs.commit_dir_inv in Hrun as (_ & old & es' & c1 & m & _ & He & -> & _).
    destruct p as [|k q]; [discriminate|]. cbn [get] in Hp |- *.
    assert (Hq : oget (alookup k es) q = None) by (destruct (alookup k es); exact Hp).
    pose proof (commit_entries_absent _ _ _ es IH _ _ _ _ He k q Hq) as Hq'.
    destruct (alookup k es'); exact Hq'.
  Qed.

  Lemma put_absent v : forall q root root' n,
    get root q = Some n -> put root q (Some v) = Some root' ->
    (forall p', get n p' = None -> get v p' = None) ->
    forall p, get root p = None -> get root' p = None.
  Proof.
    induction q as [|k r IH]; intros root root' n Hg Hput Hv p Hp.
    - cbn [put] in Hput. injection Hput as <-. cbn [get] in Hg. injection Hg as <-. apply Hv. exact Hp.
    - destruct root as [b0|d|t|es|]; cbn [put] in Hput; try discriminate.
      cbn [get] in Hg. destruct (alookup k es) as [m|] eqn:Hm; [|discriminate].
      assert (Hex : exists m', root' = Dir (dset es k (Some m')) /\
                               forall p', get m p' = None -> get m' p' = None).
      { destruct r as [|y r].
        - injection Hput as <-. cbn [get] in Hg. injection Hg as <-. exists v. split; [reflexivity|exact Hv].
        - destruct (put m (y :: r) (Some v)) as [m'|] eqn:Hpm; [|discriminate].
          injection Hput as <-. exists m'. split; [reflexivity|]. exact (IH m m' n Hg Hpm Hv). }
      destruct Hex as [m' [-> Hm']].
      destruct p as [|k' r']; [discriminate|]. cbn [get] in Hp |- *.
      destruct (bytes_dec k' k) as [Heq|Hne].
      + subst k'. rewrite alookup_dset_same. rewrite Hm in Hp. apply Hm'. exact Hp.
      + rewrite alookup_dset_other by exact Hne. exact Hp.
  Qed.

  (* the premise of the plain formulations is unsatisfiable: every artifact can be committed in
     SOME workspace and cache *)
  Fixpoint mk_at (p : list bytes) (n : node) : node :=
    match p with [] => n | k :: r => Dir [(k, mk_at r n)] end.

  Lemma mk_at_spec n : forall p,
    blocked (mk_at p n) p = false /\ get (mk_at p n) p = Some n /\
    forall v, exists r, put (mk_at p n) p (Some v) = Some r.
  Proof.
    induction p as [|k r [IHb [IHg IHp]]]; cbn [mk_at blocked get put].
    - split; [reflexivity|]. split; [reflexivity|]. intros v. exists v. reflexivity.
    - cbn [alookup]. rewrite beqb_refl. split; [exact IHb|]. split; [exact IHg|].
      intros v. destruct r as [|y r]; [eexists; reflexivity|].
      destruct (IHp v) as [m' Hm']. rewrite Hm'. eexists. reflexivity.
  Qed.

  Theorem commit_plain_premise_unsatisfiable st a :
    ~ (forall root c, commit_top H a root c st = Err).
  Proof.
    intros Hbad.
    set (n := if a_isdir a then Dir [] else File []).
    destruct (mk_at_spec n (comps (a_path a))) as [Hb [Hg Hp]].
    specialize (Hbad (mk_at (comps (a_path a)) n) []).
    unfold commit_top, slot_of in Hbad. rewrite Hb, Hg in Hbad. cbn [commit_art] in Hbad.
    destruct (commit_node H a n [] st) as [[[n1 c1] a1]|] eqn:Hn.
    - destruct (Hp n1) as [r Hr]. rewrite Hr in Hbad. discriminate.
    - clear Hbad. subst n. destruct (a_isdir a) eqn:Hd.
      + rewrite CommitProofs.commit_node_dir, Hd in Hn. unfold old_contents, cget in Hn. cbn [alookup] in Hn.
        destruct (has_cs (a_cs a)); cbn in Hn; discriminate.
      + cbn [commit_node] in Hn. rewrite Hd in Hn. unfold commit_file, qmatch in Hn.
        rewrite andb_false_r in Hn. destruct (a_skip a); [discriminate|]. destruct st; discriminate.
  Qed.

  Definition absent_at (p : list bytes) (root : node) (c : cache) : Prop := get root p = None.

  Lemma absent_stable st p : cm_stable H st (absent_at p).
  Proof.
    intros a root c root' c' a' HQ. unfold commit_top, slot_of.
    destruct (blocked root (comps (a_path a))); [discriminate|].
    destruct (get root (comps (a_path a))) as [n|] eqn:Hg; [|discriminate].
    cbn [commit_art].
    destruct (commit_node H a n c st) as [[[n1 c1] a1]|] eqn:Hn; [|discriminate].
    destruct (put root (comps (a_path a)) (Some n1)) as [r|] eqn:Hput; [|discriminate].
    intros Heq. injection Heq as <- _ _. unfold absent_at.
    eapply put_absent; [exact Hg|exact Hput| |exact HQ].
    intros p'. eapply commit_node_absent. exact Hn.
  Qed.

  Lemma absent_bad st a : cm_bad_output H st (absent_at (comps (a_path a))) a.
  Proof.
    intros root c HQ. unfold commit_top, slot_of.
    destruct (blocked root (comps (a_path a))); [reflexivity|].
    unfold absent_at in HQ. rewrite HQ. reflexivity.
  Qed.

  (* an output of a target, or of a stage upstream of a target, that is not in the workspace when
     `dud commit` starts makes the command fail *)
  Theorem commit_targets_missing_output_fails st fuel ts idx0 root c t b stg a :
    ksorted (map fst idx0) ->
    In t ts -> clos_refl_trans bytes (edge idx0) b t ->
    alookup b idx0 = Some stg -> In a (s_outputs stg) ->
    get root (comps (a_path a)) = None ->
    commit_targets H st fuel ts (Ok (mkI idx0 root c, [])) = Err.
  Proof.
    intros Hsorted Ht Hup Hstg Ha Habs.
    exact (commit_targets_fails_if_output_fails_upstream H st (absent_at (comps (a_path a)))
             fuel ts idx0 root c t b stg a Hsorted (absent_stable st _) Habs Ht Hup Hstg Ha
             (absent_bad st a)).
  Qed.
End CommitAbsent.

(* ------------------------------------------------------------------------------------------ *)
(* the same at the level of one dud command (System.step)                                      *)
(* ------------------------------------------------------------------------------------------ *)
Section StepLift.
  Variable H : bytes -> bytes.
  Variable sems : list (bytes * System.cmdsem).
  Variable w : System.world.
  Variable idx : index.
  Hypothesis unlocked : System.w_lock w = false.
  Hypothesis loaded : load_index (System.w_index w) (System.w_stages w) [] = Some idx.

  Definition co_recursive (targets : list bytes) (single : bool) : bool :=
    match targets with [] => true | _ => negb single end.

  Lemma alookup_nonempty {A} k (v : A) l : alookup k l = Some v -> l <> [].
  Proof. intros Hl Heq. subst l. discriminate. Qed.

  (* `dud checkout`: an output of a visited stage that fails from every workspace the command can
     have produced makes the command fail; the world is the one before *)
  Theorem checkout_step_fails_if_output_fails targets copy single t b stg a :
    In t (System.all_or targets idx) ->
    (if co_recursive targets single then clos_refl_trans bytes (edge idx) b t else b = t) ->
    alookup b idx = Some stg -> In a (s_outputs stg) ->
    (forall root', pframe (System.w_cache w) (System.strat_of copy) (System.w_root w) root' ->
                   checkout_top H 64 a root' (System.w_cache w) (System.strat_of copy) = Err) ->
    System.step H sems w (System.CCheckout targets copy single) = (w, false, System.ONone).
  Proof.
    intros Ht Hb Hstg Ha Hbad.
    rewrite (step_CCheckout H sems w idx unlocked loaded targets copy single (alookup_nonempty _ _ _ Hstg)).
    fold (co_recursive targets single).
    rewrite (checkout_targets_fails_if_output_fails_frame H idx (System.w_cache w) (System.strat_of copy)
               (co_recursive targets single) _ _ _ t b stg a Ht Hb Hstg Ha Hbad).
    reflexivity.
  Qed.

  (* `dud checkout --copy` that exits 0: every non-skip output of every visited stage is in the
     workspace with verified bytes *)
  Theorem checkout_step_copy_verified targets single w' out sp stg a :
    System.step H sems w (System.CCheckout targets true single) = (w', true, out) ->
    co_scope idx (co_recursive targets single) (System.all_or targets idx) sp ->
    alookup sp idx = Some stg -> In a (s_outputs stg) -> a_skip a = false ->
    exists n, get (System.w_root w') (comps (a_path a)) = Some n /\ verified H (System.w_cache w) a n.
  Proof.
    intros Hstep Hsc Hstg Ha Hsk.
    rewrite (step_CCheckout H sems w idx unlocked loaded targets true single (alookup_nonempty _ _ _ Hstg))
      in Hstep.
    fold (co_recursive targets single) in Hstep. cbn [System.strat_of] in Hstep.
    destruct (checkout_targets H idx (System.w_cache w) Copy (co_recursive targets single)
                               (System.fuel_of idx) (System.all_or targets idx) (Ok (System.w_root w, [])))
      as [[root' done']|] eqn:Hrun; [|discriminate].
    injection Hstep as <- _. cbn [System.w_root].
    eapply checkout_targets_copy_verified; [exact Hrun| |exact Hstg|exact Ha|exact Hsk].
    eapply checkout_targets_done_scope; eassumption.
  Qed.

  (* `dud commit`: an output of a target or of a stage upstream of a target whose commit fails in
     every state satisfying a commit-stable Q makes the command fail; the world (stage files
     included) is the one before *)
  Theorem commit_step_fails_if_output_fails_inv (Q : node -> cache -> Prop) targets copy t b stg a :
    cm_stable H (System.strat_of copy) Q -> Q (System.w_root w) (System.w_cache w) ->
    In t (System.all_or targets idx) -> clos_refl_trans bytes (edge idx) b t ->
    alookup b idx = Some stg -> In a (s_outputs stg) ->
    cm_bad_output H (System.strat_of copy) Q a ->
    System.step H sems w (System.CCommit targets copy) = (w, false, System.ONone).
  Proof.
    intros HQs HQ Ht Hup Hstg Ha Hbad.
    assert (Hne : System.all_or targets idx <> []).
    { intros Heq. rewrite Heq in Ht. destruct Ht. }
    rewrite (step_CCommit H sems w idx unlocked loaded targets copy Hne).
    rewrite (commit_targets_fails_if_output_fails_upstream H (System.strat_of copy) Q _ _ idx _ _ t b stg a
               (load_index_sorted _ _ _ _ loaded I) HQs HQ Ht Hup Hstg Ha Hbad).
    reflexivity.
  Qed.

  Theorem commit_step_fails_if_output_fails targets copy t b stg a :
    In t (System.all_or targets idx) -> clos_refl_trans bytes (edge idx) b t ->
    alookup b idx = Some stg -> In a (s_outputs stg) ->
    (forall root c, commit_top H a root c (System.strat_of copy) = Err) ->
    System.step H sems w (System.CCommit targets copy) = (w, false, System.ONone).
  Proof.
    intros Ht Hup Hstg Ha Hbad.
    apply (commit_step_fails_if_output_fails_inv (fun _ _ => True) targets copy t b stg a
             (cm_stable_True H (System.strat_of copy)) I Ht Hup Hstg Ha).
    intros r c0 _. apply Hbad.
  Qed.

  Theorem commit_step_missing_output_fails targets copy t b stg a :
    In t (System.all_or targets idx) -> clos_refl_trans bytes (edge idx) b t ->
    alookup b idx = Some stg -> In a (s_outputs stg) ->
    get (System.w_root w) (comps (a_path a)) = None ->
    System.step H sems w (System.CCommit targets copy) = (w, false, System.ONone).
  Proof.
    intros Ht Hup Hstg Ha Habs.
    exact (commit_step_fails_if_output_fails_inv (absent_at (comps (a_path a))) targets copy t b stg a
             (absent_stable H (System.strat_of copy) _) Habs Ht Hup Hstg Ha
             (absent_bad H (System.strat_of copy) a)).
  Qed.

  (* spelled out through the step-level lemma C07_failed_step_unchanged: exit code non-zero, no
     stage file (nor anything else) written *)
  Corollary commit_step_failing_output_no_stage_write targets copy t b stg a :
    In t (System.all_or targets idx) -> clos_refl_trans bytes (edge idx) b t ->
    alookup b idx = Some stg -> In a (s_outputs stg) ->
    (forall root c, commit_top H a root c (System.strat_of copy) = Err) ->
    snd (fst (System.step H sems w (System.CCommit targets copy))) = false /\
    fst (fst (System.step H sems w (System.CCommit targets copy))) = w /\
    System.w_stages (fst (fst (System.step H sems w (System.CCommit targets copy)))) = System.w_stages w.
  Proof.
    intros Ht Hup Hstg Ha Hbad.
    assert (Hf : snd (fst (System.step H sems w (System.CCommit targets copy))) = false).
    { rewrite (commit_step_fails_if_output_fails targets copy t b stg a Ht Hup Hstg Ha Hbad). reflexivity. }
    split; [exact Hf|].
    pose proof (SystemProofs.C07_failed_step_unchanged H sems w (System.CCommit targets copy) Hf) as Hw.
    split; [exact Hw|]. rewrite Hw. reflexivity.
  Qed.
End StepLift.

(* ------------------------------------------------------------------------------------------ *)
(* 4: examples (closed terms, vm_compute)                                                      *)
(* ------------------------------------------------------------------------------------------ *)
Module Examples.
  Local Open Scope N_scope.
  Definition Hd (b : bytes) : bytes := 49 :: 50 :: 51 :: b.        (* toy digest: "123" ++ b *)
  Definition str (x : string) : bytes := of_string x.
  Definition alpha := str "alpha".  Definition beta := str "beta".  Definition gamma := str "gamma".
  Definition out (p : string) (content : bytes) : artifact := mkArt (Hd content) (str p) false false false.
  Definition o1 := out "a.txt" alpha.
  Definition o2 := out "b.txt" beta.
  Definition o3 := out "c.txt" gamma.

  (* one stage with THREE outputs *)
  Definition sp : bytes := str "s.yaml".
  Definition stg : stage := mkStage [] (str "make") [] [] [o1; o2; o3].
  Definition idx : index := [(sp, stg)].

  Definition good : cache := cput (cput (cput [] (Hd alpha) alpha) (Hd beta) beta) (Hd gamma) gamma.
  (* the object of [content] removed / overwritten with other bytes *)
  Definition missing (content : bytes) : cache := aremove (Hd content) good.
  Definition corrupted (content : bytes) : cache :=
    map (fun kv => if beqb (fst kv) (Hd content) then (fst kv, mkObj (str "garbage") cache_perms) else kv) good.

  Definition co (c : cache) (st : strategy) : res (node * list bytes) :=
    checkout_targets Hd idx c st true (System.fuel_of idx) [sp] (Ok (Dir [], [])).

  Example all_good :
    co good Copy = Ok (Dir [(str "a.txt", File alpha); (str "b.txt", File beta); (str "c.txt", File gamma)], [sp]).
  Proof. vm_compute. reflexivity. Qed.

  (* the bad output FIRST, in the MIDDLE, LAST: the other two are fine, the command fails *)
  Example first_missing : co (missing alpha) Copy = Err.   Proof. vm_compute. reflexivity. Qed.
  Example middle_missing : co (missing beta) Copy = Err.   Proof. vm_compute. reflexivity. Qed.
  Example last_missing : co (missing gamma) Copy = Err.    Proof. vm_compute. reflexivity. Qed.
  Example first_corrupted : co (corrupted alpha) Copy = Err.   Proof. vm_compute. reflexivity. Qed.
  Example middle_corrupted : co (corrupted beta) Copy = Err.   Proof. vm_compute. reflexivity. Qed.
  Example last_corrupted : co (corrupted gamma) Copy = Err.    Proof. vm_compute. reflexivity. Qed.
  (* a missing object also fails the link checkout *)
  Example first_missing_link : co (missing alpha) Link = Err.  Proof. vm_compute. reflexivity. Qed.

  (* the corrupted objects really are corrupt in the sense of C19 *)
  Example first_is_corrupt : corrupt Hd (corrupted alpha) o1.
  Proof. split; [reflexivity|]. eexists. split; [vm_compute; reflexivity|]. vm_compute. discriminate. Qed.

  (* the first one again, by the theorem instead of by computation *)
  Example first_missing_thm : co (missing alpha) Copy = Err.
  Proof.
    apply (checkout_targets_missing_object_fails Hd idx (missing alpha) Copy true _ [sp] (Dir []) sp sp stg o1).
    - left. reflexivity.
    - apply rt_refl.
    - reflexivity.
    - left. reflexivity.
    - reflexivity.
    - vm_compute. reflexivity.
  Qed.

  (* a corrupted one by the theorem: the workspace is empty, so no file carries the digest *)
  Example first_corrupted_thm : co (corrupted alpha) Copy = Err.
  Proof.
    apply (checkout_targets_corrupt_fails Hd idx (corrupted alpha) true _ [sp] (Dir []) sp sp stg o1 o1).
    - left. reflexivity.
    - apply rt_refl.
    - reflexivity.
    - left. reflexivity.
    - reflexivity.
    - apply reach_here.
    - exact first_is_corrupt.
    - intros p bs Hp. destruct p as [|k q]; discriminate.
  Qed.

  (* the whole command *)
  Definition world_of (c : cache) : System.world :=
    System.mkW (Dir []) c [(sp, Some stg)] [sp] false.

  Example step_all_good :
    snd (fst (System.step Hd [] (world_of good) (System.CCheckout [] true false))) = true.
  Proof. vm_compute. reflexivity. Qed.
  Example step_first_corrupted :
    System.step Hd [] (world_of (corrupted alpha)) (System.CCheckout [] true false)
    = (world_of (corrupted alpha), false, System.ONone).
  Proof. vm_compute. reflexivity. Qed.
  Example step_middle_corrupted :
    System.step Hd [] (world_of (corrupted beta)) (System.CCheckout [sp] true true)
    = (world_of (corrupted beta), false, System.ONone).
  Proof. vm_compute. reflexivity. Qed.
  Example step_last_missing :
    System.step Hd [] (world_of (missing gamma)) (System.CCheckout [sp] false false)
    = (world_of (missing gamma), false, System.ONone).
  Proof. vm_compute. reflexivity. Qed.

  (* the conclusion of checkout_targets_copy_verified on the good run *)
  Example all_good_verified :
    forall a, In a (s_outputs stg) ->
              exists b, get (Dir [(str "a.txt", File alpha); (str "b.txt", File beta); (str "c.txt", File gamma)])
                            (comps (a_path a)) = Some (File b) /\ Hd b = a_cs a.
  Proof.
    intros a Ha.
    apply (checkout_targets_copy_verified_file Hd idx good true _ [sp] (Dir []) _ [sp] sp stg a all_good).
    - left. reflexivity.
    - reflexivity.
    - exact Ha.
    - destruct Ha as [<-|[<-|[<-|[]]]]; reflexivity.
    - destruct Ha as [<-|[<-|[<-|[]]]]; reflexivity.
  Qed.

  (* two stages: B consumes c.txt of A.  The recursive checkout of B visits A and fails on A's
     middle output; with --single A is not visited and B alone succeeds: the scope premise of the
     theorems (target, or upstream when recursive) cannot be dropped *)
  Definition delta := str "delta".
  Definition o4 := out "d.txt" delta.
  Definition spB : bytes := str "t.yaml".
  Definition stgB : stage := mkStage [] (str "make") [] [o3] [o4].
  Definition idx2 : index := [(sp, stg); (spB, stgB)].
  Definition c2 : cache := cput (missing beta) (Hd delta) delta.

  Example upstream_recursive_fails :
    checkout_targets Hd idx2 c2 Copy true (System.fuel_of idx2) [spB] (Ok (Dir [], [])) = Err.
  Proof. vm_compute. reflexivity. Qed.
  Example upstream_single_succeeds :
    checkout_targets Hd idx2 c2 Copy false (System.fuel_of idx2) [spB] (Ok (Dir [], []))
    = Ok (Dir [(str "d.txt", File delta)], [spB]).
  Proof. vm_compute. reflexivity. Qed.
  Example upstream_edge : edge idx2 sp spB.
  Proof. exists stgB, o3, o3. split; [reflexivity|]. split; [left; reflexivity|]. vm_compute. reflexivity. Qed.
  Example upstream_recursive_fails_thm :
    checkout_targets Hd idx2 c2 Copy true (System.fuel_of idx2) [spB] (Ok (Dir [], [])) = Err.
  Proof.
    apply (checkout_targets_missing_object_fails Hd idx2 c2 Copy true _ [spB] (Dir []) spB sp stg o2).
    - left. reflexivity.
    - apply rt_step. exact upstream_edge.
    - reflexivity.
    - right. left. reflexivity.
    - reflexivity.
    - vm_compute. reflexivity.
  Qed.

  (* commit: three outputs, the FIRST / MIDDLE / LAST is not in the workspace; nothing is written *)
  Definition fresh (p : string) : artifact := mkArt [] (str p) false false false.
  Definition stgC : stage := mkStage [] (str "make") [] [] [fresh "a.txt"; fresh "b.txt"; fresh "c.txt"].
  Definition ws (l : list (bytes * node)) : System.world :=
    System.mkW (Dir l) [] [(sp, Some stgC)] [sp] false.
  Definition fa := (str "a.txt", File alpha).
  Definition fb := (str "b.txt", File beta).
  Definition fc := (str "c.txt", File gamma).

  Example commit_all_present :
    snd (fst (System.step Hd [] (ws [fa; fb; fc]) (System.CCommit [] true))) = true.
  Proof. vm_compute. reflexivity. Qed.
  Example commit_first_absent :
    System.step Hd [] (ws [fb; fc]) (System.CCommit [] true) = (ws [fb; fc], false, System.ONone).
  Proof. vm_compute. reflexivity. Qed.
  Example commit_middle_absent :
    System.step Hd [] (ws [fa; fc]) (System.CCommit [] true) = (ws [fa; fc], false, System.ONone).
  Proof. vm_compute. reflexivity. Qed.
  Example commit_middle_absent_thm :
    System.step Hd [] (ws [fa; fc]) (System.CCommit [] true) = (ws [fa; fc], false, System.ONone).
  Proof.
    apply (commit_step_missing_output_fails Hd [] (ws [fa; fc]) [(sp, stgC)] eq_refl eq_refl
             [] true sp sp stgC (fresh "b.txt")).
    - left. reflexivity.
    - apply rt_refl.
    - reflexivity.
    - right. left. reflexivity.
    - vm_compute. reflexivity.
  Qed.
  Example commit_last_absent :
    System.step Hd [] (ws [fa; fb]) (System.CCommit [] false) = (ws [fa; fb], false, System.ONone).
  Proof. vm_compute. reflexivity. Qed.
End Examples.

Print Assumptions checkout_stage_fails_if_output_fails.
Print Assumptions checkout_stage_fails_if_output_fails_frame.
Print Assumptions checkout_stage_fails_if_output_fails_inv.
Print Assumptions checkout_targets_fails_if_output_fails.
Print Assumptions checkout_targets_fails_if_output_fails_frame.
Print Assumptions checkout_targets_fails_if_output_fails_inv.
Print Assumptions checkout_targets_missing_object_fails.
Print Assumptions checkout_targets_obstructed_fails.
Print Assumptions checkout_targets_corrupt_fails.
Print Assumptions checkout_targets_done_scope.
Print Assumptions checkout_targets_copy_verified.
Print Assumptions checkout_targets_copy_verified_file.
Print Assumptions checkout_targets_preserved.
Print Assumptions commit_stage_fails_if_output_fails.
Print Assumptions commit_stage_fails_if_output_fails_inv.
Print Assumptions commit_targets_fails_if_output_fails.
Print Assumptions commit_targets_fails_if_output_fails_inv.
Print Assumptions commit_targets_fails_if_output_fails_upstream.
Print Assumptions checkout_step_fails_if_output_fails.
Print Assumptions checkout_step_copy_verified.
Print Assumptions commit_plain_premise_unsatisfiable.
Print Assumptions commit_targets_missing_output_fails.
Print Assumptions commit_step_missing_output_fails.
Print Assumptions commit_step_fails_if_output_fails.
Print Assumptions commit_step_fails_if_output_fails_inv.
Print Assumptions commit_step_failing_output_no_stage_write.
Print Assumptions Examples.first_missing_thm.
Print Assumptions Examples.first_corrupted_thm.
Print Assumptions Examples.upstream_recursive_fails_thm.
Print Assumptions Examples.commit_middle_absent_thm.
Print Assumptions Examples.all_good_verified.
