(* C05 / C16: `dud status` tells the truth (Model/Cache.v [status_node], [status_file],
   [status_short]) and the Merkle checksum is injective on tracked content.
   Statements are the Props of Proofs/CacheDefs.v.

   Proved exactly as stated in CacheDefs:
     status_skip          : stmt_status_skip H
     short_agrees         : stmt_short_agrees H
     merkle_inj           : stmt_merkle_inj H          (merkle_inj_nocodec: without [codec_ok])
     status_after_commit  : stmt_status_after_commit H (uses neither [codec_ok], [man_plain] nor
                                                         [man_closed]; see codec_ok_holds)
   [stmt_status_iff H] is FALSE as stated, in two ways (module Cex, refuted with toy hashes):
     Cex.status_iff_needs_H_has      : ~ stmt_status_iff (fun b => b)
        a manifest child whose recorded checksum has < 3 characters but is a cache key;
     Cex.status_iff_needs_norec_flat : ~ stmt_status_iff Ht   (Ht injective, >= 3 characters)
        disable-recursion switched on after a recursive commit: the recorded manifest lists a
        sub-directory, status checks it and says "up to date", [tracked_view] drops it.
   Proved instead:
     status_sound      (ContentsMatch = true -> committed tree = workspace)   needs [norec_flat]
     status_complete   (committed tree = workspace -> ContentsMatch = true)   needs [keys_ok]
     status_iff_strong : the iff under [keys_ok c] and [norec_flat a c]
     status_iff_fixed  : the statement of CacheDefs + [H_has] + [norec_flat a c]
     status_iff_recursive : the statement of CacheDefs + [H_has] for [a_norec a = false]
     status_file_iff   : the file level
   ([H_inj] is not used by status_sound / status_complete / status_iff_*: [cache_ok] already
   ties an object's bytes to its digest; status_after_commit does use it.)  Non-vacuity examples at the end of module Cex. *)
From Coq Require Import PeanoNat NArith List Bool Sorted Lia.
From Coq Require String.
From DudV Require Import Base.Bytes Base.JsonStr Base.Json Model.Fs Model.Cache Proofs.CacheDefs.
From DudV Require Proofs.ManifestRT.   (* not imported: its boolean [wf_manifest] and order lemmas keep their qualified names *)
Import ListNotations.
Local Open Scope N_scope.

(* ================= generic facts: byte-string order, sorted association lists ================= *)

Lemma beqb_neq a b : beqb a b = false <-> a <> b.
Proof.
  split.
  - intros Hf He. apply beqb_eq in He. congruence.
  - intros Hn. destruct (beqb a b) eqn:E; [|reflexivity]. apply beqb_eq in E. contradiction.
Qed.

Lemma bltb_irrefl a : bltb a a = false.
Proof.
  induction a as [|x a IH]; [reflexivity|]. cbn [bltb]. rewrite N.ltb_irrefl. exact IH.
Qed.

Lemma bltb_trans a : forall b c, bltb a b = true -> bltb b c = true -> bltb a c = true.
Proof.
  induction a as [|x a IH]; intros [|y b] [|z c] Hab Hbc; cbn [bltb] in *; try discriminate; try reflexivity.
  destruct (x <? y) eqn:Exy.
  - apply N.ltb_lt in Exy. destruct (y <? z) eqn:Eyz.
    + apply N.ltb_lt in Eyz. assert (Hxz : (x <? z) = true) by (apply N.ltb_lt; lia). now rewrite Hxz.
    + destruct (z <? y) eqn:Ezy; [discriminate|].
      apply N.ltb_ge in Eyz, Ezy. assert (Hxz : (x <? z) = true) by (apply N.ltb_lt; lia). now rewrite Hxz.
  - destruct (y <? x) eqn:Eyx; [discriminate|].
    apply N.ltb_ge in Exy, Eyx. assert (x = y) by lia. subst y.
    destruct (x <? z) eqn:Exz; [reflexivity|]. destruct (z <? x) eqn:Ezx; [discriminate|].
    eapply IH; eassumption.
Qed.

Lemma bltb_total a : forall b, beqb a b = false -> bltb a b = false -> bltb b a = true.
Proof.
  induction a as [|x a IH]; intros [|y b] He Hl; cbn [bltb beqb] in *; try discriminate; try reflexivity.
  destruct (x <? y) eqn:Exy; [discriminate|]. destruct (y <? x) eqn:Eyx; [reflexivity|].
  apply N.ltb_ge in Exy, Eyx. assert (Hxy : x = y) by lia. subst y. rewrite N.eqb_refl in He.
  cbn [andb] in He. apply IH; assumption.
Qed.

Lemma bltb_neq a b : bltb a b = true -> a <> b.
Proof. intros Hl He. subst b. rewrite bltb_irrefl in Hl. discriminate. Qed.

(* strict order on the keys of association lists, any value type *)
Definition klt {A} (a b : bytes * A) : Prop := bltb (fst a) (fst b) = true.
Definition ksorted {A} (l : list (bytes * A)) : Prop := StronglySorted klt l.

Lemma ksorted_inv {A} (x : bytes * A) l :
  ksorted (x :: l) -> ksorted l /\ forall y, In y l -> bltb (fst x) (fst y) = true.
Proof.
  intros Hs. apply StronglySorted_inv in Hs as [Hs Hf]. split; [exact Hs|].
  intros y Hy. rewrite Forall_forall in Hf. exact (Hf y Hy).
Qed.

Lemma ksorted_cons {A} (x : bytes * A) l :
  ksorted l -> (forall y, In y l -> bltb (fst x) (fst y) = true) -> ksorted (x :: l).
Proof. intros Hs Hf. constructor; [exact Hs|]. apply Forall_forall. exact Hf. Qed.

Lemma ksorted_filter {A} (f : bytes * A -> bool) l : ksorted l -> ksorted (filter f l).
Proof.
  induction l as [|x l IH]; intros Hs; [exact Hs|].
  apply ksorted_inv in Hs as [Hs Hf]. cbn [filter]. destruct (f x).
  - apply ksorted_cons; [exact (IH Hs)|]. intros y Hy. apply filter_In in Hy as [Hy _]. exact (Hf y Hy).
  - exact (IH Hs).
Qed.

Lemma alookup_In {A} k (l : list (bytes * A)) v : alookup k l = Some v -> In (k, v) l.
Proof.
  induction l as [|[k' v'] l IH]; cbn [alookup]; [discriminate|].
  destruct (beqb k k') eqn:E.
  - intros Hv. injection Hv as ->. apply beqb_eq in E. subst k'. left; reflexivity.
  - intros Hv. right. exact (IH Hv).
Qed.

Lemma alookup_sorted_In {A} k v (l : list (bytes * A)) : ksorted l -> In (k, v) l -> alookup k l = Some v.
Proof.
  induction l as [|[k' v'] l IH]; intros Hs Hin; [destruct Hin|].
  apply ksorted_inv in Hs as [Hs Hf]. cbn [alookup]. destruct Hin as [He|Hin].
  - injection He as -> ->. now rewrite beqb_refl.
  - specialize (Hf _ Hin). cbn [fst] in Hf. apply bltb_neq in Hf.
    assert (Hn : beqb k k' = false) by (apply beqb_neq; congruence). rewrite Hn. exact (IH Hs Hin).
Qed.

Lemma alookup_key_in {A} k (l : list (bytes * A)) v : In (k, v) l -> alookup k l <> None.
Proof.
  induction l as [|[k' v'] l IH]; intros Hin; [destruct Hin|]. cbn [alookup].
  destruct (beqb k k') eqn:E; [discriminate|]. destruct Hin as [He|Hin].
  - injection He as -> ->. rewrite beqb_refl in E. discriminate.
  - exact (IH Hin).
Qed.

Lemma filter_nil_iff {A} (f : A -> bool) l : filter f l = [] <-> forall x, In x l -> f x = false.
Proof.
  induction l as [|x l IH]; cbn [filter].
  - split; [intros _ y []|reflexivity].
  - destruct (f x) eqn:E.
    + split; [discriminate|]. intros Hall. specialize (Hall x (or_introl eq_refl)). congruence.
    + rewrite IH. split.
      * intros Hall y [<-|Hy]; [exact E|exact (Hall y Hy)].
      * intros Hall y Hy. apply Hall. right; exact Hy.
Qed.

Lemma filter_all {A} (f : A -> bool) l : (forall x, f x = true) -> filter f l = l.
Proof. intros Hall. induction l as [|x l IH]; [reflexivity|]. cbn [filter]. rewrite Hall, IH. reflexivity. Qed.

Lemma Forall2_weaken {A B} (R Q : A -> B -> Prop) l1 l2 :
  (forall a b, R a b -> Q a b) -> Forall2 R l1 l2 -> Forall2 Q l1 l2.
Proof. intros Himp HF. induction HF; constructor; auto. Qed.

Lemma Forall2_In_l {A B} (R : A -> B -> Prop) l1 l2 x :
  Forall2 R l1 l2 -> In x l1 -> exists y, In y l2 /\ R x y.
Proof.
  intros HF. induction HF as [|a b l1 l2 Hab HF IH]; intros Hin; [destruct Hin|].
  destruct Hin as [<-|Hin].
  - exists b. split; [left; reflexivity|exact Hab].
  - destruct (IH Hin) as (y & Hy & HR). exists y. split; [right; exact Hy|exact HR].
Qed.

Lemma Forall2_In_r {A B} (R : A -> B -> Prop) l1 l2 y :
  Forall2 R l1 l2 -> In y l2 -> exists x, In x l1 /\ R x y.
Proof.
  intros HF. induction HF as [|a b l1 l2 Hab HF IH]; intros Hin; [destruct Hin|].
  destruct Hin as [<-|Hin].
  - exists a. split; [left; reflexivity|exact Hab].
  - destruct (IH Hin) as (x & Hx & HR). exists x. split; [right; exact Hx|exact HR].
Qed.

(* two strictly sorted association lists with the same key set are aligned *)
Lemma sorted_align {A B} (R : A -> B -> Prop) (l1 : list (bytes * A)) : forall (l2 : list (bytes * B)),
  ksorted l1 -> ksorted l2 ->
  (forall k a, In (k, a) l1 -> exists b, In (k, b) l2 /\ R a b) ->
  (forall k b, In (k, b) l2 -> exists a, In (k, a) l1) ->
  Forall2 (fun x y => fst x = fst y /\ R (snd x) (snd y)) l1 l2.
Proof.
  induction l1 as [|[k1 a1] l1 IH]; intros l2 Hs1 Hs2 H12 H21.
  - destruct l2 as [|[k2 b2] l2]; [constructor|].
    destruct (H21 k2 b2 (or_introl eq_refl)) as (a & []).
  - apply ksorted_inv in Hs1 as [Hs1 Hf1].
    destruct l2 as [|[k2 b2] l2].
    { destruct (H12 k1 a1 (or_introl eq_refl)) as (b & [] & _). }
    apply ksorted_inv in Hs2 as [Hs2 Hf2].
    assert (Hhead : k1 = k2 /\ R a1 b2).
    { destruct (H12 k1 a1 (or_introl eq_refl)) as (b & [Hb|Hb] & HR).
      - injection Hb as -> ->. split; [reflexivity|exact HR].
      - exfalso. specialize (Hf2 _ Hb). cbn [fst] in Hf2.
        destruct (H21 k2 b2 (or_introl eq_refl)) as (a & [Ha|Ha]).
        + injection Ha as -> ->. rewrite bltb_irrefl in Hf2. discriminate.
        + specialize (Hf1 _ Ha). cbn [fst] in Hf1.
          pose proof (bltb_trans _ _ _ Hf1 Hf2) as Hc. rewrite bltb_irrefl in Hc. discriminate. }
    destruct Hhead as [<- HR]. constructor; [split; [reflexivity|exact HR]|].
    apply IH; [exact Hs1|exact Hs2| |].
    + intros k a Hin. destruct (H12 k a (or_intror Hin)) as (b & [Hb|Hb] & HRb).
      * injection Hb as -> ->. specialize (Hf1 _ Hin). cbn [fst] in Hf1. rewrite bltb_irrefl in Hf1. discriminate.
      * exists b. split; assumption.
    + intros k b Hin. destruct (H21 k b (or_intror Hin)) as (a & [Ha|Ha]).
      * injection Ha as -> ->. specialize (Hf2 _ Hin). cbn [fst] in Hf2. rewrite bltb_irrefl in Hf2. discriminate.
      * exists a. exact Ha.
Qed.

(* ---- [ins_sorted] / [sort_kv] produce strictly sorted lists ---- *)
Lemma in_ins_sorted {A} k (v : A) l x : In x (ins_sorted k v l) -> x = (k, v) \/ In x l.
Proof.
  induction l as [|[k' v'] l IH]; cbn [ins_sorted].
  - intros [<-|[]]. left; reflexivity.
  - destruct (beqb k k').
    + intros [<-|Hin]; [left; reflexivity|right; right; exact Hin].
    + destruct (bltb k k').
      * intros [<-|Hin]; [left; reflexivity|right; exact Hin].
      * intros [<-|Hin]; [right; left; reflexivity|].
        destruct (IH Hin) as [->|Hin']; [left; reflexivity|right; right; exact Hin'].
Qed.

Lemma ins_sorted_ksorted {A} k (v : A) l : ksorted l -> ksorted (ins_sorted k v l).
Proof.
  induction l as [|[k' v'] l IH]; intros Hs; cbn [ins_sorted].
  - apply ksorted_cons; [constructor|intros y []].
  - apply ksorted_inv in Hs as [Hs Hf]. destruct (beqb k k') eqn:Eb.
    + apply beqb_eq in Eb. subst k'. apply ksorted_cons; [exact Hs|exact Hf].
    + destruct (bltb k k') eqn:El.
      * apply ksorted_cons; [apply ksorted_cons; assumption|].
        intros y [<-|Hy]; [exact El|]. cbn [fst]. eapply bltb_trans; [exact El|exact (Hf y Hy)].
      * apply ksorted_cons; [exact (IH Hs)|].
        intros y Hy. apply in_ins_sorted in Hy as [->|Hy]; [|exact (Hf y Hy)].
        cbn [fst]. apply bltb_total; [|exact El]. exact Eb.
Qed.

Lemma sort_kv_ksorted {A} (l : list (bytes * A)) : ksorted (sort_kv l).
Proof.
  unfold sort_kv. assert (Hg : forall acc : list (bytes * A), ksorted acc ->
    ksorted (fold_left (fun acc kv => ins_sorted (fst kv) (snd kv) acc) l acc)).
  { induction l as [|x l IH]; intros acc Hacc; cbn [fold_left]; [exact Hacc|].
    apply IH. apply ins_sorted_ksorted. exact Hacc. }
  apply Hg. constructor.
Qed.

(* the contents of a decoded manifest are strictly sorted by name *)
Lemma dec_manifest_sorted b m : dec_manifest b = Some m -> ksorted (m_contents m).
Proof.
  unfold dec_manifest. destruct (parse_json b) as [v|]; [|discriminate].
  unfold dec_manifest_v. destruct v as [| | | | |kv]; try discriminate.
  set (step := fun (acc : option manifest) (f : bytes * jv) => _).
  assert (Hinv : forall kv acc, (forall m0, acc = Some m0 -> ksorted (m_contents m0)) ->
                 forall m1, fold_left step kv acc = Some m1 -> ksorted (m_contents m1)).
  { clear. intros kv. induction kv as [|f kv IH]; intros acc Hacc m1 Hf; cbn [fold_left] in Hf.
    - exact (Hacc m1 Hf).
    - refine (IH _ _ m1 Hf). intros m0 Hm0. subst step. cbv beta in Hm0.
      destruct acc as [m|]; [|discriminate]. specialize (Hacc m eq_refl).
      destruct (fold_eq (fst f) s_path).
      { destruct (snd f); try discriminate; injection Hm0 as <-; exact Hacc. }
      destruct (fold_eq (fst f) s_contents).
      { destruct (snd f) as [| | | | |ckv]; try discriminate.
        - injection Hm0 as <-; exact Hacc.
        - destruct (dec_children ckv); [|discriminate]. injection Hm0 as <-.
          cbn [m_contents]. apply sort_kv_ksorted. }
      injection Hm0 as <-; exact Hacc. }
  destruct (fold_left step kv (Some (mkMan [] []))) as [m1|] eqn:Ef; [|discriminate].
  destruct (forallb _ _); [|discriminate]. intros Hm. injection Hm as <-.
  eapply Hinv; [|exact Ef]. intros m0 Hm0. injection Hm0 as <-. constructor.
Qed.

(* ================= cache construction facts ================= *)
Lemma alookup_ins_sorted {A} d k (v : A) l :
  alookup d (ins_sorted k v l) = if beqb d k then Some v else alookup d l.
Proof.
  induction l as [|[k' v'] l IH]; cbn [ins_sorted alookup].
  - reflexivity.
  - destruct (beqb k k') eqn:Ekk.
    + apply beqb_eq in Ekk. subst k'. cbn [alookup]. destruct (beqb d k); reflexivity.
    + destruct (bltb k k'); cbn [alookup].
      * reflexivity.
      * rewrite IH. destruct (beqb d k') eqn:Edk'; [|reflexivity].
        apply beqb_eq in Edk'. subst k'. destruct (beqb d k) eqn:Edk; [|reflexivity].
        apply beqb_eq in Edk. subst k. rewrite beqb_refl in Ekk. discriminate.
Qed.

Lemma cget_cput c d b d' :
  cget (cput c d b) d' = if beqb d' d then Some (mkObj b cache_perms) else cget c d'.
Proof. unfold cget, cput. apply alookup_ins_sorted. Qed.

Lemma cache_ok_nil H : cache_ok H [].
Proof. intros d o Hg. discriminate. Qed.

Lemma cache_ok_cput H c b : cache_ok H c -> cache_ok H (cput c (H b) b).
Proof.
  intros Hc d o Hg. rewrite cget_cput in Hg. destruct (beqb d (H b)) eqn:E.
  - apply beqb_eq in E. injection Hg as <-. split; [exact E|reflexivity].
  - exact (Hc d o Hg).
Qed.

Lemma man_plain_nil : man_plain [].
Proof. intros d o m Hg. discriminate. Qed.

Lemma man_plain_cput c d b :
  man_plain c ->
  (forall m, dec_manifest b = Some m -> Forall (fun kv => plain_child (snd kv)) (m_contents m)) ->
  man_plain (cput c d b).
Proof.
  intros Hc Hb d' o m Hg Hm. rewrite cget_cput in Hg. destruct (beqb d' d).
  - injection Hg as <-. exact (Hb m Hm).
  - exact (Hc d' o m Hg Hm).
Qed.

(* ================= the manifest codec round trip, from Proofs/ManifestRT ================= *)
Lemma wf_text_okb s : wf_text s -> ManifestRT.okb s = true.
Proof.
  intros [Hv Hb]. unfold ManifestRT.okb. rewrite Hv. cbn [andb]. unfold wf_bytes.
  apply forallb_forall. intros b Hin. unfold bytes_ok in Hb. rewrite Forall_forall in Hb.
  unfold is_byte. apply N.ltb_lt. exact (Hb b Hin).
Qed.

Lemma ksorted_ssorted {A} (l : list (bytes * A)) : ksorted l -> ManifestRT.ssorted l = true.
Proof.
  induction l as [|x l IH]; intros Hs; [reflexivity|]. apply ksorted_inv in Hs as [Hs Hf].
  cbn [ManifestRT.ssorted]. rewrite (IH Hs), andb_true_r. unfold ManifestRT.keys_gt.
  apply forallb_forall. exact Hf.
Qed.

(* like [wf_manifest] of CacheDefs, without any condition on the flags of the entries *)
Definition wf_manifest_flags (m : manifest) : Prop :=
  wf_text (m_path m) /\ ksorted (m_contents m) /\
  Forall (fun kv => a_path (snd kv) = fst kv /\ valid_entry_name (fst kv) = true /\
                    wf_text (fst kv) /\ wf_text (a_cs (snd kv))) (m_contents m).

Lemma codec_flags m : wf_manifest_flags m -> dec_manifest (enc_manifest m) = Some m.
Proof.
  intros (Hp & Hs & He). apply ManifestRT.dec_enc_manifest. unfold ManifestRT.wf_manifest.
  rewrite (wf_text_okb _ Hp), (ksorted_ssorted _ Hs). cbn [andb].
  unfold ManifestRT.wf_entries. apply forallb_forall. intros kv Hin. rewrite Forall_forall in He.
  destruct (He kv Hin) as (H1 & H2 & H3 & H4). unfold ManifestRT.wf_entry.
  rewrite H1, beqb_refl, H2, (wf_text_okb _ H3), (wf_text_okb _ H4). reflexivity.
Qed.

(* the premise [codec_ok] of the statements of CacheDefs is a theorem *)
Theorem codec_ok_holds : codec_ok.
Proof.
  intros m (Hp & Hs & He). apply codec_flags. split; [exact Hp|]. split; [exact Hs|].
  eapply Forall_impl; [|exact He]. intros kv (H1 & H2 & H3 & H4 & _). repeat split; assumption || apply H3 || apply H4.
Qed.

Section Status.
  Variable H : bytes -> bytes.

  (* ================= 1. skip-cache files, short-circuit ================= *)

  Theorem status_skip : stmt_status_skip H.
  Proof.
    intros a b c Hdir Hskip Hhas.
    unfold status_file, quick. rewrite Hskip, Hhas. cbn [st_cm]. apply beqb_eq.
  Qed.

  (* a directory artifact without a usable manifest never matches *)
  Lemma status_dir_not_inc fuel a slot c s :
    a_isdir a = true -> status_node H fuel a slot c = Ok s ->
    has_cs (a_cs a) && in_cache c (a_cs a) = false -> st_cm s = false.
  Proof.
    intros Hdir Hst Hinc. destruct fuel as [|f]; [discriminate|].
    cbn [status_node] in Hst. rewrite Hdir in Hst. unfold quick in Hst. rewrite Hinc in Hst.
    destruct slot as [[| | |es|]|]; try (injection Hst as <-; reflexivity).
    destruct (filter _ _) as [|u us].
    - injection Hst as <-. reflexivity.
    - match type of Hst with match ?g with _ => _ end = _ => destruct g end; [|discriminate].
      injection Hst as <-. reflexivity.
  Qed.

  Theorem short_agrees : stmt_short_agrees H.
  Proof.
    intros fuel a slot c s Hst. unfold status_short.
    destruct (a_isdir a) eqn:Hdir.
    - unfold quick.
      destruct (has_cs (a_cs a) && (has_cs (a_cs a) && in_cache c (a_cs a))) eqn:Hinc; cbn [negb].
      + rewrite Hst. reflexivity.
      + rewrite (status_dir_not_inc fuel a slot c s Hdir Hst); [reflexivity|].
        destruct (has_cs (a_cs a)); [exact Hinc|reflexivity].
    - destruct fuel as [|f]; [discriminate|]. cbn [status_node] in Hst. rewrite Hdir in Hst.
      injection Hst as <-. reflexivity.
  Qed.

  (* ================= 2. status tells the truth (C05) ================= *)

  (* ---- the nested fixpoints of [status_node] and [expand], named ---- *)
  Definition kids_go (f : nat) (es : list (bytes * node)) (c : cache) :=
    fix go (kids : list (bytes * artifact)) : res (list (bytes * stree) * bool) :=
      match kids with
      | [] => Ok ([], true)
      | (name, child) :: r =>
        match status_node H f child (alookup name es) c, go r with
        | Ok s, Ok (l, cm) => Ok ((a_path child, s) :: l, st_cm s && cm)
        | _, _ => Err
        end
      end.

  Definition untr_go (f : nat) (c : cache) :=
    fix go2 (us : list (bytes * node)) : res (list (bytes * stree)) :=
      match us with
      | [] => Ok []
      | (name, n) :: r =>
        match status_node H f (fresh_art name (is_dir n)) (Some n) c, go2 r with
        | Ok s, Ok l => Ok ((name, s) :: l)
        | _, _ => Err
        end
      end.

  (* what readDir returns for the artifact, and the entries not named by the manifest *)
  Definition listed (a : artifact) (es : list (bytes * node)) : list (bytes * node) :=
    filter (fun e => negb (a_norec a && is_dir (snd e))) es.
  Definition untracked (mc : list (bytes * artifact)) (l : list (bytes * node)) : list (bytes * node) :=
    filter (fun e => match alookup (fst e) mc with Some _ => false | None => true end) l.

  Lemma status_node_dir f a es c : a_isdir a = true ->
    status_node H (S f) a (Some (Dir es)) c =
    let has := has_cs (a_cs a) in
    let inc := has && in_cache c (a_cs a) in
    match (if inc then
             match cget c (a_cs a) with
             | Some o =>
               match dec_manifest (o_data o) with
               | None => Err
               | Some m => match kids_go f es c (m_contents m) with
                           | Ok (l, cm) => Ok (m_contents m, l, cm)
                           | Err => Err
                           end
               end
             | None => Err
             end
           else Ok ([], [], false)) with
    | Err => Err
    | Ok (mc, kids, cm) =>
      match untracked mc (listed a es) with
      | [] => Ok (St a SDirectory has inc cm kids)
      | _ :: _ => match untr_go f c (untracked mc (listed a es)) with
                  | Ok l => Ok (St a SDirectory has inc false (sort_kv (kids ++ l)))
                  | Err => Err
                  end
      end
    end.
  Proof. intros Hd. cbn [status_node]. rewrite Hd. reflexivity. Qed.

  Lemma status_node_file f a slot c : a_isdir a = false ->
    status_node H (S f) a slot c = Ok (status_file H a slot c).
  Proof. intros Hd. cbn [status_node]. rewrite Hd. reflexivity. Qed.

  Lemma status_node_dir_other f a slot c : a_isdir a = true ->
    (forall es, slot <> Some (Dir es)) ->
    exists s, status_node H (S f) a slot c = Ok s /\ st_cm s = false.
  Proof.
    intros Hd Hn. cbn [status_node]. rewrite Hd. unfold quick.
    destruct slot as [[| | |es|]|]; try (eexists; split; [reflexivity|reflexivity]).
    exfalso. exact (Hn es eq_refl).
  Qed.

  Definition expand_go (f : nat) (c : cache) :=
    fix go (kids : list (bytes * artifact)) : option (list (bytes * node)) :=
      match kids with
      | [] => Some []
      | (k, ch) :: r => match expand f ch c, go r with
                        | Some t, Some l => Some ((k, t) :: l)
                        | _, _ => None
                        end
      end.

  Lemma expand_S f a c :
    expand (S f) a c =
    match cget c (a_cs a) with
    | None => None
    | Some o =>
      if a_isdir a then
        match dec_manifest (o_data o) with
        | None => None
        | Some m => option_map Dir (expand_go f c (m_contents m))
        end
      else Some (File (o_data o))
    end.
  Proof. reflexivity. Qed.

  (* ---- small facts ---- *)
  Lemma qmatch_true c cs slot :
    qmatch c cs slot = true <->
    has_cs cs = true /\ (exists o, cget c cs = Some o) /\ slot = Some (LinkC cs).
  Proof.
    unfold qmatch, in_cache. split.
    - intros Hq. apply andb_true_iff in Hq as [Hq Hl]. apply andb_true_iff in Hq as [Hh Hc].
      split; [exact Hh|]. split.
      + destruct (cget c cs) as [o|]; [exists o; reflexivity|discriminate].
      + destruct slot as [[| d | | |]|]; try discriminate. apply beqb_eq in Hl. now subst d.
    - intros (Hh & (o & Hc) & ->). rewrite Hh, Hc, beqb_refl. reflexivity.
  Qed.

  Lemma status_file_nonfile a slot c :
    (forall b, slot <> Some (File b)) -> st_cm (status_file H a slot c) = qmatch c (a_cs a) slot.
  Proof.
    intros Hn. unfold status_file, quick. destruct slot as [[b| | | |]|]; try reflexivity.
    exfalso. exact (Hn b eq_refl).
  Qed.

  Lemma status_file_file a b c : a_skip a = false ->
    st_cm (status_file H a (Some (File b)) c) =
    match cget c (a_cs a) with Some o => has_cs (a_cs a) && beqb b (o_data o) | None => false end.
  Proof.
    intros Hskip. unfold status_file, quick, qmatch, in_cache. rewrite Hskip.
    destruct (cget c (a_cs a)) as [o|]; destruct (has_cs (a_cs a)); reflexivity.
  Qed.

  Lemma status_none f a c s : status_node H f a None c = Ok s -> st_cm s = false.
  Proof.
    destruct f as [|f]; [discriminate|]. destruct (a_isdir a) eqn:Hd.
    - destruct (status_node_dir_other f a None c Hd) as (s' & Hs' & Hcm); [discriminate|].
      intros Hs. rewrite Hs in Hs'. injection Hs' as <-. exact Hcm.
    - rewrite (status_node_file f a None c Hd). intros Hs. injection Hs as <-.
      rewrite status_file_nonfile by discriminate.
      destruct (qmatch c (a_cs a) None) eqn:Hq; [|reflexivity].
      apply qmatch_true in Hq as (_ & _ & Hq). discriminate.
  Qed.

  Lemma is_dir_logical c n : is_dir (logical c n) = is_dir n.
  Proof. destruct n as [| d | | |]; try reflexivity. cbn [logical]. destruct (cget c d); reflexivity. Qed.

  Lemma logical_file_inv c n b :
    logical c n = File b -> n = File b \/ exists d o, n = LinkC d /\ cget c d = Some o /\ o_data o = b.
  Proof.
    destruct n as [b'| d | | |]; cbn [logical]; try discriminate.
    - intros Hb. left. exact Hb.
    - destruct (cget c d) as [o|] eqn:Hc; [|discriminate]. intros Hb. injection Hb as <-.
      right. exists d, o. repeat split; assumption.
  Qed.

  Definition lmap (c : cache) (es : list (bytes * node)) : list (bytes * node) :=
    map (fun e => (fst e, logical c (snd e))) es.

  Lemma logical_dir c es : logical c (Dir es) = Dir (lmap c es).
  Proof. reflexivity. Qed.

  Lemma tracked_view_rec a n : a_norec a = false -> tracked_view a n = n.
  Proof. intros Hn. destruct n; cbn [tracked_view]; try reflexivity. now rewrite Hn. Qed.

  Lemma tracked_view_dir a c es : tracked_view a (logical c (Dir es)) = Dir (lmap c (listed a es)).
  Proof.
    rewrite logical_dir. unfold listed. cbn [tracked_view]. destruct (a_norec a); cbn [andb].
    - f_equal. unfold lmap. induction es as [|[k n] es IH]; [reflexivity|].
      cbn [map filter fst snd]. rewrite is_dir_logical. destruct (is_dir n); cbn [negb].
      + exact IH.
      + cbn [map fst snd]. now rewrite IH.
    - now rewrite filter_all by reflexivity.
  Qed.

  Lemma tracked_view_file_inv a n b : tracked_view a n = File b -> n = File b.
  Proof.
    destruct n; cbn [tracked_view]; try discriminate; [now intros|]. destruct (a_norec a); discriminate.
  Qed.

  Lemma sorted_tree_dir es :
    sorted_tree (Dir es) -> ksorted es /\ forall k n, In (k, n) es -> sorted_tree n.
  Proof.
    cbn [sorted_tree]. intros [Hs Hall]. split; [exact Hs|].
    clear Hs. induction es as [|[k' n'] es IH]; intros k n Hin; [destruct Hin|].
    destruct Hall as [Hn Hall]. destruct Hin as [He|Hin].
    - injection He as -> ->. exact Hn.
    - exact (IH Hall k n Hin).
  Qed.

  (* ---- file level ---- *)
  Lemma file_sound a n c :
    cache_ok H c -> a_skip a = false -> st_cm (status_file H a (Some n) c) = true ->
    exists o, cget c (a_cs a) = Some o /\ logical c n = File (o_data o).
  Proof.
    intros Hc Hskip Hcm. destruct n as [b| d | t | es |].
    - rewrite (status_file_file a b c Hskip) in Hcm.
      destruct (cget c (a_cs a)) as [o|]; [|discriminate]. apply andb_true_iff in Hcm as [_ Hb].
      apply beqb_eq in Hb. subst b. exists o. split; reflexivity.
    - rewrite status_file_nonfile in Hcm by discriminate.
      apply qmatch_true in Hcm as (_ & (o & Ho) & He). injection He as ->.
      exists o. split; [exact Ho|]. cbn [logical]. now rewrite Ho.
    - rewrite status_file_nonfile in Hcm by discriminate. apply qmatch_true in Hcm as (_ & _ & He). discriminate.
    - rewrite status_file_nonfile in Hcm by discriminate. apply qmatch_true in Hcm as (_ & _ & He). discriminate.
    - rewrite status_file_nonfile in Hcm by discriminate. apply qmatch_true in Hcm as (_ & _ & He). discriminate.
  Qed.

  Lemma file_complete a n c o :
    cache_ok H c -> a_skip a = false -> has_cs (a_cs a) = true ->
    cget c (a_cs a) = Some o -> logical c n = File (o_data o) ->
    st_cm (status_file H a (Some n) c) = true.
  Proof.
    intros Hc Hskip Hhas Ho Hlog. apply logical_file_inv in Hlog as [->|(d & o' & -> & Ho' & Hd)].
    - rewrite (status_file_file a _ c Hskip), Ho, Hhas, beqb_refl. reflexivity.
    - rewrite status_file_nonfile by discriminate. apply qmatch_true.
      split; [exact Hhas|]. split; [exists o; exact Ho|].
      (* the object the link points to has the same bytes, hence the same digest *)
      destruct (Hc _ _ Ho') as [Hd1 _]. destruct (Hc _ _ Ho) as [Hd2 _].
      rewrite Hd in Hd1. congruence.
  Qed.

  (* ContentsMatch of a file artifact: the entry, links followed, is a regular file with the
     bytes of the cached object *)
  Theorem status_file_iff a n c :
    cache_ok H c -> a_skip a = false -> has_cs (a_cs a) = true ->
    (st_cm (status_file H a (Some n) c) = true <->
     exists o, cget c (a_cs a) = Some o /\ logical c n = File (o_data o)).
  Proof.
    intros Hc Hskip Hhas. split.
    - apply file_sound; assumption.
    - intros (o & Ho & Hlog). eapply file_complete; eassumption.
  Qed.

  (* ---- directory level ---- *)
  Lemma kids_go_ok f es c mc l cm :
    kids_go f es c mc = Ok (l, cm) ->
    forall k ch, In (k, ch) mc -> exists s, status_node H f ch (alookup k es) c = Ok s.
  Proof.
    revert l cm. induction mc as [|[k0 ch0] mc IH]; intros l cm Hgo k ch Hin; [destruct Hin|].
    cbn [kids_go] in Hgo. fold (kids_go f es c) in Hgo.
    destruct (status_node H f ch0 (alookup k0 es) c) as [s0|] eqn:Hs0; [|discriminate].
    destruct (kids_go f es c mc) as [[l' cm']|] eqn:Hgo'; [|discriminate].
    destruct Hin as [He|Hin].
    - injection He as -> ->. exists s0. exact Hs0.
    - exact (IH _ _ eq_refl k ch Hin).
  Qed.

  Lemma kids_go_cm f es c mc l cm :
    kids_go f es c mc = Ok (l, cm) ->
    (cm = true <->
     forall k ch s, In (k, ch) mc -> status_node H f ch (alookup k es) c = Ok s -> st_cm s = true).
  Proof.
    revert l cm. induction mc as [|[k0 ch0] mc IH]; intros l cm Hgo.
    - cbn [kids_go] in Hgo. injection Hgo as <- <-. split; [intros _ k ch s []|reflexivity].
    - cbn [kids_go] in Hgo. fold (kids_go f es c) in Hgo.
      destruct (status_node H f ch0 (alookup k0 es) c) as [s0|] eqn:Hs0; [|discriminate].
      destruct (kids_go f es c mc) as [[l' cm']|] eqn:Hgo'; [|discriminate].
      injection Hgo as <- <-. specialize (IH _ _ eq_refl). rewrite andb_true_iff, IH. split.
      + intros [H0 Hall] k ch s [He|Hin] Hs.
        * injection He as -> ->. rewrite Hs0 in Hs. injection Hs as <-. exact H0.
        * exact (Hall k ch s Hin Hs).
      + intros Hall. split.
        * exact (Hall k0 ch0 s0 (or_introl eq_refl) Hs0).
        * intros k ch s Hin Hs. exact (Hall k ch s (or_intror Hin) Hs).
  Qed.

  (* ContentsMatch of a directory whose entry is a directory: all manifest children match and
     nothing is untracked *)
  Lemma dir_cm_true f a es c s :
    a_isdir a = true -> status_node H (S f) a (Some (Dir es)) c = Ok s -> st_cm s = true ->
    exists o m l, has_cs (a_cs a) = true /\ cget c (a_cs a) = Some o /\
                  dec_manifest (o_data o) = Some m /\
                  kids_go f es c (m_contents m) = Ok (l, true) /\
                  untracked (m_contents m) (listed a es) = [].
  Proof.
    intros Hd Hs Hcm. rewrite (status_node_dir f a es c Hd) in Hs. cbv zeta in Hs.
    unfold in_cache in Hs.
    destruct (has_cs (a_cs a)); cbn [andb] in Hs.
    2:{ destruct (untracked [] (listed a es)).
        - injection Hs as <-. discriminate.
        - destruct (untr_go f c _); [|discriminate]. injection Hs as <-. discriminate. }
    destruct (cget c (a_cs a)) as [o|] eqn:Ho.
    2:{ destruct (untracked [] (listed a es)).
        - injection Hs as <-. discriminate.
        - destruct (untr_go f c _); [|discriminate]. injection Hs as <-. discriminate. }
    destruct (dec_manifest (o_data o)) as [m|] eqn:Hm; [|discriminate].
    destruct (kids_go f es c (m_contents m)) as [[l cm]|] eqn:Hgo; [|discriminate].
    destruct (untracked (m_contents m) (listed a es)) eqn:Hu.
    - injection Hs as <-. cbn [st_cm] in Hcm. subst cm. exists o, m, l. repeat split; reflexivity || assumption.
    - destruct (untr_go f c _); [|discriminate]. injection Hs as <-. discriminate.
  Qed.

  Lemma dir_cm_from f a es c s o m :
    a_isdir a = true -> status_node H (S f) a (Some (Dir es)) c = Ok s ->
    has_cs (a_cs a) = true -> cget c (a_cs a) = Some o -> dec_manifest (o_data o) = Some m ->
    exists l cm, kids_go f es c (m_contents m) = Ok (l, cm) /\
                 (cm = true -> untracked (m_contents m) (listed a es) = [] -> st_cm s = true).
  Proof.
    intros Hd Hs Hhas Ho Hm. rewrite (status_node_dir f a es c Hd) in Hs. cbv zeta in Hs.
    unfold in_cache in Hs. rewrite Hhas, Ho, Hm in Hs. cbn [andb] in Hs.
    destruct (kids_go f es c (m_contents m)) as [[l cm]|] eqn:Hgo; [|discriminate].
    exists l, cm. split; [reflexivity|]. intros -> Hu. rewrite Hu in Hs. injection Hs as <-. reflexivity.
  Qed.

  Definition child_ok (f : nat) (c : cache) (ch : artifact) (n : node) : Prop :=
    expand f ch c = Some (logical c n).

  Lemma expand_go_of_Forall2 f c mc L :
    Forall2 (fun x y => fst x = fst y /\ child_ok f c (snd x) (snd y)) mc L ->
    expand_go f c mc = Some (lmap c L).
  Proof.
    intros HF. induction HF as [|[k ch] [k' n] mc L [Hk Hc] HF IH]; [reflexivity|].
    cbn [fst snd] in Hk, Hc. subst k'. cbn [expand_go]. fold (expand_go f c).
    unfold child_ok in Hc. rewrite Hc, IH. reflexivity.
  Qed.

  Lemma expand_go_inv f c mc : forall L,
    expand_go f c mc = Some (lmap c L) ->
    Forall2 (fun x y => fst x = fst y /\ child_ok f c (snd x) (snd y)) mc L.
  Proof.
    induction mc as [|[k ch] mc IH]; intros L Hgo.
    - cbn [expand_go] in Hgo. destruct L; [constructor|discriminate].
    - cbn [expand_go] in Hgo. fold (expand_go f c) in Hgo.
      destruct (expand f ch c) as [t|] eqn:Ht; [|discriminate].
      destruct (expand_go f c mc) as [l|] eqn:Hl; [|discriminate].
      destruct L as [|[k' n] L]; [discriminate|]. cbn [lmap map fst snd] in Hgo.
      injection Hgo as -> -> ->. constructor.
      + cbn [fst snd]. split; [reflexivity|exact Ht].
      + apply IH. reflexivity.
  Qed.

  Lemma expand_kind f a c t : expand f a c = Some t -> is_dir t = a_isdir a.
  Proof.
    destruct f as [|f]; [discriminate|]. rewrite expand_S.
    destruct (cget c (a_cs a)) as [o|]; [|discriminate]. destruct (a_isdir a).
    - destruct (dec_manifest (o_data o)) as [m|]; [|discriminate].
      destruct (expand_go f c (m_contents m)); [|discriminate]. intros Ht. injection Ht as <-. reflexivity.
    - intros Ht. injection Ht as <-. reflexivity.
  Qed.

  (* the manifest of a non-recursive artifact lists no directories (what commit writes) *)
  Definition norec_flat (a : artifact) (c : cache) : Prop :=
    a_norec a = true -> forall o m, cget c (a_cs a) = Some o -> dec_manifest (o_data o) = Some m ->
      Forall (fun kv => a_isdir (snd kv) = false) (m_contents m).
  (* cache keys are usable checksums; follows from [cache_ok] and [H_has] *)
  Definition keys_ok (c : cache) : Prop := forall d o, cget c d = Some o -> has_cs d = true.

  Lemma keys_ok_of_has c : H_has H -> cache_ok H c -> keys_ok c.
  Proof. intros Hh Hc d o Ho. destruct (Hc d o Ho) as [-> _]. apply Hh. Qed.

  Definition status_rhs (fuel : nat) (a : artifact) (n : node) (c : cache) : Prop :=
    exists t, expand fuel a c = Some t /\ tracked_view a (logical c n) = t /\ kind_ok a n.

  (* ---- soundness: ContentsMatch = true only if the workspace is the committed tree ---- *)
  Theorem status_sound : forall fuel a n c s,
    cache_ok H c -> man_plain c -> sorted_tree n -> a_skip a = false -> norec_flat a c ->
    status_node H fuel a (Some n) c = Ok s -> st_cm s = true -> status_rhs fuel a n c.
  Proof.
    induction fuel as [|f IH]; intros a n c s Hc Hmp Hsn Hskip Hflat Hs Hcm; [discriminate|].
    unfold status_rhs. destruct (a_isdir a) eqn:Hd.
    - (* directory artifact *)
      destruct n as [b|d|t|es|];
        try (match type of Hs with status_node _ _ _ ?sl _ = _ =>
               destruct (status_node_dir_other f a sl c Hd) as (s' & Hs' & Hcm');
               [intros es' He; discriminate He | rewrite Hs in Hs'; injection Hs' as <-; congruence]
             end).
      destruct (dir_cm_true f a es c s Hd Hs Hcm) as (o & m & l & Hhas & Ho & Hm & Hgo & Hu).
      apply sorted_tree_dir in Hsn as [Hses Hsch].
      pose proof (Hmp _ _ _ Ho Hm) as Hplain. rewrite Forall_forall in Hplain.
      assert (HF : Forall2 (fun x y => fst x = fst y /\ child_ok f c (snd x) (snd y))
                           (m_contents m) (listed a es)).
      { apply sorted_align.
        - exact (dec_manifest_sorted _ _ Hm).
        - apply ksorted_filter. exact Hses.
        - intros k ch Hin.
          destruct (kids_go_ok _ _ _ _ _ _ Hgo k ch Hin) as (s' & Hs').
          pose proof (proj1 (kids_go_cm _ _ _ _ _ _ Hgo) eq_refl k ch s' Hin Hs') as Hcm'.
          destruct (alookup k es) as [n'|] eqn:Hlk.
          2:{ apply status_none in Hs'. congruence. }
          apply alookup_In in Hlk.
          destruct (Hplain _ Hin) as [Hnr Hsk]. cbn [snd] in Hnr, Hsk.
          destruct (IH ch n' c s' Hc Hmp (Hsch _ _ Hlk) Hsk) as (t & Ht & Htv & Hk); [|exact Hs'|exact Hcm'|].
          { intros Hnr'. congruence. }
          rewrite (tracked_view_rec _ _ Hnr) in Htv. subst t.
          exists n'. split; [|exact Ht].
          apply filter_In. split; [exact Hlk|]. cbn [snd].
          destruct (a_norec a) eqn:Hnra; [|reflexivity]. cbn [andb].
          specialize (Hflat Hnra _ _ Ho Hm). rewrite Forall_forall in Hflat.
          specialize (Hflat _ Hin). cbn [snd] in Hflat. unfold kind_ok in Hk.
          rewrite Hflat in Hk. rewrite <- Hk. reflexivity.
        - intros k n' Hin. pose proof (proj1 (filter_nil_iff _ _) Hu (k, n') Hin) as Hf.
          cbn [fst] in Hf. destruct (alookup k (m_contents m)) as [ch|] eqn:Hlk; [|discriminate].
          exists ch. exact (alookup_In _ _ _ Hlk). }
      exists (Dir (lmap c (listed a es))). split; [|split].
      + rewrite expand_S, Ho, Hd, Hm. rewrite (expand_go_of_Forall2 _ _ _ _ HF). reflexivity.
      + apply tracked_view_dir.
      + unfold kind_ok. rewrite Hd. reflexivity.
    - (* file artifact *)
      rewrite (status_node_file f a _ c Hd) in Hs. injection Hs as <-.
      destruct (file_sound a n c Hc Hskip Hcm) as (o & Ho & Hlog).
      exists (File (o_data o)). split; [|split].
      + rewrite expand_S, Ho, Hd. reflexivity.
      + rewrite Hlog. reflexivity.
      + unfold kind_ok. rewrite Hd, <- (is_dir_logical c n), Hlog. reflexivity.
  Qed.

  (* ---- completeness: if the workspace is the committed tree, ContentsMatch = true ---- *)
  Theorem status_complete : forall fuel a n c s,
    cache_ok H c -> keys_ok c -> man_plain c -> sorted_tree n -> a_skip a = false ->
    status_node H fuel a (Some n) c = Ok s -> status_rhs fuel a n c -> st_cm s = true.
  Proof.
    induction fuel as [|f IH]; intros a n c s Hc Hk Hmp Hsn Hskip Hs (t & Ht & Htv & Hkind); [discriminate|].
    rewrite expand_S in Ht. destruct (cget c (a_cs a)) as [o|] eqn:Ho; [|discriminate].
    pose proof (Hk _ _ Ho) as Hhas. unfold kind_ok in Hkind.
    destruct (a_isdir a) eqn:Hd.
    - destruct (dec_manifest (o_data o)) as [m|] eqn:Hm; [|discriminate].
      destruct (expand_go f c (m_contents m)) as [l'|] eqn:Hgo'; [|discriminate].
      cbn [option_map] in Ht. injection Ht as <-.
      destruct n as [b|d|t|es|]; try discriminate.
      rewrite tracked_view_dir in Htv. injection Htv as <-.
      apply sorted_tree_dir in Hsn as [Hses Hsch].
      pose proof (Hmp _ _ _ Ho Hm) as Hplain. rewrite Forall_forall in Hplain.
      pose proof (expand_go_inv _ _ _ _ Hgo') as HF.
      destruct (dir_cm_from f a es c s o m Hd Hs Hhas Ho Hm) as (l & cm & Hgo & Hfin).
      apply Hfin.
      + apply (kids_go_cm _ _ _ _ _ _ Hgo). intros k ch s' Hin Hs'.
        destruct (Forall2_In_l _ _ _ _ HF Hin) as ([k' n'] & Hin' & Hkk & Hch).
        cbn [fst snd] in Hkk, Hch. subst k'.
        apply filter_In in Hin' as [Hin' _].
        rewrite (alookup_sorted_In _ _ _ Hses Hin') in Hs'.
        destruct (Hplain _ Hin) as [Hnr Hsk]. cbn [snd] in Hnr, Hsk.
        apply (IH ch n' c s' Hc Hk Hmp (Hsch _ _ Hin') Hsk Hs').
        exists (logical c n'). split; [exact Hch|]. split; [apply tracked_view_rec; exact Hnr|].
        unfold kind_ok. rewrite <- (expand_kind _ _ _ _ Hch). apply is_dir_logical.
      + apply filter_nil_iff. intros [k n'] Hin. cbn [fst].
        destruct (Forall2_In_r _ _ _ _ HF Hin) as ([k' ch] & Hin' & Hkk & _).
        cbn [fst] in Hkk. subst k'.
        pose proof (alookup_key_in _ _ _ Hin') as Hne.
        destruct (alookup k (m_contents m)); [reflexivity|congruence].
    - injection Ht as <-. apply tracked_view_file_inv in Htv.
      rewrite (status_node_file f a _ c Hd) in Hs. injection Hs as <-.
      eapply file_complete; eassumption.
  Qed.

  (* ---- C05, with the two hypotheses the statement of CacheDefs lacks:
     - [keys_ok] (from [H_has]): otherwise a manifest child whose recorded checksum has fewer
       than 3 characters but names a cache object is never up to date;
     - [norec_flat]: otherwise a non-recursive artifact whose recorded manifest still lists
       sub-directories (the flag was switched on after a recursive commit) can be reported up to
       date although the tracked view drops directories.
     [has_cs (a_cs a) = true] of the original statement follows from [keys_ok] when needed. ---- *)
  Definition stmt_status_iff_strong : Prop :=
    forall fuel a n c s,
      cache_ok H c -> keys_ok c -> man_plain c -> sorted_tree n -> a_skip a = false -> norec_flat a c ->
      status_node H fuel a (Some n) c = Ok s ->
      (st_cm s = true <->
       exists t, expand fuel a c = Some t /\ tracked_view a (logical c n) = t /\ kind_ok a n).

  Theorem status_iff_strong : stmt_status_iff_strong.
  Proof.
    intros fuel a n c s Hc Hk Hmp Hsn Hskip Hflat Hs. split.
    - intros Hcm. exact (status_sound fuel a n c s Hc Hmp Hsn Hskip Hflat Hs Hcm).
    - intros Hr. exact (status_complete fuel a n c s Hc Hk Hmp Hsn Hskip Hs Hr).
  Qed.

  (* the statement of CacheDefs plus [H_has] and [norec_flat] *)
  Definition stmt_status_iff_fixed : Prop :=
    H_inj H -> H_has H -> forall fuel a n c s,
      cache_ok H c -> man_plain c -> sorted_tree n -> a_skip a = false -> has_cs (a_cs a) = true ->
      norec_flat a c ->
      status_node H fuel a (Some n) c = Ok s ->
      (st_cm s = true <->
       exists t, expand fuel a c = Some t /\ tracked_view a (logical c n) = t /\ kind_ok a n).

  Theorem status_iff_fixed : stmt_status_iff_fixed.
  Proof.
    intros _ Hh fuel a n c s Hc Hmp Hsn Hskip _ Hflat Hs.
    apply status_iff_strong; try assumption. apply keys_ok_of_has; assumption.
  Qed.

  (* for recursive artifacts (the default) the statement of CacheDefs holds under [H_has] *)
  Theorem status_iff_recursive :
    H_inj H -> H_has H -> forall fuel a n c s,
      cache_ok H c -> man_plain c -> sorted_tree n -> a_skip a = false -> has_cs (a_cs a) = true ->
      a_norec a = false ->
      status_node H fuel a (Some n) c = Ok s ->
      (st_cm s = true <->
       exists t, expand fuel a c = Some t /\ tracked_view a (logical c n) = t /\ kind_ok a n).
  Proof.
    intros Hi Hh fuel a n c s Hc Hmp Hsn Hskip Hhas Hnr Hs.
    apply status_iff_fixed; try assumption. intros Hnr'. congruence.
  Qed.

  (* ================= 3. Merkle injectivity (C16) ================= *)

  Definition merkle_go (norec : bool) :=
    fix go (es : list (bytes * node)) : option (list (bytes * artifact)) :=
      match es with
      | [] => Some []
      | (name, ch) :: r =>
        if norec && is_dir ch then go r else
        match merkle H name false ch, go r with
        | Some d, Some l => Some ((name, mkArt d name (is_dir ch) false false) :: l)
        | _, _ => None
        end
      end.

  Lemma merkle_dir p nr es :
    merkle H p nr (Dir es) =
    match merkle_go nr es with
    | Some l => Some (H (enc_manifest (mkMan p l)))
    | None => None
    end.
  Proof. reflexivity. Qed.

  Definition kept (nr : bool) (es : list (bytes * node)) : list (bytes * node) :=
    filter (fun e => negb (nr && is_dir (snd e))) es.

  Definition entry_rel (e : bytes * node) (kv : bytes * artifact) : Prop :=
    fst kv = fst e /\
    exists d, merkle H (fst e) false (snd e) = Some d /\ snd kv = mkArt d (fst e) (is_dir (snd e)) false false.

  Lemma merkle_go_spec nr es : forall l, merkle_go nr es = Some l -> Forall2 entry_rel (kept nr es) l.
  Proof.
    induction es as [|[name ch] es IH]; intros l Hgo; cbn [merkle_go] in Hgo; fold (merkle_go nr) in Hgo.
    - injection Hgo as <-. constructor.
    - unfold kept. cbn [filter snd]. fold (kept nr es).
      destruct (nr && is_dir ch); cbn [negb].
      + exact (IH l Hgo).
      + destruct (merkle H name false ch) as [d|] eqn:Hd; [|discriminate].
        destruct (merkle_go nr es) as [l'|]; [|discriminate]. injection Hgo as <-.
        constructor; [|exact (IH l' eq_refl)].
        split; [reflexivity|]. exists d. split; [exact Hd|reflexivity].
  Qed.

  Lemma node_ind2 (P : node -> Prop) :
    (forall b, P (File b)) -> (forall d, P (LinkC d)) -> (forall t, P (LinkO t)) -> P Other ->
    (forall es, Forall (fun e => P (snd e)) es -> P (Dir es)) ->
    forall n, P n.
  Proof.
    intros Hf Hlc Hlo Hot Hdir. fix rec 1. intros [b|d|t|es|].
    - apply Hf.
    - apply Hlc.
    - apply Hlo.
    - apply Hdir. induction es as [|[k n] es IHes]; constructor; [apply rec|exact IHes].
    - apply Hot.
  Qed.

  Lemma Forall2_same_r {A B} (R : A -> B -> Prop) x y l :
    Forall2 R x l -> Forall2 R y l -> Forall2 (fun a b => exists kv, R a kv /\ R b kv) x y.
  Proof.
    intros Hx. revert y. induction Hx as [|a kv x l Ha Hx IH]; intros y Hy.
    - inversion Hy; subst. constructor.
    - inversion Hy as [|b kv' y' l' Hb Hy']; subst. constructor; [|exact (IH _ Hy')].
      exists kv. split; assumption.
  Qed.

  Lemma Forall2_eq_In {A} (R : A -> A -> Prop) x y :
    Forall2 R x y -> (forall a b, In a x -> In b y -> R a b -> a = b) -> x = y.
  Proof.
    intros HF. induction HF as [|a b x y Hab HF IH]; intros Himp; [reflexivity|].
    rewrite (Himp a b (or_introl eq_refl) (or_introl eq_refl) Hab). f_equal.
    apply IH. intros a' b' Ha' Hb'. apply Himp; right; assumption.
  Qed.

  Lemma ksorted_keys {A} (l : list (bytes * A)) :
    ksorted l <-> StronglySorted (fun a b => bltb a b = true) (map fst l).
  Proof.
    induction l as [|x l IH]; cbn [map].
    - split; constructor.
    - split; intros Hs; apply StronglySorted_inv in Hs as [Hs Hf]; constructor.
      + apply IH; exact Hs.
      + rewrite Forall_map. exact Hf.
      + apply IH; exact Hs.
      + rewrite Forall_map in Hf. exact Hf.
  Qed.

  Lemma Forall2_keys {A B} (R : bytes * A -> bytes * B -> Prop) x y :
    Forall2 R x y -> (forall a b, R a b -> fst b = fst a) -> map fst y = map fst x.
  Proof.
    intros HF Hk. induction HF as [|a b x y Hab HF IH]; [reflexivity|].
    cbn [map]. rewrite IH, (Hk a b Hab). reflexivity.
  Qed.

  Lemma plain_dir_inv es :
    plain (Dir es) -> ksorted es /\ forall e, In e es -> good_name (fst e) /\ plain (snd e).
  Proof.
    intros Hp. inversion Hp as [|es' Hs Hf]; subst. split; [exact Hs|].
    rewrite Forall_forall in Hf. exact Hf.
  Qed.

  Lemma merkle_text : H_text H -> forall p nr n d, merkle H p nr n = Some d -> wf_text d.
  Proof.
    intros Ht p nr n d Hm. destruct n as [b| | |es|]; try discriminate.
    - cbn [merkle] in Hm. injection Hm as <-. apply Ht.
    - rewrite merkle_dir in Hm. destruct (merkle_go nr es); [|discriminate]. injection Hm as <-. apply Ht.
  Qed.

  (* the manifest the Merkle function hashes is well formed *)
  Lemma merkle_manifest_wf : H_text H -> forall p nr es l,
    wf_text p -> plain (Dir es) -> merkle_go nr es = Some l -> wf_manifest (mkMan p l).
  Proof.
    intros Ht p nr es l Hp Hpl Hgo. apply plain_dir_inv in Hpl as [Hs Hall].
    pose proof (merkle_go_spec nr es l Hgo) as HF.
    unfold wf_manifest. cbn [m_path m_contents]. split; [exact Hp|]. split.
    - change (ksorted l). apply ksorted_keys.
      rewrite (Forall2_keys _ _ _ HF) by (intros a b [Hk _]; exact Hk).
      apply ksorted_keys. apply ksorted_filter. exact Hs.
    - apply Forall_forall. intros kv Hin.
      destruct (Forall2_In_r _ _ _ _ HF Hin) as (e & He & Hk & d & Hd & Hkv).
      apply filter_In in He as [He _]. destruct (Hall e He) as [(Hu & Hv & Hb) _].
      rewrite Hkv, Hk. cbn [a_path a_cs]. split; [reflexivity|]. split; [exact Hv|].
      split; [split; [exact Hu|exact Hb]|]. split; [exact (merkle_text Ht _ _ _ _ Hd)|].
      split; reflexivity.
  Qed.

  Theorem merkle_inj : stmt_merkle_inj H.
  Proof.
    intros Hinj Ht Hcodec p nr n1. revert p nr.
    induction n1 as [b1|d1|t1| |es1 IH] using node_ind2; intros p nr n2 d Hp1 Hp2 Hk Hwp Hm1 Hm2;
      try (inversion Hp1; fail).
    - (* files *)
      destruct n2 as [b2| | |es2|]; try (inversion Hp2; fail); [|discriminate Hk].
      cbn [merkle] in Hm1, Hm2. rewrite <- Hm2 in Hm1. injection Hm1 as Hm1. apply Hinj in Hm1.
      subst b2. reflexivity.
    - (* directories *)
      destruct n2 as [b2| | |es2|]; try (inversion Hp2; fail); [discriminate Hk|].
      rewrite merkle_dir in Hm1, Hm2.
      destruct (merkle_go nr es1) as [l1|] eqn:Hgo1; [|discriminate].
      destruct (merkle_go nr es2) as [l2|] eqn:Hgo2; [|discriminate].
      rewrite <- Hm2 in Hm1. injection Hm1 as Hm1. apply Hinj in Hm1.
      pose proof (Hcodec _ (merkle_manifest_wf Ht p nr es1 l1 Hwp Hp1 Hgo1)) as Hd1.
      pose proof (Hcodec _ (merkle_manifest_wf Ht p nr es2 l2 Hwp Hp2 Hgo2)) as Hd2.
      rewrite Hm1, Hd2 in Hd1. injection Hd1 as Hl. subst l2.
      assert (Hkept : kept nr es1 = kept nr es2).
      { apply plain_dir_inv in Hp1 as [_ Hall1]. apply plain_dir_inv in Hp2 as [_ Hall2].
        rewrite Forall_forall in IH.
        apply (Forall2_eq_In _ _ _ (Forall2_same_r _ _ _ _ (merkle_go_spec _ _ _ Hgo1) (merkle_go_spec _ _ _ Hgo2))).
        intros [k1 ch1] [k2 ch2] Hin1 Hin2 ([kk va] & (Hk1 & dd1 & Hmk1 & Hkv1) & (Hk2 & dd2 & Hmk2 & Hkv2)).
        cbn [fst snd] in Hk1, Hk2, Hmk1, Hmk2, Hkv1, Hkv2.
        apply filter_In in Hin1 as [Hin1 _]. apply filter_In in Hin2 as [Hin2 _].
        subst k1 k2. rewrite Hkv1 in Hkv2. injection Hkv2 as Hdd Hisd. subst dd2.
        rename kk into k1.
        destruct (Hall1 _ Hin1) as [(Hu & Hv & Hb) Hpl1]. destruct (Hall2 _ Hin2) as [_ Hpl2].
        cbn [fst snd] in *.
        pose proof (IH _ Hin1 k1 false ch2 dd1 Hpl1 Hpl2 Hisd (conj Hu Hb) Hmk1 Hmk2) as Heq.
        cbn [snd] in Heq. rewrite !tracked_view_rec in Heq by reflexivity. now subst ch2. }
      cbn [tracked_view a_norec]. destruct nr.
      + f_equal. exact Hkept.
      + unfold kept in Hkept. cbn [andb negb] in Hkept. rewrite !filter_all in Hkept by reflexivity.
        now rewrite Hkept.
  Qed.

  (* ================= 4. right after a commit everything is up to date (C05) ================= *)

  (* [utd f c a n]: the entry [n] is up to date for [a] at every level, within fuel [f] *)
  Definition utd_dir (rec : artifact -> node -> Prop) (c : cache) (a : artifact) (es : list (bytes * node)) : Prop :=
    exists o m, has_cs (a_cs a) = true /\ cget c (a_cs a) = Some o /\ dec_manifest (o_data o) = Some m /\
                Forall (fun kv => exists n, alookup (fst kv) es = Some n /\ rec (snd kv) n) (m_contents m) /\
                untracked (m_contents m) (listed a es) = [].
  Fixpoint utd (f : nat) (c : cache) (a : artifact) (n : node) : Prop :=
    match f with
    | O => False
    | S f' =>
      if a_isdir a then match n with Dir es => utd_dir (utd f' c) c a es | _ => False end
      else st_cm (status_file H a (Some n) c) = true
    end.

  Definition all_cm_list (l : list (bytes * stree)) : Prop :=
    (fix go (l : list (bytes * stree)) : Prop :=
       match l with [] => True | (_, k) :: r => all_cm k /\ go r end) l.

  Lemma all_cm_St a w h i cm kids : all_cm (St a w h i cm kids) <-> cm = true /\ all_cm_list kids.
  Proof. reflexivity. Qed.

  Lemma all_cm_cm s : all_cm s -> st_cm s = true.
  Proof. destruct s. intros [Hc _]. exact Hc. Qed.

  Lemma status_file_shape a slot c : exists w h i cm, status_file H a slot c = St a w h i cm [].
  Proof.
    unfold status_file, quick. destruct slot as [[b| | | |]|]; try (do 4 eexists; reflexivity).
    destruct (a_skip a).
    - destruct (has_cs (a_cs a)); do 4 eexists; reflexivity.
    - destruct (cget c (a_cs a)); [destruct (has_cs (a_cs a) && in_cache c (a_cs a))|]; do 4 eexists; reflexivity.
  Qed.

  Lemma kids_go_all f es c mc :
    Forall (fun kv => exists n, alookup (fst kv) es = Some n /\
                      exists s, status_node H f (snd kv) (Some n) c = Ok s /\ all_cm s) mc ->
    exists l, kids_go f es c mc = Ok (l, true) /\ all_cm_list l.
  Proof.
    induction 1 as [|[k ch] mc (n & Hn & s & Hs & Hall) _ (l & Hl & Hal)].
    - exists []. split; [reflexivity|exact I].
    - cbn [fst snd] in Hn, Hs. exists ((a_path ch, s) :: l). split.
      + cbn [kids_go]. fold (kids_go f es c). rewrite Hn, Hs, Hl, (all_cm_cm _ Hall). reflexivity.
      + split; assumption.
  Qed.

  Lemma utd_status : forall f c a n, utd f c a n -> exists s, status_node H f a (Some n) c = Ok s /\ all_cm s.
  Proof.
    induction f as [|f IH]; intros c a n Hu; [destruct Hu|]. cbn [utd] in Hu.
    destruct (a_isdir a) eqn:Hd.
    - destruct n as [| | |es|]; try (exfalso; exact Hu).
      destruct Hu as (o & m & Hhas & Ho & Hm & Hkids & Hun).
      destruct (kids_go_all f es c (m_contents m)) as (l & Hl & Hal).
      { eapply Forall_impl; [|exact Hkids]. intros kv (n & Hn & Hu). exists n. split; [exact Hn|].
        exact (IH _ _ _ Hu). }
      rewrite (status_node_dir f a es c Hd). cbv zeta. unfold in_cache.
      rewrite Hhas, Ho, Hm, Hl. cbn [andb]. rewrite Hun. eexists. split; [reflexivity|].
      apply all_cm_St. split; [reflexivity|exact Hal].
    - rewrite (status_node_file f a _ c Hd). eexists. split; [reflexivity|].
      destruct (status_file_shape a (Some n) c) as (w & h & i & cm & Hsh). rewrite Hsh in *.
      apply all_cm_St. split; [exact Hu|exact I].
  Qed.

  Lemma utd_S : forall f c a n, utd f c a n -> utd (S f) c a n.
  Proof.
    induction f as [|f IH]; intros c a n Hu; [destruct Hu|].
    change (if a_isdir a then match n with Dir es => utd_dir (utd (S f) c) c a es | _ => False end
            else st_cm (status_file H a (Some n) c) = true).
    cbn [utd] in Hu. destruct (a_isdir a); [|exact Hu].
    destruct n as [| | |es|]; try exact Hu.
    destruct Hu as (o & m & Hhas & Ho & Hm & Hkids & Hun). exists o, m. repeat split; try assumption.
    eapply Forall_impl; [|exact Hkids]. intros kv (n & Hn & Hu). exists n. split; [exact Hn|].
    exact (IH _ _ _ Hu).
  Qed.

  Lemma utd_mono f f' c a n : (f <= f')%nat -> utd f c a n -> utd f' c a n.
  Proof. intros Hle Hu. induction Hle as [|f' _ IH]; [exact Hu|]. apply utd_S. exact IH. Qed.

  Lemma status_file_skip_file a b c : a_skip a = true ->
    st_cm (status_file H a (Some (File b)) c) = has_cs (a_cs a) && beqb (H b) (a_cs a).
  Proof.
    intros Hskip. unfold status_file, quick, qmatch. rewrite Hskip.
    destruct (has_cs (a_cs a)); reflexivity.
  Qed.

  (* a positive answer for a file artifact survives the growth of the cache *)
  Lemma status_file_le c c' a n :
    cache_le c c' ->
    st_cm (status_file H a (Some n) c) = true -> st_cm (status_file H a (Some n) c') = true.
  Proof.
    intros Hle Hcm. destruct n as [b|d|t|es|].
    - destruct (a_skip a) eqn:Hskip.
      + rewrite (status_file_skip_file a b c Hskip) in Hcm. rewrite (status_file_skip_file a b c' Hskip).
        exact Hcm.
      + rewrite (status_file_file a b c Hskip) in Hcm. rewrite (status_file_file a b c' Hskip).
        destruct (cget c (a_cs a)) as [o|] eqn:Ho; [|discriminate Hcm].
        destruct (Hle _ _ Ho) as (o' & Ho' & Hd). rewrite Ho', Hd. exact Hcm.
    - rewrite status_file_nonfile in Hcm by discriminate. rewrite status_file_nonfile by discriminate.
      apply qmatch_true in Hcm as (Hh & (o & Ho) & He). apply qmatch_true.
      destruct (Hle _ _ Ho) as (o' & Ho' & _). split; [exact Hh|]. split; [exists o'; exact Ho'|exact He].
    - rewrite status_file_nonfile in Hcm by discriminate. apply qmatch_true in Hcm as (_ & _ & He). discriminate.
    - rewrite status_file_nonfile in Hcm by discriminate. apply qmatch_true in Hcm as (_ & _ & He). discriminate.
    - rewrite status_file_nonfile in Hcm by discriminate. apply qmatch_true in Hcm as (_ & _ & He). discriminate.
  Qed.

  Lemma utd_le c c' : cache_le c c' -> forall f a n, utd f c a n -> utd f c' a n.
  Proof.
    intros Hle. induction f as [|f IH]; intros a n Hu; [destruct Hu|]. cbn [utd] in *.
    destruct (a_isdir a).
    - destruct n as [| | |es|]; try exact Hu.
      destruct Hu as (o & m & Hhas & Ho & Hm & Hkids & Hun).
      destruct (Hle _ _ Ho) as (o' & Ho' & Hd). exists o', m. rewrite Hd. repeat split; try assumption.
      eapply Forall_impl; [|exact Hkids]. intros kv (n & Hn & Hu). exists n. split; [exact Hn|].
      exact (IH _ _ Hu).
    - eapply status_file_le; eassumption.
  Qed.

  (* ---- commit, unfolded ---- *)
  Definition child_of (old : list (bytes * artifact)) (name : bytes) (ch : node) : artifact :=
    match alookup name old with
    | Some oa => if Bool.eqb (a_isdir oa) (is_dir ch) then oa else fresh_art name (is_dir ch)
    | None => fresh_art name (is_dir ch)
    end.

  Definition commit_go (a : artifact) (old : list (bytes * artifact)) (st : strategy) :=
    fix go (es : list (bytes * node)) (c : cache)
      : res (list (bytes * node) * cache * list (bytes * artifact)) :=
      match es with
      | [] => Ok ([], c, [])
      | (name, ch) :: r =>
        if a_norec a && is_dir ch then
          match go r c with
          | Ok (es', c', m) => Ok ((name, ch) :: es', c', m)
          | Err => Err
          end
        else if negb (utf8_name name) then Err
        else
          match commit_node H (child_of old name ch) ch c st with
          | Err => Err
          | Ok (ch', c1, child') =>
            match go r c1 with
            | Ok (es', c2, m) => Ok ((name, ch') :: es', c2, (a_path child', child') :: m)
            | Err => Err
            end
          end
      end.

  Lemma commit_node_dir a es c st : a_isdir a = true ->
    commit_node H a (Dir es) c st =
    match old_contents a c with
    | Err => Err
    | Ok old =>
      match commit_go a old st es c with
      | Err => Err
      | Ok (es', c', m) =>
        let mb := enc_manifest (mkMan (a_path a) m) in
        Ok (Dir es', cput c' (H mb) mb, set_cs a (H mb))
      end
    end.
  Proof. intros Hd. cbn [commit_node]. rewrite Hd. reflexivity. Qed.

  Lemma commit_node_file a b c st : a_isdir a = false ->
    commit_node H a (File b) c st = commit_file H a (File b) c st.
  Proof. intros Hd. cbn [commit_node]. rewrite Hd. reflexivity. Qed.

  Lemma cache_le_refl c : cache_le c c.
  Proof. intros d o Ho. exists o. split; [exact Ho|reflexivity]. Qed.

  Lemma cache_le_trans c1 c2 c3 : cache_le c1 c2 -> cache_le c2 c3 -> cache_le c1 c3.
  Proof.
    intros H12 H23 d o Ho. destruct (H12 _ _ Ho) as (o2 & Ho2 & Hd2).
    destruct (H23 _ _ Ho2) as (o3 & Ho3 & Hd3). exists o3. split; [exact Ho3|congruence].
  Qed.

  Lemma cput_le c b : H_inj H -> cache_ok H c -> cache_le c (cput c (H b) b).
  Proof.
    intros Hinj Hc d o Ho. rewrite cget_cput. destruct (beqb d (H b)) eqn:E.
    - apply beqb_eq in E. eexists. split; [reflexivity|]. cbn [o_data].
      destruct (Hc _ _ Ho) as [Hd _]. apply Hinj. congruence.
    - exists o. split; [exact Ho|reflexivity].
  Qed.

  Lemma dec_manifest_keys b m : dec_manifest b = Some m ->
    Forall (fun kv => a_path (snd kv) = fst kv /\ valid_entry_name (fst kv) = true) (m_contents m).
  Proof.
    unfold dec_manifest. destruct (parse_json b) as [v|]; [|discriminate].
    unfold dec_manifest_v. destruct v as [| | | | |kv]; try discriminate.
    destruct (fold_left _ kv _) as [m1|]; [|discriminate].
    destruct (forallb _ (m_contents m1)) eqn:Hf; [|discriminate]. intros Hm. injection Hm as <-.
    rewrite forallb_forall in Hf. apply Forall_forall. intros kv' Hin. specialize (Hf kv' Hin).
    apply andb_true_iff in Hf as [Hp Hv]. apply beqb_eq in Hp. split; assumption.
  Qed.

  (* the entries of whatever old manifest commit starts from are filed under their own path;
     nothing is assumed about their flags (the old "manifest" may be a user file that happens
     to decode as one) *)
  Definition old_ok (old : list (bytes * artifact)) : Prop :=
    Forall (fun kv => a_path (snd kv) = fst kv) old.

  Lemma old_contents_ok a c old : old_contents a c = Ok old -> old_ok old.
  Proof.
    unfold old_contents. destruct (has_cs (a_cs a)).
    2:{ intros Ho. injection Ho as <-. constructor. }
    destruct (cget c (a_cs a)) as [o|] eqn:Ho.
    2:{ intros Ho'. injection Ho' as <-. constructor. }
    destruct (dec_manifest (o_data o)) as [m|] eqn:Hm; [|discriminate]. intros Ho'. injection Ho' as <-.
    pose proof (dec_manifest_keys _ _ Hm) as Hk.
    unfold old_ok. eapply Forall_impl; [|exact Hk]. intros kv [Hp _]. exact Hp.
  Qed.

  Lemma child_of_props old name ch :
    old_ok old -> a_path (child_of old name ch) = name /\ kind_ok (child_of old name ch) ch.
  Proof.
    intros Hold. unfold child_of, kind_ok. destruct (alookup name old) as [oa|] eqn:Hl.
    - destruct (Bool.eqb (a_isdir oa) (is_dir ch)) eqn:Ee.
      + apply alookup_In in Hl. unfold old_ok in Hold. rewrite Forall_forall in Hold.
        pose proof (Hold _ Hl) as Hp. cbn [fst snd] in Hp.
        split; [exact Hp|]. apply eqb_prop. exact Ee.
      + split; reflexivity.
    - split; reflexivity.
  Qed.

  (* ---- the invariant carried through commit ---- *)
  Definition commit_post (a : artifact) (n : node) (c : cache) (n' : node) (c' : cache) (a' : artifact) : Prop :=
    cache_ok H c' /\ cache_le c c' /\
    a_path a' = a_path a /\ a_isdir a' = a_isdir a /\ a_norec a' = a_norec a /\
    wf_text (a_cs a') /\ is_dir n' = is_dir n /\ exists f, utd f c' a' n'.

  (* for every flag combination of [a] *)
  Definition PC (n : node) : Prop :=
    forall a c st n' c' a',
      plain n -> cache_ok H c -> kind_ok a n -> wf_text (a_path a) ->
      commit_node H a n c st = Ok (n', c', a') -> commit_post a n c n' c' a'.

  Section CommitFacts.
    Hypothesis Hinj : H_inj H.
    Hypothesis Hhas : H_has H.
    Hypothesis Htext : H_text H.

    Lemma PC_file b : PC (File b).
    Proof.
      intros a c st n' c' a' _ Hc Hk Hwp Hcommit.
      unfold kind_ok in Hk. cbn [is_dir] in Hk. rewrite (commit_node_file a b c st Hk) in Hcommit.
      unfold commit_file in Hcommit.
      assert (Hq : qmatch c (a_cs a) (Some (File b)) = false).
      { destruct (qmatch c (a_cs a) (Some (File b))) eqn:Hq; [|reflexivity].
        apply qmatch_true in Hq as (_ & _ & He). discriminate. }
      rewrite Hq in Hcommit. destruct (a_skip a) eqn:Hskip.
      - (* skip-cache: nothing is stored *)
        injection Hcommit as <- <- <-. unfold commit_post. cbn [set_cs a_path a_isdir a_norec a_cs].
        split; [exact Hc|]. split; [apply cache_le_refl|]. repeat (split; [reflexivity|]).
        split; [apply Htext|]. split; [reflexivity|].
        exists 1%nat. cbn [utd a_isdir set_cs]. rewrite Hk.
        rewrite status_file_skip_file by exact Hskip. cbn [a_cs set_cs]. rewrite Hhas, beqb_refl. reflexivity.
      - assert (Hpost : forall n1, (n1 = File b \/ n1 = LinkC (H b)) ->
                  commit_post a (File b) c n1 (cput c (H b) b) (set_cs a (H b))).
        { intros n1 Hn1. unfold commit_post. cbn [set_cs a_path a_isdir a_norec a_cs].
          assert (Hc' : cache_ok H (cput c (H b) b)) by (apply cache_ok_cput; exact Hc).
          split; [exact Hc'|]. split; [apply cput_le; assumption|]. repeat (split; [reflexivity|]).
          split; [apply Htext|]. split; [destruct Hn1 as [->| ->]; reflexivity|].
          exists 1%nat. cbn [utd a_isdir set_cs]. rewrite Hk.
          eapply file_complete with (o := mkObj b cache_perms); [exact Hc'|exact Hskip|apply Hhas| |].
          - cbn [a_cs]. rewrite cget_cput, beqb_refl. reflexivity.
          - destruct Hn1 as [->| ->]; [reflexivity|]. cbn [logical]. rewrite cget_cput, beqb_refl. reflexivity. }
        destruct st; injection Hcommit as <- <- <-; apply Hpost; [right|left]; reflexivity.
    Qed.

    (* what the loop over the entries establishes *)
    Definition go_post (a : artifact) (es : list (bytes * node)) (c : cache)
               (es' : list (bytes * node)) (c' : cache) (m : list (bytes * artifact)) : Prop :=
      cache_ok H c' /\ cache_le c c' /\
      map fst es' = map fst es /\
      Forall2 (fun e' kv => fst kv = fst e' /\ a_path (snd kv) = fst e' /\
                            wf_text (a_cs (snd kv)) /\ exists f, utd f c' (snd kv) (snd e'))
              (listed a es') m.

    Lemma PC_go a old st es :
      old_ok old ->
      Forall (fun e => PC (snd e)) es ->
      forall c es' c' m,
        (forall e, In e es -> good_name (fst e) /\ plain (snd e)) ->
        cache_ok H c ->
        commit_go a old st es c = Ok (es', c', m) -> go_post a es c es' c' m.
    Proof.
      intros Hold HIH. induction HIH as [|[name ch] es IHe _ IHr]; intros c es' c' m Hes Hc Hgo.
      - cbn [commit_go] in Hgo. injection Hgo as <- <- <-. unfold go_post.
        split; [exact Hc|]. split; [apply cache_le_refl|]. split; [reflexivity|].
        constructor.
      - cbn [commit_go] in Hgo. fold (commit_go a old st) in Hgo. cbn [snd] in IHe.
        assert (Hes_r : forall e, In e es -> good_name (fst e) /\ plain (snd e)).
        { intros e He. apply Hes. right; exact He. }
        destruct (a_norec a && is_dir ch) eqn:Hsk.
        + (* sub-directory of a non-recursive artifact: left alone *)
          destruct (commit_go a old st es c) as [[[es1 c1] m1]|] eqn:Hgo1; [|discriminate].
          injection Hgo as <- <- <-.
          destruct (IHr c es1 c1 m1 Hes_r Hc Hgo1) as (Hc1 & Hle1 & Hk1 & HF1).
          unfold go_post. repeat (split; [assumption|]). split; [cbn [map fst]; now rewrite Hk1|].
          unfold listed. cbn [filter snd]. rewrite Hsk. cbn [negb]. exact HF1.
        + destruct (negb (utf8_name name)); [discriminate|].
          destruct (commit_node H (child_of old name ch) ch c st) as [[[ch' c1] child']|] eqn:Hch; [|discriminate].
          destruct (commit_go a old st es c1) as [[[es2 c2] m2]|] eqn:Hgo2; [|discriminate].
          injection Hgo as <- <- <-.
          destruct (Hes (name, ch) (or_introl eq_refl)) as ((Hu & Hv & Hb) & Hpl). cbn [fst snd] in *.
          destruct (child_of_props old name ch Hold) as (Hcp & Hck).
          assert (Hwn : wf_text (a_path (child_of old name ch))) by (rewrite Hcp; split; assumption).
          destruct (IHe _ c st ch' c1 child' Hpl Hc Hck Hwn Hch)
            as (Hc1 & Hle1 & Hp' & Hd' & Hnr' & Hwcs & Hisd & (f1 & Hu1)).
          destruct (IHr c1 es2 c2 m2 Hes_r Hc1 Hgo2) as (Hc2 & Hle2 & Hk2 & HF2).
          unfold go_post. split; [exact Hc2|].
          split; [eapply cache_le_trans; eassumption|]. split; [cbn [map fst]; now rewrite Hk2|].
          unfold listed. cbn [filter snd]. rewrite Hisd, Hsk. cbn [negb]. constructor; [|exact HF2].
          cbn [fst snd]. rewrite Hp', Hcp. split; [reflexivity|]. split; [reflexivity|].
          split; [exact Hwcs|]. exists f1. eapply utd_le; eassumption.
    Qed.

    Lemma Forall2_common_fuel c (L : list (bytes * node)) (m : list (bytes * artifact)) (Q : bytes * node -> bytes * artifact -> Prop) :
      Forall2 (fun e' kv => Q e' kv /\ exists f, utd f c (snd kv) (snd e')) L m ->
      exists F, Forall2 (fun e' kv => Q e' kv /\ utd F c (snd kv) (snd e')) L m.
    Proof.
      induction 1 as [|e' kv L m [HQ (f & Hu)] _ (F & HF)].
      - exists O. constructor.
      - exists (Nat.max f F). constructor.
        + split; [exact HQ|]. eapply utd_mono; [|exact Hu]. apply Nat.le_max_l.
        + eapply Forall2_weaken; [|exact HF]. intros x y [HQ' Hu']. split; [exact HQ'|].
          eapply utd_mono; [|exact Hu']. apply Nat.le_max_r.
    Qed.

    Lemma PC_dir es : Forall (fun e => PC (snd e)) es -> PC (Dir es).
    Proof.
      intros HIH a c st n' c' a' Hpl Hc Hk Hwp Hcommit.
      unfold kind_ok in Hk. cbn [is_dir] in Hk. rewrite (commit_node_dir a es c st Hk) in Hcommit.
      destruct (old_contents a c) as [old|] eqn:Hold; [|discriminate].
      destruct (commit_go a old st es c) as [[[es' c1] m]|] eqn:Hgo; [|discriminate].
      cbv zeta in Hcommit. injection Hcommit as <- <- <-.
      apply plain_dir_inv in Hpl as [Hs Hall].
      destruct (PC_go a old st es (old_contents_ok a c old Hold) HIH c es' c1 m Hall Hc Hgo)
        as (Hc1 & Hle1 & Hkeys & HF).
      set (mb := enc_manifest (mkMan (a_path a) m)).
      assert (Hses' : ksorted es').
      { apply ksorted_keys. rewrite Hkeys. apply ksorted_keys. exact Hs. }
      assert (Hnames : forall e', In e' es' -> good_name (fst e')).
      { intros e' He'. assert (Hin : In (fst e') (map fst es)) by (rewrite <- Hkeys; apply in_map; exact He').
        apply in_map_iff in Hin as (e & He & Hin). rewrite <- He. apply Hall. exact Hin. }
      assert (Hwf : wf_manifest_flags (mkMan (a_path a) m)).
      { unfold wf_manifest_flags. cbn [m_path m_contents]. split; [exact Hwp|]. split.
        - apply ksorted_keys.
          rewrite (Forall2_keys _ _ _ HF) by (intros x y [Hxy _]; exact Hxy).
          apply ksorted_keys. apply ksorted_filter. exact Hses'.
        - apply Forall_forall. intros kv Hin.
          destruct (Forall2_In_r _ _ _ _ HF Hin) as (e' & He' & Hk' & Hp' & Hwcs & _).
          apply filter_In in He' as [He' _]. destruct (Hnames _ He') as (Hu & Hv & Hb).
          rewrite Hk'. split; [exact Hp'|]. split; [exact Hv|]. split; [split; [exact Hu|exact Hb]|exact Hwcs]. }
      pose proof (codec_flags _ Hwf) as Hdec. fold mb in Hdec.
      assert (Hc2 : cache_ok H (cput c1 (H mb) mb)) by (apply cache_ok_cput; exact Hc1).
      assert (Hle2 : cache_le c1 (cput c1 (H mb) mb)) by (apply cput_le; assumption).
      unfold commit_post. cbn [set_cs a_path a_isdir a_norec a_cs is_dir].
      split; [exact Hc2|].
      split; [eapply cache_le_trans; eassumption|]. repeat (split; [reflexivity|]).
      split; [apply Htext|]. split; [reflexivity|].
      destruct (Forall2_common_fuel c1 (listed a es') m (fun e' kv => fst kv = fst e')) as (F & HFF).
      { eapply Forall2_weaken; [|exact HF]. intros x y (Hxy & _ & _ & Hex). split; [exact Hxy|exact Hex]. }
      exists (S F). cbn [utd a_isdir set_cs]. rewrite Hk.
      exists (mkObj mb cache_perms), (mkMan (a_path a) m). cbn [a_cs o_data m_contents].
      split; [apply Hhas|]. split; [rewrite cget_cput, beqb_refl; reflexivity|]. split; [exact Hdec|].
      change (listed (mkArt (H mb) (a_path a) true (a_norec a) (a_skip a)) es') with (listed a es').
      split.
      - apply Forall_forall. intros kv Hin.
        destruct (Forall2_In_r _ _ _ _ HFF Hin) as ([k' n1] & He' & Hk' & Hu).
        cbn [fst snd] in Hk', Hu. apply filter_In in He' as [He' _].
        exists n1. split; [rewrite Hk'; apply alookup_sorted_In; assumption|].
        eapply utd_le; eassumption.
      - apply filter_nil_iff. intros e' He'.
        destruct (Forall2_In_l _ _ _ _ HFF He') as ([k ch] & Hin & Hk' & _). cbn [fst] in Hk'. subst k.
        pose proof (alookup_key_in _ _ _ Hin) as Hne.
        destruct (alookup (fst e') m); [reflexivity|congruence].
    Qed.

    Lemma PC_all n : PC n.
    Proof.
      induction n as [b|d|t| |es IH] using node_ind2.
      - apply PC_file.
      - intros a c st n' c' a' Hpl. inversion Hpl.
      - intros a c st n' c' a' Hpl. inversion Hpl.
      - intros a c st n' c' a' Hpl. inversion Hpl.
      - apply PC_dir. exact IH.
    Qed.
  End CommitFacts.

  (* C05: right after a successful commit the artifact is reported up to date at every level.
     Of [cache_inv] only [cache_ok] is used, of [top_art] only the path, and the premise
     [codec_ok] is not used at all: the round trip of Proofs/ManifestRT covers entries with
     flags, which do occur when a committed user file happens to decode as a manifest and a
     stale checksum points at it. *)
  Theorem status_after_commit : stmt_status_after_commit H.
  Proof.
    intros Hinj Hhas Htext _ a n c st n' c' a' Hpl Hk [Hwp _] (Hc & _ & _) Hcommit.
    destruct (PC_all Hinj Hhas Htext n a c st n' c' a' Hpl Hc Hk Hwp Hcommit)
      as (_ & _ & _ & _ & _ & _ & _ & (f & Hu)).
    exists f. apply utd_status. exact Hu.
  Qed.

  (* C16 without the codec premise *)
  Theorem merkle_inj_nocodec :
    H_inj H -> H_text H -> forall p nr n1 n2 d,
      plain n1 -> plain n2 -> is_dir n1 = is_dir n2 -> wf_text p ->
      merkle H p nr n1 = Some d -> merkle H p nr n2 = Some d ->
      tracked_view (mkArt [] p true nr false) n1 = tracked_view (mkArt [] p true nr false) n2.
  Proof. intros Hinj Ht. exact (merkle_inj Hinj Ht codec_ok_holds). Qed.
End Status.


(* ================= counterexamples to [stmt_status_iff] as stated in CacheDefs ================= *)
Module Cex.
  Import String.
  Definition str (x : string) : bytes := of_string x.

  (* --- 1. without [H_has]: the identity hash, a child whose checksum "ab" is a cache key --- *)
  Definition Hid (b : bytes) : bytes := b.
  Definition ab := str "ab".
  Definition m1 := enc_manifest (mkMan (str "d") [(str "f", mkArt ab (str "f") false false false)]).
  Definition c1 := cput (cput [] (Hid ab) ab) (Hid m1) m1.
  Definition a1 := mkArt m1 (str "d") true false false.
  Definition n1 := Dir [(str "f", File ab)].
  Definition s1 := match status_node Hid 3 a1 (Some n1) c1 with Ok s => s | Err => St a1 SAbsent false false false [] end.

  Lemma Hid_inj : H_inj Hid.
  Proof. intros a b Hab. exact Hab. Qed.

  Theorem status_iff_needs_H_has : ~ stmt_status_iff Hid.
  Proof.
    intros Hst.
    assert (Hs : status_node Hid 3 a1 (Some n1) c1 = Ok s1) by (vm_compute; reflexivity).
    assert (Hc : cache_ok Hid c1) by (unfold c1; apply cache_ok_cput, cache_ok_cput, cache_ok_nil).
    assert (Hp : man_plain c1).
    { unfold c1. apply man_plain_cput; [apply man_plain_cput; [apply man_plain_nil|]|].
      - intros m Hm. vm_compute in Hm. discriminate.
      - intros m Hm. vm_compute in Hm. injection Hm as <-. repeat constructor. }
    assert (Hn : sorted_tree n1).
    { cbn [sorted_tree n1]. split; [|split; exact I]. repeat constructor. }
    destruct (Hst Hid_inj 3%nat a1 n1 c1 s1 Hc Hp Hn eq_refl) as [_ Hback]; [vm_compute; reflexivity|exact Hs|].
    assert (Hf : st_cm s1 = false) by (vm_compute; reflexivity).
    rewrite Hback in Hf; [discriminate|].
    exists (Dir [(str "f", File ab)]). split; [vm_compute; reflexivity|]. split; [vm_compute; reflexivity|].
    reflexivity.
  Qed.

  (* --- 2. with [H_inj], [H_has], [H_text] but without [norec_flat]: a non-recursive artifact whose
         recorded manifest lists a sub-directory; everything matches, status says up to date, but
         the tracked view of the workspace drops the sub-directory --- *)
  Definition Ht (b : bytes) : bytes := [120; 120; 120] ++ b.
  Lemma Ht_inj : H_inj Ht.
  Proof. intros a b Hab. unfold Ht in Hab. exact (app_inv_head _ _ _ Hab). Qed.
  Lemma Ht_has : H_has Ht.
  Proof. intros b. unfold has_cs, Ht. cbn [app List.length]. apply N.leb_le. lia. Qed.

  Definition fb := str "hello".
  Definition msub := enc_manifest (mkMan (str "sub") [(str "g", mkArt (Ht fb) (str "g") false false false)]).
  Definition m2 := enc_manifest (mkMan (str "d")
     [(str "f", mkArt (Ht fb) (str "f") false false false);
      (str "sub", mkArt (Ht msub) (str "sub") true false false)]).
  Definition c2 := cput (cput (cput [] (Ht fb) fb) (Ht msub) msub) (Ht m2) m2.
  Definition a2 := mkArt (Ht m2) (str "d") true true false.     (* disable-recursion = true *)
  Definition n2 := Dir [(str "f", File fb); (str "sub", Dir [(str "g", LinkC (Ht fb))])].
  Definition s2 := match status_node Ht 3 a2 (Some n2) c2 with Ok s => s | Err => St a2 SAbsent false false false [] end.

  Theorem status_iff_needs_norec_flat : ~ stmt_status_iff Ht.
  Proof.
    intros Hst.
    assert (Hs : status_node Ht 3 a2 (Some n2) c2 = Ok s2) by (vm_compute; reflexivity).
    assert (Hc : cache_ok Ht c2) by (unfold c2; apply cache_ok_cput, cache_ok_cput, cache_ok_cput, cache_ok_nil).
    assert (Hp : man_plain c2).
    { unfold c2. apply man_plain_cput; [apply man_plain_cput; [apply man_plain_cput; [apply man_plain_nil|]|]|].
      - intros m Hm. vm_compute in Hm. discriminate.
      - intros m Hm. vm_compute in Hm. injection Hm as <-. repeat constructor.
      - intros m Hm. vm_compute in Hm. injection Hm as <-. repeat constructor. }
    assert (Hn : sorted_tree n2).
    { cbn [sorted_tree n2]. repeat split; repeat constructor. }
    destruct (Hst Ht_inj 3%nat a2 n2 c2 s2 Hc Hp Hn eq_refl) as [Hfwd _]; [vm_compute; reflexivity|exact Hs|].
    destruct Hfwd as (t & Hexp & Htv & _); [vm_compute; reflexivity|].
    vm_compute in Hexp. vm_compute in Htv. rewrite <- Htv in Hexp. discriminate.
  Qed.

  (* --- non-vacuity: a committed 2-level tree, unchanged and with one byte changed --- *)
  Definition tree := Dir [(str "a", File (str "alpha")); (str "sub", Dir [(str "b", File (str "beta"))])].
  Definition art0 := mkArt [] (str "data") true false false.
  Definition committed (st : strategy) :=
    match commit_node Ht art0 tree [] st with
    | Ok r => r
    | Err => (Other, [], art0)
    end.
  Definition wnode st := fst (fst (committed st)).
  Definition wcache st := snd (fst (committed st)).
  Definition wart st := snd (committed st).

  Fixpoint all_cmb (s : stree) : bool :=
    match s with
    | St _ _ _ _ cm kids => cm && forallb (fun kv => all_cmb (snd kv)) kids
    end.

  Example commit_succeeds : exists r, commit_node Ht art0 tree [] Link = Ok r /\
                                      exists r', commit_node Ht art0 tree [] Copy = Ok r'.
  Proof. eexists. split; [vm_compute; reflexivity|]. eexists. vm_compute. reflexivity. Qed.

  Example status_unchanged_link :
    exists s, status_node Ht 3 (wart Link) (Some (wnode Link)) (wcache Link) = Ok s /\ all_cm s.
  Proof. eexists. split; [vm_compute; reflexivity|]. cbn. tauto. Qed.

  Example status_unchanged_copy :
    exists s, status_node Ht 3 (wart Copy) (Some (wnode Copy)) (wcache Copy) = Ok s /\ all_cm s.
  Proof. eexists. split; [vm_compute; reflexivity|]. cbn. tauto. Qed.

  (* sub/b: "beta" -> "beto" *)
  Definition changed := Dir [(str "a", File (str "alpha")); (str "sub", Dir [(str "b", File (str "beto"))])].
  Example status_changed :
    exists s, status_node Ht 3 (wart Copy) (Some changed) (wcache Copy) = Ok s /\ st_cm s = false /\
              status_short Ht 3 (wart Copy) (Some changed) (wcache Copy) = Ok false.
  Proof. eexists. split; [vm_compute; reflexivity|]. split; vm_compute; reflexivity. Qed.

  (* the same through a link that now points at another object *)
  Example status_changed_link :
    exists s, status_node Ht 3 (wart Link)
                (Some (Dir [(str "a", LinkC (Ht (str "alpha"))); (str "sub", Dir [(str "b", LinkC (Ht (str "alpha")))])]))
                (wcache Link) = Ok s /\ st_cm s = false.
  Proof. eexists. split; vm_compute; reflexivity. Qed.
End Cex.

Print Assumptions status_skip.
Print Assumptions short_agrees.
Print Assumptions status_file_iff.
Print Assumptions status_sound.
Print Assumptions status_complete.
Print Assumptions status_iff_strong.
Print Assumptions status_iff_fixed.
Print Assumptions status_iff_recursive.
Print Assumptions merkle_inj.
Print Assumptions codec_ok_holds.
Print Assumptions status_after_commit.
Print Assumptions merkle_inj_nocodec.
Print Assumptions Cex.status_iff_needs_H_has.
Print Assumptions Cex.status_iff_needs_norec_flat.
