(* C03 (kill at any instant) and C04 (failing system call, retry) for commit / checkout, over the
   cut semantics of Model/Crash.v.  Every theorem is followed by Print Assumptions. *)
From Coq Require Import NArith List Bool Sorted Permutation Lia.
From DudV Require Import Base.Bytes Base.Json Model.Fs Model.Cache Model.Crash
  Proofs.CacheDefs Proofs.CommitProofs Proofs.CheckoutProofs.
Import ListNotations.
Local Open Scope N_scope.

(* ------------------------------------------------------------------------------------------ *)
(* write logs                                                                                  *)
(* ------------------------------------------------------------------------------------------ *)

Lemma capply_app c l1 l2 : capply c (l1 ++ l2) = capply (capply c l1) l2.
Proof. unfold capply. apply fold_left_app. Qed.

Lemma capply_cons c e l : capply c (e :: l) = capply (cwrite c e) l.
Proof. reflexivity. Qed.

Lemma cget_cwrite c e d :
  cget (cwrite c e) d = if beqb d (fst e) then Some (snd e) else cget c d.
Proof. unfold cget, cwrite. apply alookup_ins_sorted. Qed.

Lemma cget_capply_cases l : forall c d o,
  cget (capply c l) d = Some o -> In (d, o) l \/ cget c d = Some o.
Proof.
  induction l as [|e l IH]; intros c d o Hg.
  - right. exact Hg.
  - rewrite capply_cons in Hg. apply IH in Hg as [Hin|Hg].
    + left. right. exact Hin.
    + rewrite cget_cwrite in Hg. destruct (beqb d (fst e)) eqn:E.
      * apply beqb_eq in E. injection Hg as Ho. left. left.
        destruct e as [k v]. cbn [fst snd] in *. subst. reflexivity.
      * right. exact Hg.
Qed.

Lemma cget_capply_some l : forall c d o,
  cget c d = Some o -> exists o', cget (capply c l) d = Some o'.
Proof.
  induction l as [|e l IH]; intros c d o Hg.
  - exists o. exact Hg.
  - rewrite capply_cons. destruct (beqb d (fst e)) eqn:E.
    + apply (IH _ d (snd e)). rewrite cget_cwrite, E. reflexivity.
    + apply (IH _ d o). rewrite cget_cwrite, E. exact Hg.
Qed.

Lemma cget_capply_in l : forall c d o,
  In (d, o) l -> exists o', cget (capply c l) d = Some o' /\ In (d, o') l.
Proof.
  induction l as [|e l IH]; intros c d o Hin; [destruct Hin|].
  rewrite capply_cons. destruct Hin as [He|Hin].
  - subst e.
    assert (Hw : cget (cwrite c (d, o)) d = Some o).
    { rewrite cget_cwrite. cbn [fst snd]. rewrite beqb_refl. reflexivity. }
    destruct (cget_capply_some l _ _ _ Hw) as (o' & Hg). exists o'. split; [exact Hg|].
    apply cget_capply_cases in Hg as [Hl|Hg].
    + right. exact Hl.
    + left. congruence.
  - destruct (IH (cwrite c e) d o Hin) as (o' & Hg & Hin'). exists o'.
    split; [exact Hg|right; exact Hin'].
Qed.

(* ------------------------------------------------------------------------------------------ *)
(* trees of files and directories with distinct entry names                                    *)
(* ------------------------------------------------------------------------------------------ *)

Inductive ftree : node -> Prop :=
| ft_file b : ftree (File b)
| ft_dir es : NoDup (map fst es) -> Forall (fun e => ftree (snd e)) es -> ftree (Dir es).

Lemma sorted_nodup (l : list bytes) : StronglySorted blt l -> NoDup l.
Proof.
  induction 1 as [|k r Hr IH Hall]; constructor; [|exact IH].
  intros Hin. rewrite Forall_forall in Hall. specialize (Hall _ Hin).
  unfold blt in Hall. rewrite bltb_irrefl in Hall. discriminate.
Qed.

Lemma plain_ftree n : plain n -> ftree n.
Proof.
  induction n as [b|d|t| |es IH] using node_ind2; intros Hp; inversion Hp as [|es' Hs Hall]; subst.
  - constructor.
  - constructor.
    + apply sorted_nodup. apply (proj1 (sorted_keys es)). exact Hs.
    + rewrite Forall_forall in *. intros e Hin. apply (IH e Hin). apply (Hall e Hin).
Qed.

Lemma alookup_nodup {A} (l : list (bytes * A)) k v :
  NoDup (map fst l) -> In (k, v) l -> alookup k l = Some v.
Proof.
  induction l as [|[k' v'] r IH]; intros Hnd Hin; [destruct Hin|].
  cbn [map fst] in Hnd. inversion Hnd as [|x xs Hnotin Hnd']; subst.
  cbn [alookup]. destruct Hin as [He|Hin].
  - injection He as -> ->. rewrite beqb_refl. reflexivity.
  - destruct (beqb k k') eqn:E.
    + apply beqb_eq in E. subst k'. exfalso. apply Hnotin.
      apply (in_map fst) in Hin. exact Hin.
    + exact (IH Hnd' Hin).
Qed.

Lemma files_of_pre c n : forall pre,
  files_of c pre n = map (fun pb => (pre ++ fst pb, snd pb)) (files_of c [] n).
Proof.
  induction n as [b|d|t| |es IH] using node_ind2; intros pre; cbn [files_of].
  - cbn [map fst snd]. rewrite app_nil_r. reflexivity.
  - destruct (alookup d c); cbn [map fst snd]; [rewrite app_nil_r|]; reflexivity.
  - reflexivity.
  - reflexivity.
  - induction IH as [|e r He _ IHr]; [reflexivity|].
    cbn [flat_map]. rewrite map_app. rewrite IHr. f_equal.
    rewrite (He (pre ++ [fst e])). rewrite (He ([] ++ [fst e])). rewrite map_map.
    apply map_ext. intros pb. cbn [fst snd app]. rewrite <- app_assoc. reflexivity.
Qed.

Lemma files_of_dir_inv c es p b :
  In (p, b) (files_of c [] (Dir es)) ->
  exists name ch q, In (name, ch) es /\ p = name :: q /\ In (q, b) (files_of c [] ch).
Proof.
  cbn [files_of]. rewrite in_flat_map. intros ([name ch] & Hin & Hf). cbn [fst snd app] in Hf.
  rewrite files_of_pre in Hf. apply in_map_iff in Hf as ([q b'] & He & Hq).
  cbn [fst snd app] in He. injection He as <- <-.
  exists name, ch, q. repeat split; assumption.
Qed.

Lemma retrievable_dir H c' es name q b :
  retrievable H c' (Some (Dir es)) (name :: q) b <-> retrievable H c' (alookup name es) q b.
Proof.
  unfold retrievable. cbn [oget get]. destruct (alookup name es) as [m|]; cbn [oget]; reflexivity.
Qed.

(* an untouched tree of files and directories still holds all its files *)
Lemma retrievable_init H c c' n : ftree n ->
  forall q b, In (q, b) (files_of c [] n) -> retrievable H c' (Some n) q b.
Proof.
  induction n as [b0|d|t| |es IH] using node_ind2; intros Hf q b Hin;
    inversion Hf as [|es' Hnd Hall]; subst.
  - cbn [files_of] in Hin. destruct Hin as [He|[]]. injection He as <- <-.
    left. cbn [oget get]. reflexivity.
  - apply files_of_dir_inv in Hin as (name & ch & q' & Hin & -> & Hq).
    apply retrievable_dir. rewrite (alookup_nodup _ _ _ Hnd Hin).
    rewrite Forall_forall in IH, Hall. exact (IH _ Hin (Hall _ Hin) _ _ Hq).
Qed.

(* ------------------------------------------------------------------------------------------ *)
(* caches and logs                                                                             *)
(* ------------------------------------------------------------------------------------------ *)

Section Crash.
  Variable H : bytes -> bytes.

  (* content-addressed, modes not considered (objects of a cut may not be read-only yet) *)
  Definition keyed (c : cache) : Prop := forall d o, cget c d = Some o -> d = H (o_data o).
  Definition log_ok (l : wlog) : Prop := forall d o, In (d, o) l -> d = H (o_data o).

  Lemma cache_ok_keyed c : cache_ok H c -> keyed c.
  Proof. intros Hc d o Hg. exact (proj1 (Hc d o Hg)). Qed.

  Lemma capply_no_torn c l : log_ok l -> no_torn H c (capply c l).
  Proof.
    intros Hl d o Hg Hn. apply cget_capply_cases in Hg as [Hin|Hg]; [exact (Hl _ _ Hin)|congruence].
  Qed.

  Lemma capply_keyed c l : keyed c -> log_ok l -> keyed (capply c l).
  Proof.
    intros Hc Hl d o Hg. apply cget_capply_cases in Hg as [Hin|Hg]; [exact (Hl _ _ Hin)|exact (Hc _ _ Hg)].
  Qed.

  Lemma capply_le_mono c l l' :
    H_inj H -> keyed c -> log_ok l -> log_ok l' ->
    (forall d o, In (d, o) l -> exists o', In (d, o') l') ->
    cache_le (capply c l) (capply c l').
  Proof.
    intros Hinj Hc Hl Hl' Hincl d o Hg.
    apply cget_capply_cases in Hg as [Hin|Hg].
    - destruct (Hincl _ _ Hin) as (o1 & Hin1).
      destruct (cget_capply_in l' c d o1 Hin1) as (o' & Hg' & Hin').
      exists o'. split; [exact Hg'|]. apply Hinj. rewrite <- (Hl' _ _ Hin'). exact (Hl _ _ Hin).
    - destruct (cget_capply_some l' _ _ _ Hg) as (o' & Hg'). exists o'. split; [exact Hg'|].
      apply Hinj. rewrite <- (Hc _ _ Hg). symmetry. exact (capply_keyed c l' Hc Hl' _ _ Hg').
  Qed.

  Lemma capply_le_upper c l cf :
    H_inj H -> keyed cf -> cache_le c cf -> log_ok l ->
    (forall d o, In (d, o) l -> exists o', cget cf d = Some o') ->
    cache_le (capply c l) cf.
  Proof.
    intros Hinj Hcf Hle Hl Hin d o Hg.
    apply cget_capply_cases in Hg as [Hi|Hg].
    - destruct (Hin _ _ Hi) as (o' & Hg'). exists o'. split; [exact Hg'|].
      apply Hinj. rewrite <- (Hcf _ _ Hg'). exact (Hl _ _ Hi).
    - exact (Hle _ _ Hg).
  Qed.

  Lemma capply_le c l : H_inj H -> keyed c -> log_ok l -> cache_le c (capply c l).
  Proof.
    intros Hinj Hc Hl. apply (capply_le_mono c [] l Hinj Hc); [intros d o []|exact Hl|intros d o []].
  Qed.

  Lemma capply_has c l b o :
    H_inj H -> log_ok l -> In (H b, o) l ->
    exists o', cget (capply c l) (H b) = Some o' /\ o_data o' = b.
  Proof.
    intros Hinj Hl Hin. destruct (cget_capply_in l c _ _ Hin) as (o' & Hg & Hin').
    exists o'. split; [exact Hg|]. apply Hinj. symmetry. exact (Hl _ _ Hin').
  Qed.

  (* ---------------------------------------------------------------------------------------- *)
  (* one file                                                                                  *)
  (* ---------------------------------------------------------------------------------------- *)

  Lemma file_steps_spec st cr b s l :
    In (s, l) (file_commit_steps H st cr b) ->
    log_ok l /\
    (forall e, In e l -> exists m, e = wr H b m) /\
    (s = Some (File b) \/
     ((s = None \/ s = Some (LinkC (H b))) /\ exists m, In (wr H b m) l)).
  Proof.
    assert (Hok : forall l0, (forall e, In e l0 -> exists m, e = wr H b m) -> log_ok l0).
    { intros l0 Hl0 d o Hin. destruct (Hl0 _ Hin) as (m & He). injection He as -> ->. reflexivity. }
    intros Hin.
    assert (Hw : (forall e, In e l -> exists m, e = wr H b m) /\
                 (s = Some (File b) \/
                  ((s = None \/ s = Some (LinkC (H b))) /\ exists m, In (wr H b m) l))).
    { unfold file_commit_steps, file_commit_mid, file_commit_fin in Hin.
      destruct st, cr; cbn [app In] in Hin;
        repeat (destruct Hin as [Hin|Hin]; [injection Hin as <- <-|]); try destruct Hin;
        (split; [intros e He; cbn [In] in He;
                 repeat (destruct He as [He|He]; [eexists; symmetry; exact He|]); destruct He|]);
        try (left; reflexivity);
        right; (split; [(left; reflexivity) || (right; reflexivity)|]);
        eexists; left; reflexivity. }
    destruct Hw as [Hw1 Hw2]. split; [exact (Hok _ Hw1)|]. split; assumption.
  Qed.

  Lemma file_step_retrievable st cr b s l c0 l' :
    H_inj H -> In (s, l) (file_commit_steps H st cr b) -> incl l l' -> log_ok l' ->
    retrievable H (capply c0 l') s [] b.
  Proof.
    intros Hinj Hin Hincl Hl'.
    destruct (file_steps_spec _ _ _ _ _ Hin) as (_ & _ & [->|(_ & m & Hm)]).
    - left. reflexivity.
    - right. apply (capply_has c0 l' b (mkObj b m) Hinj Hl'). apply Hincl. exact Hm.
  Qed.

  (* C03 for one file: nothing is lost, no torn object, the cache only grows *)
  Theorem C03_file_no_loss st cr b c s c' :
    H_inj H -> In (s, c') (file_commit_cuts H st cr b c) -> retrievable H c' s [] b.
  Proof.
    intros Hinj Hin. unfold file_commit_cuts in Hin. apply in_map_iff in Hin as ([s0 l] & He & Hin).
    cbn [fst snd] in He. injection He as <- <-.
    apply (file_step_retrievable _ _ _ _ _ c l Hinj Hin (incl_refl _)).
    exact (proj1 (file_steps_spec _ _ _ _ _ Hin)).
  Qed.

  Theorem C03_file_no_torn st cr b c s c' :
    In (s, c') (file_commit_cuts H st cr b c) -> no_torn H c c'.
  Proof.
    intros Hin. unfold file_commit_cuts in Hin. apply in_map_iff in Hin as ([s0 l] & He & Hin).
    cbn [fst snd] in He. injection He as <- <-. apply capply_no_torn.
    exact (proj1 (file_steps_spec _ _ _ _ _ Hin)).
  Qed.

  Theorem C03_file_cache_le st cr b c s c' :
    H_inj H -> keyed c -> In (s, c') (file_commit_cuts H st cr b c) ->
    cache_le c c' /\ cache_le c' (cput c (H b) b).
  Proof.
    intros Hinj Hc Hin. unfold file_commit_cuts in Hin. apply in_map_iff in Hin as ([s0 l] & He & Hin).
    cbn [fst snd] in He. injection He as <- <-.
    destruct (file_steps_spec _ _ _ _ _ Hin) as (Hl & Hw & _). split.
    - apply capply_le; assumption.
    - change (cput c (H b) b) with (capply c [wr H b cache_perms]).
      apply capply_le_mono; try assumption.
      + intros d o [He|[]]. injection He as <- <-. reflexivity.
      + intros d o He. destruct (Hw _ He) as (m & Hm). injection Hm as -> ->.
        eexists. left. reflexivity.
  Qed.

  (* ---------------------------------------------------------------------------------------- *)
  (* trees                                                                                     *)
  (* ---------------------------------------------------------------------------------------- *)

  Variable st : strategy.
  Variable cr : bool.

  Lemma log_ok_nil : log_ok [].
  Proof. intros d o []. Qed.

  Lemma log_ok_app l1 l2 : log_ok l1 -> log_ok l2 -> log_ok (l1 ++ l2).
  Proof. intros H1 H2 d o Hin. apply in_app_or in Hin as [Hin|Hin]; [exact (H1 _ _ Hin)|exact (H2 _ _ Hin)]. Qed.

  Lemma log_ok_wrs b ms : log_ok (map (wr H b) ms).
  Proof. intros d o Hin. apply in_map_iff in Hin as (m & He & _). injection He as <- <-. reflexivity. Qed.

  Lemma in_perm_concat (logs : list wlog) l e :
    Permutation l (concat logs) -> In e l -> exists l0, In l0 logs /\ In e l0.
  Proof.
    intros Hp Hin. apply (Permutation_in _ Hp) in Hin. apply in_concat in Hin. exact Hin.
  Qed.

  Lemma in_concat_perm (logs : list wlog) l l0 e :
    Permutation l (concat logs) -> In l0 logs -> In e l0 -> In e l.
  Proof.
    intros Hp Hl0 Hin. apply (Permutation_in _ (Permutation_sym Hp)). apply in_concat.
    exists l0. split; assumption.
  Qed.

  Lemma log_ok_perm_concat (logs : list wlog) l :
    (forall l0, In l0 logs -> log_ok l0) -> Permutation l (concat logs) -> log_ok l.
  Proof.
    intros Hall Hp d o Hin. destruct (in_perm_concat _ _ _ Hp Hin) as (l0 & Hl0 & Hin0).
    exact (Hall _ Hl0 _ _ Hin0).
  Qed.

  Lemma ccut_logs_ok :
    (forall a n c s l oa, ccut H st cr a n c s l oa -> log_ok l) /\
    (forall nr old es c ks logs om, kids_cut H st cr nr old es c ks logs om ->
       forall l, In l logs -> log_ok l).
  Proof.
    apply ccut_kids_ind.
    - intros; apply log_ok_nil.
    - intros; apply log_ok_nil.
    - intros a b c s l _ _ Hin.
      apply (proj1 (file_steps_spec st cr b s l (in_or_app _ _ _ (or_introl Hin)))).
    - intros a b c _ _.
      apply (proj1 (file_steps_spec st cr b _ _
               (in_or_app _ [file_commit_fin H st cr b] _ (or_intror (or_introl eq_refl))))).
    - intros a es c old ks logs om l _ _ _ IH Hp. exact (log_ok_perm_concat _ _ IH Hp).
    - intros a es c old ks logs m l _ _ _ IH Hp. apply log_ok_app.
      + exact (log_ok_perm_concat _ _ IH Hp).
      + apply (log_ok_wrs _ [temp_mode]).
    - intros a es c old ks logs m l _ _ _ IH Hp. apply log_ok_app.
      + exact (log_ok_perm_concat _ _ IH Hp).
      + apply (log_ok_wrs _ [temp_mode; cache_perms]).
    - intros nr old c l [].
    - intros nr old name ch r c ks logs om _ _ IH. exact IH.
    - intros nr old name ch r c ks logs om _ _ _ IH. exact IH.
    - intros nr old name ch r c s l oa ks logs om _ _ _ IHc _ IHk l0 [<-|Hin]; [exact IHc|exact (IHk _ Hin)].
  Qed.

  Lemma kids_cut_names nr old es c ks logs om :
    kids_cut H st cr nr old es c ks logs om -> map fst ks = map fst es.
  Proof. induction 1; cbn [map fst]; congruence. Qed.

  Lemma alookup_entries_none ks name :
    ~ In name (map fst ks) -> alookup name (entries_of ks) = None.
  Proof.
    induction ks as [|[k v] r IH]; intros Hn; [reflexivity|].
    cbn [map fst In] in Hn. unfold entries_of. cbn [flat_map snd fst].
    fold (entries_of r). destruct v as [n|]; cbn [app alookup].
    - destruct (beqb name k) eqn:E.
      + apply beqb_eq in E. subst k. exfalso. apply Hn. left. reflexivity.
      + apply IH. intros Hin. apply Hn. right. exact Hin.
    - apply IH. intros Hin. apply Hn. right. exact Hin.
  Qed.

  Lemma alookup_entries_of ks name s :
    NoDup (map fst ks) -> In (name, s) ks -> alookup name (entries_of ks) = s.
  Proof.
    induction ks as [|[k v] r IH]; intros Hnd Hin; [destruct Hin|].
    cbn [map fst] in Hnd. inversion Hnd as [|x xs Hnotin Hnd']; subst.
    unfold entries_of. cbn [flat_map snd fst]. fold (entries_of r).
    destruct Hin as [He|Hin].
    - injection He as -> ->. destruct s as [n|]; cbn [app alookup].
      + rewrite beqb_refl. reflexivity.
      + apply alookup_entries_none. exact Hnotin.
    - assert (Hne : beqb name k = false).
      { apply beqb_false. intros ->. apply Hnotin. apply (in_map fst) in Hin. exact Hin. }
      destruct v as [n|]; cbn [app alookup]; [rewrite Hne|]; exact (IH Hnd' Hin).
  Qed.

  (* the main invariant behind C03_no_loss: whatever writes of OTHER processes are merged into
     the log, every file of the tree stays retrievable *)
  Lemma ccut_no_loss : H_inj H ->
    (forall a n c s l oa, ccut H st cr a n c s l oa -> ftree n ->
       forall c0 l', incl l l' -> log_ok l' ->
       forall p b, In (p, b) (files_of c0 [] n) -> retrievable H (capply c0 l') s p b) /\
    (forall nr old es c ks logs om, kids_cut H st cr nr old es c ks logs om ->
       Forall (fun e => ftree (snd e)) es ->
       forall c0 l', (forall l, In l logs -> incl l l') -> log_ok l' ->
       forall name ch, In (name, ch) es ->
       exists s, In (name, s) ks /\
                 forall q b, In (q, b) (files_of c0 [] ch) -> retrievable H (capply c0 l') s q b).
  Proof.
    intros Hinj.
    assert (Hdir : forall nr old es c ks logs om (l l' : wlog) c0,
      kids_cut H st cr nr old es c ks logs om ->
      (Forall (fun e => ftree (snd e)) es ->
       forall c0 l', (forall l, In l logs -> incl l l') -> log_ok l' ->
       forall name ch, In (name, ch) es ->
       exists s, In (name, s) ks /\
                 forall q b, In (q, b) (files_of c0 [] ch) -> retrievable H (capply c0 l') s q b) ->
      ftree (Dir es) -> (forall l0, In l0 logs -> incl l0 l') -> log_ok l' ->
      forall p b, In (p, b) (files_of c0 [] (Dir es)) ->
                  retrievable H (capply c0 l') (Some (Dir (entries_of ks))) p b).
    { intros nr old es c ks logs om l l' c0 Hk IH Hf Hincl Hl' p b Hin.
      inversion Hf as [|es' Hnd Hall]; subst.
      apply files_of_dir_inv in Hin as (name & ch & q & Hine & -> & Hq).
      destruct (IH Hall c0 l' Hincl Hl' name ch Hine) as (s & Hs & Hr).
      apply retrievable_dir. rewrite (alookup_entries_of ks name s).
      - exact (Hr _ _ Hq).
      - rewrite (kids_cut_names _ _ _ _ _ _ _ Hk). exact Hnd.
      - exact Hs. }
    apply ccut_kids_ind.
    - intros a n c Hf c0 l' _ _ p b Hin. exact (retrievable_init H c0 _ n Hf p b Hin).
    - intros a n c a' _ _ _ Hf c0 l' _ _ p b Hin. exact (retrievable_init H c0 _ n Hf p b Hin).
    - intros a b c s l _ _ Hin _ c0 l' Hincl Hl' p b' Hf.
      cbn [files_of] in Hf. destruct Hf as [He|[]]. injection He as <- <-.
      exact (file_step_retrievable st cr b s l c0 l' Hinj (in_or_app _ _ _ (or_introl Hin)) Hincl Hl').
    - intros a b c _ _ _ c0 l' Hincl Hl' p b' Hf.
      cbn [files_of] in Hf. destruct Hf as [He|[]]. injection He as <- <-.
      apply (file_step_retrievable st cr b _ _ c0 l' Hinj
               (in_or_app _ [file_commit_fin H st cr b] _ (or_intror (or_introl eq_refl))) Hincl Hl').
    - intros a es c old ks logs om l _ _ Hk IH Hp Hf c0 l' Hincl Hl'.
      apply (Hdir _ _ _ _ _ _ _ l l' c0 Hk IH Hf); [|exact Hl'].
      intros l0 Hl0 e He. apply Hincl. exact (in_concat_perm _ _ _ _ Hp Hl0 He).
    - intros a es c old ks logs m l _ _ Hk IH Hp Hf c0 l' Hincl Hl'.
      apply (Hdir _ _ _ _ _ _ _ l l' c0 Hk IH Hf); [|exact Hl'].
      intros l0 Hl0 e He. apply Hincl. apply in_or_app. left. exact (in_concat_perm _ _ _ _ Hp Hl0 He).
    - intros a es c old ks logs m l _ _ Hk IH Hp Hf c0 l' Hincl Hl'.
      apply (Hdir _ _ _ _ _ _ _ l l' c0 Hk IH Hf); [|exact Hl'].
      intros l0 Hl0 e He. apply Hincl. apply in_or_app. left. exact (in_concat_perm _ _ _ _ Hp Hl0 He).
    - intros nr old c _ c0 l' _ _ name ch [].
    - intros nr old name ch r c ks logs om _ _ IH Hall c0 l' Hincl Hl' name' ch' Hin.
      inversion Hall as [|e es' Hch Hr]; subst. destruct Hin as [He|Hin].
      + injection He as <- <-. exists (Some ch). split; [left; reflexivity|].
        intros q b Hq. exact (retrievable_init H c0 _ ch Hch q b Hq).
      + destruct (IH Hr c0 l' Hincl Hl' _ _ Hin) as (s & Hs & Hret).
        exists s. split; [right; exact Hs|exact Hret].
    - intros nr old name ch r c ks logs om _ _ _ IH Hall c0 l' Hincl Hl' name' ch' Hin.
      inversion Hall as [|e es' Hch Hr]; subst. destruct Hin as [He|Hin].
      + injection He as <- <-. exists (Some ch). split; [left; reflexivity|].
        intros q b Hq. exact (retrievable_init H c0 _ ch Hch q b Hq).
      + destruct (IH Hr c0 l' Hincl Hl' _ _ Hin) as (s & Hs & Hret).
        exists s. split; [right; exact Hs|exact Hret].
    - intros nr old name ch r c s l oa ks logs om _ _ _ IHc _ IHk Hall c0 l' Hincl Hl' name' ch' Hin.
      inversion Hall as [|e es' Hch Hr]; subst. cbn [snd] in Hch. destruct Hin as [He|Hin].
      + injection He as <- <-. exists s. split; [left; reflexivity|].
        intros q b Hq. apply (IHc Hch c0 l'); [|exact Hl'|exact Hq].
        apply Hincl. left. reflexivity.
      + assert (Hi : forall l0, In l0 logs -> incl l0 l').
        { intros l0 Hl0. apply Hincl. right. exact Hl0. }
        destruct (IHk Hr c0 l' Hi Hl' _ _ Hin) as (s' & Hs & Hret).
        exists s'. split; [right; exact Hs|exact Hret].
  Qed.

  (* ---- C03: nothing is lost ---- *)
  Theorem C03_no_loss a n c s' c' :
    H_inj H -> plain n -> commit_cut H st cr a n c (s', c') -> no_loss H c n s' c'.
  Proof.
    intros Hinj Hp Hcut. inversion Hcut as [s l oa Hc]; subst. intros p b Hin.
    apply (proj1 (ccut_no_loss Hinj) _ _ _ _ _ _ Hc (plain_ftree _ Hp) c l (incl_refl _)).
    - exact (proj1 ccut_logs_ok _ _ _ _ _ _ Hc).
    - exact Hin.
  Qed.

  (* ---- C03: no torn object; the cache only grows ---- *)
  Theorem C03_no_torn_object a n c s' c' :
    commit_cut H st cr a n c (s', c') -> no_torn H c c'.
  Proof.
    intros Hcut. inversion Hcut as [s l oa Hc]; subst. apply capply_no_torn.
    exact (proj1 ccut_logs_ok _ _ _ _ _ _ Hc).
  Qed.

  Theorem C03_cache_grows a n c s' c' :
    H_inj H -> keyed c -> commit_cut H st cr a n c (s', c') -> cache_le c c'.
  Proof.
    intros Hinj Hk Hcut. inversion Hcut as [s l oa Hc]; subst. apply capply_le; try assumption.
    exact (proj1 ccut_logs_ok _ _ _ _ _ _ Hc).
  Qed.

  (* ---------------------------------------------------------------------------------------- *)
  (* end points: the initial state and the big-step result are cuts; bounds                    *)
  (* ---------------------------------------------------------------------------------------- *)

  Lemma ins_sorted_twice {A} k (v1 v2 : A) l :
    ins_sorted k v2 (ins_sorted k v1 l) = ins_sorted k v2 l.
  Proof.
    induction l as [|[k' v'] r IH]; cbn [ins_sorted].
    - rewrite beqb_refl. reflexivity.
    - destruct (beqb k k') eqn:E1.
      + cbn [ins_sorted]. rewrite beqb_refl. reflexivity.
      + destruct (bltb k k') eqn:E2.
        * cbn [ins_sorted]. rewrite beqb_refl. reflexivity.
        * cbn [ins_sorted]. rewrite E1, E2, IH. reflexivity.
  Qed.

  Lemma capply_two c b m : capply c [wr H b m; wr H b cache_perms] = cput c (H b) b.
  Proof. cbn [capply fold_left]. unfold cwrite, wr, cput. cbn [fst snd]. apply ins_sorted_twice. Qed.

  Lemma commit_node_nondir a n c :
    a_isdir a = false -> commit_node H a n c st = commit_file H a n c st.
  Proof.
    intros Hd. destruct n; try (rewrite commit_node_leaf by reflexivity; rewrite Hd; reflexivity).
    rewrite commit_node_dir, Hd. reflexivity.
  Qed.

  Lemma qmatch_file c cs b : qmatch c cs (Some (File b)) = false.
  Proof. unfold qmatch. apply andb_false_r. Qed.

  Lemma commit_file_noop a n c n' c' a' :
    stores a n = None -> a_isdir a = false -> commit_file H a n c st = Ok (n', c', a') ->
    n' = n /\ c' = c.
  Proof.
    intros Hs Hd Hok. unfold stores in Hs. rewrite Hd in Hs.
    apply commit_file_inv in Hok
      as [(_ & -> & -> & _)|[(_ & b & -> & _ & [(_ & -> & ->)|(Hsk & _)])|(d & o & _ & _ & -> & -> & _)]];
      try (split; reflexivity).
    rewrite Hsk in Hs. discriminate.
  Qed.

  Lemma commit_file_stores a b c n' c' a' :
    a_skip a = false -> commit_file H a (File b) c st = Ok (n', c', a') ->
    n' = match st with Link => LinkC (H b) | Copy => File b end /\
    c' = cput c (H b) b /\ a' = set_cs a (H b).
  Proof.
    intros Hs. unfold commit_file. rewrite qmatch_file, Hs.
    destruct st; intros Hok; injection Hok as <- <- <-; repeat split; reflexivity.
  Qed.

  Lemma cchild_eq old name ch : cchild old name ch = child_of old name ch.
  Proof. reflexivity. Qed.

  Lemma next_cache_ok a n c n' c' a' :
    commit_node H a n c st = Ok (n', c', a') -> next_cache H st a n c = c'.
  Proof. intros Hok. unfold next_cache. rewrite Hok. reflexivity. Qed.

  (* the big-step result is a (final) cut *)
  Lemma commit_final_cut n : forall a c n' c' a',
    commit_node H a n c st = Ok (n', c', a') ->
    exists l, ccut H st cr a n c (Some n') l (Some a') /\ capply c l = c'.
  Proof.
    assert (Hleaf : forall n, is_dir n = false -> forall a c n' c' a',
      commit_node H a n c st = Ok (n', c', a') ->
      exists l, ccut H st cr a n c (Some n') l (Some a') /\ capply c l = c').
    { intros n0 Hn a c n' c' a' Hok. rewrite (commit_node_leaf _ _ _ _ _ Hn) in Hok.
      destruct (a_isdir a) eqn:Hd; [discriminate|].
      destruct (stores a n0) as [b|] eqn:Hs.
      - unfold stores in Hs. rewrite Hd in Hs. destruct n0 as [b0| | | |]; try discriminate.
        destruct (a_skip a) eqn:Hsk; [discriminate|]. injection Hs as ->.
        destruct (commit_file_stores _ _ _ _ _ _ Hsk Hok) as (-> & -> & ->).
        exists (snd (file_commit_fin H st cr b)). split.
        + exact (cc_file_fin H st cr a b c Hd Hsk).
        + cbn [file_commit_fin snd]. apply capply_two.
      - destruct (commit_file_noop _ _ _ _ _ _ Hs Hd Hok) as [-> ->].
        exists []. split; [|reflexivity]. exact (cc_noop H st cr a n0 c a' Hd Hs Hok). }
    induction n as [b|d|t| |es IH] using node_ind2; intros a c n' c' a' Hok;
      try (refine (Hleaf _ _ _ _ _ _ _ Hok); reflexivity).
    apply commit_dir_inv in Hok as (Hd & old & es' & c1 & m & Ho & He & -> & -> & ->).
    assert (Hk : exists ks logs, kids_cut H st cr (a_norec a) old es c ks logs (Some m) /\
                                 entries_of ks = es' /\ capply c (concat logs) = c1).
    { clear Ho. revert c es' c1 m He.
      induction IH as [|[name ch] r IHch _ IHr]; intros c es' c1 m He.
      - apply commit_entries_nil in He. injection He as -> -> ->.
        exists [], []. split; [constructor|]. split; reflexivity.
      - apply commit_entries_cons in He
          as [(Hs & es1 & Hr & ->)|(Hs & Hu & ch' & c0 & child' & es1 & m1 & Hch & Hr & -> & ->)].
        + destruct (IHr _ _ _ _ Hr) as (ks & logs & Hk & <- & <-).
          exists ((name, Some ch) :: ks), logs. split; [|split; reflexivity].
          exact (kc_skip H st cr _ _ name ch r c ks logs (Some m) Hs Hk).
        + cbn [snd] in IHch. destruct (IHch _ _ _ _ _ Hch) as (l & Hc & <-).
          destruct (IHr _ _ _ _ Hr) as (ks & logs & Hk & <- & <-).
          exists ((name, Some ch') :: ks), (l :: logs). split; [|split].
          * rewrite <- (next_cache_ok _ _ _ _ _ _ Hch) in Hk.
            exact (kc_child H st cr _ _ name ch r c (Some ch') l (Some child') ks logs (Some m1)
                            Hs Hu Hc Hk).
          * reflexivity.
          * cbn [concat]. rewrite capply_app. reflexivity. }
    destruct Hk as (ks & logs & Hk & <- & <-).
    exists (concat logs ++ [wr H (man_bytes a m) temp_mode; wr H (man_bytes a m) cache_perms]). split.
    - exact (cc_dir_fin H st cr a es c old ks logs m (concat logs) Hd Ho Hk (Permutation_refl _)).
    - rewrite capply_app. apply capply_two.
  Qed.

  (* every write of a cut is a write of the completed commit; final cuts are big-step results *)
  Lemma ccut_upper : H_inj H ->
    (forall a n c s l oa, ccut H st cr a n c s l oa ->
       forall nf cf af, cache_ok H c -> commit_node H a n c st = Ok (nf, cf, af) ->
       (forall d o, In (d, o) l -> exists o', cget cf d = Some o') /\
       (forall a', oa = Some a' -> a' = af)) /\
    (forall nr old es c ks logs om, kids_cut H st cr nr old es c ks logs om ->
       forall es' c1 m, cache_ok H c ->
       commit_entries (commit_node H) nr old st es c = Ok (es', c1, m) ->
       (forall l d o, In l logs -> In (d, o) l -> exists o', cget c1 d = Some o') /\
       (forall m', om = Some m' -> m' = m)).
  Proof.
    intros Hinj.
    assert (Hput : forall c d b d', (exists o, cget c d' = Some o) \/ d' = d ->
                                    exists o', cget (cput c d b) d' = Some o').
    { intros c d b d' [(o & Hg)| ->]; rewrite cget_cput.
      - destruct (beqb d' d); eexists; [reflexivity|exact Hg].
      - rewrite beqb_refl. eexists. reflexivity. }
    assert (Hdir : forall a es c old (logs : list wlog) (om : option (list (bytes * artifact)))
                          (l : wlog) nf cf af,
      a_isdir a = true -> old_contents a c = Ok old ->
      (forall es' c1 m, cache_ok H c ->
         commit_entries (commit_node H) (a_norec a) old st es c = Ok (es', c1, m) ->
         (forall l d o, In l logs -> In (d, o) l -> exists o', cget c1 d = Some o') /\
         (forall m', om = Some m' -> m' = m)) ->
      Permutation l (concat logs) -> cache_ok H c ->
      commit_node H a (Dir es) c st = Ok (nf, cf, af) ->
      exists c1 m, cf = cput c1 (H (man_bytes a m)) (man_bytes a m) /\
                   af = set_cs a (H (man_bytes a m)) /\
                   (forall d o, In (d, o) l -> exists o', cget cf d = Some o') /\
                   (forall m', om = Some m' -> m' = m)).
    { intros a es c old logs om l nf cf af Hd Ho IH Hp Hc Hok.
      apply commit_dir_inv in Hok as (_ & old' & es' & c1 & m & Ho' & He & -> & -> & ->).
      rewrite Ho in Ho'. injection Ho' as <-.
      destruct (IH _ _ _ Hc He) as [IH1 IH2].
      exists c1, m. split; [reflexivity|]. split; [reflexivity|]. split; [|exact IH2].
      intros d o Hin. destruct (in_perm_concat _ _ _ Hp Hin) as (l0 & Hl0 & Hin0).
      apply Hput. left. exact (IH1 _ _ _ Hl0 Hin0). }
    apply ccut_kids_ind.
    - intros a n c nf cf af _ _. split; [intros d o []|discriminate].
    - intros a n c a' Hd _ Hcf nf cf af _ Hok. split; [intros d o []|].
      intros a2 He. injection He as <-. rewrite (commit_node_nondir _ _ _ Hd) in Hok. congruence.
    - intros a b c s l Hd Hsk Hin nf cf af _ Hok. split; [|discriminate].
      rewrite (commit_node_nondir _ _ _ Hd) in Hok.
      destruct (commit_file_stores _ _ _ _ _ _ Hsk Hok) as (_ & -> & _).
      intros d o Hi.
      destruct (proj1 (proj2 (file_steps_spec st cr b s l (in_or_app _ _ _ (or_introl Hin)))) _ Hi)
        as (m & He). injection He as -> _. apply Hput. right. reflexivity.
    - intros a b c Hd Hsk nf cf af _ Hok.
      rewrite (commit_node_nondir _ _ _ Hd) in Hok.
      destruct (commit_file_stores _ _ _ _ _ _ Hsk Hok) as (_ & -> & ->). split.
      + intros d o Hi. cbn [file_commit_fin snd In] in Hi.
        destruct Hi as [He|[He|[]]]; injection He as <- _; apply Hput; right; reflexivity.
      + intros a2 He. injection He as <-. reflexivity.
    - intros a es c old ks logs om l Hd Ho _ IH Hp nf cf af Hc Hok.
      destruct (Hdir _ _ _ _ _ _ _ _ _ _ Hd Ho IH Hp Hc Hok) as (c1 & m & _ & _ & Hin & _).
      split; [exact Hin|discriminate].
    - intros a es c old ks logs m0 l Hd Ho _ IH Hp nf cf af Hc Hok.
      destruct (Hdir _ _ _ _ _ _ _ _ _ _ Hd Ho IH Hp Hc Hok) as (c1 & m & -> & _ & Hin & Hm).
      rewrite (Hm _ eq_refl). split; [|discriminate].
      intros d o Hi. apply in_app_or in Hi as [Hi|[He|[]]]; [exact (Hin _ _ Hi)|].
      injection He as <- _. apply Hput. right. reflexivity.
    - intros a es c old ks logs m0 l Hd Ho _ IH Hp nf cf af Hc Hok.
      destruct (Hdir _ _ _ _ _ _ _ _ _ _ Hd Ho IH Hp Hc Hok) as (c1 & m & -> & -> & Hin & Hm).
      rewrite (Hm _ eq_refl). split.
      + intros d o Hi. apply in_app_or in Hi as [Hi|[He|[He|[]]]]; [exact (Hin _ _ Hi)| |];
          injection He as <- _; apply Hput; right; reflexivity.
      + intros a2 He. injection He as <-. reflexivity.
    - intros nr old c es' c1 m _ He. apply commit_entries_nil in He. injection He as -> -> ->.
      split; [intros l d o []|]. intros m' Hm. injection Hm as <-. reflexivity.
    - intros nr old name ch r c ks logs om Hs _ IH es' c1 m Hc He.
      apply commit_entries_cons in He as [(_ & es1 & Hr & _)|(Hs' & _)]; [|congruence].
      exact (IH _ _ _ Hc Hr).
    - intros nr old name ch r c ks logs om Hs Hu _ _ es' c1 m Hc He.
      apply commit_entries_cons in He as [(Hs' & _)|(_ & Hu' & _)]; congruence.
    - intros nr old name ch r c s l oa ks logs om Hs Hu _ IHc _ IHk es' c1 m Hc He.
      apply commit_entries_cons in He
        as [(Hs' & _)|(_ & _ & ch' & c0 & child' & es1 & m1 & Hch & Hr & -> & ->)]; [congruence|].
      rewrite <- cchild_eq in Hch.
      destruct (IHc _ _ _ Hc Hch) as [IHc1 IHc2].
      destruct (commit_cache_ok H Hinj _ _ _ _ _ _ _ Hc Hch) as [Hc0 _].
      rewrite (next_cache_ok _ _ _ _ _ _ Hch) in IHk.
      destruct (IHk _ _ _ Hc0 Hr) as [IHk1 IHk2].
      destruct (commit_entries_cache_ok H r Hinj _ _ _ _ _ _ _ Hc0 Hr) as [_ Hle]. split.
      + intros l0 d o [<-|Hl0] Hin.
        * destruct (IHc1 _ _ Hin) as (o' & Hg). destruct (Hle _ _ Hg) as (o2 & Hg2 & _).
          exists o2. exact Hg2.
        * exact (IHk1 _ _ _ Hl0 Hin).
      + intros m'. destruct oa as [a2|]; [|discriminate]. destruct om as [m2|]; [|discriminate].
        intros He. injection He as <-. rewrite (IHc2 _ eq_refl), (IHk2 _ eq_refl). reflexivity.
  Qed.

  (* ---- C03: the end points are cuts and every cut's cache lies between them ---- *)
  Theorem C03_cut_endpoints a n c nf cf af :
    H_inj H -> cache_ok H c -> commit_node H a n c st = Ok (nf, cf, af) ->
    commit_cut H st cr a n c (Some n, c) /\
    commit_cut H st cr a n c (Some nf, cf) /\
    forall s' c', commit_cut H st cr a n c (s', c') -> cache_le c c' /\ cache_le c' cf.
  Proof.
    intros Hinj Hc Hok. split; [|split].
    - exact (commit_cut_intro H st cr a n c (Some n) [] None (cc_init H st cr a n c)).
    - destruct (commit_final_cut n _ _ _ _ _ Hok) as (l & Hcut & <-).
      exact (commit_cut_intro H st cr a n c _ l _ Hcut).
    - intros s' c' Hcut. inversion Hcut as [s l oa Hcc]; subst.
      pose proof (proj1 ccut_logs_ok _ _ _ _ _ _ Hcc) as Hl.
      destruct (commit_cache_ok H Hinj _ _ _ _ _ _ _ Hc Hok) as [Hcf Hle]. split.
      + apply capply_le; [exact Hinj|exact (cache_ok_keyed _ Hc)|exact Hl].
      + apply capply_le_upper; [exact Hinj|exact (cache_ok_keyed _ Hcf)|exact Hle|exact Hl|].
        exact (proj1 (proj1 (ccut_upper Hinj) _ _ _ _ _ _ Hcc _ _ _ Hc Hok)).
  Qed.

  (* the initial state is a cut of every commit, successful or not *)
  Theorem C03_initial_is_cut a n c : commit_cut H st cr a n c (Some n, c).
  Proof. exact (commit_cut_intro H st cr a n c (Some n) [] None (cc_init H st cr a n c)). Qed.

  (* a cut marked final is the big-step result *)
  Theorem C03_final_cut_is_result a n c s l a' nf cf af :
    H_inj H -> cache_ok H c -> ccut H st cr a n c s l (Some a') ->
    commit_node H a n c st = Ok (nf, cf, af) -> a' = af.
  Proof.
    intros Hinj Hc Hcc Hok. exact (proj2 (proj1 (ccut_upper Hinj) _ _ _ _ _ _ Hcc _ _ _ Hc Hok) _ eq_refl).
  Qed.
End Crash.

Print Assumptions C03_file_no_loss.
Print Assumptions C03_file_no_torn.
Print Assumptions C03_file_cache_le.
Print Assumptions C03_no_loss.
Print Assumptions C03_no_torn_object.
Print Assumptions C03_cache_grows.
Print Assumptions C03_cut_endpoints.
Print Assumptions C03_initial_is_cut.
Print Assumptions C03_final_cut_is_result.

(* ------------------------------------------------------------------------------------------ *)
(* checkout                                                                                    *)
(* ------------------------------------------------------------------------------------------ *)

(* any tree (links allowed) with distinct entry names *)
Inductive ntree : node -> Prop :=
| nt_file b : ntree (File b)
| nt_linkc d : ntree (LinkC d)
| nt_linko t : ntree (LinkO t)
| nt_other : ntree Other
| nt_dir es : NoDup (map fst es) -> Forall (fun e => ntree (snd e)) es -> ntree (Dir es).

Lemma ftree_ntree n : ftree n -> ntree n.
Proof.
  induction n as [b|d|t| |es IH] using node_ind2; intros Hf; inversion Hf as [|es' Hnd Hall]; subst;
    constructor; [exact Hnd|].
  rewrite Forall_forall in *. intros e Hin. exact (IH e Hin (Hall e Hin)).
Qed.

Lemma retrievable_init_links H c n : ntree n ->
  forall q b, In (q, b) (files_of c [] n) -> retrievable H c (Some n) q b.
Proof.
  induction n as [b0|d|t| |es IH] using node_ind2; intros Hf q b Hin;
    inversion Hf as [| | | |es' Hnd Hall]; subst.
  - cbn [files_of] in Hin. destruct Hin as [He|[]]. injection He as <- <-.
    left. cbn [oget get]. reflexivity.
  - cbn [files_of] in Hin. destruct (alookup d c) as [o|] eqn:Hg; [|destruct Hin].
    destruct Hin as [He|[]]. injection He as <- <-. left. cbn [oget get].
    exists o. split; [exact Hg|reflexivity].
  - destruct Hin.
  - destruct Hin.
  - apply files_of_dir_inv in Hin as (name & ch & q' & Hin & -> & Hq).
    apply retrievable_dir. rewrite (alookup_nodup _ _ _ Hnd Hin).
    rewrite Forall_forall in IH, Hall. exact (IH _ Hin (Hall _ Hin) _ _ Hq).
Qed.

Section Checkout.
  Variable H : bytes -> bytes.
  Variable st : strategy.
  Variable c : cache.

  Lemma file_checkout_cuts_shape a slot s :
    In s (file_checkout_cuts a slot c st) ->
    s = slot \/ slot = None \/ exists d, slot = Some (LinkC d).
  Proof.
    destruct slot as [[b|d|t|es|]|]; try (intros _; right; left; reflexivity);
      try (intros _; right; right; eexists; reflexivity);
      unfold file_checkout_cuts;
      destruct (negb (has_cs (a_cs a))); try (intros [<-|[]]; left; reflexivity);
      destruct (cget c (a_cs a)); try (intros [<-|[]]; left; reflexivity);
      destruct st;
      match goal with
      | |- context [qmatch ?c ?cs ?sl] =>
        let E := fresh "E" in
        destruct (qmatch c cs sl) eqn:E;
        [unfold qmatch in E; rewrite andb_false_r in E; discriminate|]
      end;
      intros [<-|[]]; left; reflexivity.
  Qed.

  (* retrievability that does not rest on the workspace entry rests on the cache *)
  Lemma retrievable_via_cache slot p b :
    keyed H c -> slot = None \/ (exists d, slot = Some (LinkC d)) ->
    retrievable H c slot p b -> exists o, cget c (H b) = Some o /\ o_data o = b.
  Proof.
    intros Hk Hs [Hl|Hr]; [|exact Hr]. destruct Hs as [->|(d & ->)].
    - destruct Hl.
    - destruct p as [|x p]; cbn [oget get] in Hl; [|destruct Hl].
      destruct Hl as (o & Hg & Ho). exists o. split; [|exact Ho].
      rewrite <- Ho. rewrite <- (Hk _ _ Hg). exact Hg.
  Qed.

  Lemma file_checkout_mono a slot s :
    keyed H c -> In s (file_checkout_cuts a slot c st) ->
    forall p b, retrievable H c slot p b -> retrievable H c s p b.
  Proof.
    intros Hk Hin p b Hr. apply file_checkout_cuts_shape in Hin as [->|Hs]; [exact Hr|].
    right. exact (retrievable_via_cache _ _ _ Hk Hs Hr).
  Qed.

  Lemma checkout_cut_mono : keyed H c ->
    (forall f a slot s, checkout_cut st c f a slot s ->
       forall p b, retrievable H c slot p b -> retrievable H c s p b) /\
    (forall f kids es es', co_kids st c f kids es es' ->
       forall name p b, retrievable H c (alookup name es) p b -> retrievable H c (alookup name es') p b).
  Proof.
    intros Hk. apply checkout_cut_kids_ind.
    - intros f a slot p b Hr. exact Hr.
    - intros f a slot s _ Hin. exact (file_checkout_mono _ _ _ Hk Hin).
    - intros f a slot o m es0 es' _ _ _ _ Hs _ IH p b Hr.
      destruct Hr as [Hl|Hr]; [|right; exact Hr].
      destruct slot as [[| | |es|]|]; try discriminate; [|destruct Hl].
      injection Hs as ->. destruct p as [|name q]; [destruct Hl|].
      apply retrievable_dir. apply IH. apply (retrievable_dir H c es0). left. exact Hl.
    - intros f es name p b Hr. exact Hr.
    - intros f name child r es es' _ IH. exact IH.
    - intros f name child r es v es' _ IHc _ IHk name' p b Hr. apply IHk.
      destruct (beqb name' name) eqn:E.
      + apply beqb_eq in E. subst name'. rewrite alookup_dset_same. exact (IHc _ _ Hr).
      + apply beqb_false_neq in E. rewrite alookup_dset_other by exact E. exact Hr.
  Qed.

  (* ---- C03 for checkout: whatever was retrievable stays retrievable in every cut (the cache
     is not written; only absent entries and matching links are replaced) ---- *)
  Theorem C03_checkout_no_loss f a slot s :
    keyed H c -> checkout_cut st c f a slot s ->
    forall p b, retrievable H c slot p b -> retrievable H c s p b.
  Proof. intros Hk. exact (proj1 (checkout_cut_mono Hk) f a slot s). Qed.

  Theorem C03_checkout_no_loss_files f a n s :
    keyed H c -> ntree n -> checkout_cut st c f a (Some n) s -> no_loss H c n s c.
  Proof.
    intros Hk Hn Hcut p b Hin. apply (C03_checkout_no_loss f a (Some n) s Hk Hcut).
    exact (retrievable_init_links H c n Hn p b Hin).
  Qed.

  (* the big-step result of a checkout is a cut (so is the initial state: oc_init) *)
  Lemma prefixes_full b : In b (prefixes b).
  Proof.
    unfold prefixes. apply in_map_iff. exists (length b). split; [apply firstn_all|].
    apply in_seq. lia.
  Qed.

  Lemma checkout_file_cut a slot r :
    checkout_file H a slot c st = Ok r -> In r (file_checkout_cuts a slot c st).
  Proof.
    unfold checkout_file, file_checkout_cuts.
    destruct (negb (has_cs (a_cs a))); [discriminate|].
    destruct (cget c (a_cs a)) as [o|]; [|discriminate].
    assert (Hcopy : forall tl, In (Some (File (o_data o)))
                                  (tl ++ map (fun p => Some (File p)) (prefixes (o_data o)))).
    { intros tl. apply in_or_app. right. apply in_map_iff. exists (o_data o).
      split; [reflexivity|apply prefixes_full]. }
    destruct slot as [[b|d|t|es|]|]; cbn [orb];
      try (destruct (beqb (H b) (a_cs a)); [intros Hr; injection Hr as <-; left; reflexivity|discriminate]);
      destruct st;
      match goal with
      | |- context [qmatch ?c ?cs ?sl] => destruct (qmatch c cs sl) eqn:E
      end; cbn [orb];
      try discriminate;
      try (intros Hr; injection Hr as <-; left; reflexivity);
      try (intros Hr; injection Hr as <-; right; left; reflexivity);
      try (destruct (beqb (H (o_data o)) (a_cs a)); [|discriminate]; intros Hr; injection Hr as <-).
    all: repeat (first [exact (Hcopy []) | right]).
  Qed.

  Theorem C03_checkout_endpoints f : forall a slot r,
    checkout_node H f a slot c st = Ok r ->
    checkout_cut st c f a slot slot /\ checkout_cut st c f a slot r.
  Proof.
    induction f as [|f IH]; intros a slot r Hok; [discriminate|].
    split; [apply oc_init|]. rewrite checkout_node_S in Hok.
    destruct (a_isdir a) eqn:Hd; [|exact (oc_file st c f a slot r Hd (checkout_file_cut _ _ _ Hok))].
    destruct (negb (has_cs (a_cs a))) eqn:Hh; [discriminate|]. apply negb_false_iff in Hh.
    destruct (cget c (a_cs a)) as [o|] eqn:Hg; [|discriminate].
    assert (Hs : exists es0, slot_dir slot = Some es0 /\ slot_entries slot = es0 /\
                 match dec_manifest (o_data o) with
                 | Some m => match co_go H f c st (m_contents m) es0 with
                             | Ok es' => Ok (Some (Dir es'))
                             | Err => Err
                             end
                 | None => Err
                 end = Ok r).
    { destruct slot as [[| | |es|]|]; try discriminate; eexists; (split; [reflexivity|split; [reflexivity|exact Hok]]). }
    destruct Hs as (es0 & Hsd & _ & Hok'). clear Hok.
    destruct (dec_manifest (o_data o)) as [m|] eqn:Hm; [|discriminate].
    destruct (co_go H f c st (m_contents m) es0) as [es'|] eqn:Hgo; [|discriminate].
    injection Hok' as <-.
    apply (oc_dir st c f a slot o m es0 es' Hd Hh Hg Hm Hsd).
    clear Hm Hsd. revert es0 es' Hgo. generalize (m_contents m) as kids.
    induction kids as [|[name child] kr IHk]; intros es0 es' Hgo.
    - cbn [co_go] in Hgo. injection Hgo as <-. apply ok_nil.
    - cbn [co_go] in Hgo.
      destruct (checkout_node H f child (alookup name es0) c st) as [v|] eqn:Hc; [|discriminate].
      apply (ok_cons st c f name child kr es0 v es').
      + exact (proj2 (IH _ _ _ Hc)).
      + apply IHk. exact Hgo.
  Qed.
End Checkout.

Print Assumptions C03_checkout_no_loss.
Print Assumptions C03_checkout_no_loss_files.
Print Assumptions C03_checkout_endpoints.
