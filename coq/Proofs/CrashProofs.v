(* C03 (kill at any instant) and C04 (failing system call, retry) for commit / checkout, over the
   cut semantics of Model/Crash.v.  No axioms; every theorem is followed by Print Assumptions
   (theorems inside a Section: after its End).

   C03, one file      C03_file_no_loss, C03_file_no_torn, C03_file_cache_le
   C03, trees         C03_no_loss (= C03_no_loss_b, the executable statement of Corr/RunCrash.v),
                      C03_no_torn_object, C03_cache_grows,
                      C03_cut_endpoints (+ C03_initial_is_cut, C03_final_cut_is_result)
   C03, checkout      C03_checkout_no_loss (monotonicity of [retrievable]),
                      C03_checkout_no_loss_files, C03_checkout_endpoints
   C03, metadata      C03_metadata_atomic
   C03, which paths can have the entry absent
                      C03_xdev_never_absent, C03_copy_never_absent, C03_rename_window,
                      C03_prerepair_refuted (old cross-device link path: retry drops the entry)
   C04, one file      C04_fail_is_cut, C04_fail_states, C04_entry_never_missing,
                      C04_norollback_entry_missing, C04_retry, C04_rerun_from_cut
   C04, directories   C04_retry_dir_flat (one level, all entries regular files)
   membership test    in_file_commit_cuts_b_sound / _complete

   Premises: [H_inj H] (collision freedom) where two writers of one digest must agree on the
   bytes; [keyed H c] (= cache_ok without the mode clause) or [cache_ok H c] for the initial
   cache; [plain n] (files and directories, sorted good names; only distinctness of names is
   used: [ftree]). *)
From Coq Require Import NArith List Bool Sorted Permutation Lia.
From DudV Require Import Base.Bytes Base.Json Model.Fs Model.Cache Model.Crash
  Proofs.CacheDefs Proofs.CommitProofs Proofs.CheckoutProofs.
Import ListNotations.
Local Open Scope N_scope.

(* ------------------------------------------------------------------------------------------ *)
(* write logs                                                                                  *)
(* ------------------------------------------------------------------------------------------ *)

Lemma capply_app c l1 l2 : capply c (l1 ++ l2) = capply (capply c l1) l2.
Proof. unfold capply. apply fold_left_app. Qed.

Lemma capply_cons c e l : capply c (e :: l) = capply (cwrite c e) l.
Proof. reflexivity. Qed.

Lemma cget_cwrite c e d :
  cget (cwrite c e) d = if beqb d (fst e) then Some (snd e) else cget c d.
Proof. unfold cget, cwrite. apply alookup_ins_sorted. Qed.

Lemma cget_capply_cases l : forall c d o,
  cget (capply c l) d = Some o -> In (d, o) l \/ cget c d = Some o.
Proof.
  induction l as [|e l IH]; intros c d o Hg.
  - right. exact Hg.
  - rewrite capply_cons in Hg. apply IH in Hg as [Hin|Hg].
    + left. right. exact Hin.
    + rewrite cget_cwrite in Hg. destruct (beqb d (fst e)) eqn:E.
      * apply beqb_eq in E. injection Hg as Ho. left. left.
        destruct e as [k v]. cbn [fst snd] in *. subst. reflexivity.
      * right. exact Hg.
Qed.

Lemma cget_capply_some l : forall c d o,
  cget c d = Some o -> exists o', cget (capply c l) d = Some o'.
Proof.
  induction l as [|e l IH]; intros c d o Hg.
  - exists o. exact Hg.
  - rewrite capply_cons. destruct (beqb d (fst e)) eqn:E.
    + apply (IH _ d (snd e)). rewrite cget_cwrite, E. reflexivity.
    + apply (IH _ d o). rewrite cget_cwrite, E. exact Hg.
Qed.

Lemma cget_capply_in l : forall c d o,
  In (d, o) l -> exists o', cget (capply c l) d = Some o' /\ In (d, o') l.
Proof.
  induction l as [|e l IH]; intros c d o Hin; [destruct Hin|].
  rewrite capply_cons. destruct Hin as [He|Hin].
  - subst e.
    assert (Hw : cget (cwrite c (d, o)) d = Some o).
    { rewrite cget_cwrite. cbn [fst snd]. rewrite beqb_refl. reflexivity. }
    destruct (cget_capply_some l _ _ _ Hw) as (o' & Hg). exists o'. split; [exact Hg|].
    apply cget_capply_cases in Hg as [Hl|Hg].
    + right. exact Hl.
    + left. congruence.
  - destruct (IH (cwrite c e) d o Hin) as (o' & Hg & Hin'). exists o'.
    split; [exact Hg|right; exact Hin'].
Qed.

(* ------------------------------------------------------------------------------------------ *)
(* trees of files and directories with distinct entry names                                    *)
(* ------------------------------------------------------------------------------------------ *)

Inductive ftree : node -> Prop :=
| ft_file b : ftree (File b)
| ft_dir es : NoDup (map fst es) -> Forall (fun e => ftree (snd e)) es -> ftree (Dir es).

Lemma sorted_nodup (l : list bytes) : StronglySorted blt l -> NoDup l.
Proof.
  induction 1 as [|k r Hr IH Hall]; constructor; [|exact IH].
  intros Hin. rewrite Forall_forall in Hall. specialize (Hall _ Hin).
  unfold blt in Hall. rewrite bltb_irrefl in Hall. discriminate.
Qed.

Lemma plain_ftree n : plain n -> ftree n.
Proof.
  induction n as [b|d|t| |es IH] using node_ind2; intros Hp; inversion Hp as [|es' Hs Hall]; subst.
  - constructor.
  - constructor.
    + apply sorted_nodup. apply (proj1 (sorted_keys es)). exact Hs.
    + rewrite Forall_forall in *. intros e Hin. apply (IH e Hin). apply (Hall e Hin).
Qed.

Lemma alookup_nodup {A} (l : list (bytes * A)) k v :
  NoDup (map fst l) -> In (k, v) l -> alookup k l = Some v.
Proof.
  induction l as [|[k' v'] r IH]; intros Hnd Hin; [destruct Hin|].
  cbn [map fst] in Hnd. inversion Hnd as [|x xs Hnotin Hnd']; subst.
  cbn [alookup]. destruct Hin as [He|Hin].
  - injection He as -> ->. rewrite beqb_refl. reflexivity.
  - destruct (beqb k k') eqn:E.
    + apply beqb_eq in E. subst k'. exfalso. apply Hnotin.
      apply (in_map fst) in Hin. exact Hin.
    + exact (IH Hnd' Hin).
Qed.

Lemma files_of_pre c n : forall pre,
  files_of c pre n = map (fun pb => (pre ++ fst pb, snd pb)) (files_of c [] n).
Proof.
  induction n as [b|d|t| |es IH] using node_ind2; intros pre; cbn [files_of].
  - cbn [map fst snd]. rewrite app_nil_r. reflexivity.
  - destruct (alookup d c); cbn [map fst snd]; [rewrite app_nil_r|]; reflexivity.
  - reflexivity.
  - reflexivity.
  - induction IH as [|e r He _ IHr]; [reflexivity|].
    cbn [flat_map]. rewrite map_app. rewrite IHr. f_equal.
    rewrite (He (pre ++ [fst e])). rewrite (He ([] ++ [fst e])). rewrite map_map.
    apply map_ext. intros pb. cbn [fst snd app]. rewrite <- app_assoc. reflexivity.
Qed.

Lemma files_of_dir_inv c es p b :
  In (p, b) (files_of c [] (Dir es)) ->
  exists name ch q, In (name, ch) es /\ p = name :: q /\ In (q, b) (files_of c [] ch).
Proof.
  cbn [files_of]. rewrite in_flat_map. intros ([name ch] & Hin & Hf). cbn [fst snd app] in Hf.
  rewrite files_of_pre in Hf. apply in_map_iff in Hf as ([q b'] & He & Hq).
  cbn [fst snd app] in He. injection He as <- <-.
  exists name, ch, q. repeat split; assumption.
Qed.

Lemma retrievable_dir H c' es name q b :
  retrievable H c' (Some (Dir es)) (name :: q) b <-> retrievable H c' (alookup name es) q b.
Proof.
  unfold retrievable. cbn [oget get]. destruct (alookup name es) as [m|]; cbn [oget]; reflexivity.
Qed.

(* an untouched tree of files and directories still holds all its files *)
Lemma retrievable_init H c c' n : ftree n ->
  forall q b, In (q, b) (files_of c [] n) -> retrievable H c' (Some n) q b.
Proof.
  induction n as [b0|d|t| |es IH] using node_ind2; intros Hf q b Hin;
    inversion Hf as [|es' Hnd Hall]; subst.
  - cbn [files_of] in Hin. destruct Hin as [He|[]]. injection He as <- <-.
    left. cbn [oget get]. reflexivity.
  - apply files_of_dir_inv in Hin as (name & ch & q' & Hin & -> & Hq).
    apply retrievable_dir. rewrite (alookup_nodup _ _ _ Hnd Hin).
    rewrite Forall_forall in IH, Hall. exact (IH _ Hin (Hall _ Hin) _ _ Hq).
Qed.

(* ------------------------------------------------------------------------------------------ *)
(* caches and logs                                                                             *)
(* ------------------------------------------------------------------------------------------ *)

Section Crash.
  Variable H : bytes -> bytes.

  (* content-addressed, modes not considered (objects of a cut may not be read-only yet) *)
  Definition keyed (c : cache) : Prop := forall d o, cget c d = Some o -> d = H (o_data o).
  Definition log_ok (l : wlog) : Prop := forall d o, In (d, o) l -> d = H (o_data o).

  Lemma cache_ok_keyed c : cache_ok H c -> keyed c.
  Proof. intros Hc d o Hg. exact (proj1 (Hc d o Hg)). Qed.

  Lemma capply_no_torn c l : log_ok l -> no_torn H c (capply c l).
  Proof.
    intros Hl d o Hg Hn. apply cget_capply_cases in Hg as [Hin|Hg]; [exact (Hl _ _ Hin)|congruence].
  Qed.

  Lemma capply_keyed c l : keyed c -> log_ok l -> keyed (capply c l).
  Proof.
    intros Hc Hl d o Hg. apply cget_capply_cases in Hg as [Hin|Hg]; [exact (Hl _ _ Hin)|exact (Hc _ _ Hg)].
  Qed.

  Lemma capply_le_mono c l l' :
    H_inj H -> keyed c -> log_ok l -> log_ok l' ->
    (forall d o, In (d, o) l -> exists o', In (d, o') l') ->
    cache_le (capply c l) (capply c l').
  Proof.
    intros Hinj Hc Hl Hl' Hincl d o Hg.
    apply cget_capply_cases in Hg as [Hin|Hg].
    - destruct (Hincl _ _ Hin) as (o1 & Hin1).
      destruct (cget_capply_in l' c d o1 Hin1) as (o' & Hg' & Hin').
      exists o'. split; [exact Hg'|]. apply Hinj. rewrite <- (Hl' _ _ Hin'). exact (Hl _ _ Hin).
    - destruct (cget_capply_some l' _ _ _ Hg) as (o' & Hg'). exists o'. split; [exact Hg'|].
      apply Hinj. rewrite <- (Hc _ _ Hg). symmetry. exact (capply_keyed c l' Hc Hl' _ _ Hg').
  Qed.

  Lemma capply_le_upper c l cf :
    H_inj H -> keyed cf -> cache_le c cf -> log_ok l ->
    (forall d o, In (d, o) l -> exists o', cget cf d = Some o') ->
    cache_le (capply c l) cf.
  Proof.
    intros Hinj Hcf Hle Hl Hin d o Hg.
    apply cget_capply_cases in Hg as [Hi|Hg].
    - destruct (Hin _ _ Hi) as (o' & Hg'). exists o'. split; [exact Hg'|].
      apply Hinj. rewrite <- (Hcf _ _ Hg'). exact (Hl _ _ Hi).
    - exact (Hle _ _ Hg).
  Qed.

  Lemma capply_le c l : H_inj H -> keyed c -> log_ok l -> cache_le c (capply c l).
  Proof.
    intros Hinj Hc Hl. apply (capply_le_mono c [] l Hinj Hc); [intros d o []|exact Hl|intros d o []].
  Qed.

  Lemma capply_has c l b o :
    H_inj H -> log_ok l -> In (H b, o) l ->
    exists o', cget (capply c l) (H b) = Some o' /\ o_data o' = b.
  Proof.
    intros Hinj Hl Hin. destruct (cget_capply_in l c _ _ Hin) as (o' & Hg & Hin').
    exists o'. split; [exact Hg|]. apply Hinj. symmetry. exact (Hl _ _ Hin').
  Qed.

  (* ---------------------------------------------------------------------------------------- *)
  (* one file                                                                                  *)
  (* ---------------------------------------------------------------------------------------- *)

  Lemma file_steps_spec st cr b s l :
    In (s, l) (file_commit_steps H st cr b) ->
    log_ok l /\
    (forall e, In e l -> exists m, e = wr H b m) /\
    (s = Some (File b) \/
     ((s = None \/ s = Some (LinkC (H b))) /\ exists m, In (wr H b m) l)).
  Proof.
    assert (Hok : forall l0, (forall e, In e l0 -> exists m, e = wr H b m) -> log_ok l0).
    { intros l0 Hl0 d o Hin. destruct (Hl0 _ Hin) as (m & He). injection He as -> ->. reflexivity. }
    intros Hin.
    assert (Hw : (forall e, In e l -> exists m, e = wr H b m) /\
                 (s = Some (File b) \/
                  ((s = None \/ s = Some (LinkC (H b))) /\ exists m, In (wr H b m) l))).
    { unfold file_commit_steps, file_commit_mid, file_commit_fin in Hin.
      destruct st, cr; cbn [app In] in Hin;
        repeat (destruct Hin as [Hin|Hin]; [injection Hin as <- <-|]); try destruct Hin;
        (split; [intros e He; cbn [In] in He;
                 repeat (destruct He as [He|He]; [eexists; symmetry; exact He|]); destruct He|]);
        try (left; reflexivity);
        right; (split; [(left; reflexivity) || (right; reflexivity)|]);
        eexists; left; reflexivity. }
    destruct Hw as [Hw1 Hw2]. split; [exact (Hok _ Hw1)|]. split; assumption.
  Qed.

  Lemma file_step_retrievable st cr b s l c0 l' :
    H_inj H -> In (s, l) (file_commit_steps H st cr b) -> incl l l' -> log_ok l' ->
    retrievable H (capply c0 l') s [] b.
  Proof.
    intros Hinj Hin Hincl Hl'.
    destruct (file_steps_spec _ _ _ _ _ Hin) as (_ & _ & [->|(_ & m & Hm)]).
    - left. reflexivity.
    - right. apply (capply_has c0 l' b (mkObj b m) Hinj Hl'). apply Hincl. exact Hm.
  Qed.

  (* C03 for one file: nothing is lost, no torn object, the cache only grows *)
  Theorem C03_file_no_loss st cr b c s c' :
    H_inj H -> In (s, c') (file_commit_cuts H st cr b c) -> retrievable H c' s [] b.
  Proof.
    intros Hinj Hin. unfold file_commit_cuts in Hin. apply in_map_iff in Hin as ([s0 l] & He & Hin).
    cbn [fst snd] in He. injection He as <- <-.
    apply (file_step_retrievable _ _ _ _ _ c l Hinj Hin (incl_refl _)).
    exact (proj1 (file_steps_spec _ _ _ _ _ Hin)).
  Qed.

  Theorem C03_file_no_torn st cr b c s c' :
    In (s, c') (file_commit_cuts H st cr b c) -> no_torn H c c'.
  Proof.
    intros Hin. unfold file_commit_cuts in Hin. apply in_map_iff in Hin as ([s0 l] & He & Hin).
    cbn [fst snd] in He. injection He as <- <-. apply capply_no_torn.
    exact (proj1 (file_steps_spec _ _ _ _ _ Hin)).
  Qed.

  Theorem C03_file_cache_le st cr b c s c' :
    H_inj H -> keyed c -> In (s, c') (file_commit_cuts H st cr b c) ->
    cache_le c c' /\ cache_le c' (cput c (H b) b).
  Proof.
    intros Hinj Hc Hin. unfold file_commit_cuts in Hin. apply in_map_iff in Hin as ([s0 l] & He & Hin).
    cbn [fst snd] in He. injection He as <- <-.
    destruct (file_steps_spec _ _ _ _ _ Hin) as (Hl & Hw & _). split.
    - apply capply_le; assumption.
    - change (cput c (H b) b) with (capply c [wr H b cache_perms]).
      apply capply_le_mono; try assumption.
      + intros d o [He|[]]. injection He as <- <-. reflexivity.
      + intros d o He. destruct (Hw _ He) as (m & Hm). injection Hm as -> ->.
        eexists. left. reflexivity.
  Qed.

  (* ---------------------------------------------------------------------------------------- *)
  (* trees                                                                                     *)
  (* ---------------------------------------------------------------------------------------- *)

  Variable st : strategy.
  Variable cr : bool.

  Lemma log_ok_nil : log_ok [].
  Proof. intros d o []. Qed.

  Lemma log_ok_app l1 l2 : log_ok l1 -> log_ok l2 -> log_ok (l1 ++ l2).
  Proof. intros H1 H2 d o Hin. apply in_app_or in Hin as [Hin|Hin]; [exact (H1 _ _ Hin)|exact (H2 _ _ Hin)]. Qed.

  Lemma log_ok_wrs b ms : log_ok (map (wr H b) ms).
  Proof. intros d o Hin. apply in_map_iff in Hin as (m & He & _). injection He as <- <-. reflexivity. Qed.

  Lemma in_perm_concat (logs : list wlog) l e :
    Permutation l (concat logs) -> In e l -> exists l0, In l0 logs /\ In e l0.
  Proof.
    intros Hp Hin. apply (Permutation_in _ Hp) in Hin. apply in_concat in Hin. exact Hin.
  Qed.

  Lemma in_concat_perm (logs : list wlog) l l0 e :
    Permutation l (concat logs) -> In l0 logs -> In e l0 -> In e l.
  Proof.
    intros Hp Hl0 Hin. apply (Permutation_in _ (Permutation_sym Hp)). apply in_concat.
    exists l0. split; assumption.
  Qed.

  Lemma log_ok_perm_concat (logs : list wlog) l :
    (forall l0, In l0 logs -> log_ok l0) -> Permutation l (concat logs) -> log_ok l.
  Proof.
    intros Hall Hp d o Hin. destruct (in_perm_concat _ _ _ Hp Hin) as (l0 & Hl0 & Hin0).
    exact (Hall _ Hl0 _ _ Hin0).
  Qed.

  Lemma ccut_logs_ok :
    (forall a n c s l oa, ccut H st cr a n c s l oa -> log_ok l) /\
    (forall nr old es c ks logs om, kids_cut H st cr nr old es c ks logs om ->
       forall l, In l logs -> log_ok l).
  Proof.
    apply ccut_kids_ind.
    - intros; apply log_ok_nil.
    - intros; apply log_ok_nil.
    - intros a b c s l _ _ Hin.
      apply (proj1 (file_steps_spec st cr b s l (in_or_app _ _ _ (or_introl Hin)))).
    - intros a b c _ _.
      apply (proj1 (file_steps_spec st cr b _ _
               (in_or_app _ [file_commit_fin H st cr b] _ (or_intror (or_introl eq_refl))))).
    - intros a es c old ks logs om l _ _ _ IH Hp. exact (log_ok_perm_concat _ _ IH Hp).
    - intros a es c old ks logs m l _ _ _ IH Hp. apply log_ok_app.
      + exact (log_ok_perm_concat _ _ IH Hp).
      + apply (log_ok_wrs _ [temp_mode]).
    - intros a es c old ks logs m l _ _ _ IH Hp. apply log_ok_app.
      + exact (log_ok_perm_concat _ _ IH Hp).
      + apply (log_ok_wrs _ [temp_mode; cache_perms]).
    - intros nr old c l [].
    - intros nr old name ch r c ks logs om _ _ IH. exact IH.
    - intros nr old name ch r c ks logs om _ _ _ IH. exact IH.
    - intros nr old name ch r c s l oa ks logs om _ _ _ IHc _ IHk l0 [<-|Hin]; [exact IHc|exact (IHk _ Hin)].
  Qed.

  Lemma kids_cut_names nr old es c ks logs om :
    kids_cut H st cr nr old es c ks logs om -> map fst ks = map fst es.
  Proof. induction 1; cbn [map fst]; congruence. Qed.

  Lemma alookup_entries_none ks name :
    ~ In name (map fst ks) -> alookup name (entries_of ks) = None.
  Proof.
    induction ks as [|[k v] r IH]; intros Hn; [reflexivity|].
    cbn [map fst In] in Hn. unfold entries_of. cbn [flat_map snd fst].
    fold (entries_of r). destruct v as [n|]; cbn [app alookup].
    - destruct (beqb name k) eqn:E.
      + apply beqb_eq in E. subst k. exfalso. apply Hn. left. reflexivity.
      + apply IH. intros Hin. apply Hn. right. exact Hin.
    - apply IH. intros Hin. apply Hn. right. exact Hin.
  Qed.

  Lemma alookup_entries_of ks name s :
    NoDup (map fst ks) -> In (name, s) ks -> alookup name (entries_of ks) = s.
  Proof.
    induction ks as [|[k v] r IH]; intros Hnd Hin; [destruct Hin|].
    cbn [map fst] in Hnd. inversion Hnd as [|x xs Hnotin Hnd']; subst.
    unfold entries_of. cbn [flat_map snd fst]. fold (entries_of r).
    destruct Hin as [He|Hin].
    - injection He as -> ->. destruct s as [n|]; cbn [app alookup].
      + rewrite beqb_refl. reflexivity.
      + apply alookup_entries_none. exact Hnotin.
    - assert (Hne : beqb name k = false).
      { apply beqb_false. intros ->. apply Hnotin. apply (in_map fst) in Hin. exact Hin. }
      destruct v as [n|]; cbn [app alookup]; [rewrite Hne|]; exact (IH Hnd' Hin).
  Qed.

  (* the main invariant behind C03_no_loss: whatever writes of OTHER processes are merged into
     the log, every file of the tree stays retrievable *)
  Lemma ccut_no_loss : H_inj H ->
    (forall a n c s l oa, ccut H st cr a n c s l oa -> ftree n ->
       forall c0 l', incl l l' -> log_ok l' ->
       forall p b, In (p, b) (files_of c0 [] n) -> retrievable H (capply c0 l') s p b) /\
    (forall nr old es c ks logs om, kids_cut H st cr nr old es c ks logs om ->
       Forall (fun e => ftree (snd e)) es ->
       forall c0 l', (forall l, In l logs -> incl l l') -> log_ok l' ->
       forall name ch, In (name, ch) es ->
       exists s, In (name, s) ks /\
                 forall q b, In (q, b) (files_of c0 [] ch) -> retrievable H (capply c0 l') s q b).
  Proof.
    intros Hinj.
    assert (Hdir : forall nr old es c ks logs om (l l' : wlog) c0,
      kids_cut H st cr nr old es c ks logs om ->
      (Forall (fun e => ftree (snd e)) es ->
       forall c0 l', (forall l, In l logs -> incl l l') -> log_ok l' ->
       forall name ch, In (name, ch) es ->
       exists s, In (name, s) ks /\
                 forall q b, In (q, b) (files_of c0 [] ch) -> retrievable H (capply c0 l') s q b) ->
      ftree (Dir es) -> (forall l0, In l0 logs -> incl l0 l') -> log_ok l' ->
      forall p b, In (p, b) (files_of c0 [] (Dir es)) ->
                  retrievable H (capply c0 l') (Some (Dir (entries_of ks))) p b).
    { intros nr old es c ks logs om l l' c0 Hk IH Hf Hincl Hl' p b Hin.
      inversion Hf as [|es' Hnd Hall]; subst.
      apply files_of_dir_inv in Hin as (name & ch & q & Hine & -> & Hq).
      destruct (IH Hall c0 l' Hincl Hl' name ch Hine) as (s & Hs & Hr).
      apply retrievable_dir. rewrite (alookup_entries_of ks name s).
      - exact (Hr _ _ Hq).
      - rewrite (kids_cut_names _ _ _ _ _ _ _ Hk). exact Hnd.
      - exact Hs. }
    apply ccut_kids_ind.
    - intros a n c Hf c0 l' _ _ p b Hin. exact (retrievable_init H c0 _ n Hf p b Hin).
    - intros a n c a' _ _ _ Hf c0 l' _ _ p b Hin. exact (retrievable_init H c0 _ n Hf p b Hin).
    - intros a b c s l _ _ Hin _ c0 l' Hincl Hl' p b' Hf.
      cbn [files_of] in Hf. destruct Hf as [He|[]]. injection He as <- <-.
      exact (file_step_retrievable st cr b s l c0 l' Hinj (in_or_app _ _ _ (or_introl Hin)) Hincl Hl').
    - intros a b c _ _ _ c0 l' Hincl Hl' p b' Hf.
      cbn [files_of] in Hf. destruct Hf as [He|[]]. injection He as <- <-.
      apply (file_step_retrievable st cr b _ _ c0 l' Hinj
               (in_or_app _ [file_commit_fin H st cr b] _ (or_intror (or_introl eq_refl))) Hincl Hl').
    - intros a es c old ks logs om l _ _ Hk IH Hp Hf c0 l' Hincl Hl'.
      apply (Hdir _ _ _ _ _ _ _ l l' c0 Hk IH Hf); [|exact Hl'].
      intros l0 Hl0 e He. apply Hincl. exact (in_concat_perm _ _ _ _ Hp Hl0 He).
    - intros a es c old ks logs m l _ _ Hk IH Hp Hf c0 l' Hincl Hl'.
      apply (Hdir _ _ _ _ _ _ _ l l' c0 Hk IH Hf); [|exact Hl'].
      intros l0 Hl0 e He. apply Hincl. apply in_or_app. left. exact (in_concat_perm _ _ _ _ Hp Hl0 He).
    - intros a es c old ks logs m l _ _ Hk IH Hp Hf c0 l' Hincl Hl'.
      apply (Hdir _ _ _ _ _ _ _ l l' c0 Hk IH Hf); [|exact Hl'].
      intros l0 Hl0 e He. apply Hincl. apply in_or_app. left. exact (in_concat_perm _ _ _ _ Hp Hl0 He).
    - intros nr old c _ c0 l' _ _ name ch [].
    - intros nr old name ch r c ks logs om _ _ IH Hall c0 l' Hincl Hl' name' ch' Hin.
      inversion Hall as [|e es' Hch Hr]; subst. destruct Hin as [He|Hin].
      + injection He as <- <-. exists (Some ch). split; [left; reflexivity|].
        intros q b Hq. exact (retrievable_init H c0 _ ch Hch q b Hq).
      + destruct (IH Hr c0 l' Hincl Hl' _ _ Hin) as (s & Hs & Hret).
        exists s. split; [right; exact Hs|exact Hret].
    - intros nr old name ch r c ks logs om _ _ _ IH Hall c0 l' Hincl Hl' name' ch' Hin.
      inversion Hall as [|e es' Hch Hr]; subst. destruct Hin as [He|Hin].
      + injection He as <- <-. exists (Some ch). split; [left; reflexivity|].
        intros q b Hq. exact (retrievable_init H c0 _ ch Hch q b Hq).
      + destruct (IH Hr c0 l' Hincl Hl' _ _ Hin) as (s & Hs & Hret).
        exists s. split; [right; exact Hs|exact Hret].
    - intros nr old name ch r c s l oa ks logs om _ _ _ IHc _ IHk Hall c0 l' Hincl Hl' name' ch' Hin.
      inversion Hall as [|e es' Hch Hr]; subst. cbn [snd] in Hch. destruct Hin as [He|Hin].
      + injection He as <- <-. exists s. split; [left; reflexivity|].
        intros q b Hq. apply (IHc Hch c0 l'); [|exact Hl'|exact Hq].
        apply Hincl. left. reflexivity.
      + assert (Hi : forall l0, In l0 logs -> incl l0 l').
        { intros l0 Hl0. apply Hincl. right. exact Hl0. }
        destruct (IHk Hr c0 l' Hi Hl' _ _ Hin) as (s' & Hs & Hret).
        exists s'. split; [right; exact Hs|exact Hret].
  Qed.

  (* ---- C03: nothing is lost ---- *)
  Theorem C03_no_loss a n c s' c' :
    H_inj H -> plain n -> commit_cut H st cr a n c (s', c') -> no_loss H c n s' c'.
  Proof.
    intros Hinj Hp Hcut. inversion Hcut as [s l oa Hc]; subst. intros p b Hin.
    apply (proj1 (ccut_no_loss Hinj) _ _ _ _ _ _ Hc (plain_ftree _ Hp) c l (incl_refl _)).
    - exact (proj1 ccut_logs_ok _ _ _ _ _ _ Hc).
    - exact Hin.
  Qed.

  (* ---- C03: no torn object; the cache only grows ---- *)
  Theorem C03_no_torn_object a n c s' c' :
    commit_cut H st cr a n c (s', c') -> no_torn H c c'.
  Proof.
    intros Hcut. inversion Hcut as [s l oa Hc]; subst. apply capply_no_torn.
    exact (proj1 ccut_logs_ok _ _ _ _ _ _ Hc).
  Qed.

  Theorem C03_cache_grows a n c s' c' :
    H_inj H -> keyed c -> commit_cut H st cr a n c (s', c') -> cache_le c c'.
  Proof.
    intros Hinj Hk Hcut. inversion Hcut as [s l oa Hc]; subst. apply capply_le; try assumption.
    exact (proj1 ccut_logs_ok _ _ _ _ _ _ Hc).
  Qed.

  (* ---------------------------------------------------------------------------------------- *)
  (* end points: the initial state and the big-step result are cuts; bounds                    *)
  (* ---------------------------------------------------------------------------------------- *)

  Lemma ins_sorted_twice {A} k (v1 v2 : A) l :
    ins_sorted k v2 (ins_sorted k v1 l) = ins_sorted k v2 l.
  Proof.
    induction l as [|[k' v'] r IH]; cbn [ins_sorted].
    - rewrite beqb_refl. reflexivity.
    - destruct (beqb k k') eqn:E1.
      + cbn [ins_sorted]. rewrite beqb_refl. reflexivity.
      + destruct (bltb k k') eqn:E2.
        * cbn [ins_sorted]. rewrite beqb_refl. reflexivity.
        * cbn [ins_sorted]. rewrite E1, E2, IH. reflexivity.
  Qed.

  Lemma capply_two c b m : capply c [wr H b m; wr H b cache_perms] = cput c (H b) b.
  Proof. cbn [capply fold_left]. unfold cwrite, wr, cput. cbn [fst snd]. apply ins_sorted_twice. Qed.

  Lemma commit_node_nondir a n c :
    a_isdir a = false -> commit_node H a n c st = commit_file H a n c st.
  Proof.
    intros Hd. destruct n; try (rewrite commit_node_leaf by reflexivity; rewrite Hd; reflexivity).
    rewrite commit_node_dir, Hd. reflexivity.
  Qed.

  Lemma qmatch_file c cs b : qmatch c cs (Some (File b)) = false.
  Proof. unfold qmatch. apply andb_false_r. Qed.

  Lemma commit_file_noop a n c n' c' a' :
    stores a n = None -> a_isdir a = false -> commit_file H a n c st = Ok (n', c', a') ->
    n' = n /\ c' = c.
  Proof.
    intros Hs Hd Hok. unfold stores in Hs. rewrite Hd in Hs.
    apply commit_file_inv in Hok
      as [(_ & -> & -> & _)|[(_ & b & -> & _ & [(_ & -> & ->)|(Hsk & _)])|(d & o & _ & _ & -> & -> & _)]];
      try (split; reflexivity).
    rewrite Hsk in Hs. discriminate.
  Qed.

  Lemma commit_file_stores a b c n' c' a' :
    a_skip a = false -> commit_file H a (File b) c st = Ok (n', c', a') ->
    n' = match st with Link => LinkC (H b) | Copy => File b end /\
    c' = cput c (H b) b /\ a' = set_cs a (H b).
  Proof.
    intros Hs. unfold commit_file. rewrite qmatch_file, Hs.
    destruct st; intros Hok; injection Hok as <- <- <-; repeat split; reflexivity.
  Qed.

  Lemma cchild_eq old name ch : cchild old name ch = child_of old name ch.
  Proof. reflexivity. Qed.

  Lemma next_cache_ok a n c n' c' a' :
    commit_node H a n c st = Ok (n', c', a') -> next_cache H st a n c = c'.
  Proof. intros Hok. unfold next_cache. rewrite Hok. reflexivity. Qed.

  (* the big-step result is a (final) cut *)
  Lemma commit_final_cut n : forall a c n' c' a',
    commit_node H a n c st = Ok (n', c', a') ->
    exists l, ccut H st cr a n c (Some n') l (Some a') /\ capply c l = c'.
  Proof.
    assert (Hleaf : forall n, is_dir n = false -> forall a c n' c' a',
      commit_node H a n c st = Ok (n', c', a') ->
      exists l, ccut H st cr a n c (Some n') l (Some a') /\ capply c l = c').
    { intros n0 Hn a c n' c' a' Hok. rewrite (commit_node_leaf _ _ _ _ _ Hn) in Hok.
      destruct (a_isdir a) eqn:Hd; [discriminate|].
      destruct (stores a n0) as [b|] eqn:Hs.
      - unfold stores in Hs. rewrite Hd in Hs. destruct n0 as [b0| | | |]; try discriminate.
        destruct (a_skip a) eqn:Hsk; [discriminate|]. injection Hs as ->.
        destruct (commit_file_stores _ _ _ _ _ _ Hsk Hok) as (-> & -> & ->).
        exists (snd (file_commit_fin H st cr b)). split.
        + exact (cc_file_fin H st cr a b c Hd Hsk).
        + cbn [file_commit_fin snd]. apply capply_two.
      - destruct (commit_file_noop _ _ _ _ _ _ Hs Hd Hok) as [-> ->].
        exists []. split; [|reflexivity]. exact (cc_noop H st cr a n0 c a' Hd Hs Hok). }
    induction n as [b|d|t| |es IH] using node_ind2; intros a c n' c' a' Hok;
      try (refine (Hleaf _ _ _ _ _ _ _ Hok); reflexivity).
    apply commit_dir_inv in Hok as (Hd & old & es' & c1 & m & Ho & He & -> & -> & ->).
    assert (Hk : exists ks logs, kids_cut H st cr (a_norec a) old es c ks logs (Some m) /\
                                 entries_of ks = es' /\ capply c (concat logs) = c1).
    { clear Ho. revert c es' c1 m He.
      induction IH as [|[name ch] r IHch _ IHr]; intros c es' c1 m He.
      - apply commit_entries_nil in He. injection He as -> -> ->.
        exists [], []. split; [constructor|]. split; reflexivity.
      - apply commit_entries_cons in He
          as [(Hs & es1 & Hr & ->)|(Hs & Hu & ch' & c0 & child' & es1 & m1 & Hch & Hr & -> & ->)].
        + destruct (IHr _ _ _ _ Hr) as (ks & logs & Hk & <- & <-).
          exists ((name, Some ch) :: ks), logs. split; [|split; reflexivity].
          exact (kc_skip H st cr _ _ name ch r c ks logs (Some m) Hs Hk).
        + cbn [snd] in IHch. destruct (IHch _ _ _ _ _ Hch) as (l & Hc & <-).
          destruct (IHr _ _ _ _ Hr) as (ks & logs & Hk & <- & <-).
          exists ((name, Some ch') :: ks), (l :: logs). split; [|split].
          * rewrite <- (next_cache_ok _ _ _ _ _ _ Hch) in Hk.
            exact (kc_child H st cr _ _ name ch r c (Some ch') l (Some child') ks logs (Some m1)
                            Hs Hu Hc Hk).
          * reflexivity.
          * cbn [concat]. rewrite capply_app. reflexivity. }
    destruct Hk as (ks & logs & Hk & <- & <-).
    exists (concat logs ++ [wr H (man_bytes a m) temp_mode; wr H (man_bytes a m) cache_perms]). split.
    - exact (cc_dir_fin H st cr a es c old ks logs m (concat logs) Hd Ho Hk (Permutation_refl _)).
    - rewrite capply_app. apply capply_two.
  Qed.

  (* every write of a cut is a write of the completed commit; final cuts are big-step results *)
  Lemma ccut_upper : H_inj H ->
    (forall a n c s l oa, ccut H st cr a n c s l oa ->
       forall nf cf af, cache_ok H c -> commit_node H a n c st = Ok (nf, cf, af) ->
       (forall d o, In (d, o) l -> exists o', cget cf d = Some o') /\
       (forall a', oa = Some a' -> a' = af)) /\
    (forall nr old es c ks logs om, kids_cut H st cr nr old es c ks logs om ->
       forall es' c1 m, cache_ok H c ->
       commit_entries (commit_node H) nr old st es c = Ok (es', c1, m) ->
       (forall l d o, In l logs -> In (d, o) l -> exists o', cget c1 d = Some o') /\
       (forall m', om = Some m' -> m' = m)).
  Proof.
    intros Hinj.
    assert (Hput : forall c d b d', (exists o, cget c d' = Some o) \/ d' = d ->
                                    exists o', cget (cput c d b) d' = Some o').
    { intros c d b d' [(o & Hg)| ->]; rewrite cget_cput.
      - destruct (beqb d' d); eexists; [reflexivity|exact Hg].
      - rewrite beqb_refl. eexists. reflexivity. }
    assert (Hdir : forall a es c old (logs : list wlog) (om : option (list (bytes * artifact)))
                          (l : wlog) nf cf af,
      a_isdir a = true -> old_contents a c = Ok old ->
      (forall es' c1 m, cache_ok H c ->
         commit_entries (commit_node H) (a_norec a) old st es c = Ok (es', c1, m) ->
         (forall l d o, In l logs -> In (d, o) l -> exists o', cget c1 d = Some o') /\
         (forall m', om = Some m' -> m' = m)) ->
      Permutation l (concat logs) -> cache_ok H c ->
      commit_node H a (Dir es) c st = Ok (nf, cf, af) ->
      exists c1 m, cf = cput c1 (H (man_bytes a m)) (man_bytes a m) /\
                   af = set_cs a (H (man_bytes a m)) /\
                   (forall d o, In (d, o) l -> exists o', cget cf d = Some o') /\
                   (forall m', om = Some m' -> m' = m)).
    { intros a es c old logs om l nf cf af Hd Ho IH Hp Hc Hok.
      apply commit_dir_inv in Hok as (_ & old' & es' & c1 & m & Ho' & He & -> & -> & ->).
      rewrite Ho in Ho'. injection Ho' as <-.
      destruct (IH _ _ _ Hc He) as [IH1 IH2].
      exists c1, m. split; [reflexivity|]. split; [reflexivity|]. split; [|exact IH2].
      intros d o Hin. destruct (in_perm_concat _ _ _ Hp Hin) as (l0 & Hl0 & Hin0).
      apply Hput. left. exact (IH1 _ _ _ Hl0 Hin0). }
    apply ccut_kids_ind.
    - intros a n c nf cf af _ _. split; [intros d o []|discriminate].
    - intros a n c a' Hd _ Hcf nf cf af _ Hok. split; [intros d o []|].
      intros a2 He. injection He as <-. rewrite (commit_node_nondir _ _ _ Hd) in Hok. congruence.
    - intros a b c s l Hd Hsk Hin nf cf af _ Hok. split; [|discriminate].
      rewrite (commit_node_nondir _ _ _ Hd) in Hok.
      destruct (commit_file_stores _ _ _ _ _ _ Hsk Hok) as (_ & -> & _).
      intros d o Hi.
      destruct (proj1 (proj2 (file_steps_spec st cr b s l (in_or_app _ _ _ (or_introl Hin)))) _ Hi)
        as (m & He). injection He as -> _. apply Hput. right. reflexivity.
    - intros a b c Hd Hsk nf cf af _ Hok.
      rewrite (commit_node_nondir _ _ _ Hd) in Hok.
      destruct (commit_file_stores _ _ _ _ _ _ Hsk Hok) as (_ & -> & ->). split.
      + intros d o Hi. cbn [file_commit_fin snd In] in Hi.
        destruct Hi as [He|[He|[]]]; injection He as <- _; apply Hput; right; reflexivity.
      + intros a2 He. injection He as <-. reflexivity.
    - intros a es c old ks logs om l Hd Ho _ IH Hp nf cf af Hc Hok.
      destruct (Hdir _ _ _ _ _ _ _ _ _ _ Hd Ho IH Hp Hc Hok) as (c1 & m & _ & _ & Hin & _).
      split; [exact Hin|discriminate].
    - intros a es c old ks logs m0 l Hd Ho _ IH Hp nf cf af Hc Hok.
      destruct (Hdir _ _ _ _ _ _ _ _ _ _ Hd Ho IH Hp Hc Hok) as (c1 & m & -> & _ & Hin & Hm).
      rewrite (Hm _ eq_refl). split; [|discriminate].
      intros d o Hi. apply in_app_or in Hi as [Hi|[He|[]]]; [exact (Hin _ _ Hi)|].
      injection He as <- _. apply Hput. right. reflexivity.
    - intros a es c old ks logs m0 l Hd Ho _ IH Hp nf cf af Hc Hok.
      destruct (Hdir _ _ _ _ _ _ _ _ _ _ Hd Ho IH Hp Hc Hok) as (c1 & m & -> & -> & Hin & Hm).
      rewrite (Hm _ eq_refl). split.
      + intros d o Hi. apply in_app_or in Hi as [Hi|[He|[He|[]]]]; [exact (Hin _ _ Hi)| |];
          injection He as <- _; apply Hput; right; reflexivity.
      + intros a2 He. injection He as <-. reflexivity.
    - intros nr old c es' c1 m _ He. apply commit_entries_nil in He. injection He as -> -> ->.
      split; [intros l d o []|]. intros m' Hm. injection Hm as <-. reflexivity.
    - intros nr old name ch r c ks logs om Hs _ IH es' c1 m Hc He.
      apply commit_entries_cons in He as [(_ & es1 & Hr & _)|(Hs' & _)]; [|congruence].
      exact (IH _ _ _ Hc Hr).
    - intros nr old name ch r c ks logs om Hs Hu _ _ es' c1 m Hc He.
      apply commit_entries_cons in He as [(Hs' & _)|(_ & Hu' & _)]; congruence.
    - intros nr old name ch r c s l oa ks logs om Hs Hu _ IHc _ IHk es' c1 m Hc He.
      apply commit_entries_cons in He
        as [(Hs' & _)|(_ & _ & ch' & c0 & child' & es1 & m1 & Hch & Hr & -> & ->)]; [congruence|].
      rewrite <- cchild_eq in Hch.
      destruct (IHc _ _ _ Hc Hch) as [IHc1 IHc2].
      destruct (commit_cache_ok H Hinj _ _ _ _ _ _ _ Hc Hch) as [Hc0 _].
      rewrite (next_cache_ok _ _ _ _ _ _ Hch) in IHk.
      destruct (IHk _ _ _ Hc0 Hr) as [IHk1 IHk2].
      destruct (commit_entries_cache_ok H r Hinj _ _ _ _ _ _ _ Hc0 Hr) as [_ Hle]. split.
      + intros l0 d o [<-|Hl0] Hin.
        * destruct (IHc1 _ _ Hin) as (o' & Hg). destruct (Hle _ _ Hg) as (o2 & Hg2 & _).
          exists o2. exact Hg2.
        * exact (IHk1 _ _ _ Hl0 Hin).
      + intros m'. destruct oa as [a2|]; [|discriminate]. destruct om as [m2|]; [|discriminate].
        intros He. injection He as <-. rewrite (IHc2 _ eq_refl), (IHk2 _ eq_refl). reflexivity.
  Qed.

  (* ---- C03: the end points are cuts and every cut's cache lies between them ---- *)
  Theorem C03_cut_endpoints a n c nf cf af :
    H_inj H -> cache_ok H c -> commit_node H a n c st = Ok (nf, cf, af) ->
    commit_cut H st cr a n c (Some n, c) /\
    commit_cut H st cr a n c (Some nf, cf) /\
    forall s' c', commit_cut H st cr a n c (s', c') -> cache_le c c' /\ cache_le c' cf.
  Proof.
    intros Hinj Hc Hok. split; [|split].
    - exact (commit_cut_intro H st cr a n c (Some n) [] None (cc_init H st cr a n c)).
    - destruct (commit_final_cut n _ _ _ _ _ Hok) as (l & Hcut & <-).
      exact (commit_cut_intro H st cr a n c _ l _ Hcut).
    - intros s' c' Hcut. inversion Hcut as [s l oa Hcc]; subst.
      pose proof (proj1 ccut_logs_ok _ _ _ _ _ _ Hcc) as Hl.
      destruct (commit_cache_ok H Hinj _ _ _ _ _ _ _ Hc Hok) as [Hcf Hle]. split.
      + apply capply_le; [exact Hinj|exact (cache_ok_keyed _ Hc)|exact Hl].
      + apply capply_le_upper; [exact Hinj|exact (cache_ok_keyed _ Hcf)|exact Hle|exact Hl|].
        exact (proj1 (proj1 (ccut_upper Hinj) _ _ _ _ _ _ Hcc _ _ _ Hc Hok)).
  Qed.

  (* the initial state is a cut of every commit, successful or not *)
  Theorem C03_initial_is_cut a n c : commit_cut H st cr a n c (Some n, c).
  Proof. exact (commit_cut_intro H st cr a n c (Some n) [] None (cc_init H st cr a n c)). Qed.

  (* a cut marked final is the big-step result *)
  Theorem C03_final_cut_is_result a n c s l a' nf cf af :
    H_inj H -> cache_ok H c -> ccut H st cr a n c s l (Some a') ->
    commit_node H a n c st = Ok (nf, cf, af) -> a' = af.
  Proof.
    intros Hinj Hc Hcc Hok. exact (proj2 (proj1 (ccut_upper Hinj) _ _ _ _ _ _ Hcc _ _ _ Hc Hok) _ eq_refl).
  Qed.
End Crash.

Print Assumptions C03_file_no_loss.
Print Assumptions C03_file_no_torn.
Print Assumptions C03_file_cache_le.
Print Assumptions C03_no_loss.
Print Assumptions C03_no_torn_object.
Print Assumptions C03_cache_grows.
Print Assumptions C03_cut_endpoints.
Print Assumptions C03_initial_is_cut.
Print Assumptions C03_final_cut_is_result.

(* ------------------------------------------------------------------------------------------ *)
(* checkout                                                                                    *)
(* ------------------------------------------------------------------------------------------ *)

(* any tree (links allowed) with distinct entry names *)
Inductive ntree : node -> Prop :=
| nt_file b : ntree (File b)
| nt_linkc d : ntree (LinkC d)
| nt_linko t : ntree (LinkO t)
| nt_other : ntree Other
| nt_dir es : NoDup (map fst es) -> Forall (fun e => ntree (snd e)) es -> ntree (Dir es).

Lemma ftree_ntree n : ftree n -> ntree n.
Proof.
  induction n as [b|d|t| |es IH] using node_ind2; intros Hf; inversion Hf as [|es' Hnd Hall]; subst;
    constructor; [exact Hnd|].
  rewrite Forall_forall in *. intros e Hin. exact (IH e Hin (Hall e Hin)).
Qed.

Lemma retrievable_init_links H c n : ntree n ->
  forall q b, In (q, b) (files_of c [] n) -> retrievable H c (Some n) q b.
Proof.
  induction n as [b0|d|t| |es IH] using node_ind2; intros Hf q b Hin;
    inversion Hf as [| | | |es' Hnd Hall]; subst.
  - cbn [files_of] in Hin. destruct Hin as [He|[]]. injection He as <- <-.
    left. cbn [oget get]. reflexivity.
  - cbn [files_of] in Hin. destruct (alookup d c) as [o|] eqn:Hg; [|destruct Hin].
    destruct Hin as [He|[]]. injection He as <- <-. left. cbn [oget get].
    exists o. split; [exact Hg|reflexivity].
  - destruct Hin.
  - destruct Hin.
  - apply files_of_dir_inv in Hin as (name & ch & q' & Hin & -> & Hq).
    apply retrievable_dir. rewrite (alookup_nodup _ _ _ Hnd Hin).
    rewrite Forall_forall in IH, Hall. exact (IH _ Hin (Hall _ Hin) _ _ Hq).
Qed.

Section Checkout.
  Variable H : bytes -> bytes.
  Variable st : strategy.
  Variable c : cache.

  Lemma file_checkout_cuts_shape a slot s :
    In s (file_checkout_cuts a slot c st) ->
    s = slot \/ slot = None \/ exists d, slot = Some (LinkC d).
  Proof.
    destruct slot as [[b|d|t|es|]|]; try (intros _; right; left; reflexivity);
      try (intros _; right; right; eexists; reflexivity);
      unfold file_checkout_cuts;
      destruct (negb (has_cs (a_cs a))); try (intros [<-|[]]; left; reflexivity);
      destruct (cget c (a_cs a)); try (intros [<-|[]]; left; reflexivity);
      destruct st;
      match goal with
      | |- context [qmatch ?c ?cs ?sl] =>
        let E := fresh "E" in
        destruct (qmatch c cs sl) eqn:E;
        [unfold qmatch in E; rewrite andb_false_r in E; discriminate|]
      end;
      intros [<-|[]]; left; reflexivity.
  Qed.

  (* retrievability that does not rest on the workspace entry rests on the cache *)
  Lemma retrievable_via_cache slot p b :
    keyed H c -> slot = None \/ (exists d, slot = Some (LinkC d)) ->
    retrievable H c slot p b -> exists o, cget c (H b) = Some o /\ o_data o = b.
  Proof.
    intros Hk Hs [Hl|Hr]; [|exact Hr]. destruct Hs as [->|(d & ->)].
    - destruct Hl.
    - destruct p as [|x p]; cbn [oget get] in Hl; [|destruct Hl].
      destruct Hl as (o & Hg & Ho). exists o. split; [|exact Ho].
      rewrite <- Ho. rewrite <- (Hk _ _ Hg). exact Hg.
  Qed.

  Lemma file_checkout_mono a slot s :
    keyed H c -> In s (file_checkout_cuts a slot c st) ->
    forall p b, retrievable H c slot p b -> retrievable H c s p b.
  Proof.
    intros Hk Hin p b Hr. apply file_checkout_cuts_shape in Hin as [->|Hs]; [exact Hr|].
    right. exact (retrievable_via_cache _ _ _ Hk Hs Hr).
  Qed.

  Lemma checkout_cut_mono : keyed H c ->
    (forall f a slot s, checkout_cut st c f a slot s ->
       forall p b, retrievable H c slot p b -> retrievable H c s p b) /\
    (forall f kids es es', co_kids st c f kids es es' ->
       forall name p b, retrievable H c (alookup name es) p b -> retrievable H c (alookup name es') p b).
  Proof.
    intros Hk. apply checkout_cut_kids_ind.
    - intros f a slot p b Hr. exact Hr.
    - intros f a slot s _ Hin. exact (file_checkout_mono _ _ _ Hk Hin).
    - intros f a slot o m es0 es' _ _ _ _ Hs _ IH p b Hr.
      destruct Hr as [Hl|Hr]; [|right; exact Hr].
      destruct slot as [[| | |es|]|]; try discriminate; [|destruct Hl].
      injection Hs as ->. destruct p as [|name q]; [destruct Hl|].
      apply retrievable_dir. apply IH. apply (retrievable_dir H c es0). left. exact Hl.
    - intros f es name p b Hr. exact Hr.
    - intros f name child r es es' _ IH. exact IH.
    - intros f name child r es v es' _ IHc _ IHk name' p b Hr. apply IHk.
      destruct (beqb name' name) eqn:E.
      + apply beqb_eq in E. subst name'. rewrite alookup_dset_same. exact (IHc _ _ Hr).
      + apply beqb_false_neq in E. rewrite alookup_dset_other by exact E. exact Hr.
  Qed.

  (* ---- C03 for checkout: whatever was retrievable stays retrievable in every cut (the cache
     is not written; only absent entries and matching links are replaced) ---- *)
  Theorem C03_checkout_no_loss f a slot s :
    keyed H c -> checkout_cut st c f a slot s ->
    forall p b, retrievable H c slot p b -> retrievable H c s p b.
  Proof. intros Hk. exact (proj1 (checkout_cut_mono Hk) f a slot s). Qed.

  Theorem C03_checkout_no_loss_files f a n s :
    keyed H c -> ntree n -> checkout_cut st c f a (Some n) s -> no_loss H c n s c.
  Proof.
    intros Hk Hn Hcut p b Hin. apply (C03_checkout_no_loss f a (Some n) s Hk Hcut).
    exact (retrievable_init_links H c n Hn p b Hin).
  Qed.

  (* the big-step result of a checkout is a cut (so is the initial state: oc_init) *)
  Lemma prefixes_full b : In b (prefixes b).
  Proof.
    unfold prefixes. apply in_map_iff. exists (length b). split; [apply firstn_all|].
    apply in_seq. lia.
  Qed.

  Lemma checkout_file_cut a slot r :
    checkout_file H a slot c st = Ok r -> In r (file_checkout_cuts a slot c st).
  Proof.
    unfold checkout_file, file_checkout_cuts.
    destruct (negb (has_cs (a_cs a))); [discriminate|].
    destruct (cget c (a_cs a)) as [o|]; [|discriminate].
    assert (Hcopy : forall tl, In (Some (File (o_data o)))
                                  (tl ++ map (fun p => Some (File p)) (prefixes (o_data o)))).
    { intros tl. apply in_or_app. right. apply in_map_iff. exists (o_data o).
      split; [reflexivity|apply prefixes_full]. }
    destruct slot as [[b|d|t|es|]|]; cbn [orb];
      try (destruct (beqb (H b) (a_cs a)); [intros Hr; injection Hr as <-; left; reflexivity|discriminate]);
      destruct st;
      match goal with
      | |- context [qmatch ?c ?cs ?sl] => destruct (qmatch c cs sl) eqn:E
      end; cbn [orb];
      try discriminate;
      try (intros Hr; injection Hr as <-; left; reflexivity);
      try (intros Hr; injection Hr as <-; right; left; reflexivity);
      try (destruct (beqb (H (o_data o)) (a_cs a)); [|discriminate]; intros Hr; injection Hr as <-).
    all: repeat (first [exact (Hcopy []) | right]).
  Qed.

  Theorem C03_checkout_endpoints f : forall a slot r,
    checkout_node H f a slot c st = Ok r ->
    checkout_cut st c f a slot slot /\ checkout_cut st c f a slot r.
  Proof.
    induction f as [|f IH]; intros a slot r Hok; [discriminate|].
    split; [apply oc_init|]. rewrite checkout_node_S in Hok.
    destruct (a_isdir a) eqn:Hd; [|exact (oc_file st c f a slot r Hd (checkout_file_cut _ _ _ Hok))].
    destruct (negb (has_cs (a_cs a))) eqn:Hh; [discriminate|]. apply negb_false_iff in Hh.
    destruct (cget c (a_cs a)) as [o|] eqn:Hg; [|discriminate].
    assert (Hs : exists es0, slot_dir slot = Some es0 /\ slot_entries slot = es0 /\
                 match dec_manifest (o_data o) with
                 | Some m => match co_go H f c st (m_contents m) es0 with
                             | Ok es' => Ok (Some (Dir es'))
                             | Err => Err
                             end
                 | None => Err
                 end = Ok r).
    { destruct slot as [[| | |es|]|]; try discriminate; eexists; (split; [reflexivity|split; [reflexivity|exact Hok]]). }
    destruct Hs as (es0 & Hsd & _ & Hok'). clear Hok.
    destruct (dec_manifest (o_data o)) as [m|] eqn:Hm; [|discriminate].
    destruct (co_go H f c st (m_contents m) es0) as [es'|] eqn:Hgo; [|discriminate].
    injection Hok' as <-.
    apply (oc_dir st c f a slot o m es0 es' Hd Hh Hg Hm Hsd).
    clear Hm Hsd. revert es0 es' Hgo. generalize (m_contents m) as kids.
    induction kids as [|[name child] kr IHk]; intros es0 es' Hgo.
    - cbn [co_go] in Hgo. injection Hgo as <-. apply ok_nil.
    - cbn [co_go] in Hgo.
      destruct (checkout_node H f child (alookup name es0) c st) as [v|] eqn:Hc; [|discriminate].
      apply (ok_cons st c f name child kr es0 v es').
      + exact (proj2 (IH _ _ _ Hc)).
      + apply IHk. exact Hgo.
  Qed.
End Checkout.

Print Assumptions C03_checkout_no_loss.
Print Assumptions C03_checkout_no_loss_files.
Print Assumptions C03_checkout_endpoints.

(* ------------------------------------------------------------------------------------------ *)
(* C03: stage files and the index                                                              *)
(* ------------------------------------------------------------------------------------------ *)

Theorem C03_metadata_atomic {A} (old new x : A) : In x (meta_cuts old new) -> x = old \/ x = new.
Proof. intros [<-|[<-|[]]]; [left|right]; reflexivity. Qed.
Print Assumptions C03_metadata_atomic.

(* ------------------------------------------------------------------------------------------ *)
(* C04: a failing system call, the repaired rollback, the retry                                *)
(* ------------------------------------------------------------------------------------------ *)

Section Fail.
  Variable H : bytes -> bytes.

  Lemma cget_capply_wr c b m l :
    (forall e, In e l -> exists m', e = wr H b m') ->
    exists m', cget (capply c (wr H b m :: l)) (H b) = Some (mkObj b m').
  Proof.
    intros Hl. destruct (cget_capply_in (wr H b m :: l) c (H b) (mkObj b m) (or_introl eq_refl))
      as (o' & Hg & Hin).
    destruct Hin as [He|Hin].
    - injection He as <-. exists m. exact Hg.
    - destruct (Hl _ Hin) as (m' & He). injection He as ->. exists m'. exact Hg.
  Qed.

  (* the state left by a failing call is a cut, or a cut followed by the restoration *)
  Theorem C04_fail_is_cut st cr b c x :
    In x (file_commit_fail_states H st cr b c) ->
    exists y, In y (file_commit_cuts H st cr b c) /\ (x = y \/ (fst y = None /\ x = restore_ws H b y)).
  Proof.
    unfold file_commit_fail_states, file_commit_cuts, file_commit_steps.
    intros Hin. apply in_map_iff in Hin as ([s l] & <- & Hin). cbn [fst snd].
    exists (s, capply c l). split.
    - apply in_map_iff. exists (s, l). split; [reflexivity|]. apply in_or_app. left. exact Hin.
    - destruct s as [n|]; [left; reflexivity|right; split; reflexivity].
  Qed.

  (* explicit form: the entry is the regular file with its bytes, the cache is the initial one,
     or holds the object before its chmod, or is the final one *)
  Theorem C04_fail_states st cr b c s c' :
    In (s, c') (file_commit_fail_states H st cr b c) ->
    s = Some (File b) /\
    (c' = c \/ c' = capply c [wr H b (src_mode st cr)] \/ c' = cput c (H b) b).
  Proof.
    unfold file_commit_fail_states. intros Hin. apply in_map_iff in Hin as ([s0 l] & He & Hin).
    cbn [fst snd] in He.
    assert (Hcases : (s0 = Some (File b) \/ s0 = None /\ l <> []) /\
                     (l = [] \/ l = [wr H b (src_mode st cr)] \/
                      l = [wr H b (src_mode st cr); wr H b cache_perms])).
    { unfold file_commit_mid in Hin.
      destruct st, cr; cbn [In] in Hin;
        repeat (destruct Hin as [Hin|Hin]; [injection Hin as <- <-|]); try destruct Hin;
        (split; [first [left; reflexivity | right; split; [reflexivity|discriminate]]|]);
        first [left; reflexivity | right; left; reflexivity | right; right; reflexivity]. }
    destruct Hcases as [Hs Hl].
    assert (Hc' : snd (restore_ws H b (s0, capply c l)) = capply c l).
    { unfold restore_ws. cbn [fst snd]. destruct s0; [reflexivity|].
      destruct (cget (capply c l) (H b)); reflexivity. }
    assert (Hs' : fst (restore_ws H b (s0, capply c l)) = Some (File b)).
    { destruct Hs as [->|[-> Hne]]; [reflexivity|].
      unfold restore_ws. cbn [fst snd].
      destruct Hl as [->|[->| ->]]; [congruence| |].
      - destruct (cget_capply_wr c b (src_mode st cr) [] (fun e (F : In e []) => match F with end))
          as (m' & ->). reflexivity.
      - destruct (cget_capply_wr c b (src_mode st cr) [wr H b cache_perms]) as (m' & ->); [|reflexivity].
        intros e [<-|[]]. eexists. reflexivity. }
    rewrite He in Hc', Hs'. cbn [fst snd] in Hc', Hs'. split; [exact Hs'|].
    rewrite Hc'. destruct Hl as [->|[->| ->]].
    - left. reflexivity.
    - right. left. reflexivity.
    - right. right. apply capply_two.
  Qed.

  (* the workspace entry is never missing after a failed file commit, on either link path *)
  Theorem C04_entry_never_missing st cr b c s c' :
    In (s, c') (file_commit_fail_states H st cr b c) -> s <> None.
  Proof. intros Hin. destruct (C04_fail_states _ _ _ _ _ _ Hin) as [-> _]. discriminate. Qed.

  (* without the rollback the rename path does lose the entry (the object is in the cache) *)
  Theorem C04_norollback_entry_missing b c :
    exists c', In (None, c') (file_commit_fail_states_norollback H Link true b c).
  Proof. eexists. right. left. reflexivity. Qed.

  Lemma cput_twice c d b : cput (cput c d b) d b = cput c d b.
  Proof. unfold cput. apply ins_sorted_twice. Qed.

  Lemma cput_after_wr c b m : cput (capply c [wr H b m]) (H b) b = cput c (H b) b.
  Proof. cbn [capply fold_left]. unfold cwrite, wr, cput. cbn [fst snd]. apply ins_sorted_twice. Qed.

  (* the retry of a failed file commit does exactly what the undisturbed commit does: same
     entry, same cache (object modes included), same recorded artifact *)
  Theorem C04_retry st cr a b c s c1 :
    a_isdir a = false -> a_skip a = false ->
    In (s, c1) (file_commit_fail_states H st cr b c) ->
    exists n1, s = Some n1 /\ commit_node H a n1 c1 st = commit_node H a (File b) c st /\
               exists nf cf af, commit_node H a (File b) c st = Ok (nf, cf, af).
  Proof.
    intros Hd Hs Hin. destruct (C04_fail_states _ _ _ _ _ _ Hin) as [-> Hc].
    exists (File b). split; [reflexivity|].
    rewrite !(commit_node_nondir H st a (File b) _ Hd).
    unfold commit_file. rewrite !qmatch_file, Hs. split.
    - destruct Hc as [->|[->| ->]]; [reflexivity| |].
      + rewrite cput_after_wr. reflexivity.
      + rewrite cput_twice. reflexivity.
    - destruct st; do 3 eexists; reflexivity.
  Qed.

  (* also after a KILL, when the entry is present, the rerun ends in the same entry, cache and
     checksum as the undisturbed commit *)
  Theorem C04_rerun_from_cut st cr a b c n1 c1 :
    a_isdir a = false -> a_skip a = false ->
    In (Some n1, c1) (file_commit_cuts H st cr b c) ->
    exists nf cf af af', commit_node H a (File b) c st = Ok (nf, cf, af) /\
                         commit_node H a n1 c1 st = Ok (nf, cf, af') /\ a_cs af' = a_cs af.
  Proof.
    intros Hd Hs Hin. unfold file_commit_cuts in Hin.
    apply in_map_iff in Hin as ([s0 l] & He & Hin). cbn [fst snd] in He. injection He as -> <-.
    rewrite !(commit_node_nondir H st a _ _ Hd).
    assert (Hfile : forall l0, cput (capply c l0) (H b) b = cput c (H b) b ->
              exists nf cf af af', commit_file H a (File b) c st = Ok (nf, cf, af) /\
                commit_file H a (File b) (capply c l0) st = Ok (nf, cf, af') /\ a_cs af' = a_cs af).
    { intros l0 Hl0. unfold commit_file. rewrite !qmatch_file, Hs, Hl0.
      destruct st; do 4 eexists; (split; [reflexivity|split; reflexivity]). }
    unfold file_commit_steps, file_commit_mid, file_commit_fin in Hin.
    destruct st, cr; cbn [app In] in Hin;
      repeat (destruct Hin as [Hin|Hin]; [first [discriminate Hin | injection Hin as <- <-]|]);
      try destruct Hin;
      try (apply Hfile; first [reflexivity | apply cput_after_wr | rewrite capply_two; apply cput_twice]).
    (* the two link paths, final cut: the link is recognised (matching or adopted) *)
    all: rewrite capply_two;
      unfold commit_file at 1; rewrite qmatch_file, Hs;
      unfold commit_file;
      assert (Hg : in_cache (cput c (H b) b) (H b) = true)
        by (unfold in_cache; rewrite cget_cput, beqb_refl; reflexivity);
      destruct (qmatch (cput c (H b) b) (a_cs a) (Some (LinkC (H b)))) eqn:Eq;
      [ apply qmatch_inv in Eq as (_ & Eq & _); injection Eq as Eq;
        do 4 eexists; split; [reflexivity|split; [reflexivity|]]; cbn [set_cs a_cs]; symmetry; exact Eq
      | rewrite Hg; do 4 eexists; split; [reflexivity|split; reflexivity] ].
  Qed.
End Fail.

Print Assumptions C04_fail_is_cut.
Print Assumptions C04_fail_states.
Print Assumptions C04_entry_never_missing.
Print Assumptions C04_norollback_entry_missing.
Print Assumptions C04_retry.
Print Assumptions C04_rerun_from_cut.

(* ------------------------------------------------------------------------------------------ *)
(* the executable membership test                                                              *)
(* ------------------------------------------------------------------------------------------ *)

Lemma cache_matchb_refl c : cache_matchb c c = true.
Proof.
  induction c as [|[k v] r IH]; [reflexivity|]. cbn [cache_matchb].
  rewrite !beqb_refl, IH. unfold mode_okb. rewrite N.eqb_refl. reflexivity.
Qed.

Theorem in_file_commit_cuts_b_sound H st cr b c slot c' :
  in_file_commit_cuts_b H st cr b c slot c' = true ->
  exists s cc, In (s, cc) (file_commit_cuts H st cr b c) /\
               onode_eqb s slot = true /\ cache_matchb cc c' = true.
Proof.
  unfold in_file_commit_cuts_b. intros Hex. apply existsb_exists in Hex as ([s cc] & Hin & Hb).
  cbn [fst snd] in Hb. apply andb_true_iff in Hb as [Hb1 Hb2]. exists s, cc. repeat split; assumption.
Qed.

Theorem in_file_commit_cuts_b_complete H st cr b c s cc :
  In (s, cc) (file_commit_cuts H st cr b c) -> in_file_commit_cuts_b H st cr b c s cc = true.
Proof.
  intros Hin. unfold in_file_commit_cuts_b. apply existsb_exists. exists (s, cc).
  split; [exact Hin|]. cbn [fst snd]. rewrite cache_matchb_refl, andb_true_r.
  unfold file_commit_cuts in Hin. apply in_map_iff in Hin as ([s0 l] & He & Hin).
  cbn [fst snd] in He. injection He as <- _.
  destruct (file_steps_spec H st cr b s0 l Hin) as (_ & _ & [->|([-> | ->] & _)]);
    cbn [onode_eqb node_eqb]; try reflexivity; apply beqb_refl.
Qed.
Print Assumptions in_file_commit_cuts_b_sound.
Print Assumptions in_file_commit_cuts_b_complete.

(* the executable forms of the C03 statements agree with the Prop forms *)
Lemma retrievable_b_iff H c' s p b : retrievable_b H c' s p b = true <-> retrievable H c' s p b.
Proof.
  unfold retrievable_b, retrievable, cget. rewrite orb_true_iff.
  assert (Hobj : forall d, match alookup d c' with Some o => beqb (o_data o) b | None => false end = true <->
                           exists o, alookup d c' = Some o /\ o_data o = b).
  { intros d. destruct (alookup d c') as [o|].
    - rewrite beqb_eq. split; [intros Ho; exists o; split; [reflexivity|exact Ho]|].
      intros (o' & Ho' & Hd). injection Ho' as <-. exact Hd.
    - split; [discriminate|]. intros (o' & Ho' & _). discriminate. }
  rewrite Hobj.
  assert (Hl : match oget s p with
               | Some (File b') => beqb b b'
               | Some (LinkC d) => match alookup d c' with Some o => beqb (o_data o) b | None => false end
               | _ => false
               end = true <->
               match oget s p with
               | Some (File b') => b' = b
               | Some (LinkC d) => exists o, alookup d c' = Some o /\ o_data o = b
               | _ => False
               end).
  { destruct (oget s p) as [[b'|d|t|es|]|]; try (split; [discriminate|intros []]).
    - rewrite beqb_eq. split; intros E; symmetry; exact E.
    - apply Hobj. }
  rewrite Hl. reflexivity.
Qed.

Lemma no_loss_b_iff H c n s' c' : no_loss_b H c n s' c' = true <-> no_loss H c n s' c'.
Proof.
  unfold no_loss_b, no_loss. rewrite forallb_forall. split.
  - intros Hall p b Hin. apply retrievable_b_iff. exact (Hall (p, b) Hin).
  - intros Hall [p b] Hin. apply retrievable_b_iff. exact (Hall p b Hin).
Qed.

(* C03_no_loss as the statement of the check of Corr/RunCrash.v (spec_no_loss) *)
Theorem C03_no_loss_b H st cr a n c s' c' :
  H_inj H -> plain n -> commit_cut H st cr a n c (s', c') -> no_loss_b H c n s' c' = true.
Proof. intros Hinj Hp Hcut. apply no_loss_b_iff. exact (C03_no_loss H st cr a n c s' c' Hinj Hp Hcut). Qed.
Print Assumptions C03_no_loss_b.

(* ------------------------------------------------------------------------------------------ *)
(* the link path on a cross-device cache before the repair                                     *)
(* ------------------------------------------------------------------------------------------ *)

Definition Hx (b : bytes) : bytes := 1 :: 2 :: 3 :: b.
Lemma Hx_inj : H_inj Hx.
Proof. intros a b E. injection E as E. exact E. Qed.

Definition ex_x : bytes := [120; 121].
Definition ex_dir_art : artifact := mkArt [] [100] true false false.
Definition ex_dir : node := Dir [([97], File ex_x)].

(* With the OLD sequence (copy, chmod, UNLINK W, symlink W) there is a cut in which W is absent.
   The bytes are in the cache (C03 holds), but the workspace directory is then [Dir []], and
   committing it again (the retry) records an EMPTY directory: the entry is dropped, and the
   checksum differs from the one of the undisturbed commit. *)
Theorem C03_prerepair_refuted :
  In (None, cput [] (Hx ex_x) ex_x) (file_commit_cuts_prerepair Hx ex_x []) /\
  retrievable Hx (cput [] (Hx ex_x) ex_x) None [] ex_x /\
  entries_of [([97], @None node)] = [] /\
  exists cf af c' a',
    commit_node Hx ex_dir_art ex_dir [] Link = Ok (Dir [([97], LinkC (Hx ex_x))], cf, af) /\
    commit_node Hx ex_dir_art (Dir []) (cput [] (Hx ex_x) ex_x) Link = Ok (Dir [], c', a') /\
    a_cs a' <> a_cs af /\
    (exists o m, cget c' (a_cs a') = Some o /\ dec_manifest (o_data o) = Some m /\ m_contents m = []).
Proof.
  split; [|split; [|split]].
  - right. right. right. left. reflexivity.
  - right. eexists. split; reflexivity.
  - reflexivity.
  - do 4 eexists. split; [vm_compute; reflexivity|]. split; [vm_compute; reflexivity|]. split.
    + cbn [a_cs]. intros E. discriminate E.
    + do 2 eexists. split; [vm_compute; reflexivity|]. split; vm_compute; reflexivity.
Qed.
Print Assumptions C03_prerepair_refuted.

(* with the repaired sequence the entry is never absent on a cross-device cache, in any cut *)
Theorem C03_xdev_never_absent H b c s c' :
  In (s, c') (file_commit_cuts H Link false b c) -> s <> None.
Proof.
  unfold file_commit_cuts. intros Hin. apply in_map_iff in Hin as ([s0 l] & He & Hin).
  cbn [fst snd] in He. injection He as <- _.
  cbn in Hin. repeat (destruct Hin as [Hin|Hin]; [injection Hin as <- _; discriminate|]). destruct Hin.
Qed.
Theorem C03_copy_never_absent H cr b c s c' :
  In (s, c') (file_commit_cuts H Copy cr b c) -> s <> None.
Proof.
  unfold file_commit_cuts. intros Hin. apply in_map_iff in Hin as ([s0 l] & He & Hin).
  cbn [fst snd] in He. injection He as <- _.
  destruct cr; cbn in Hin;
    repeat (destruct Hin as [Hin|Hin]; [injection Hin as <- _; discriminate|]); destruct Hin.
Qed.
(* on the rename path a KILL between rename and symlink leaves the entry absent (the bytes are
   in the cache: C03_file_no_loss); only a FAILING call is rolled back (C04_entry_never_missing) *)
Theorem C03_rename_window H b c :
  In (None, capply c [wr H b file_mode]) (file_commit_cuts H Link true b c) /\
  In (None, cput c (H b) b) (file_commit_cuts H Link true b c).
Proof.
  split.
  - right. left. reflexivity.
  - right. right. left. cbn [fst snd]. rewrite <- (capply_two H c b file_mode). reflexivity.
Qed.
Print Assumptions C03_xdev_never_absent.
Print Assumptions C03_copy_never_absent.
Print Assumptions C03_rename_window.

(* ------------------------------------------------------------------------------------------ *)
(* non-vacuity                                                                                 *)
(* ------------------------------------------------------------------------------------------ *)

Example ex_file_cuts_rename :
  file_commit_cuts Hx Link true ex_x [] =
  [(Some (File ex_x), []);
   (None, [(Hx ex_x, mkObj ex_x 420)]);
   (None, [(Hx ex_x, mkObj ex_x 292)]);
   (Some (LinkC (Hx ex_x)), [(Hx ex_x, mkObj ex_x 292)])].
Proof. reflexivity. Qed.

Example ex_file_cuts_xdev :
  file_commit_cuts Hx Link false ex_x [] =
  [(Some (File ex_x), []);
   (Some (File ex_x), [(Hx ex_x, mkObj ex_x 384)]);
   (Some (File ex_x), [(Hx ex_x, mkObj ex_x 292)]);
   (Some (LinkC (Hx ex_x)), [(Hx ex_x, mkObj ex_x 292)])].
Proof. reflexivity. Qed.

Example ex_file_cuts_copy :
  file_commit_cuts Hx Copy false ex_x [] =
  [(Some (File ex_x), []);
   (Some (File ex_x), [(Hx ex_x, mkObj ex_x 384)]);
   (Some (File ex_x), [(Hx ex_x, mkObj ex_x 292)])].
Proof. reflexivity. Qed.

Example ex_fail_states_rename :
  file_commit_fail_states Hx Link true ex_x [] =
  [(Some (File ex_x), []);
   (Some (File ex_x), [(Hx ex_x, mkObj ex_x 420)]);
   (Some (File ex_x), [(Hx ex_x, mkObj ex_x 292)])].
Proof. reflexivity. Qed.

(* the membership test: a transient object may have any mode; a torn object, or an absent
   entry on the cross-device path, is rejected *)
Example ex_member_transient :
  in_file_commit_cuts_b Hx Link true ex_x [] None [(Hx ex_x, mkObj ex_x 384)] = true.
Proof. reflexivity. Qed.
Example ex_member_torn :
  in_file_commit_cuts_b Hx Link true ex_x [] None [(Hx ex_x, mkObj [120] 292)] = false.
Proof. reflexivity. Qed.
Example ex_member_absent_xdev :
  in_file_commit_cuts_b Hx Link false ex_x [] None [(Hx ex_x, mkObj ex_x 292)] = false.
Proof. reflexivity. Qed.

(* a directory cut that no sequential schedule produces: BOTH children have been renamed into
   the cache and neither has been linked yet; the two writes appear in the other order *)
Definition ex_y : bytes := [122].
Definition ex_dir2 : node := Dir [([97], File ex_x); ([98], File ex_y)].

Example ex_dir_cut_concurrent :
  commit_cut Hx Link true ex_dir_art ex_dir2 []
             (Some (Dir []), capply [] [wr Hx ex_y file_mode; wr Hx ex_x file_mode]).
Proof.
  assert (Hu : forall k, utf8_name [k] = true -> utf8_name [k] = true) by (intros k E; exact E).
  assert (Ka : ccut Hx Link true (cchild [] [97] (File ex_x)) (File ex_x) []
                    None [wr Hx ex_x file_mode] None).
  { apply cc_file_mid; [reflexivity|reflexivity|]. right. left. reflexivity. }
  assert (Kb : ccut Hx Link true (cchild [] [98] (File ex_y)) (File ex_y)
                    (next_cache Hx Link (cchild [] [97] (File ex_x)) (File ex_x) [])
                    None [wr Hx ex_y file_mode] None).
  { apply cc_file_mid; [reflexivity|reflexivity|]. right. left. reflexivity. }
  pose proof (kc_child Hx Link true false [] [98] (File ex_y) [] _ _ _ None [] [] (Some [])
                       eq_refl eq_refl Kb (kc_nil Hx Link true false [] _)) as K2.
  pose proof (kc_child Hx Link true false [] [97] (File ex_x) _ _ _ _ None _ _ _
                       eq_refl eq_refl Ka K2) as K1.
  apply (commit_cut_intro Hx Link true ex_dir_art ex_dir2 [] _ _ None).
  exact (cc_dir Hx Link true ex_dir_art _ [] [] _ _ _ _ eq_refl eq_refl K1 (perm_swap _ _ [])).
Qed.

(* ... and C03_no_loss applies to it: both files are retrievable (from the cache) *)
Example ex_dir_cut_no_loss :
  no_loss Hx [] ex_dir2 (Some (Dir []))
          (capply [] [wr Hx ex_y file_mode; wr Hx ex_x file_mode]).
Proof.
  apply (C03_no_loss Hx Link true ex_dir_art ex_dir2 [] _ _ Hx_inj); [|exact ex_dir_cut_concurrent].
  constructor.
  - repeat constructor; cbn; reflexivity.
  - repeat constructor; vm_compute; try reflexivity; repeat constructor; intros d Hd;
      cbn in Hd; repeat (destruct Hd as [<-|Hd]; [vm_compute; reflexivity|]); destruct Hd.
Qed.

(* a checkout cut with a partially written file *)
Example ex_checkout_partial :
  checkout_cut Copy [(Hx ex_x, mkObj ex_x 292)] 1 (mkArt (Hx ex_x) [102] false false false)
               None (Some (File [120])).
Proof.
  apply oc_file; [reflexivity|]. vm_compute. right. right. left. reflexivity.
Qed.

(* the final state of the example directory commit is a cut (C03_cut_endpoints is not vacuous) *)
Example ex_commit_succeeds :
  exists nf cf af, commit_node Hx ex_dir_art ex_dir2 [] Link = Ok (nf, cf, af).
Proof. do 3 eexists. vm_compute. reflexivity. Qed.

(* ------------------------------------------------------------------------------------------ *)
(* C04: retry of a failed commit of a FLAT directory (all entries regular files)               *)
(* ------------------------------------------------------------------------------------------ *)

Section RetryDir.
  Variable H : bytes -> bytes.
  Variable st : strategy.

  (* the workspace after the failed run: every entry is still there, as the regular file
     (untouched, or put back by the rollback) or, for an entry the run completed under the
     link strategy, as the link to its object *)
  Definition flat_state (old : list (bytes * artifact)) (e e1 : bytes * node) : Prop :=
    fst e1 = fst e /\
    exists b, snd e = File b /\
      (snd e1 = File b \/
       (snd e1 = LinkC (H b) /\ st = Link /\ a_skip (child_of old (fst e) (File b)) = false)).

  Lemma child_of_isdir old name ch : a_isdir (child_of old name ch) = is_dir ch.
  Proof.
    unfold child_of. destruct (alookup name old) as [oa|]; [|reflexivity].
    destruct (Bool.eqb (a_isdir oa) (is_dir ch)) eqn:E; [apply eqb_prop; exact E|reflexivity].
  Qed.

  Lemma in_cache_cput c d b d' : in_cache (cput c d b) d' = beqb d' d || in_cache c d'.
  Proof. unfold in_cache. rewrite cget_cput. destruct (beqb d' d); reflexivity. Qed.

  Lemma set_cs_same a : set_cs a (a_cs a) = a.
  Proof. destruct a; reflexivity. Qed.

  Lemma commit_file_in_cache_mono a n c n' c' a' d :
    commit_file H a n c st = Ok (n', c', a') -> in_cache c d = true -> in_cache c' d = true.
  Proof.
    intros Hok Hd. apply commit_file_inv in Hok
      as [(_ & _ & -> & _)|[(_ & b0 & _ & _ & [(_ & _ & ->)|(_ & -> & _)])|(d0 & o & _ & _ & _ & -> & _)]];
      try exact Hd.
    rewrite in_cache_cput, Hd. apply orb_true_r.
  Qed.

  Lemma flat_entries_retry nr old es es1 :
    H_inj H -> Forall2 (flat_state old) es es1 ->
    forall c c1 es' cf m, cache_ok H c ->
      commit_entries (commit_node H) nr old st es c = Ok (es', cf, m) ->
      (forall d, in_cache c d = true -> in_cache c1 d = true) ->
      (forall name b, In (name, LinkC (H b)) es1 -> in_cache c1 (H b) = true) ->
      (forall d, in_cache c d = true -> in_cache cf d = true) /\
      exists cf1, commit_entries (commit_node H) nr old st es1 c1 = Ok (es', cf1, m) /\
                  (forall d, in_cache cf d = true -> in_cache cf1 d = true) /\
                  (forall d o, cget cf1 d = Some o -> cget c1 d = Some o \/ exists o', cget cf d = Some o' /\ o_data o' = o_data o).
  Proof.
    intros Hinj. induction 1 as [|[name ch] [name1 ch1] r r1 Hst _ IH]; intros c c1 es' cf m Hc He Hsub Hlk.
    - apply commit_entries_nil in He. injection He as -> -> ->. split; [intros d Hd; exact Hd|].
      exists c1. split; [reflexivity|]. split; [exact Hsub|]. intros d o Hd. left. exact Hd.
    - destruct Hst as (Hn & b & Hch & Hch1). cbn [fst snd] in Hn, Hch, Hch1. subst name1 ch.
      apply commit_entries_cons in He
        as [(Hs & _)|(_ & Hu & ch' & c0 & child' & es1' & m1 & Hcom & Hr & -> & ->)].
      { cbn [is_dir] in Hs. rewrite andb_false_r in Hs. discriminate. }
      pose proof (child_of_isdir old name (File b)) as Hd. cbn [is_dir] in Hd.
      rewrite commit_node_leaf in Hcom by reflexivity. rewrite Hd in Hcom.
      assert (Hdir1 : is_dir ch1 = false) by (destruct Hch1 as [-> | (-> & _)]; reflexivity).
      assert (Hca : child_of old name ch1 = child_of old name (File b)).
      { unfold child_of. rewrite Hdir1. reflexivity. }
      assert (Hcons : forall c1',
        commit_file H (child_of old name (File b)) ch1 c1 st = Ok (ch', c1', child') ->
        (forall d, in_cache c0 d = true -> in_cache c1' d = true) ->
        (forall d o, cget c1' d = Some o -> cget c1 d = Some o \/ exists o', cget c0 d = Some o' /\ o_data o' = o_data o) ->
        (forall d, in_cache c d = true -> in_cache cf d = true) /\
        exists cf1, commit_entries (commit_node H) nr old st ((name, ch1) :: r1) c1 =
                    Ok ((name, ch') :: es1', cf1, (a_path child', child') :: m1) /\
                  (forall d, in_cache cf d = true -> in_cache cf1 d = true) /\
                  (forall d o, cget cf1 d = Some o -> cget c1 d = Some o \/ exists o', cget cf d = Some o' /\ o_data o' = o_data o)).
      { intros c1' Hcom1 Hsub1 Hsup1.
        destruct (commit_file_cache_ok H _ _ _ _ _ _ _ Hinj Hc Hcom) as [Hc0 _].
        destruct (commit_entries_cache_ok H r Hinj _ _ _ _ _ _ _ Hc0 Hr) as [_ Hle0].
        destruct (IH c0 c1' es1' cf m1 Hc0 Hr Hsub1) as (Hmono & cf1 & He1 & Hs1 & Hp1).
        { intros nm b' Hin. apply (commit_file_in_cache_mono _ _ _ _ _ _ _ Hcom1).
          exact (Hlk nm b' (or_intror Hin)). }
        split.
        { intros d Hd0. apply Hmono. exact (commit_file_in_cache_mono _ _ _ _ _ _ _ Hcom Hd0). }
        exists cf1. split; [|split; [exact Hs1|]].
        - cbn [commit_entries]. rewrite Hdir1, andb_false_r, Hu. cbn [negb].
          rewrite (commit_node_leaf _ _ _ _ _ Hdir1), Hca, Hd, Hcom1, He1. reflexivity.
        - intros d o Hd1. destruct (Hp1 d o Hd1) as [Hx|Hx]; [|right; exact Hx].
          destruct (Hsup1 d o Hx) as [Hy|(o' & Hy & Ey)]; [left; exact Hy|right].
          destruct (Hle0 _ _ Hy) as (o2 & Hg2 & E2). exists o2. split; [exact Hg2|congruence]. }
      destruct Hch1 as [-> | (-> & Hlink & Hsk)].
      + (* still the regular file: the same commit, on the larger cache *)
        unfold commit_file in Hcom. rewrite qmatch_file in Hcom.
        destruct (a_skip (child_of old name (File b))) eqn:Hsk.
        * injection Hcom as <- <- <-. apply (Hcons c1).
          -- unfold commit_file. rewrite qmatch_file, Hsk. reflexivity.
          -- exact Hsub.
          -- intros d o Hd1. left. exact Hd1.
        * assert (Hc0 : c0 = cput c (H b) b) by (destruct st; injection Hcom as _ <- _; reflexivity).
          apply (Hcons (cput c1 (H b) b)).
          -- unfold commit_file. rewrite qmatch_file, Hsk.
             destruct st; injection Hcom as <- _ <-; reflexivity.
          -- subst c0. intros d. rewrite !in_cache_cput. destruct (beqb d (H b)); [reflexivity|].
             cbn [orb]. apply Hsub.
          -- subst c0. intros d o. rewrite !cget_cput. destruct (beqb d (H b)).
             ++ intros Ho. right. exists o. split; [exact Ho|reflexivity].
             ++ intros Hd1. left. exact Hd1.
      + (* already the link to the object: recognised (matching) or adopted *)
        subst st. unfold commit_file in Hcom. rewrite qmatch_file, Hsk in Hcom.
        injection Hcom as <- <- <-.
        pose proof (Hlk name b (or_introl eq_refl)) as Hin.
        apply (Hcons c1).
        * unfold commit_file.
          destruct (qmatch c1 (a_cs (child_of old name (File b))) (Some (LinkC (H b)))) eqn:Eq.
          -- apply qmatch_inv in Eq as (_ & Eq & _). injection Eq as Eq.
             rewrite Eq at 3. rewrite set_cs_same. reflexivity.
          -- rewrite Hin. reflexivity.
        * intros d. rewrite in_cache_cput. destruct (beqb d (H b)) eqn:E; cbn [orb]; [|apply Hsub].
          apply beqb_eq in E. subst d. intros _. exact Hin.
        * intros d o Hd1. left. exact Hd1.
  Qed.

  (* C04 for a flat directory: from the state a failed run leaves behind (entries as in
     [flat_state]; a cache [c1] between the initial and the final one, as every cut's cache is by
     C03_cut_endpoints, that holds the object of every link), the retry succeeds with the same
     workspace entry, the same recorded artifact (checksum) and a cache with the same objects
     as the undisturbed commit.  The explicit premise [old_contents a c1 = Ok old] says that
     the retry reads the same old manifest: it holds unless the failed run itself stored an
     object under the stale checksum recorded in [a]. *)
  Theorem C04_retry_dir_flat a es es1 c c1 old nf cf af :
    H_inj H -> cache_ok H c -> keyed H c1 -> cache_le c c1 -> cache_le c1 cf ->
    old_contents a c = Ok old -> old_contents a c1 = Ok old ->
    Forall2 (flat_state old) es es1 ->
    (forall name b, In (name, LinkC (H b)) es1 -> in_cache c1 (H b) = true) ->
    commit_node H a (Dir es) c st = Ok (nf, cf, af) ->
    exists cf1, commit_node H a (Dir es1) c1 st = Ok (nf, cf1, af) /\
                cache_le cf cf1 /\ cache_le cf1 cf.
  Proof.
    intros Hinj Hc Hk1 Hle1 Hle2 Ho Ho1 Hst Hlk Hok.
    destruct (commit_cache_ok H Hinj _ _ _ _ _ _ _ Hc Hok) as [Hcf _].
    apply commit_dir_inv in Hok as (Hd & old' & es' & c2 & m & Ho' & He & -> & -> & ->).
    rewrite Ho in Ho'. injection Ho' as <-.
    assert (Hsub : forall d, in_cache c d = true -> in_cache c1 d = true).
    { intros d. unfold in_cache. destruct (cget c d) as [o|] eqn:Hg; [|discriminate].
      destruct (Hle1 _ _ Hg) as (o' & -> & _). reflexivity. }
    destruct (flat_entries_retry (a_norec a) old es es1 Hinj Hst c c1 es' c2 m Hc He Hsub Hlk)
      as (_ & cf1 & He1 & Hs1 & Hp1).
    set (mb := enc_manifest (mkMan (a_path a) m)) in *.
    exists (cput cf1 (H mb) mb). split.
    - rewrite CommitProofs.commit_node_dir, Hd, Ho1, He1. reflexivity.
    - assert (Hkf1 : keyed H (cput cf1 (H mb) mb)).
      { intros d o. rewrite cget_cput. destruct (beqb d (H mb)) eqn:E.
        - apply beqb_eq in E. intros Hg. injection Hg as <-. exact E.
        - intros Hg. destruct (Hp1 _ _ Hg) as [Hg1|(o' & Hg' & Eo)]; [exact (Hk1 _ _ Hg1)|].
          rewrite <- Eo. apply (cache_ok_keyed H _ Hcf d o').
          rewrite cget_cput, E. exact Hg'. }
      assert (Hpres : forall cA cB, keyed H cA -> keyed H cB ->
                (forall d, in_cache cA d = true -> in_cache cB d = true) -> cache_le cA cB).
      { intros cA cB HkA HkB Hin d o Hg.
        assert (Hi : in_cache cA d = true) by (unfold in_cache; rewrite Hg; reflexivity).
        apply Hin in Hi. unfold in_cache in Hi. destruct (cget cB d) as [o'|] eqn:Hg'; [|discriminate].
        exists o'. split; [reflexivity|]. apply Hinj. rewrite <- (HkB _ _ Hg'). exact (HkA _ _ Hg). }
      split; apply Hpres; try exact Hkf1; try exact (cache_ok_keyed H _ Hcf).
      + intros d. rewrite !in_cache_cput. destruct (beqb d (H mb)); [reflexivity|]. cbn [orb]. apply Hs1.
      + intros d. rewrite !in_cache_cput. destruct (beqb d (H mb)) eqn:E; [reflexivity|]. cbn [orb].
        unfold in_cache at 1. destruct (cget cf1 d) as [o|] eqn:Hg; [|discriminate]. intros _.
        destruct (Hp1 _ _ Hg) as [Hg1|(o' & Hg' & _)].
        * destruct (Hle2 _ _ Hg1) as (o2 & Hg2 & _). rewrite cget_cput, E in Hg2.
          unfold in_cache. rewrite Hg2. reflexivity.
        * unfold in_cache. rewrite Hg'. reflexivity.
  Qed.
End RetryDir.
Print Assumptions C04_retry_dir_flat.

(* the retry after a failure in a directory: child "a" completed (link), child "b" failed at
   its chmod (file restored by the rollback, object present with the old mode): the retry ends
   exactly where the undisturbed commit ends *)
Example ex_retry_dir :
  let c1 := capply [] [wr Hx ex_x file_mode; wr Hx ex_x cache_perms; wr Hx ex_y file_mode] in
  commit_node Hx ex_dir_art (Dir [([97], LinkC (Hx ex_x)); ([98], File ex_y)]) c1 Link =
  commit_node Hx ex_dir_art ex_dir2 [] Link.
Proof. vm_compute. reflexivity. Qed.

(* ... whereas with the pre-repair sequence the same failure point (entry unlinked, symlink
   failing) leaves "a" absent and the retry commits a different directory *)
Example ex_retry_dir_prerepair :
  let c1 := capply [] [wr Hx ex_x temp_mode; wr Hx ex_x cache_perms] in
  exists r1 r2,
    commit_node Hx ex_dir_art (Dir [([98], File ex_y)]) c1 Link = Ok r1 /\
    commit_node Hx ex_dir_art ex_dir2 [] Link = Ok r2 /\
    a_cs (snd r1) <> a_cs (snd r2).
Proof.
  do 2 eexists. split; [vm_compute; reflexivity|]. split; [vm_compute; reflexivity|].
  cbn [snd a_cs]. intros E. discriminate E.
Qed.
