(* Facts about Model/Render.v, the model of artifact.Status.String() (artifact.go, /repo HEAD).
   Sections:
     1. the equations of [render] / [dir_counts] in the shape of the Go code; String() never panics
     2. decimal printer, count map, sortCounts: basic facts
     3. (a) files:        render_file_uptodate_iff, witnesses about ContentsMatch
     4. (b) directories:  render_dir_ok_iff, the empty-directory anomaly (..._refuted)
     5. (c) output alphabet: printable ASCII, in particular no newline
     6. the text does not depend on the order of the children (Go map iteration order)
     7. (d) the unit tests of /repo/src/artifact/artifact_test.go, by vm_compute
     8. what the ad-hoc checker [human_ok] of Corr/RunSys.v computes on a rendered text *)
From Coq Require Import NArith List Bool String Lia Permutation Sorted.
From DudV Require Import Base.Bytes Model.Fs Model.Cache Model.Render.
From DudV Require Corr.RunSys.
Import ListNotations.
Local Open Scope N_scope.

(* ===================== 1. equations, panic freedom ===================== *)

(* induction over status trees (the generated principle ignores the children) *)
Fixpoint stree_ind' (P : stree -> Prop)
  (IH : forall a w has inc cm kids, Forall (fun kv => P (snd kv)) kids -> P (St a w has inc cm kids))
  (s : stree) : P s :=
  match s with
  | St a w has inc cm kids =>
    IH a w has inc cm kids
       ((fix go (l : list (bytes * stree)) : Forall (fun kv => P (snd kv)) l :=
           match l with
           | [] => Forall_nil _
           | kv :: r => Forall_cons kv (stree_ind' P IH (snd kv)) (go r)
           end) kids)
  end.

(* String(), lines 131-198 *)
Lemma render_eq a w has inc cm kids :
  render (St a w has inc cm kids) =
  match string_head a w has inc cm with
  | Ret t => t
  | DirCounts => show_counts (dir_counts (St a w has inc cm kids) [])
  | Panic => []
  end.
Proof. reflexivity. Qed.

(* the loop of dirStatusCounts, lines 96-105 *)
Fixpoint count_kids (l : list (bytes * stree)) (m : counts) : counts :=
  match l with
  | [] => m
  | (_, c) :: r => if is_subdir c then count_kids r (dir_counts c m)
                   else count_kids r (bump (render c) m)
  end.

(* dirStatusCounts, lines 89-106 *)
Lemma dir_counts_eq a w has inc cm kids m :
  dir_counts (St a w has inc cm kids) m =
  count_kids kids (bump (match kids with [] => t_empty_dir | _ :: _ => t_dir end) m).
Proof.
  cbn [dir_counts].
  replace (match kids with [] => bump t_empty_dir m | _ :: _ => bump t_dir m end)
    with (bump (match kids with [] => t_empty_dir | _ :: _ => t_dir end) m) by (destruct kids; reflexivity).
  generalize (bump (match kids with [] => t_empty_dir | _ :: _ => t_dir end) m) as m1.
  induction kids as [|[k c] r IH]; intro m1; [reflexivity|].
  cbn [count_kids]. destruct (is_subdir c); apply IH.
Qed.

(* line 197 is dead code *)
Theorem head_never_panics a w has inc cm : string_head a w has inc cm <> Panic.
Proof.
  destruct a as [cs p d n sk]; destruct d, sk, w, has, inc, cm; vm_compute; discriminate.
Qed.
Print Assumptions head_never_panics.

(* line 187 is reached exactly for a directory artifact, present as a directory, not skip-cache *)
Lemma head_dircounts_iff a w has inc cm :
  string_head a w has inc cm = DirCounts <->
  a_isdir a = true /\ w = SDirectory /\ a_skip a = false.
Proof.
  destruct a as [cs p d n sk]; destruct d, sk, w, has, inc, cm; vm_compute;
    split; try discriminate; try (intros (? & ? & ?); discriminate); auto.
Qed.

Definition is_dirstatus (s : stree) : bool :=
  match s with St a w _ _ _ _ => a_isdir a && fstatus_eqb w SDirectory && negb (a_skip a) end.

Lemma is_dirstatus_head a w has inc cm kids :
  is_dirstatus (St a w has inc cm kids) = true <-> string_head a w has inc cm = DirCounts.
Proof.
  rewrite head_dircounts_iff. cbn [is_dirstatus].
  destruct (a_isdir a), (a_skip a), w; cbn; intuition congruence.
Qed.

Lemma render_dir s : is_dirstatus s = true -> render s = show_counts (dir_counts s []).
Proof.
  destruct s as [a w has inc cm kids]. intro H. apply is_dirstatus_head in H.
  rewrite render_eq, H. reflexivity.
Qed.

Lemma render_nondir a w has inc cm kids :
  is_dirstatus (St a w has inc cm kids) = false ->
  exists t, string_head a w has inc cm = Ret t /\ render (St a w has inc cm kids) = t.
Proof.
  intro H. rewrite render_eq. destruct (string_head a w has inc cm) eqn:E.
  - eauto.
  - apply is_dirstatus_head with (kids := kids) in E. congruence.
  - exfalso. exact (head_never_panics _ _ _ _ _ E).
Qed.

(* "total": [render] is a structural Fixpoint (no fuel, no option), and the only partial point of
   the Go code, the panic of line 197, is not reachable: the text is either a [Ret] of the head or
   the count rendering. *)
Theorem render_total s :
  (exists t, (match s with St a w has inc cm _ => string_head a w has inc cm end) = Ret t /\ render s = t) \/
  (is_dirstatus s = true /\ render s = show_counts (dir_counts s [])).
Proof.
  destruct s as [a w has inc cm kids]. destruct (is_dirstatus (St a w has inc cm kids)) eqn:E.
  - right. split; [reflexivity|]. apply render_dir; exact E.
  - left. apply render_nondir in E. exact E.
Qed.
Print Assumptions render_total.

(* ===================== 2. decimal printer, count map, sortCounts ===================== *)

Definition is_digit (b : N) : bool := (48 <=? b) && (b <=? 57).

Lemma dec_fuel_digits f : forall n acc,
  forallb is_digit acc = true -> forallb is_digit (dec_fuel f n acc) = true.
Proof.
  induction f as [|f IH]; intros n acc Ha; cbn [dec_fuel]; [exact Ha|].
  assert (Hd : forallb is_digit ((48 + n mod 10) :: acc) = true).
  { cbn [forallb]. rewrite Ha, andb_true_r. unfold is_digit.
    pose proof (N.mod_upper_bound n 10 ltac:(discriminate)) as Hm. revert Hm.
    generalize (n mod 10) as d. intros d Hm.
    apply andb_true_iff; split; apply N.leb_le; lia. }
  destruct (n / 10 =? 0); [exact Hd | apply IH; exact Hd].
Qed.

Lemma dec_fuel_nonempty f : forall n acc, acc <> [] -> dec_fuel f n acc <> [].
Proof.
  induction f as [|f IH]; intros n acc Ha; cbn [dec_fuel]; [exact Ha|].
  destruct (n / 10 =? 0); [discriminate | apply IH; discriminate].
Qed.

Lemma dec_digits n : forallb is_digit (dec n) = true.
Proof. apply dec_fuel_digits. reflexivity. Qed.

Lemma dec_nonempty n : dec n <> [].
Proof.
  unfold dec. cbn [dec_fuel]. destruct (n / 10 =? 0); [discriminate|].
  apply dec_fuel_nonempty. discriminate.
Qed.

(* the printer is right: reading the digits back gives the number *)
Fixpoint undec (l : bytes) (v : N) : N :=
  match l with [] => v | d :: r => undec r (10 * v + (d - 48)) end.

Lemma undec_app l1 l2 v : undec (l1 ++ l2) v = undec l2 (undec l1 v).
Proof. revert v; induction l1 as [|d l1 IH]; intro v; [reflexivity|]. cbn. apply IH. Qed.

Lemma dec_fuel_value f : forall n acc, n < 2 ^ N.of_nat f ->
  exists ds, dec_fuel f n acc = ds ++ acc /\ undec ds 0 = n.
Proof.
  induction f as [|f IH]; intros n acc Hn.
  - cbn in Hn. assert (n = 0) by lia. subst n. exists []. split; reflexivity.
  - cbn [dec_fuel].
    pose proof (N.div_mod n 10 ltac:(discriminate)) as Hdm.
    pose proof (N.mod_upper_bound n 10 ltac:(discriminate)) as Hm.
    rewrite Nat2N.inj_succ, N.pow_succ_r' in Hn.
    set (q := n / 10) in *. set (d := n mod 10) in *. clearbody q d.
    destruct (q =? 0) eqn:E.
    + apply N.eqb_eq in E. exists [48 + d]. split; [reflexivity|]. cbn [undec]. lia.
    + apply N.eqb_neq in E.
      assert (Hlt : q < 2 ^ N.of_nat f) by lia.
      destruct (IH q ((48 + d) :: acc) Hlt) as (ds & E1 & E2).
      exists (ds ++ [48 + d]). split.
      * rewrite E1, <- app_assoc. reflexivity.
      * rewrite undec_app, E2. cbn [undec]. lia.
Qed.

Lemma size_nat_bound n : n < 2 ^ N.of_nat (N.size_nat n).
Proof.
  destruct n as [|p]; [cbn; lia|]. cbn [N.size_nat].
  induction p as [p IH|p IH|]; cbn [Pos.size_nat]; rewrite ?Nat2N.inj_succ, ?N.pow_succ_r' in *.
  - set (P := 2 ^ _) in *. clearbody P. change (N.pos p~1) with (2 * N.pos p + 1). lia.
  - set (P := 2 ^ _) in *. clearbody P. change (N.pos p~0) with (2 * N.pos p). lia.
  - cbn. lia.
Qed.

Theorem dec_correct n : undec (dec n) 0 = n.
Proof.
  unfold dec.
  destruct (dec_fuel_value (S (N.size_nat n)) n []) as (ds & E1 & E2).
  - rewrite Nat2N.inj_succ, N.pow_succ_r'. pose proof (size_nat_bound n). lia.
  - rewrite E1, app_nil_r. exact E2.
Qed.
Print Assumptions dec_correct.

(* ---- the count map ---- *)
Definition keys (m : counts) : list bytes := map fst m.
Fixpoint get (m : counts) (k : bytes) : N :=
  match m with [] => 0 | (k', n) :: r => if beqb k k' then n else get r k end.
Definition bump_all (l : list bytes) (m : counts) : counts := fold_left (fun m k => bump k m) l m.

Lemma beqb_sym a b : beqb a b = beqb b a.
Proof.
  destruct (beqb a b) eqn:E1, (beqb b a) eqn:E2; try reflexivity.
  - apply beqb_eq in E1. subst. rewrite beqb_refl in E2. discriminate.
  - apply beqb_eq in E2. subst. rewrite beqb_refl in E1. discriminate.
Qed.

Lemma beqb_false_neq a b : beqb a b = false -> a <> b.
Proof. intros H E. subst. rewrite beqb_refl in H. discriminate. Qed.

Lemma get_bump k k' m : get (bump k' m) k = if beqb k k' then get m k + 1 else get m k.
Proof.
  induction m as [|[k2 n] r IH]; cbn [bump get].
  - destruct (beqb k k'); reflexivity.
  - destruct (beqb k' k2) eqn:E2; cbn [get].
    + apply beqb_eq in E2. subst k2. destruct (beqb k k'); reflexivity.
    + destruct (beqb k k2) eqn:E3.
      * apply beqb_eq in E3. subst k2. rewrite beqb_sym, E2. reflexivity.
      * exact IH.
Qed.

Lemma keys_bump_in k k' m : In k (keys (bump k' m)) <-> k = k' \/ In k (keys m).
Proof.
  induction m as [|[k2 n] r IH]; cbn [bump keys map fst In].
  - intuition.
  - destruct (beqb k' k2) eqn:E2; cbn [keys map fst In].
    + apply beqb_eq in E2. subst k2. intuition.
    + fold (keys (bump k' r)). fold (keys r). rewrite IH. intuition.
Qed.

Lemma keys_bump_nodup k m : NoDup (keys m) -> NoDup (keys (bump k m)).
Proof.
  induction m as [|[k2 n] r IH]; cbn [bump keys map fst]; intro Hn.
  - constructor; [intros []|constructor].
  - destruct (beqb k k2) eqn:E2; cbn [map fst]; [exact Hn|].
    inversion Hn as [|? ? Hni Hnr]; subst. constructor.
    + fold (keys (bump k r)). rewrite keys_bump_in. intros [->|Hi]; [|exact (Hni Hi)].
      rewrite beqb_refl in E2. discriminate.
    + apply IH. exact Hnr.
Qed.

Lemma bump_nonempty k m : bump k m <> [].
Proof. destruct m as [|[k2 n] r]; cbn; [discriminate|]. destruct (beqb k k2); discriminate. Qed.

Lemma bump_all_nonempty l : forall m, m <> [] -> bump_all l m <> [].
Proof.
  induction l as [|k l IH]; intros m Hm; [exact Hm|]. cbn. apply IH. apply bump_nonempty.
Qed.

Lemma bump_all_app l1 l2 m : bump_all (l1 ++ l2) m = bump_all l2 (bump_all l1 m).
Proof. apply fold_left_app. Qed.

Lemma keys_bump_all_in k l : forall m, In k (keys (bump_all l m)) <-> In k l \/ In k (keys m).
Proof.
  induction l as [|k' l IH]; intro m; cbn [bump_all fold_left In].
  - intuition.
  - fold (bump_all l (bump k' m)). rewrite IH, keys_bump_in. intuition.
Qed.

Lemma keys_bump_all_nodup l : forall m, NoDup (keys m) -> NoDup (keys (bump_all l m)).
Proof.
  induction l as [|k' l IH]; intros m Hn; [exact Hn|]. cbn. apply IH. apply keys_bump_nodup. exact Hn.
Qed.

Fixpoint occ (k : bytes) (l : list bytes) : N :=
  match l with [] => 0 | k' :: r => (if beqb k k' then 1 else 0) + occ k r end.

Lemma get_bump_all k l : forall m, get (bump_all l m) k = get m k + occ k l.
Proof.
  induction l as [|k' l IH]; intro m; cbn [bump_all fold_left occ]; [lia|].
  fold (bump_all l (bump k' m)). rewrite IH, get_bump. destruct (beqb k k'); lia.
Qed.

(* a key that is present has its [get] as value (keys distinct) *)
Lemma in_get k n m : NoDup (keys m) -> In (k, n) m -> get m k = n.
Proof.
  induction m as [|[k2 n2] r IH]; intros Hn Hi; [destruct Hi|].
  inversion Hn as [|? ? Hni Hnr]; subst. cbn [get]. destruct Hi as [E|Hi].
  - inversion E; subst. rewrite beqb_refl. reflexivity.
  - destruct (beqb k k2) eqn:E2.
    + apply beqb_eq in E2. subst k2. exfalso. apply Hni. change k with (fst (k, n)). apply in_map. exact Hi.
    + apply IH; assumption.
Qed.

Lemma get_in k m : In k (keys m) -> In (k, get m k) m.
Proof.
  induction m as [|[k2 n2] r IH]; intro Hi; [destruct Hi|]. cbn [get].
  destruct (beqb k k2) eqn:E2.
  - apply beqb_eq in E2. subst. left. reflexivity.
  - right. apply IH. destruct Hi as [E|Hi]; [|exact Hi]. cbn in E. subst. rewrite beqb_refl in E2. discriminate.
Qed.

(* ---- the sequence of increments dirStatusCounts performs ---- *)
Definition dir_label (kids : list (bytes * stree)) : bytes :=
  match kids with [] => t_empty_dir | _ :: _ => t_dir end.
Definition kid_labels (F : stree -> list bytes) (kv : bytes * stree) : list bytes :=
  if is_subdir (snd kv) then F (snd kv) else [render (snd kv)].
Fixpoint labels (s : stree) : list bytes :=
  match s with
  | St _ _ _ _ _ kids =>
    dir_label kids ::
    (fix go (l : list (bytes * stree)) : list bytes :=
       match l with
       | [] => []
       | kv :: r => kid_labels labels kv ++ go r
       end) kids
  end.

Lemma labels_eq a w has inc cm kids :
  labels (St a w has inc cm kids) = dir_label kids :: flat_map (kid_labels labels) kids.
Proof.
  reflexivity.
Qed.

Definition kid_leaves (F : stree -> list stree) (kv : bytes * stree) : list stree :=
  if is_subdir (snd kv) then F (snd kv) else [snd kv].
Lemma leaves_eq a w has inc cm kids :
  leaves (St a w has inc cm kids) = flat_map (kid_leaves leaves) kids.
Proof.
  cbn [leaves]. induction kids as [|[k c] r IH]; [reflexivity|]. cbn [flat_map]. rewrite IH. reflexivity.
Qed.

Lemma dir_counts_labels s : forall m, dir_counts s m = bump_all (labels s) m.
Proof.
  induction s as [a w has inc cm kids IH] using stree_ind'. intro m.
  rewrite dir_counts_eq, labels_eq. cbn [bump_all fold_left]. fold (dir_label kids).
  generalize (bump (dir_label kids) m) as m1.
  induction kids as [|[k c] r IHr]; intro m1; [reflexivity|].
  inversion IH as [|? ? Hc Hr]; subst. cbn [count_kids flat_map]. unfold kid_labels at 1. cbn [snd].
  rewrite fold_left_app. destruct (is_subdir c).
  - rewrite (IHr Hr). f_equal. apply Hc.
  - rewrite (IHr Hr). reflexivity.
Qed.

Lemma labels_nonempty s : labels s <> [].
Proof. destruct s. rewrite labels_eq. discriminate. Qed.

Lemma dir_counts_nonempty s : dir_counts s [] <> [].
Proof.
  rewrite dir_counts_labels. destruct (labels s) as [|k l] eqn:E; [exfalso; exact (labels_nonempty s E)|].
  cbn. apply bump_all_nonempty. discriminate.
Qed.

Lemma dir_counts_nodup s : NoDup (keys (dir_counts s [])).
Proof. rewrite dir_counts_labels. apply keys_bump_all_nodup. constructor. Qed.

(* ---- sortCounts ---- *)
Lemma insert_count_perm x l : Permutation (insert_count x l) (x :: l).
Proof.
  induction l as [|y r IH]; cbn [insert_count]; [reflexivity|].
  destruct (less y x); [|reflexivity].
  rewrite IH. apply perm_swap.
Qed.

Lemma sort_counts_perm m : Permutation (sort_counts m) m.
Proof.
  induction m as [|x r IH]; cbn [sort_counts fold_right]; [reflexivity|].
  fold (sort_counts r). rewrite insert_count_perm, IH. reflexivity.
Qed.

Lemma sort_counts_in y m : In y (sort_counts m) <-> In y m.
Proof.
  split; apply Permutation_in; [|symmetry]; apply sort_counts_perm.
Qed.

Lemma sort_counts_nonempty m : m <> [] -> sort_counts m <> [].
Proof.
  intros Hm E. apply Hm. apply Permutation_nil. rewrite <- E at 1. apply sort_counts_perm.
Qed.

(* what is printed: every key of the map once, with its count = the number of increments *)
Theorem items_spec s k : In k (items s) <-> In k (labels s).
Proof.
  unfold items. rewrite in_map_iff. split.
  - intros ([k' n] & E & Hi). cbn in E. subst k'. apply (proj1 (sort_counts_in _ _)) in Hi.
    rewrite dir_counts_labels in Hi.
    assert (Hk : In k (keys (bump_all (labels s) []))) by (change k with (fst (k, n)); apply in_map; exact Hi).
    apply keys_bump_all_in in Hk. destruct Hk as [Hk|[]]. exact Hk.
  - intro Hi. exists (k, get (dir_counts s []) k). split; [reflexivity|].
    apply (proj2 (sort_counts_in _ _)). apply get_in. rewrite dir_counts_labels. apply keys_bump_all_in. left. exact Hi.
Qed.

Theorem printed_count_spec s k n :
  In (k, n) (sort_counts (dir_counts s [])) -> n = occ k (labels s) /\ 1 <= n.
Proof.
  intro Hi. apply (proj1 (sort_counts_in _ _)) in Hi.
  pose proof (in_get k n _ (dir_counts_nodup s) Hi) as Hg.
  rewrite dir_counts_labels, get_bump_all in Hg. cbn [get] in Hg. split; [lia|].
  assert (Hk : In k (labels s)).
  { apply items_spec. unfold items. apply in_map_iff. exists (k, n). split; [reflexivity|].
    apply (proj2 (sort_counts_in _ _)). exact Hi. }
  assert (1 <= occ k (labels s)); [|lia].
  clear -Hk. induction (labels s) as [|k' l IH]; [destruct Hk|]. cbn [occ].
  destruct Hk as [->|Hk]; [rewrite beqb_refl; lia|]. specialize (IH Hk). lia.
Qed.
Print Assumptions printed_count_spec.

(* ===================== 3. (a) files ===================== *)

Definition printable (t : bytes) : bool := forallb (fun b => (32 <=? b) && (b <? 127)) t.
Definition no_comma (t : bytes) : bool := forallb (fun b => negb (b =? 44)) t.
Definition starts_digit (t : bytes) : bool := match t with d :: _ => is_digit d | [] => false end.

(* everything the proofs below need about a text returned by lines 135-184 *)
Definition good_text (t : bytes) : bool :=
  printable t && no_comma t && negb (starts_digit t) &&
  match t with [] => false | b :: _ => negb (b =? 32) end &&
  Bool.eqb (is_ok_label t) (is_uptodate_text t).

Lemma head_ret_facts a w has inc cm kids t :
  string_head a w has inc cm = Ret t ->
  is_uptodate_text t = uptodate_flags (St a w has inc cm kids) /\ good_text t = true.
Proof.
  destruct a as [cs p d n sk]; destruct d, sk, w, has, inc, cm; vm_compute;
    intro E; try discriminate; injection E as <-; split; reflexivity.
Qed.

Lemma is_uptodate_text_spec t : is_uptodate_text t = true <-> In t uptodate_texts.
Proof.
  unfold is_uptodate_text. rewrite existsb_exists. split.
  - intros (x & Hi & E). apply beqb_eq in E. subst. exact Hi.
  - intro Hi. exists t. split; [exact Hi | apply beqb_refl].
Qed.

Lemma is_ok_label_spec t : is_ok_label t = true <-> In t ok_labels.
Proof.
  unfold is_ok_label. rewrite existsb_exists. split.
  - intros (x & Hi & E). apply beqb_eq in E. subst. exact Hi.
  - intro Hi. exists t. split; [exact Hi | apply beqb_refl].
Qed.

Lemma digit_not_label t : starts_digit t = true -> is_ok_label t = false /\ is_uptodate_text t = false.
Proof.
  destruct t as [|d t]; [discriminate|]. cbn [starts_digit]. unfold is_digit. intro H.
  apply andb_true_iff in H as [H1 H2]. apply N.leb_le in H1, H2.
  assert (E1 : (d =? 117) = false) by (apply N.eqb_neq; lia).
  assert (E2 : (d =? 100) = false) by (apply N.eqb_neq; lia).
  assert (E3 : (d =? 101) = false) by (apply N.eqb_neq; lia).
  unfold is_ok_label, is_uptodate_text. cbn. rewrite E1, E2, E3. split; reflexivity.
Qed.

Lemma join_cons sep x r : join sep (x :: r) = x ++ match r with [] => [] | _ :: _ => sep ++ join sep r end.
Proof. destruct r; cbn [join]; [rewrite app_nil_r|]; reflexivity. Qed.

Lemma item_starts_digit x : starts_digit (item x) = true.
Proof.
  unfold item. pose proof (dec_nonempty (snd x)) as Hn. pose proof (dec_digits (snd x)) as Hd.
  destruct (dec (snd x)) as [|d r]; [congruence|]. cbn in *. apply andb_true_iff in Hd. tauto.
Qed.

Lemma show_counts_starts_digit m : m <> [] -> starts_digit (show_counts m) = true.
Proof.
  intro Hm. unfold show_counts. pose proof (sort_counts_nonempty m Hm) as Hs.
  destruct (sort_counts m) as [|x r]; [congruence|]. cbn [map]. rewrite join_cons.
  pose proof (item_starts_digit x) as Hd. destruct (item x); [discriminate|]. exact Hd.
Qed.

Lemma render_dir_starts_digit s : is_dirstatus s = true -> starts_digit (render s) = true.
Proof.
  intro H. rewrite (render_dir s H). apply show_counts_starts_digit. apply dir_counts_nonempty.
Qed.

Lemma uptodate_flags_nondir s : is_dirstatus s = true -> uptodate_flags s = false.
Proof.
  destruct s as [a w has inc cm kids]. cbn. destruct (a_isdir a); [reflexivity|discriminate].
Qed.

(* (a) String() writes one of "up-to-date", "up-to-date (not cached)", "up-to-date (link)" exactly
   under [uptodate_flags]: not a directory artifact, HasChecksum, ContentsMatch, and
     regular file: ChecksumInCache or SkipCache;   link: ChecksumInCache and not SkipCache.
   True of every status, directories included (their text starts with a digit). *)
Theorem render_file_uptodate_iff s :
  In (render s) uptodate_texts <-> uptodate_flags s = true.
Proof.
  rewrite <- is_uptodate_text_spec.
  destruct (is_dirstatus s) eqn:Ed.
  - rewrite (uptodate_flags_nondir s Ed).
    destruct (digit_not_label _ (render_dir_starts_digit s Ed)) as [_ ->]. reflexivity.
  - destruct s as [a w has inc cm kids]. destruct (render_nondir _ _ _ _ _ _ Ed) as (t & Eh & ->).
    destruct (head_ret_facts _ _ _ _ _ kids _ Eh) as [-> _]. reflexivity.
Qed.
Print Assumptions render_file_uptodate_iff.

Corollary render_uptodate_bool s : is_uptodate_text (render s) = uptodate_flags s.
Proof.
  pose proof (render_file_uptodate_iff s) as H. rewrite <- is_uptodate_text_spec in H.
  destruct (is_uptodate_text (render s)), (uptodate_flags s); intuition congruence.
Qed.

(* one direction of "up to date iff ContentsMatch" is true: *)
Corollary render_uptodate_cm s : In (render s) uptodate_texts -> st_cm s = true.
Proof.
  rewrite render_file_uptodate_iff. destruct s as [a w has inc cm kids]. cbn.
  destruct cm; [reflexivity|]. rewrite !andb_false_r. discriminate.
Qed.

(* which of the three texts *)
Corollary render_uptodate_which s :
  uptodate_flags s = true ->
  render s = match s with St a w _ _ _ _ =>
               match w with SLink => t_uptodate_link
                          | _ => if a_skip a then t_uptodate_nc else t_uptodate end end.
Proof.
  destruct s as [[cs p d n sk] w has inc cm kids].
  destruct d, sk, w, has, inc, cm; vm_compute; intro E; try discriminate; reflexivity.
Qed.

(* ... the other direction is not: ContentsMatch can be true under a text that is not up to date. *)
Definition file_art (skip : bool) : artifact := mkArt (of_string "abc") (of_string "f") false false skip.
(* ContentsMatch without HasChecksum (the fields of Status are independent) *)
Definition w_cm_no_checksum : stree := St (file_art false) SRegular false false true [].
(* ContentsMatch, committed and cached, but the artifact says IsDir (the unit test "regular file
   but IsDir true") *)
Definition w_cm_wrong_type : stree :=
  St (mkArt (of_string "abc") (of_string "f") true false false) SRegular true true true [].
(* produced by the model's own status function: a skip-cache artifact whose workspace entry is a
   link to the cache object of its checksum.  quickStatus finds the link correct (ContentsMatch),
   String() refuses the file type. *)
Definition w_cm_skip_link : stree :=
  status_file (fun _ => []) (file_art true) (Some (LinkC (of_string "abc")))
              [(of_string "abc", mkObj [] cache_perms)].

Lemma w_cm_no_checksum_text :
  st_cm w_cm_no_checksum = true /\ render w_cm_no_checksum = of_string "not committed".
Proof. vm_compute. split; reflexivity. Qed.
Lemma w_cm_wrong_type_text :
  st_cm w_cm_wrong_type = true /\ render w_cm_wrong_type = of_string "incorrect file type: regular file".
Proof. vm_compute. split; reflexivity. Qed.
Lemma w_cm_skip_link_text :
  w_cm_skip_link = St (file_art true) SLink true true true [] /\
  render w_cm_skip_link = of_string "incorrect file type: link (not cached)".
Proof. vm_compute. split; reflexivity. Qed.

Theorem cm_iff_uptodate_refuted :
  ~ (forall s, is_dirstatus s = false -> (In (render s) uptodate_texts <-> st_cm s = true)).
Proof.
  intro H. specialize (H w_cm_skip_link eq_refl).
  assert (Hc : st_cm w_cm_skip_link = true) by (vm_compute; reflexivity).
  apply H in Hc. apply render_file_uptodate_iff in Hc. vm_compute in Hc. discriminate.
Qed.
Print Assumptions cm_iff_uptodate_refuted.

(* ===================== 4. (b) directories ===================== *)

(* the text of a status that dirStatusCounts does not descend into is never "directory" or
   "empty directory": it is an "ok" label exactly under [uptodate_flags] *)
Lemma is_subdir_false_nondir s : is_subdir s = false -> is_dirstatus s = false.
Proof.
  destruct s as [a w has inc cm kids]. cbn. intros ->. reflexivity.
Qed.

Lemma ok_label_render s : is_dirstatus s = false -> is_ok_label (render s) = uptodate_flags s.
Proof.
  destruct s as [a w has inc cm kids]. intro Ed.
  destruct (render_nondir _ _ _ _ _ _ Ed) as (t & Eh & ->).
  destruct (head_ret_facts _ _ _ _ _ kids _ Eh) as [<- Hg].
  unfold good_text in Hg. rewrite !andb_true_iff in Hg. destruct Hg as [_ Hg].
  apply eqb_prop in Hg. exact Hg.
Qed.

Lemma dir_label_ok kids : is_ok_label (dir_label kids) = true.
Proof. destruct kids; vm_compute; reflexivity. Qed.

Lemma labels_ok_iff s :
  Forall (fun k => is_ok_label k = true) (labels s) <->
  Forall (fun c => uptodate_flags c = true) (leaves s).
Proof.
  induction s as [a w has inc cm kids IH] using stree_ind'.
  rewrite labels_eq, leaves_eq. split.
  - intro H. inversion H as [|? ? _ Hr]; subst. clear H.
    induction kids as [|[k c] r IHr]; [constructor|].
    inversion IH as [|? ? Hc Hrr]; subst. cbn [flat_map] in *.
    apply Forall_app in Hr as [H1 H2]. apply Forall_app. split; [|apply IHr; assumption].
    unfold kid_labels in H1. unfold kid_leaves. cbn [snd] in *. destruct (is_subdir c) eqn:Es.
    + apply Hc. exact H1.
    + inversion H1; subst. constructor; [|constructor].
      rewrite <- ok_label_render; [assumption | apply is_subdir_false_nondir; exact Es].
  - intro H. constructor; [apply dir_label_ok|].
    induction kids as [|[k c] r IHr]; [constructor|].
    inversion IH as [|? ? Hc Hrr]; subst. cbn [flat_map] in *.
    apply Forall_app in H as [H1 H2]. apply Forall_app. split; [|apply IHr; assumption].
    unfold kid_leaves in H1. unfold kid_labels. cbn [snd] in *. destruct (is_subdir c) eqn:Es.
    + apply Hc. exact H1.
    + inversion H1; subst. constructor; [|constructor].
      rewrite ok_label_render; [assumption | apply is_subdir_false_nondir; exact Es].
Qed.

(* (b) the text of a directory status is  "<n1>x <k1>, <n2>x <k2>, ..."  with [items s] = k1, k2, ...
   (the keys of the count map, each once, in the order of sortCounts).  All of them are "ok" labels
   iff every status below that dirStatusCounts does not descend into - every file, link, and
   missing / replaced sub-directory - satisfies [uptodate_flags], i.e. is itself rendered
   "up-to-date", "up-to-date (not cached)" or "up-to-date (link)". *)
Theorem render_dir_text s :
  is_dirstatus s = true ->
  exists cs : counts,
    render s = join (of_string ", ") (map (fun x => dec (snd x) ++ of_string "x " ++ fst x) cs) /\
    items s = map fst cs /\ cs <> [] /\ NoDup (map fst cs) /\
    (forall k n, In (k, n) cs -> n = occ k (labels s) /\ 1 <= n).
Proof.
  intro Hd. exists (sort_counts (dir_counts s [])). repeat split.
  - apply render_dir. exact Hd.
  - apply sort_counts_nonempty. apply dir_counts_nonempty.
  - eapply Permutation_NoDup; [|apply dir_counts_nodup].
    apply Permutation_map. symmetry. apply sort_counts_perm.
  - apply (printed_count_spec s k n H).
  - apply (printed_count_spec s k n H).
Qed.

Theorem render_dir_ok_iff s :
  forallb is_ok_label (items s) = true <-> forallb uptodate_flags (leaves s) = true.
Proof.
  rewrite !forallb_forall, <- !Forall_forall.
  rewrite <- labels_ok_iff. rewrite !Forall_forall.
  split; intros H k Hk; apply H; apply items_spec; exact Hk.
Qed.
Print Assumptions render_dir_ok_iff.

Corollary render_dir_ok_iff_texts s :
  forallb is_ok_label (items s) = true <-> Forall (fun c => In (render c) uptodate_texts) (leaves s).
Proof.
  rewrite render_dir_ok_iff, forallb_forall, Forall_forall.
  split; intros H c Hc; apply render_file_uptodate_iff; apply H; exact Hc.
Qed.

(* The anomaly: the directory nodes themselves always contribute an "ok" label, whatever their own
   flags.  A directory that was never committed and is empty has no leaves, so its text is that of
   a committed, unchanged empty directory. *)
Definition dir_art : artifact := mkArt [] (of_string "d") true false false.
Definition dir_art_committed : artifact := mkArt (of_string "abc.dir") (of_string "d") true false false.
Definition w_empty_uncommitted : stree := St dir_art SDirectory false false false [].
Definition w_empty_uptodate : stree := St dir_art_committed SDirectory true true true [].

Lemma w_empty_same_text :
  render w_empty_uncommitted = of_string "1x empty directory" /\
  render w_empty_uptodate = of_string "1x empty directory".
Proof. vm_compute. split; reflexivity. Qed.

(* the uncommitted one is what the model's status function answers for an empty directory *)
Lemma w_empty_uncommitted_is_status :
  status_node (fun _ => []) 3 dir_art (Some (Dir [])) [] = Ok w_empty_uncommitted.
Proof. vm_compute. reflexivity. Qed.

(* the same one level down: a committed directory whose files are up to date, plus a new empty
   sub-directory (untracked: no checksum) *)
Definition w_new_empty_subdir : stree :=
  St dir_art_committed SDirectory true true false
     [(of_string "f", St (file_art false) SRegular true true true []);
      (of_string "sub", St (mkArt [] (of_string "sub") true false false) SDirectory false false false [])].
Lemma w_new_empty_subdir_text :
  render w_new_empty_subdir = of_string "1x directory, 1x empty directory, 1x up-to-date".
Proof. vm_compute. reflexivity. Qed.

Theorem render_dir_ok_implies_cm_refuted :
  ~ (forall s, is_dirstatus s = true -> forallb is_ok_label (items s) = true -> st_cm s = true).
Proof.
  intro H. specialize (H w_empty_uncommitted eq_refl eq_refl). discriminate.
Qed.
Print Assumptions render_dir_ok_implies_cm_refuted.

(* the text does not determine ContentsMatch, nor HasChecksum, of a directory *)
Theorem render_dir_not_injective_refuted :
  ~ (forall s1 s2, is_dirstatus s1 = true -> is_dirstatus s2 = true ->
                   render s1 = render s2 -> st_cm s1 = st_cm s2).
Proof.
  intro H. specialize (H w_empty_uncommitted w_empty_uptodate eq_refl eq_refl eq_refl). discriminate.
Qed.

(* ===================== 5. (c) the alphabet of the output ===================== *)

Lemma printable_app a b : printable (a ++ b) = printable a && printable b.
Proof. apply forallb_app. Qed.

Lemma digits_printable t : forallb is_digit t = true -> printable t = true.
Proof.
  unfold printable. rewrite !forallb_forall. intros H b Hb. specialize (H b Hb).
  unfold is_digit in H. apply andb_true_iff in H as [H1 H2]. apply N.leb_le in H1, H2.
  apply andb_true_iff; split; [apply N.leb_le | apply N.ltb_lt]; lia.
Qed.

Lemma join_printable sep l :
  printable sep = true -> Forall (fun t => printable t = true) l -> printable (join sep l) = true.
Proof.
  intros Hs H. induction H as [|t r Ht Hr IH]; [reflexivity|].
  rewrite join_cons. destruct r as [|t' r']; [rewrite app_nil_r; exact Ht|].
  rewrite !printable_app, Ht, Hs, IH. reflexivity.
Qed.

Lemma labels_printable s : Forall (fun k => printable k = true) (labels s).
Proof.
  induction s as [a w has inc cm kids IH] using stree_ind'.
  rewrite labels_eq. constructor; [destruct kids; vm_compute; reflexivity|].
  induction kids as [|[k c] r IHr]; [constructor|].
  inversion IH as [|? ? Hc Hrr]; subst. cbn [flat_map]. apply Forall_app. split; [|apply IHr; assumption].
  unfold kid_labels. cbn [snd] in *. destruct (is_subdir c) eqn:Es; [exact Hc|].
  constructor; [|constructor]. destruct c as [ca cw chas cinc ccm ck].
  destruct (render_nondir _ _ _ _ _ _ (is_subdir_false_nondir _ Es)) as (t & Eh & ->).
  destruct (head_ret_facts _ _ _ _ _ ck _ Eh) as [_ Hg].
  unfold good_text in Hg. rewrite !andb_true_iff in Hg. tauto.
Qed.

Theorem render_printable s : printable (render s) = true.
Proof.
  destruct (is_dirstatus s) eqn:Ed.
  - rewrite (render_dir s Ed). unfold show_counts. apply join_printable; [vm_compute; reflexivity|].
    apply Forall_forall. intros t Ht. apply in_map_iff in Ht as ([k n] & <- & Hi).
    unfold item. cbn [fst snd]. rewrite !printable_app, (digits_printable _ (dec_digits n)).
    assert (Hk : In k (items s)) by (unfold items; apply in_map_iff; exists (k, n); split; [reflexivity | exact Hi]).
    apply items_spec in Hk. pose proof (labels_printable s) as Hp. rewrite Forall_forall in Hp.
    rewrite (Hp k Hk). vm_compute. reflexivity.
  - destruct s as [a w has inc cm kids]. destruct (render_nondir _ _ _ _ _ _ Ed) as (t & Eh & ->).
    destruct (head_ret_facts _ _ _ _ _ kids _ Eh) as [_ Hg].
    unfold good_text in Hg. rewrite !andb_true_iff in Hg. tauto.
Qed.

(* (c) the text is one line *)
Theorem render_no_newline s : ~ In 10 (render s).
Proof.
  intro Hi. pose proof (render_printable s) as Hp. unfold printable in Hp.
  rewrite forallb_forall in Hp. specialize (Hp 10 Hi). discriminate.
Qed.
Print Assumptions render_no_newline.

Theorem render_nonempty s : render s <> [].
Proof.
  destruct (is_dirstatus s) eqn:Ed.
  - pose proof (render_dir_starts_digit s Ed) as H. destruct (render s); [discriminate|discriminate].
  - destruct s as [a w has inc cm kids]. destruct (render_nondir _ _ _ _ _ _ Ed) as (t & Eh & ->).
    destruct (head_ret_facts _ _ _ _ _ kids _ Eh) as [_ Hg].
    unfold good_text in Hg. rewrite !andb_true_iff in Hg. destruct t; [|discriminate].
    destruct Hg as [[_ Hg] _]. discriminate.
Qed.

(* ===================== 6. the order of the children does not matter ===================== *)
(* Go ranges over the ChildrenStatus map in a random order; the model walks a list.  The text is
   the same for every order, at every depth, because (i) the count map only depends on how often
   each label is incremented and (ii) sortCounts' comparison is a strict total order on entries
   with distinct keys, so the sorted slice is unique. *)

Lemma bltb_irrefl a : bltb a a = false.
Proof. induction a as [|x a IH]; [reflexivity|]. cbn [bltb]. rewrite N.ltb_irrefl. exact IH. Qed.

Lemma bltb_trans a : forall b c, bltb a b = true -> bltb b c = true -> bltb a c = true.
Proof.
  induction a as [|x a IH]; intros [|y b] [|z c] Hab Hbc; cbn [bltb] in *; try discriminate; try reflexivity.
  destruct (x <? y) eqn:Exy.
  - apply N.ltb_lt in Exy. destruct (y <? z) eqn:Eyz.
    + apply N.ltb_lt in Eyz. assert (Hxz : (x <? z) = true) by (apply N.ltb_lt; lia). now rewrite Hxz.
    + destruct (z <? y) eqn:Ezy; [discriminate|].
      apply N.ltb_ge in Eyz, Ezy. assert (Hxz : (x <? z) = true) by (apply N.ltb_lt; lia). now rewrite Hxz.
  - destruct (y <? x) eqn:Eyx; [discriminate|].
    apply N.ltb_ge in Exy, Eyx. assert (x = y) by lia. subst y.
    destruct (x <? z) eqn:Exz; [reflexivity|]. destruct (z <? x) eqn:Ezx; [discriminate|].
    eapply IH; eassumption.
Qed.

Lemma bltb_total a : forall b, a <> b -> bltb a b = false -> bltb b a = true.
Proof.
  induction a as [|x a IH]; intros [|y b] He Hl; cbn [bltb] in *; try discriminate; try reflexivity; try congruence.
  destruct (x <? y) eqn:Exy; [discriminate|]. destruct (y <? x) eqn:Eyx; [reflexivity|].
  apply N.ltb_ge in Exy, Eyx. assert (Hxy : x = y) by lia. subst y.
  apply IH; [congruence | assumption].
Qed.

Definition lessP (x y : bytes * N) : Prop := less x y = true.

Lemma less_irrefl x : less x x = false.
Proof. unfold less. rewrite N.eqb_refl. apply bltb_irrefl. Qed.

Lemma less_trans x y z : lessP x y -> lessP y z -> lessP x z.
Proof.
  unfold lessP, less. destruct x as [kx nx], y as [ky ny], z as [kz nz]. cbn [fst snd].
  destruct (nx =? ny) eqn:E1, (ny =? nz) eqn:E2, (nx =? nz) eqn:E3;
    rewrite ?N.eqb_eq, ?N.eqb_neq, ?N.ltb_lt in *; intros H1 H2;
    rewrite ?N.ltb_lt in *; try lia.
  eapply bltb_trans; eassumption.
Qed.

Lemma less_total x y : fst x <> fst y -> less x y = false -> lessP y x.
Proof.
  unfold lessP, less. destruct x as [kx nx], y as [ky ny]. cbn [fst snd]. intro Hk.
  rewrite (N.eqb_sym ny nx). destruct (nx =? ny) eqn:E1.
  - apply bltb_total. exact Hk.
  - rewrite N.ltb_ge, N.ltb_lt. apply N.eqb_neq in E1. lia.
Qed.

Lemma insert_count_sorted x l :
  ~ In (fst x) (keys l) -> StronglySorted lessP l -> StronglySorted lessP (insert_count x l).
Proof.
  intros Hx Hs. induction Hs as [|y r Hr IH Hy]; cbn [insert_count].
  - constructor; constructor.
  - cbn [keys map In] in Hx. destruct (less y x) eqn:E.
    + constructor; [apply IH; tauto|].
      eapply Permutation_Forall; [symmetry; apply insert_count_perm|]. constructor; assumption.
    + assert (Hxy : lessP x y) by (apply less_total; [intro; apply Hx; left; congruence | exact E]).
      constructor; [constructor; assumption|]. constructor; [exact Hxy|].
      eapply Forall_impl; [|exact Hy]. intros z Hz. eapply less_trans; eassumption.
Qed.

Lemma sort_counts_sorted m : NoDup (keys m) -> StronglySorted lessP (sort_counts m).
Proof.
  induction m as [|x r IH]; intro Hn; cbn [sort_counts fold_right]; [constructor|].
  fold (sort_counts r). inversion Hn as [|? ? Hni Hnr]; subst. apply insert_count_sorted; [|apply IH; exact Hnr].
  intro Hi. apply Hni. unfold keys in Hi. apply in_map_iff in Hi as (z & Ez & Hz).
  apply (proj1 (sort_counts_in _ _)) in Hz. rewrite <- Ez. apply in_map. exact Hz.
Qed.

Lemma sorted_perm_eq l1 : forall l2,
  StronglySorted lessP l1 -> StronglySorted lessP l2 -> Permutation l1 l2 -> l1 = l2.
Proof.
  induction l1 as [|x r1 IH]; intros l2 H1 H2 Hp.
  - apply Permutation_nil in Hp. congruence.
  - destruct l2 as [|y r2]; [apply Permutation_sym, Permutation_nil in Hp; discriminate|].
    inversion H1 as [|? ? Hs1 Hf1]; subst. inversion H2 as [|? ? Hs2 Hf2]; subst.
    assert (Exy : x = y).
    { assert (Hx : In x (y :: r2)) by (eapply Permutation_in; [exact Hp | left; reflexivity]).
      assert (Hy : In y (x :: r1)) by (eapply Permutation_in; [symmetry; exact Hp | left; reflexivity]).
      destruct Hx as [->|Hx]; [reflexivity|]. destruct Hy as [->|Hy]; [reflexivity|].
      rewrite Forall_forall in Hf1, Hf2. pose proof (less_trans _ _ _ (Hf1 _ Hy) (Hf2 _ Hx)) as Hc.
      unfold lessP in Hc. rewrite less_irrefl in Hc. discriminate. }
    subst y. f_equal. apply IH; try assumption. eapply Permutation_cons_inv. exact Hp.
Qed.

(* sortCounts is a function of the map as a finite function, not of the order of its entries *)
Lemma sort_counts_ext m1 m2 :
  NoDup (keys m1) -> NoDup (keys m2) ->
  (forall k, In k (keys m1) <-> In k (keys m2)) -> (forall k, get m1 k = get m2 k) ->
  sort_counts m1 = sort_counts m2.
Proof.
  intros N1 N2 Hk Hg. apply sorted_perm_eq; try (apply sort_counts_sorted; assumption).
  rewrite !sort_counts_perm. apply NoDup_Permutation.
  - eapply NoDup_map_inv. exact N1.
  - eapply NoDup_map_inv. exact N2.
  - intros [k n]. split; intro Hi.
    + pose proof (in_get _ _ _ N1 Hi) as E. rewrite Hg in E. rewrite <- E. apply get_in.
      apply Hk. change k with (fst (k, n)). apply in_map. exact Hi.
    + pose proof (in_get _ _ _ N2 Hi) as E. rewrite <- Hg in E. rewrite <- E. apply get_in.
      apply Hk. change k with (fst (k, n)). apply in_map. exact Hi.
Qed.

Lemma occ_perm k l l' : Permutation l l' -> occ k l = occ k l'.
Proof. induction 1; cbn [occ]; lia. Qed.

Lemma sort_bump_all_perm l l' :
  Permutation l l' -> sort_counts (bump_all l []) = sort_counts (bump_all l' []).
Proof.
  intro Hp. apply sort_counts_ext.
  - apply keys_bump_all_nodup. constructor.
  - apply keys_bump_all_nodup. constructor.
  - intro k. rewrite !keys_bump_all_in. split; intros [H|[]]; left.
    + eapply Permutation_in; [exact Hp | exact H].
    + eapply Permutation_in; [symmetry; exact Hp | exact H].
  - intro k. rewrite !get_bump_all. rewrite (occ_perm k l l' Hp). reflexivity.
Qed.

(* the text of a directory status is a function of the multiset of increments *)
Theorem render_of_labels a w has inc cm k k' :
  Permutation (labels (St a w has inc cm k)) (labels (St a w has inc cm k')) ->
  render (St a w has inc cm k) = render (St a w has inc cm k').
Proof.
  intro Hp. rewrite !render_eq. destruct (string_head a w has inc cm); try reflexivity.
  unfold show_counts. rewrite !dir_counts_labels. rewrite (sort_bump_all_perm _ _ Hp). reflexivity.
Qed.

(* reordering children anywhere in the tree *)
Inductive sperm : stree -> stree -> Prop :=
| sp_refl s : sperm s s
| sp_trans s1 s2 s3 : sperm s1 s2 -> sperm s2 s3 -> sperm s1 s3
| sp_swap a w has inc cm k1 x y k2 :
    sperm (St a w has inc cm (k1 ++ x :: y :: k2)) (St a w has inc cm (k1 ++ y :: x :: k2))
| sp_kid a w has inc cm k1 n c c' k2 :
    sperm c c' -> sperm (St a w has inc cm (k1 ++ (n, c) :: k2)) (St a w has inc cm (k1 ++ (n, c') :: k2)).

Lemma sperm_under a w has inc cm l l' :
  Permutation l l' -> forall pre, sperm (St a w has inc cm (pre ++ l)) (St a w has inc cm (pre ++ l')).
Proof.
  induction 1 as [|z m m' Hp IH|z1 z2 m|m1 m2 m3 H1 IH1 H2 IH2]; intro pre.
  - apply sp_refl.
  - specialize (IH (pre ++ [z])). rewrite <- !app_assoc in IH. exact IH.
  - apply sp_swap.
  - eapply sp_trans; [apply IH1 | apply IH2].
Qed.

Lemma sperm_top a w has inc cm k k' :
  Permutation k k' -> sperm (St a w has inc cm k) (St a w has inc cm k').
Proof. intro Hp. exact (sperm_under a w has inc cm k k' Hp []). Qed.

Lemma dir_label_app_cons k1 (x : bytes * stree) k2 : dir_label (k1 ++ x :: k2) = t_dir.
Proof. destruct k1; reflexivity. Qed.

Lemma sperm_facts s s' :
  sperm s s' ->
  is_subdir s = is_subdir s' /\ Permutation (labels s) (labels s') /\ render s = render s'.
Proof.
  induction 1 as [s|s1 s2 s3 H1 IH1 H2 IH2|a w has inc cm k1 x y k2|a w has inc cm k1 n c c' k2 Hc IH].
  - repeat split; reflexivity.
  - destruct IH1 as (A1 & B1 & C1), IH2 as (A2 & B2 & C2). repeat split; try congruence.
    eapply perm_trans; eassumption.
  - assert (Hp : Permutation (labels (St a w has inc cm (k1 ++ x :: y :: k2)))
                             (labels (St a w has inc cm (k1 ++ y :: x :: k2)))).
    { rewrite !labels_eq, !dir_label_app_cons. apply perm_skip.
      rewrite !flat_map_app. apply Permutation_app_head. cbn [flat_map].
      rewrite !app_assoc. apply Permutation_app_tail. apply Permutation_app_comm. }
    split; [reflexivity|]. split; [exact Hp|]. apply render_of_labels. exact Hp.
  - destruct IH as (A & B & C).
    assert (Hp : Permutation (labels (St a w has inc cm (k1 ++ (n, c) :: k2)))
                             (labels (St a w has inc cm (k1 ++ (n, c') :: k2)))).
    { rewrite !labels_eq, !dir_label_app_cons. apply perm_skip.
      rewrite !flat_map_app. apply Permutation_app_head. cbn [flat_map].
      apply Permutation_app_tail. unfold kid_labels. cbn [snd]. rewrite <- A.
      destruct (is_subdir c); [exact B | rewrite C; reflexivity]. }
    split; [reflexivity|]. split; [exact Hp|]. apply render_of_labels. exact Hp.
Qed.

Theorem render_perm s s' : sperm s s' -> render s = render s'.
Proof. intro H. apply sperm_facts in H. tauto. Qed.
Print Assumptions render_perm.

Corollary render_perm_top a w has inc cm k k' :
  Permutation k k' -> render (St a w has inc cm k) = render (St a w has inc cm k').
Proof. intro Hp. apply render_perm. apply sperm_top. exact Hp. Qed.

(* ===================== 7. (d) the unit tests of artifact_test.go ===================== *)
(* TestArtifactStatusString, all 12 sub-tests, inputs ported field by field.  A Go [Artifact{...}]
   literal leaves Checksum and Path empty and the unnamed flags false; [art d sk] is
   Artifact{IsDir: d, SkipCache: sk}.  The children maps are written in key order. *)
Definition art (isdir skip : bool) : artifact := mkArt [] [] isdir false skip.

(* artifact_test.go:96-101 *)
Definition fileUpToDate : stree := St (art false false) SRegular true true true [].

(* :11 "regular file cached up-to-date" *)
Example ut_regular_cached_uptodate :
  render (St (art false false) SRegular true true true []) = of_string "up-to-date".
Proof. vm_compute. reflexivity. Qed.

(* :28 "regular file not cached up-to-date" *)
Example ut_regular_not_cached_uptodate :
  render (St (art false true) SRegular true false true []) = of_string "up-to-date (not cached)".
Proof. vm_compute. reflexivity. Qed.

(* :45 "regular file cached modified" *)
Example ut_regular_cached_modified :
  render (St (art false false) SRegular true true false []) = of_string "modified".
Proof. vm_compute. reflexivity. Qed.

(* :62 "regular file not cached modified" *)
Example ut_regular_not_cached_modified :
  render (St (art false true) SRegular true true false []) = of_string "modified (not cached)".
Proof. vm_compute. reflexivity. Qed.

(* :79 "regular file but IsDir true" *)
Example ut_regular_but_isdir :
  render (St (art true false) SRegular true true true []) = of_string "incorrect file type: regular file".
Proof. vm_compute. reflexivity. Qed.

(* :103 "nested directory" *)
Example ut_nested_directory :
  render (St (art true false) SDirectory true true true
    [(of_string "a", fileUpToDate);
     (of_string "b", fileUpToDate);
     (of_string "c", St (art true false) SDirectory true true false
        [(of_string "d", fileUpToDate);
         (of_string "e", St (art false false) SRegular false false false [])])])
  = of_string "3x up-to-date, 2x directory, 1x not committed".
Proof. vm_compute. reflexivity. Qed.

(* :140 "missing file in sub-directory" *)
Example ut_missing_file :
  render (St (art true false) SDirectory true true true
    [(of_string "a", fileUpToDate);
     (of_string "b", St (art false false) SAbsent true true false [])])
  = of_string "1x directory, 1x missing from workspace, 1x up-to-date".
Proof. vm_compute. reflexivity. Qed.

(* :166 "empty directory" (ChildrenStatus nil) *)
Example ut_empty_directory :
  render (St (art true false) SDirectory true true false []) = of_string "1x empty directory".
Proof. vm_compute. reflexivity. Qed.

(* :183 "empty sub-directory" *)
Example ut_empty_subdirectory :
  render (St (art true false) SDirectory true true false
    [(of_string "c", St (art true false) SDirectory true true false [])])
  = of_string "1x directory, 1x empty directory".
Proof. vm_compute. reflexivity. Qed.

(* :209 "directory but IsDir false" *)
Example ut_directory_but_not_isdir :
  render (St (art false false) SDirectory true true true []) = of_string "incorrect file type: directory".
Proof. vm_compute. reflexivity. Qed.

(* :226 "directory missing from workspace" *)
Example ut_directory_missing :
  render (St (art true false) SAbsent false false false []) = of_string "missing and not committed".
Proof. vm_compute. reflexivity. Qed.

(* :243 "directory but SkipCache true" *)
Example ut_directory_skip_cache :
  render (St (art true true) SDirectory true true true [])
  = of_string "incorrect file type: directory (not cached)".
Proof. vm_compute. reflexivity. Qed.

(* Further cases, not in the Go table: the behaviour ed62442 introduced, counts above 9, the order
   of sortCounts (count descending, then key ascending: "directory" < "modified" < "up-to-date"),
   and a skip-cache SUB-directory, whose flag line 100 never looks at. *)
Example ex_missing_and_replaced_subdirs :
  render (St (art true false) SDirectory true true false
    [(of_string "gone", St (art true false) SAbsent true true false []);
     (of_string "now-a-file", St (art true false) SRegular true true false []);
     (of_string "now-a-link", St (art true false) SLink true true false [])])
  = of_string "1x directory, 1x incorrect file type: link, 1x incorrect file type: regular file, 1x missing from workspace".
Proof. vm_compute. reflexivity. Qed.

Example ex_twelve_files :
  render (St (art true false) SDirectory true true false
    (map (fun i => ([i], fileUpToDate)) [1;2;3;4;5;6;7;8;9;10;11;12] ++
     map (fun i => ([i], St (art false false) SRegular true true false [])) [21;22;23;24;25;26;27;28;29;30;31;32]))
  = of_string "12x modified, 12x up-to-date, 1x directory".
Proof. vm_compute. reflexivity. Qed.

Example ex_skip_cache_subdir :
  render (St (art true false) SDirectory true true true
    [(of_string "s", St (art true true) SDirectory true true true [])])
  = of_string "1x directory, 1x empty directory"
  /\ render (St (art true true) SDirectory true true true [])
     = of_string "incorrect file type: directory (not cached)".
Proof. vm_compute. split; reflexivity. Qed.

Example ex_dec : map dec [0; 7; 10; 99; 100; 4294967296]
  = map of_string ["0"; "7"; "10"; "99"; "100"; "4294967296"]%string.
Proof. vm_compute. reflexivity. Qed.

(* ===================== 8. the old checker of Corr/RunSys.v ===================== *)
(* [RunSys.human_ok text] splits the text at commas, strips the "<n>x " counts and asks whether
   every item is one of the five ok labels; [spec_human] (spec 26) compares that with
   ContentsMatch.  On the texts String() can produce, the checker computes exactly the
   conditions of sections 3 and 4: *)

Definition human_item_ok (item : bytes) : bool :=
  let it := RunSys.ltrim item in
  let lbl := match it with
             | b :: _ => if (48 <=? b) && (b <=? 57) then RunSys.drop_count it else it
             | [] => [] end in
  existsb (beqb lbl) RunSys.ok_labels.

Lemma human_ok_eq text : RunSys.human_ok text = forallb human_item_ok (RunSys.split_on 44 text []).
Proof. reflexivity. Qed.

Lemma ok_labels_same : RunSys.ok_labels = ok_labels.
Proof. vm_compute. reflexivity. Qed.

Definition no_lead_space (t : bytes) : bool := match t with [] => false | b :: _ => negb (b =? 32) end.

Lemma ltrim_id t : match t with [] => true | b :: _ => negb (b =? 32) end = true -> RunSys.ltrim t = t.
Proof.
  destruct t as [|b r]; [reflexivity|]. intro H. destruct b as [|p]; [reflexivity|].
  do 6 (destruct p as [p|p|]; try reflexivity). discriminate.
Qed.

Lemma ltrim_space t : RunSys.ltrim (32 :: t) = RunSys.ltrim t.
Proof. reflexivity. Qed.

Lemma digit_not_space d : is_digit d = true -> negb (d =? 32) = true /\ (d =? 120) = false.
Proof.
  unfold is_digit. intro H. apply andb_true_iff in H as [H1 H2]. apply N.leb_le in H1, H2.
  split; [apply negb_true_iff|]; apply N.eqb_neq; lia.
Qed.

Lemma drop_count_digits ds k :
  forallb is_digit ds = true -> RunSys.drop_count (ds ++ 120 :: 32 :: k) = RunSys.ltrim k.
Proof.
  induction ds as [|d r IH]; intro H.
  - reflexivity.
  - cbn [forallb] in H. apply andb_true_iff in H as [Hd Hr]. cbn [app RunSys.drop_count].
    fold (is_digit d). rewrite Hd. apply IH. exact Hr.
Qed.

(* an item "<n>x <k>", with or without the space strings.Join leaves in front of it *)
Lemma human_item_ok_item k n :
  no_lead_space k = true ->
  human_item_ok (item (k, n)) = is_ok_label k /\ human_item_ok (32 :: item (k, n)) = is_ok_label k.
Proof.
  intro Hk.
  assert (Hl : RunSys.ltrim k = k) by (apply ltrim_id; destruct k; [reflexivity | exact Hk]).
  assert (E : human_item_ok (item (k, n)) = is_ok_label k).
  { unfold human_item_ok, item. cbn [fst snd].
    pose proof (dec_nonempty n) as Hn. pose proof (dec_digits n) as Hd.
    destruct (dec n) as [|d r] eqn:En; [congruence|].
    assert (Hd0 : is_digit d = true) by (cbn in Hd; apply andb_true_iff in Hd; tauto).
    rewrite ltrim_id by (cbn; apply digit_not_space; exact Hd0).
    cbn [app]. fold (is_digit d). rewrite Hd0.
    change (d :: r ++ of_string "x " ++ k) with ((d :: r) ++ 120 :: 32 :: k).
    rewrite drop_count_digits by exact Hd. rewrite Hl, ok_labels_same. reflexivity. }
  split; [exact E|]. unfold human_item_ok. rewrite ltrim_space. exact E.
Qed.

Lemma split_on_nocomma t : forall cur, no_comma t = true -> RunSys.split_on 44 t cur = [rev cur ++ t].
Proof.
  induction t as [|b r IH]; intros cur H; cbn [RunSys.split_on].
  - rewrite app_nil_r. reflexivity.
  - cbn [no_comma forallb] in H. apply andb_true_iff in H as [Hb Hr]. apply negb_true_iff in Hb.
    rewrite Hb, IH by exact Hr. cbn [rev]. rewrite <- app_assoc. reflexivity.
Qed.

Lemma split_on_comma t rest : forall cur, no_comma t = true ->
  RunSys.split_on 44 (t ++ 44 :: rest) cur = (rev cur ++ t) :: RunSys.split_on 44 rest [].
Proof.
  induction t as [|b r IH]; intros cur H; cbn [app RunSys.split_on].
  - rewrite N.eqb_refl, app_nil_r. reflexivity.
  - cbn [no_comma forallb] in H. apply andb_true_iff in H as [Hb Hr]. apply negb_true_iff in Hb.
    rewrite Hb, IH by exact Hr. cbn [rev]. rewrite <- app_assoc. reflexivity.
Qed.

Lemma no_comma_app a b : no_comma (a ++ b) = no_comma a && no_comma b.
Proof. apply forallb_app. Qed.

Lemma split_join x r : forall pre,
  no_comma pre = true -> Forall (fun t => no_comma t = true) (x :: r) ->
  RunSys.split_on 44 (pre ++ join (of_string ", ") (x :: r)) [] = (pre ++ x) :: map (cons 32) r.
Proof.
  revert x. induction r as [|y r IH]; intros x pre Hp Hf; inversion Hf as [|? ? Hx Hr]; subst.
  - cbn [join map]. rewrite split_on_nocomma by (rewrite no_comma_app, Hp, Hx; reflexivity). reflexivity.
  - rewrite join_cons.
    change (of_string ", " ++ join (of_string ", ") (y :: r)) with (44 :: [32] ++ join (of_string ", ") (y :: r)).
    rewrite app_assoc, split_on_comma by (rewrite no_comma_app, Hp, Hx; reflexivity).
    rewrite IH by (try exact Hr; reflexivity). reflexivity.
Qed.

Lemma digits_no_comma t : forallb is_digit t = true -> no_comma t = true.
Proof.
  unfold no_comma. rewrite !forallb_forall. intros H b Hb. specialize (H b Hb).
  unfold is_digit in H. apply andb_true_iff in H as [H1 H2]. apply N.leb_le in H1, H2.
  apply negb_true_iff, N.eqb_neq. lia.
Qed.

(* every key of the count map: no comma, no leading space *)
Lemma labels_shape s : Forall (fun k => no_comma k = true /\ no_lead_space k = true) (labels s).
Proof.
  induction s as [a w has inc cm kids IH] using stree_ind'.
  rewrite labels_eq. constructor; [destruct kids; vm_compute; split; reflexivity|].
  induction kids as [|[k c] r IHr]; [constructor|].
  inversion IH as [|? ? Hc Hrr]; subst. cbn [flat_map]. apply Forall_app. split; [|apply IHr; assumption].
  unfold kid_labels. cbn [snd] in *. destruct (is_subdir c) eqn:Es; [exact Hc|].
  constructor; [|constructor]. destruct c as [ca cw chas cinc ccm ck].
  destruct (render_nondir _ _ _ _ _ _ (is_subdir_false_nondir _ Es)) as (t & Eh & ->).
  destruct (head_ret_facts _ _ _ _ _ ck _ Eh) as [_ Hg].
  unfold good_text in Hg. rewrite !andb_true_iff in Hg. unfold no_lead_space. tauto.
Qed.

Theorem human_ok_render s :
  RunSys.human_ok (render s) =
  if is_dirstatus s then forallb is_ok_label (items s) else uptodate_flags s.
Proof.
  rewrite human_ok_eq. destruct (is_dirstatus s) eqn:Ed.
  - rewrite (render_dir s Ed). unfold show_counts, items.
    pose proof (sort_counts_nonempty _ (dir_counts_nonempty s)) as Hne.
    assert (Hsh : Forall (fun x => no_comma (fst x) = true /\ no_lead_space (fst x) = true)
                         (sort_counts (dir_counts s []))).
    { apply Forall_forall. intros [k n] Hi. cbn [fst].
      pose proof (labels_shape s) as Hl. rewrite Forall_forall in Hl. apply Hl.
      apply items_spec. unfold items. apply in_map_iff. exists (k, n). split; [reflexivity | exact Hi]. }
    destruct (sort_counts (dir_counts s [])) as [|x r]; [congruence|]. clear Hne.
    assert (Hnc : Forall (fun t => no_comma t = true) (map item (x :: r))).
    { apply Forall_forall. intros t Ht. apply in_map_iff in Ht as ([k n] & <- & Hi).
      rewrite Forall_forall in Hsh. destruct (Hsh _ Hi) as [Hk _]. cbn [fst] in Hk.
      unfold item. cbn [fst snd]. rewrite !no_comma_app, (digits_no_comma _ (dec_digits n)), Hk. reflexivity. }
    cbn [map] in *. pose proof (split_join (item x) (map item r) [] eq_refl Hnc) as Hsj.
    cbn [app] in Hsj. rewrite Hsj. clear Hsj Hnc.
    inversion Hsh as [|? ? Hx Hr]; subst. cbn [forallb fst]. destruct x as [k n]. cbn [fst] in *.
    rewrite (proj1 (human_item_ok_item k n (proj2 Hx))). f_equal.
    clear -Hr. induction Hr as [|[k' n'] r' Hk' Hr' IH]; [reflexivity|].
    cbn [map forallb fst] in *. rewrite (proj2 (human_item_ok_item k' n' (proj2 Hk'))), IH. reflexivity.
  - destruct s as [a w has inc cm kids]. destruct (render_nondir _ _ _ _ _ _ Ed) as (t & Eh & ->).
    destruct (head_ret_facts _ _ _ _ _ kids _ Eh) as [<- Hg].
    unfold good_text in Hg. rewrite !andb_true_iff in Hg. destruct Hg as [[[[_ Hnc] Hnd] Hsp] Heq].
    rewrite split_on_nocomma by exact Hnc. cbn [rev app forallb]. rewrite andb_true_r.
    unfold human_item_ok. rewrite ltrim_id by (destruct t; [reflexivity | exact Hsp]).
    apply eqb_prop in Heq. rewrite <- Heq, ok_labels_same.
    destruct t as [|b t']; [reflexivity|]. cbn [starts_digit] in Hnd. apply negb_true_iff in Hnd.
    unfold is_digit in Hnd. rewrite Hnd. reflexivity.
Qed.
Print Assumptions human_ok_render.

(* so spec 26, [human_ok text = ContentsMatch], is not a theorem about String(): *)
Corollary human_ok_is_cm_refuted :
  ~ (forall s, RunSys.human_ok (render s) = st_cm s).
Proof.
  intro H. specialize (H w_empty_uncommitted). rewrite human_ok_render in H. vm_compute in H. discriminate.
Qed.

(* ===================== assumptions of the remaining main results ===================== *)
Print Assumptions render_dir_text.
Print Assumptions render_dir_ok_iff_texts.
Print Assumptions render_printable.
Print Assumptions render_nonempty.
Print Assumptions render_uptodate_cm.
Print Assumptions render_dir_not_injective_refuted.
Print Assumptions human_ok_is_cm_refuted.
Print Assumptions ut_nested_directory.
