(* Property C18: containment.  Whatever stage files and directory manifests contain, the absolute
   paths dud computes from them -- filepath.Join(rootDir, artifactPath) and
   filepath.Join(workPath, entryName) -- stay lexically at or below the project root.
   Subject: Stage.Validate (src/stage/stage.go: strings.Contains(p, "..") and filepath.IsAbs(p)
   are rejected) and validateDirManifest (src/cache/cache.go: an entry name is a single
   non-empty path component equal to its key), as modelled in Model/Stage.v, Model/Cache.v over
   Base/GoPath.v. *)
From Coq Require Import String.
From Coq Require Import NArith Lia List Bool.
From DudV Require Import Base.Bytes Base.Json Base.GoPath Model.Fs Model.Cache Model.Stage.
From DudV Require Import Proofs.Ownership Proofs.CheckoutProofs.
Import ListNotations.
Local Open Scope N_scope.

(* ================================================================================== *)
(* 0. Components of an arbitrary byte string                                           *)
(* ================================================================================== *)

(* the component filter of [comps] and of [clean_comps] when nothing is popped *)
Definition keep (c : bytes) : bool := negb (is_empty c || is_dot c).

Lemma comps_unfold p : comps p = filter keep (split p).
Proof. reflexivity. Qed.

(* a component that is not ".." *)
Definition nodd (c : bytes) : Prop := is_dotdot c = false.

Lemma noslash_rev c : noslash c -> noslash (rev c).
Proof. intros Hn Hin. apply Hn. apply in_rev. exact Hin. Qed.

Lemma split_aux_all_noslash s : forall cur, noslash cur -> Forall noslash (split_aux s cur).
Proof.
  induction s as [|c s IH]; intros cur Hcur.
  - cbn [split_aux]. constructor; [apply noslash_rev; exact Hcur|constructor].
  - cbn [split_aux]. destruct (N.eqb_spec c slash) as [Ec|Ec].
    + constructor; [apply noslash_rev; exact Hcur|]. apply IH. exact noslash_nil.
    + apply IH. intros [Hin|Hin]; [apply Ec; exact Hin|apply Hcur; exact Hin].
Qed.

Lemma split_all_noslash s : Forall noslash (split s).
Proof. apply split_aux_all_noslash. exact noslash_nil. Qed.

Lemma split_aux_app_slash a : forall b cur,
  split_aux (a ++ slash :: b) cur = split_aux a cur ++ split b.
Proof.
  induction a as [|c a IH]; intros b cur.
  - cbn [app split_aux]. rewrite N.eqb_refl. reflexivity.
  - cbn [app split_aux]. destruct (c =? slash).
    + rewrite IH. reflexivity.
    + apply IH.
Qed.

Lemma split_app_slash a b : split (a ++ slash :: b) = split a ++ split b.
Proof. apply split_aux_app_slash. Qed.

Lemma split_slash_cons s : split (slash :: s) = [] :: split s.
Proof. unfold split. cbn [split_aux]. rewrite N.eqb_refl. reflexivity. Qed.

Lemma split_nil : split [] = [[]].
Proof. reflexivity. Qed.

(* ---- strings.Contains(p, "..") = false  ==>  no component contains "..", none is ".." ---- *)

Lemma cdd_cons_false x s : contains_dotdot (x :: s) = false -> contains_dotdot s = false.
Proof.
  intro Hc. destruct s as [|y s]; [reflexivity|].
  cbn [contains_dotdot] in Hc. apply orb_false_iff in Hc as [_ Hc]. exact Hc.
Qed.

Lemma cdd_app_r a : forall b, contains_dotdot (a ++ b) = false -> contains_dotdot b = false.
Proof.
  induction a as [|x a IH]; intros b Hc; [exact Hc|].
  apply IH. cbn [app] in Hc. apply cdd_cons_false in Hc. exact Hc.
Qed.

Lemma cdd_app_l a : forall b, contains_dotdot (a ++ b) = false -> contains_dotdot a = false.
Proof.
  induction a as [|x a IH]; intros b Hc; [reflexivity|].
  destruct a as [|y a]; [reflexivity|].
  cbn [app contains_dotdot] in Hc. cbn [contains_dotdot].
  apply orb_false_iff in Hc as [Hxy Hc]. apply orb_false_iff. split; [exact Hxy|].
  apply (IH b). exact Hc.
Qed.

Lemma split_aux_cdd s : forall cur, contains_dotdot (rev cur ++ s) = false ->
  Forall (fun c => contains_dotdot c = false) (split_aux s cur).
Proof.
  induction s as [|c s IH]; intros cur Hc.
  - cbn [split_aux]. rewrite app_nil_r in Hc. constructor; [exact Hc|constructor].
  - cbn [split_aux]. destruct (c =? slash).
    + constructor; [apply (cdd_app_l _ _ Hc)|].
      apply IH. cbn [rev app]. apply (cdd_app_r (rev cur ++ [c])).
      rewrite <- app_assoc. exact Hc.
    + apply IH. cbn [rev]. rewrite <- app_assoc. exact Hc.
Qed.

Lemma split_cdd p : contains_dotdot p = false ->
  Forall (fun c => contains_dotdot c = false) (split p).
Proof. intro Hc. apply split_aux_cdd. exact Hc. Qed.

Lemma is_dotdot_cdd c : is_dotdot c = true -> contains_dotdot c = true.
Proof.
  destruct c as [|d1 [|d2 [|d3 c]]]; cbn [is_dotdot]; try discriminate.
  intro Hd. cbn [contains_dotdot]. rewrite Hd. reflexivity.
Qed.

Lemma cdd_nodd c : contains_dotdot c = false -> nodd c.
Proof.
  intro Hc. unfold nodd. destruct (is_dotdot c) eqn:Hd; [|reflexivity].
  apply is_dotdot_cdd in Hd. rewrite Hd in Hc. discriminate Hc.
Qed.

(* the key fact: a path without the substring ".." has no ".." component *)
Lemma split_nodd p : contains_dotdot p = false -> Forall nodd (split p).
Proof.
  intro Hc. eapply Forall_impl; [|apply split_cdd; exact Hc]. exact cdd_nodd.
Qed.

(* ... so every path with a ".." component anywhere contains ".." *)
Lemma dotdot_comp_cdd p : In [dot; dot] (split p) -> contains_dotdot p = true.
Proof.
  intro Hin. destruct (contains_dotdot p) eqn:Hc; [reflexivity|].
  pose proof (split_cdd p Hc) as Hf. rewrite Forall_forall in Hf.
  specialize (Hf _ Hin). vm_compute in Hf. discriminate Hf.
Qed.

Lemma is_dotdot_eq c : is_dotdot c = true -> c = [dot; dot].
Proof.
  destruct c as [|d1 [|d2 [|d3 c]]]; cbn [is_dotdot]; try discriminate.
  intro Hd. apply andb_true_iff in Hd as [H1 H2].
  apply N.eqb_eq in H1. apply N.eqb_eq in H2. subst. reflexivity.
Qed.

(* a kept, slash-free component that is not ".." is one Clean leaves alone *)
Lemma keep_okc c : noslash c -> nodd c -> keep c = true -> okc c.
Proof.
  intros Hn Hd Hk. unfold keep in Hk. apply negb_true_iff in Hk.
  repeat split.
  - intro E. subst c. discriminate Hk.
  - exact Hn.
  - intro E. subst c. discriminate Hk.
  - intro E. subst c. discriminate Hd.
Qed.

Lemma okc_keep c : okc c -> keep c = true.
Proof. intro Hc. unfold keep. rewrite (okc_not_empty_dot _ Hc). reflexivity. Qed.

Lemma okc_nodd c : okc c -> nodd c.
Proof. exact (okc_not_dotdot c). Qed.

Lemma filter_keep_okc cs : Forall okc cs -> filter keep cs = cs.
Proof.
  induction cs as [|c cs IH]; intro Hf; [reflexivity|].
  inversion Hf as [|? ? Hc Hf']; subst.
  cbn [filter]. rewrite (okc_keep _ Hc). rewrite IH by exact Hf'. reflexivity.
Qed.

Lemma filter_keep_all_okc cs : Forall noslash cs -> Forall nodd cs -> Forall okc (filter keep cs).
Proof.
  induction cs as [|c cs IH]; intros Hn Hd; [constructor|].
  inversion Hn as [|? ? Hnc Hn']; subst. inversion Hd as [|? ? Hdc Hd']; subst.
  cbn [filter]. destruct (keep c) eqn:Hk.
  - constructor; [apply keep_okc; assumption|apply IH; assumption].
  - apply IH; assumption.
Qed.

(* the components of a path without ".." component are ok components *)
Lemma comps_okc p : Forall nodd (split p) -> Forall okc (comps p).
Proof. intro Hd. apply filter_keep_all_okc; [apply split_all_noslash|exact Hd]. Qed.

(* without a ".." component Clean never pops: it only drops "." and empty components *)
Lemma clean_comps_nodd rooted cs : forall st, Forall nodd cs ->
  clean_comps rooted cs st = rev st ++ filter keep cs.
Proof.
  induction cs as [|c cs IH]; intros st Hd.
  - cbn [clean_comps filter]. rewrite app_nil_r. reflexivity.
  - inversion Hd as [|? ? Hdc Hd']; subst. unfold nodd in Hdc.
    cbn [clean_comps filter]. unfold keep at 1.
    destruct (is_empty c || is_dot c).
    + cbn [negb]. apply IH. exact Hd'.
    + cbn [negb]. rewrite Hdc. rewrite IH by exact Hd'.
      cbn [rev]. rewrite <- app_assoc. reflexivity.
Qed.

(* ================================================================================== *)
(* 1. Clean absolute paths and Join                                                    *)
(* ================================================================================== *)

(* A Clean absolute path: "/" followed by ok components joined by "/";
   [abs_of []] is the root directory "/". *)
Definition abs_of (cs : list bytes) : bytes := slash :: join_comps cs.

Lemma abs_of_nil : abs_of [] = [47].
Proof. reflexivity. Qed.

Lemma split_join_any cs : Forall okc cs ->
  filter keep (split (join_comps cs)) = cs /\ Forall nodd (split (join_comps cs)).
Proof.
  intro Hf. destruct cs as [|c cs].
  - cbn [join_comps]. rewrite split_nil. split; [reflexivity|].
    constructor; [reflexivity|constructor].
  - rewrite split_join by (discriminate || exact Hf). split.
    + apply filter_keep_okc. exact Hf.
    + eapply Forall_impl; [|exact Hf]. exact okc_nodd.
Qed.

Lemma keep_nil : keep [] = false.
Proof. reflexivity. Qed.

Lemma nodd_nil : nodd [].
Proof. reflexivity. Qed.

Theorem comps_abs_of cs : Forall okc cs -> comps (abs_of cs) = cs.
Proof.
  intro Hf. unfold abs_of. rewrite comps_unfold, split_slash_cons.
  cbn [filter]. rewrite keep_nil. apply split_join_any. exact Hf.
Qed.

Lemma clean_abs_nodd s : Forall nodd (split s) ->
  clean (slash :: s) = abs_of (filter keep (split s)).
Proof.
  intro Hd. unfold clean.
  assert (Habs : is_abs (slash :: s) = true) by (cbn [is_abs]; apply N.eqb_refl).
  rewrite Habs. unfold abs_of. f_equal. f_equal.
  rewrite split_slash_cons. rewrite clean_comps_nodd.
  - cbn [rev app filter]. rewrite keep_nil. reflexivity.
  - constructor; [exact nodd_nil|exact Hd].
Qed.

(* a Clean absolute path is a fixed point of Clean *)
Theorem clean_abs_of cs : Forall okc cs -> clean (abs_of cs) = abs_of cs.
Proof.
  intro Hf. destruct (split_join_any cs Hf) as [Hk Hd].
  unfold abs_of at 1. rewrite clean_abs_nodd by exact Hd. rewrite Hk. reflexivity.
Qed.

(* filepath.Join(root, p) for a Clean absolute root and any p without ".." component *)
Theorem join2_abs_nodd rcs p : Forall okc rcs -> Forall nodd (split p) ->
  join2 (abs_of rcs) p = abs_of (rcs ++ comps p).
Proof.
  intros Hf Hd. destruct (split_join_any rcs Hf) as [Hk Hdr].
  destruct p as [|y p].
  - unfold abs_of at 1. cbn [join2]. fold (abs_of rcs).
    rewrite clean_abs_of by exact Hf.
    change (comps []) with (@nil bytes). rewrite app_nil_r. reflexivity.
  - unfold abs_of at 1. cbn [join2]. cbn [app].
    rewrite clean_abs_nodd.
    + rewrite split_app_slash, filter_app, comps_unfold. f_equal. f_equal. exact Hk.
    + rewrite split_app_slash. apply Forall_app. split; [exact Hdr|exact Hd].
Qed.

Theorem comps_join2_nodd rcs p : Forall okc rcs -> Forall nodd (split p) ->
  comps (join2 (abs_of rcs) p) = comps (abs_of rcs) ++ comps p.
Proof.
  intros Hf Hd. rewrite join2_abs_nodd by assumption.
  rewrite !comps_abs_of; [reflexivity|exact Hf|].
  apply Forall_app. split; [exact Hf|apply comps_okc; exact Hd].
Qed.

Lemma is_prefix_app a : forall b, is_prefix a (a ++ b) = true.
Proof.
  induction a as [|x a IH]; intro b; [reflexivity|].
  cbn [app is_prefix]. rewrite beqb_refl, IH. reflexivity.
Qed.

Lemma is_prefix_app_iff a : forall b, is_prefix a b = true <-> exists t, b = a ++ t.
Proof.
  induction a as [|x a IH]; intro b.
  - split; [intros _; exists b; reflexivity|reflexivity].
  - destruct b as [|y b]; cbn [is_prefix].
    + split; [discriminate|intros [t Ht]; discriminate Ht].
    + rewrite andb_true_iff, beqb_eq, IH. split.
      * intros [-> [t ->]]. exists t. reflexivity.
      * intros [t Ht]. inversion Ht; subst. split; [reflexivity|exists t; reflexivity].
Qed.

(* stronger than asked: IsAbs(p) = false is not needed for lexical containment, and "no ..
   component" is enough (Go: Join("/r", "/abs") = "/r/abs", Join("/r", "a..b") = "/r/a..b") *)
Theorem join_under_root_nodd root rcs p :
  Forall okc rcs -> root = 47 :: join_comps rcs ->
  Forall nodd (split p) ->
  comps (join2 root p) = comps root ++ comps p /\ under root (join2 root p) = true.
Proof.
  intros Hf -> Hd. fold slash. fold (abs_of rcs).
  pose proof (comps_join2_nodd rcs p Hf Hd) as Hc. split; [exact Hc|].
  unfold under. rewrite Hc. apply is_prefix_app.
Qed.

(* Theorem 1, exact form *)
Theorem join_comps_root root rcs p :
  Forall okc rcs -> root = 47 :: join_comps rcs ->
  contains_dotdot p = false -> is_abs p = false ->
  comps (join2 root p) = comps root ++ comps p.
Proof.
  intros Hf Hr Hc _. apply (join_under_root_nodd root rcs p Hf Hr). apply split_nodd. exact Hc.
Qed.

(* Theorem 1 *)
Theorem join_under_root root rcs p :
  Forall okc rcs -> root = 47 :: join_comps rcs ->
  contains_dotdot p = false -> is_abs p = false ->
  under root (join2 root p) = true.
Proof.
  intros Hf Hr Hc _. apply (join_under_root_nodd root rcs p Hf Hr). apply split_nodd. exact Hc.
Qed.

(* the same spelled with is_prefix *)
Corollary join_under_root_prefix root rcs p :
  Forall okc rcs -> root = 47 :: join_comps rcs ->
  contains_dotdot p = false -> is_abs p = false ->
  is_prefix (comps root) (comps (join2 root p)) = true.
Proof. exact (join_under_root root rcs p). Qed.

(* the root "/" itself *)
Corollary join_under_slash p :
  contains_dotdot p = false -> is_abs p = false ->
  under [47] (join2 [47] p) = true /\ comps (join2 [47] p) = comps p.
Proof.
  intros Hc Ha. split.
  - apply (join_under_root [47] [] p); [constructor|reflexivity|exact Hc|exact Ha].
  - apply (join_comps_root [47] [] p); [constructor|reflexivity|exact Hc|exact Ha].
Qed.

(* the joined path is again a Clean absolute path (so Join can be iterated) *)
Theorem join2_root_shape root rcs p :
  Forall okc rcs -> root = 47 :: join_comps rcs ->
  contains_dotdot p = false -> is_abs p = false ->
  join2 root p = 47 :: join_comps (rcs ++ comps p) /\ Forall okc (rcs ++ comps p).
Proof.
  intros Hf -> Hc _. pose proof (split_nodd p Hc) as Hd. split.
  - apply (join2_abs_nodd rcs p Hf Hd).
  - apply Forall_app. split; [exact Hf|apply comps_okc; exact Hd].
Qed.

Print Assumptions join_under_root_nodd.
Print Assumptions join_comps_root.
Print Assumptions join_under_root.
Print Assumptions join_under_slash.
Print Assumptions join2_root_shape.

(* ================================================================================== *)
(* 2. Stage.Validate: accepted stages only name paths that stay under the root         *)
(* ================================================================================== *)

Definition safe_rel (p : bytes) : Prop := contains_dotdot p = false /\ is_abs p = false.

Lemma validate_inv sp s : validate sp s = true ->
  safe_rel (s_wd s) /\
  forallb (fun a => negb (contains_dotdot (a_path a)) && negb (is_abs (a_path a)) &&
                    match find_dir_owner (a_path a) (s_outputs s ++ s_inputs s) with
                    | Some _ => false | None => true end) (s_outputs s ++ s_inputs s) = true.
Proof.
  unfold validate. intro Hv.
  apply andb_true_iff in Hv as [Hv Hall].
  apply andb_true_iff in Hv as [Hv _].
  apply andb_true_iff in Hv as [Hv _].
  apply andb_true_iff in Hv as [Hv _].
  apply andb_true_iff in Hv as [Hv _].
  apply andb_true_iff in Hv as [Hwd Hwa].
  apply negb_true_iff in Hwd. apply negb_true_iff in Hwa.
  split; [split; assumption|exact Hall].
Qed.

Theorem C18_stage_paths_safe sp s : validate sp s = true ->
  (forall a, In a (s_inputs s ++ s_outputs s) ->
     contains_dotdot (a_path a) = false /\ is_abs (a_path a) = false) /\
  contains_dotdot (s_wd s) = false /\ is_abs (s_wd s) = false.
Proof.
  intro Hv. destruct (validate_inv sp s Hv) as [[Hwd Hwa] Hall].
  split; [|split; assumption].
  intros a Hin. rewrite forallb_forall in Hall.
  assert (Hin' : In a (s_outputs s ++ s_inputs s)).
  { apply in_or_app. apply in_app_or in Hin. destruct Hin as [Hi|Ho]; [right|left]; assumption. }
  specialize (Hall a Hin').
  apply andb_true_iff in Hall as [Hall _].
  apply andb_true_iff in Hall as [Hc Ha].
  apply negb_true_iff in Hc. apply negb_true_iff in Ha. split; assumption.
Qed.

(* Theorem 2 *)
Theorem C18_stage_paths sp s root rcs : validate sp s = true ->
  Forall okc rcs -> root = 47 :: join_comps rcs ->
  (forall a, In a (s_inputs s ++ s_outputs s) ->
     contains_dotdot (a_path a) = false /\ is_abs (a_path a) = false /\
     under root (join2 root (a_path a)) = true /\
     comps (join2 root (a_path a)) = comps root ++ comps (a_path a)) /\
  contains_dotdot (s_wd s) = false /\ is_abs (s_wd s) = false /\
  under root (join2 root (s_wd s)) = true /\
  comps (join2 root (s_wd s)) = comps root ++ comps (s_wd s).
Proof.
  intros Hv Hf Hr. destruct (C18_stage_paths_safe sp s Hv) as [Harts [Hwd Hwa]].
  split.
  - intros a Hin. destruct (Harts a Hin) as [Hc Ha].
    split; [exact Hc|]. split; [exact Ha|]. split.
    + apply (join_under_root root rcs); assumption.
    + apply (join_comps_root root rcs); assumption.
  - split; [exact Hwd|]. split; [exact Hwa|]. split.
    + apply (join_under_root root rcs); assumption.
    + apply (join_comps_root root rcs); assumption.
Qed.

(* dud resolves artifact paths against the stage's working directory first:
   Join(root, Join(wd, path)) also stays under the root *)
Theorem C18_stage_paths_wd sp s root rcs a : validate sp s = true ->
  Forall okc rcs -> root = 47 :: join_comps rcs ->
  In a (s_inputs s ++ s_outputs s) ->
  under root (fold_left join2 [s_wd s; a_path a] root) = true /\
  comps (fold_left join2 [s_wd s; a_path a] root) = comps root ++ comps (s_wd s) ++ comps (a_path a).
Proof.
  intros Hv Hf Hr Hin. destruct (C18_stage_paths_safe sp s Hv) as [Harts [Hwd Hwa]].
  destruct (Harts a Hin) as [Hc Ha]. cbn [fold_left].
  destruct (join2_root_shape root rcs (s_wd s) Hf Hr Hwd Hwa) as [Hj Hf2].
  pose proof (join_comps_root root rcs (s_wd s) Hf Hr Hwd Hwa) as Hc1.
  pose proof (join_comps_root _ _ (a_path a) Hf2 Hj Hc Ha) as Hc2.
  assert (Hcs : comps (join2 (join2 root (s_wd s)) (a_path a))
                = comps root ++ comps (s_wd s) ++ comps (a_path a)).
  { rewrite Hc2, Hc1, <- app_assoc. reflexivity. }
  split; [|exact Hcs]. unfold under. rewrite Hcs. apply is_prefix_app.
Qed.

Print Assumptions C18_stage_paths_safe.
Print Assumptions C18_stage_paths.
Print Assumptions C18_stage_paths_wd.

(* ================================================================================== *)
(* 3. Stage.Validate rejects absolute and parent-escaping paths                        *)
(* ================================================================================== *)

(* Theorem 3: the contrapositive of 2 *)
Theorem C18_stage_rejects sp s :
  (exists a, In a (s_inputs s ++ s_outputs s) /\
             (contains_dotdot (a_path a) = true \/ is_abs (a_path a) = true)) \/
  contains_dotdot (s_wd s) = true \/ is_abs (s_wd s) = true ->
  validate sp s = false.
Proof.
  intro Hbad. destruct (validate sp s) eqn:Hv; [exfalso|reflexivity].
  destruct (C18_stage_paths_safe sp s Hv) as [Harts [Hwd Hwa]].
  destruct Hbad as [(a & Hin & Hb)|[Hb|Hb]].
  - destruct (Harts a Hin) as [Hc Ha].
    destruct Hb as [Hb|Hb]; [rewrite Hb in Hc; discriminate Hc|rewrite Hb in Ha; discriminate Ha].
  - rewrite Hb in Hwd. discriminate Hwd.
  - rewrite Hb in Hwa. discriminate Hwa.
Qed.

(* in particular: a ".." COMPONENT anywhere in an artifact path or in the working dir *)
Theorem C18_stage_rejects_dotdot_comp sp s :
  (exists a, In a (s_inputs s ++ s_outputs s) /\ In [46; 46] (split (a_path a))) \/
  In [46; 46] (split (s_wd s)) ->
  validate sp s = false.
Proof.
  intro Hbad. apply C18_stage_rejects. destruct Hbad as [(a & Hin & Hb)|Hb].
  - left. exists a. split; [exact Hin|]. left. apply dotdot_comp_cdd. exact Hb.
  - right. left. apply dotdot_comp_cdd. exact Hb.
Qed.

Theorem C18_stage_rejects_abs sp s :
  (exists a t, In a (s_inputs s ++ s_outputs s) /\ a_path a = 47 :: t) \/
  (exists t, s_wd s = 47 :: t) ->
  validate sp s = false.
Proof.
  intro Hbad. apply C18_stage_rejects. destruct Hbad as [(a & t & Hin & Hb)|(t & Hb)].
  - left. exists a. split; [exact Hin|]. right. rewrite Hb. reflexivity.
  - right. right. rewrite Hb. reflexivity.
Qed.

Print Assumptions C18_stage_rejects.
Print Assumptions C18_stage_rejects_dotdot_comp.
Print Assumptions C18_stage_rejects_abs.

(* concrete stages: one hostile path as output, as input, as working dir *)
Definition bs (x : string) : bytes := of_string x.
Definition art_at (p : bytes) : artifact := mkArt [] p false false false.
Definition st_out (p : bytes) : stage := mkStage [] (bs "cmd") [] [] [art_at p].
Definition st_in (p : bytes) : stage := mkStage [] (bs "cmd") [] [art_at p] [art_at (bs "out.bin")].
Definition st_wd (p : bytes) : stage := mkStage [] (bs "cmd") p [] [art_at (bs "out.bin")].
Definition rejected3 (p : bytes) : bool :=
  negb (validate (bs "s.yaml") (st_out p)) && negb (validate (bs "s.yaml") (st_in p)) &&
  negb (validate (bs "s.yaml") (st_wd p)).
Definition accepted3 (p : bytes) : bool :=
  validate (bs "s.yaml") (st_out p) && validate (bs "s.yaml") (st_in p) &&
  validate (bs "s.yaml") (st_wd p).

(* the three stage shapes are otherwise valid: harmless paths are accepted *)
Example ex_accept_plain : accepted3 (bs "data/x") = true.
Proof. vm_compute. reflexivity. Qed.
Example ex_accept_dot_names : accepted3 (bs "a/.b/c.d") = true.
Proof. vm_compute. reflexivity. Qed.

Example ex_reject_up1 : rejected3 (bs "../x") = true.
Proof. vm_compute. reflexivity. Qed.
Example ex_reject_up2 : rejected3 (bs "../../x") = true.
Proof. vm_compute. reflexivity. Qed.
Example ex_reject_inner : rejected3 (bs "a/../../b") = true.
Proof. vm_compute. reflexivity. Qed.
Example ex_reject_trailing : rejected3 (bs "a/..") = true.
Proof. vm_compute. reflexivity. Qed.
Example ex_reject_dotdot : rejected3 (bs "..") = true.
Proof. vm_compute. reflexivity. Qed.
Example ex_reject_abs : rejected3 (bs "/abs") = true.
Proof. vm_compute. reflexivity. Qed.
Example ex_reject_abs_etc : rejected3 (bs "/etc/passwd") = true.
Proof. vm_compute. reflexivity. Qed.
(* rejected although harmless: strings.Contains is coarser than a component test *)
Example ex_reject_dotdotfoo : rejected3 (bs "..foo") = true.
Proof. vm_compute. reflexivity. Qed.
Example ex_reject_a_dotdot_b : rejected3 (bs "a..b") = true.
Proof. vm_compute. reflexivity. Qed.

(* what the rejected paths would have joined to (Go: filepath.Join("/r/proj", p)) *)
Example ex_escape_up1 : under (bs "/r/proj") (join2 (bs "/r/proj") (bs "../x")) = false.
Proof. vm_compute. reflexivity. Qed.
Example ex_escape_inner : under (bs "/r/proj") (join2 (bs "/r/proj") (bs "a/../../b")) = false.
Proof. vm_compute. reflexivity. Qed.

(* ================================================================================== *)
(* 4. validateDirManifest: a valid entry name lands exactly one level below            *)
(* ================================================================================== *)

Lemma valid_entry_name_inv n : valid_entry_name n = true ->
  n <> [] /\ n <> [46] /\ n <> [46; 46] /\ ~ In 47 n /\ ~ In 0 n.
Proof.
  unfold valid_entry_name. intro Hv.
  apply andb_true_iff in Hv as [Hv Hex].
  apply andb_true_iff in Hv as [Hv Hdd].
  apply andb_true_iff in Hv as [He Hd].
  apply negb_true_iff in Hex, Hdd, He, Hd.
  assert (Hnot : forall b, In b n -> (b =? 47) || (b =? 0) = false).
  { intros b Hin. destruct ((b =? 47) || (b =? 0)) eqn:Hb; [|reflexivity].
    assert (Ht : existsb (fun b => (b =? 47) || (b =? 0)) n = true).
    { apply existsb_exists. exists b. split; assumption. }
    rewrite Ht in Hex. discriminate Hex. }
  repeat split.
  - intro E. subst n. discriminate He.
  - intro E. subst n. discriminate Hd.
  - intro E. subst n. discriminate Hdd.
  - intro Hin. specialize (Hnot _ Hin). discriminate Hnot.
  - intro Hin. specialize (Hnot _ Hin). discriminate Hnot.
Qed.

Lemma valid_entry_name_okc n : valid_entry_name n = true -> okc n.
Proof.
  intro Hv. destruct (valid_entry_name_inv n Hv) as (He & Hd & Hdd & Hs & _).
  repeat split; assumption.
Qed.

(* hostile names are not valid *)
Lemma valid_entry_name_empty : valid_entry_name [] = false.
Proof. reflexivity. Qed.
Lemma valid_entry_name_dot : valid_entry_name [46] = false.
Proof. reflexivity. Qed.
Lemma valid_entry_name_dotdot : valid_entry_name [46; 46] = false.
Proof. reflexivity. Qed.
Lemma valid_entry_name_slash n : In 47 n -> valid_entry_name n = false.
Proof.
  intro Hin. destruct (valid_entry_name n) eqn:Hv; [exfalso|reflexivity].
  destruct (valid_entry_name_inv n Hv) as (_ & _ & _ & Hs & _). exact (Hs Hin).
Qed.
Lemma valid_entry_name_nul n : In 0 n -> valid_entry_name n = false.
Proof.
  intro Hin. destruct (valid_entry_name n) eqn:Hv; [exfalso|reflexivity].
  destruct (valid_entry_name_inv n Hv) as (_ & _ & _ & _ & Hz). exact (Hz Hin).
Qed.
(* so: no absolute name, no name with a ".." component, no multi-component name *)
Lemma valid_entry_name_abs n : is_abs n = true -> valid_entry_name n = false.
Proof.
  intro Ha. apply valid_entry_name_slash. destruct n as [|c n]; [discriminate Ha|].
  cbn [is_abs] in Ha. apply N.eqb_eq in Ha. left. exact Ha.
Qed.
Lemma valid_entry_name_single n : valid_entry_name n = true -> split n = [n] /\ comps n = [n].
Proof.
  intro Hv. pose proof (valid_entry_name_okc n Hv) as Hc.
  assert (Hs : split n = [n]).
  { rewrite <- (join_comps_single n) at 1. apply split_join; [discriminate|].
    constructor; [exact Hc|constructor]. }
  split; [exact Hs|]. rewrite comps_unfold, Hs. apply filter_keep_okc.
  constructor; [exact Hc|constructor].
Qed.
Lemma valid_entry_name_dotdot_comp n : In [46; 46] (split n) -> valid_entry_name n = false.
Proof.
  intro Hin. destruct (valid_entry_name n) eqn:Hv; [exfalso|reflexivity].
  destruct (valid_entry_name_single n Hv) as [Hs _]. rewrite Hs in Hin.
  destruct Hin as [E|[]]. rewrite E in Hv. discriminate Hv.
Qed.

(* Theorem 4 *)
Theorem entry_stays_inside d dcs n :
  Forall okc dcs -> d = 47 :: join_comps dcs ->
  valid_entry_name n = true ->
  comps (join2 d n) = comps d ++ [n].
Proof.
  intros Hf Hd Hv. destruct (valid_entry_name_single n Hv) as [Hs Hc].
  rewrite <- Hc. apply (join_under_root_nodd d dcs n Hf Hd).
  rewrite Hs. constructor; [apply okc_nodd; apply valid_entry_name_okc; exact Hv|constructor].
Qed.

Theorem entry_join_shape d dcs n :
  Forall okc dcs -> d = 47 :: join_comps dcs ->
  valid_entry_name n = true ->
  join2 d n = 47 :: join_comps (dcs ++ [n]) /\ Forall okc (dcs ++ [n]) /\ under d (join2 d n) = true.
Proof.
  intros Hf -> Hv. destruct (valid_entry_name_single n Hv) as [Hs Hc].
  pose proof (valid_entry_name_okc n Hv) as Hok.
  assert (Hd : Forall nodd (split n)).
  { rewrite Hs. constructor; [apply okc_nodd; exact Hok|constructor]. }
  split; [|split].
  - rewrite <- Hc. apply (join2_abs_nodd dcs n Hf Hd).
  - apply Forall_app. split; [exact Hf|]. constructor; [exact Hok|constructor].
  - apply (join_under_root_nodd (47 :: join_comps dcs) dcs n Hf eq_refl Hd).
Qed.

Print Assumptions entry_stays_inside.
Print Assumptions entry_join_shape.
Print Assumptions valid_entry_name_slash.
Print Assumptions valid_entry_name_nul.
Print Assumptions valid_entry_name_dotdot_comp.

(* ================================================================================== *)
(* 5. Decoded manifests                                                                *)
(* ================================================================================== *)

(* Theorem 5 *)
Theorem C18_manifest b m d dcs : dec_manifest b = Some m ->
  Forall okc dcs -> d = 47 :: join_comps dcs ->
  forall k a, In (k, a) (m_contents m) ->
    a_path a = k /\ valid_entry_name k = true /\
    comps (join2 d (a_path a)) = comps d ++ [k] /\
    under d (join2 d (a_path a)) = true.
Proof.
  intros Hdec Hf Hd k a Hin.
  destruct (dec_manifest_inv b m Hdec) as [_ Hall].
  rewrite Forall_forall in Hall. destruct (Hall _ Hin) as [Hp Hv].
  cbn [fst snd] in Hp, Hv. rewrite Hp.
  split; [reflexivity|]. split; [exact Hv|]. split.
  - apply (entry_stays_inside d dcs k Hf Hd Hv).
  - rewrite Hd. apply (entry_join_shape _ dcs k Hf eq_refl Hv).
Qed.

Print Assumptions C18_manifest.

(* the JSON text of a one-entry manifest of directory "d": key [k], entry path [p] *)
Definition man1 (k p : string) : bytes :=
  bs ("{""path"":""d"",""contents"":{""" ++ k ++ """:{""checksum"":""abc"",""path"":""" ++ p ++ """}}}").
Definition rejects (k p : string) : bool :=
  match dec_manifest (man1 k p) with None => true | Some _ => false end.

(* the shape is decodable: a harmless entry is accepted, with the expected contents *)
Example ex_man_ok :
  dec_manifest (man1 "x" "x") = Some (mkMan (bs "d") [(bs "x", mkArt (bs "abc") (bs "x") false false false)]).
Proof. vm_compute. reflexivity. Qed.
Example ex_man_ok_dots : rejects "a..b" "a..b" = false.
Proof. vm_compute. reflexivity. Qed.

Example ex_man_up1 : rejects "../x" "../x" = true.
Proof. vm_compute. reflexivity. Qed.
Example ex_man_up2 : rejects "../../x" "../../x" = true.
Proof. vm_compute. reflexivity. Qed.
Example ex_man_abs : rejects "/abs" "/abs" = true.
Proof. vm_compute. reflexivity. Qed.
Example ex_man_nested : rejects "a/b" "a/b" = true.
Proof. vm_compute. reflexivity. Qed.
Example ex_man_dot : rejects "." "." = true.
Proof. vm_compute. reflexivity. Qed.
Example ex_man_dotdot : rejects ".." ".." = true.
Proof. vm_compute. reflexivity. Qed.
Example ex_man_empty : rejects "" "" = true.
Proof. vm_compute. reflexivity. Qed.
(* path differs from key: harmless key, hostile path and the other way round *)
Example ex_man_key_ne_path : rejects "x" "y" = true.
Proof. vm_compute. reflexivity. Qed.
Example ex_man_key_ok_path_up : rejects "x" "../x" = true.
Proof. vm_compute. reflexivity. Qed.
Example ex_man_key_up_path_ok : rejects "../x" "x" = true.
Proof. vm_compute. reflexivity. Qed.
Example ex_man_key_ok_path_abs : rejects "x" "/etc/passwd" = true.
Proof. vm_compute. reflexivity. Qed.
Example ex_man_key_ok_path_missing :
  match dec_manifest (bs "{""path"":""d"",""contents"":{""x"":{""checksum"":""abc""}}}") with
  | None => true | Some _ => false end = true.
Proof. vm_compute. reflexivity. Qed.
(* NUL inside a name (JSON escape \u0000) *)
Example ex_man_nul : rejects "a\u0000b" "a\u0000b" = true.
Proof. vm_compute. reflexivity. Qed.
(* (the escape itself is understood: \u0041 is "A" and is accepted) *)
Example ex_man_escape_ok : rejects "a\u0041b" "aAb" = false.
Proof. vm_compute. reflexivity. Qed.
(* a hostile entry anywhere rejects the whole manifest *)
Example ex_man_second_entry_hostile :
  match dec_manifest (bs ("{""path"":""d"",""contents"":{""a"":{""checksum"":""abc"",""path"":""a""}," ++
                          """../b"":{""checksum"":""abc"",""path"":""../b""}}}")) with
  | None => true | Some _ => false end = true.
Proof. vm_compute. reflexivity. Qed.
(* what a hostile name would have joined to (Go: filepath.Join("/r/proj/d", name)) *)
Example ex_entry_escape_up :
  under (bs "/r/proj/d") (join2 (bs "/r/proj/d") (bs "../x")) = false.
Proof. vm_compute. reflexivity. Qed.
Example ex_entry_escape_root :
  under (bs "/r/proj") (join2 (bs "/r/proj/d") (bs "../../x")) = false.
Proof. vm_compute. reflexivity. Qed.

(* ================================================================================== *)
(* 6. Descending through directory manifests stays under the root                      *)
(* ================================================================================== *)

Lemma fold_join2_names ns : forall cs,
  Forall okc cs -> Forall (fun n => valid_entry_name n = true) ns ->
  fold_left join2 ns (abs_of cs) = abs_of (cs ++ ns) /\ Forall okc (cs ++ ns).
Proof.
  induction ns as [|n ns IH]; intros cs Hf Hv.
  - cbn [fold_left]. rewrite app_nil_r. split; [reflexivity|exact Hf].
  - inversion Hv as [|? ? Hn Hv']; subst. cbn [fold_left].
    destruct (entry_join_shape (abs_of cs) cs n Hf eq_refl Hn) as (Hj & Hf2 & _).
    rewrite Hj. fold slash. fold (abs_of (cs ++ [n])).
    destruct (IH (cs ++ [n]) Hf2 Hv') as [He Hf3].
    rewrite <- app_assoc in He, Hf3. cbn [app] in He, Hf3. split; assumption.
Qed.

(* Theorem 6 *)
Theorem C18_nested_inside root rcs p ns :
  Forall okc rcs -> root = 47 :: join_comps rcs ->
  contains_dotdot p = false -> is_abs p = false ->
  Forall (fun n => valid_entry_name n = true) ns ->
  comps (fold_left join2 ns (join2 root p)) = comps root ++ comps p ++ ns /\
  under root (fold_left join2 ns (join2 root p)) = true.
Proof.
  intros Hf Hr Hc Ha Hv.
  destruct (join2_root_shape root rcs p Hf Hr Hc Ha) as [Hj Hf2].
  assert (Hroot : comps root = rcs).
  { rewrite Hr. fold slash. fold (abs_of rcs). apply comps_abs_of. exact Hf. }
  assert (Hcs : comps (fold_left join2 ns (join2 root p)) = comps root ++ comps p ++ ns).
  { rewrite Hj. fold slash. fold (abs_of (rcs ++ comps p)).
    destruct (fold_join2_names ns (rcs ++ comps p) Hf2 Hv) as [He Hf3].
    rewrite He. rewrite comps_abs_of by exact Hf3. rewrite Hroot, <- app_assoc. reflexivity. }
  split; [exact Hcs|]. unfold under. rewrite Hcs. apply is_prefix_app.
Qed.

(* the entry also stays under its artifact's own directory, and under every intermediate one *)
Theorem C18_nested_under_artifact root rcs p ns1 ns2 :
  Forall okc rcs -> root = 47 :: join_comps rcs ->
  contains_dotdot p = false -> is_abs p = false ->
  Forall (fun n => valid_entry_name n = true) (ns1 ++ ns2) ->
  under (fold_left join2 ns1 (join2 root p)) (fold_left join2 (ns1 ++ ns2) (join2 root p)) = true.
Proof.
  intros Hf Hr Hc Ha Hv. pose proof Hv as Hv1. apply Forall_app in Hv1 as [Hv1 _].
  destruct (C18_nested_inside root rcs p ns1 Hf Hr Hc Ha Hv1) as [H1 _].
  destruct (C18_nested_inside root rcs p (ns1 ++ ns2) Hf Hr Hc Ha Hv) as [H2 _].
  unfold under. rewrite H1, H2.
  replace (comps root ++ comps p ++ ns1 ++ ns2) with ((comps root ++ comps p ++ ns1) ++ ns2)
    by (rewrite <- !app_assoc; reflexivity).
  apply is_prefix_app.
Qed.

(* whole chain for a decoded manifest: stage accepted, manifest decoded, entry joined *)
Theorem C18_stage_manifest_entry sp s root rcs a b m k e :
  validate sp s = true -> Forall okc rcs -> root = 47 :: join_comps rcs ->
  In a (s_inputs s ++ s_outputs s) ->
  dec_manifest b = Some m -> In (k, e) (m_contents m) ->
  comps (join2 (join2 root (a_path a)) (a_path e)) = comps root ++ comps (a_path a) ++ [k] /\
  under root (join2 (join2 root (a_path a)) (a_path e)) = true /\
  under (join2 root (a_path a)) (join2 (join2 root (a_path a)) (a_path e)) = true.
Proof.
  intros Hv Hf Hr Hin Hdec Hine.
  destruct (C18_stage_paths_safe sp s Hv) as [Harts _]. destruct (Harts a Hin) as [Hc Ha].
  destruct (dec_manifest_inv b m Hdec) as [_ Hall]. rewrite Forall_forall in Hall.
  destruct (Hall _ Hine) as [Hp Hk]. cbn [fst snd] in Hp, Hk. rewrite Hp.
  assert (Hks : Forall (fun n => valid_entry_name n = true) [k]) by (constructor; [exact Hk|constructor]).
  destruct (C18_nested_inside root rcs (a_path a) [k] Hf Hr Hc Ha Hks) as [H1 H2].
  cbn [fold_left] in H1, H2. split; [exact H1|]. split; [exact H2|].
  apply (C18_nested_under_artifact root rcs (a_path a) [] [k] Hf Hr Hc Ha Hks).
Qed.

Print Assumptions C18_nested_inside.
Print Assumptions C18_nested_under_artifact.
Print Assumptions C18_stage_manifest_entry.

(* ================================================================================== *)
(* 7. The hypotheses are satisfiable: a concrete root                                  *)
(* ================================================================================== *)

Definition okcb (c : bytes) : bool :=
  negb (beqb c []) && negb (existsb (fun b => b =? slash) c) && negb (beqb c [dot]) &&
  negb (beqb c [dot; dot]).

Lemma okcb_okc c : okcb c = true -> okc c.
Proof.
  unfold okcb. intro Hb.
  apply andb_true_iff in Hb as [Hb Hdd].
  apply andb_true_iff in Hb as [Hb Hd].
  apply andb_true_iff in Hb as [He Hs].
  apply negb_true_iff in Hdd, Hd, He, Hs.
  repeat split.
  - intro E. subst c. discriminate He.
  - intro Hin. assert (Ht : existsb (fun b => b =? slash) c = true).
    { apply existsb_exists. exists slash. split; [exact Hin|apply N.eqb_refl]. }
    rewrite Ht in Hs. discriminate Hs.
  - intro E. subst c. discriminate Hd.
  - intro E. subst c. discriminate Hdd.
Qed.

Lemma forallb_okcb cs : forallb okcb cs = true -> Forall okc cs.
Proof.
  intro Hb. apply Forall_forall. intros c Hin. apply okcb_okc.
  rewrite forallb_forall in Hb. apply Hb. exact Hin.
Qed.

(* every Clean absolute path is of the assumed shape: decidable check *)
Theorem root_shape_check root :
  is_abs root = true -> forallb okcb (comps root) = true -> root = 47 :: join_comps (comps root) ->
  forall p, contains_dotdot p = false -> is_abs p = false -> under root (join2 root p) = true.
Proof.
  intros _ Hb Hr p Hc Ha.
  apply (join_under_root root (comps root) p (forallb_okcb _ Hb) Hr Hc Ha).
Qed.

Example ex_root_proj : forall p, contains_dotdot p = false -> is_abs p = false ->
  under (bs "/r/proj") (join2 (bs "/r/proj") p) = true /\
  comps (join2 (bs "/r/proj") p) = [bs "r"; bs "proj"] ++ comps p.
Proof.
  intros p Hc Ha.
  assert (Hf : Forall okc [bs "r"; bs "proj"]) by (apply forallb_okcb; vm_compute; reflexivity).
  split.
  - apply (join_under_root _ [bs "r"; bs "proj"] p Hf eq_refl Hc Ha).
  - apply (join_comps_root _ [bs "r"; bs "proj"] p Hf eq_refl Hc Ha).
Qed.

Print Assumptions root_shape_check.
Print Assumptions ex_root_proj.
