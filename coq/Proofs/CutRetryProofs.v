(* C04: the retry theorems of NestedRetryProofs.v apply to EVERY cut of the cut semantics of
   Model/Crash.v in which no workspace entry is missing.

   NestedRetryProofs.v proves C04_retry_nested_inv for a hand-written relation [tree_state2]
   ("what a failed nested commit may have left").  This file connects it to the cut semantics:
   the states that [commit_cut] actually produces satisfy [tree_state2], and the cache facts the
   retry theorem needs follow from being a cut.

     all_present n n1          [n1] has an entry (same name, same position) for every entry of [n],
                               recursively; [all_presentb] the computable form (sound and complete)
     cut_tree_state2           every cut (Some n1, c1) with all_present n n1 satisfies
                               tree_state2 H st (a_skip a) (a_norec a) n n1   (no other premise:
                               neither on the hash, nor on the cache, nor on old manifests)
     cut_cache_le, cut_keyed   cache_le c c1, keyed H c1  (for every cut, entries missing or not)
     cut_resolved              resolved c n -> resolved c1 n1   (the premise [resolved c n] on the
                               ORIGINAL tree cannot be dropped: cx_resolved_needs_premise)
     cut_cache_below_final     cache_le c1 cf: PROVABLE (it is C03_cut_endpoints; cache_le compares
                               bytes only, so objects still in temp mode do not matter, and the
                               log of a directory is a permutation of the children's logs, every
                               write of which is a write of the undisturbed run: ccut_upper)
     C04_retry_from_cut        the corollary: for every such cut the re-run returns the node, the
                               recorded artifact and (cache_le both ways) the objects of the
                               undisturbed commit
     cut_all_present_norename  under the copy strategy, or on a cross-device cache (can_rename =
                               false), EVERY cut has all entries present: the premise is automatic
     C04_retry_from_cut_norename  ... hence the corollary without [all_present]
     cut_copy_same             under the copy strategy the tree of a cut is the original tree
                               (a Copy cut never has links)
     cut_restored_tree_state2, C04_retry_from_restored_cut
                               the error path's restoration ([restore_tree]: every entry of the
                               original listing that is missing is put back) of ANY cut of a tree
                               with distinct entry names satisfies tree_state2, and the re-run
                               from it returns the undisturbed result
     cut_file_restore_ws       ... where, for one file, Crash.restore_ws puts back exactly the
                               original bytes; restore_all_present: the restoration is the
                               identity on a state with no missing entry
     cx_missing_entry          WITHOUT all_present the statement is false: closed cut with a
                               missing entry, not in tree_state2, and the re-run from it records
                               another checksum
     ex_cut, ex_cut_state2, ex_cut_retry
                               closed example: depth-2 tree, the cut in which one inner file has
                               been moved into the cache and linked and nothing else has happened

   No axioms; Print Assumptions after each main theorem. *)
From Coq Require Import NArith List Bool Sorted Permutation Lia.
From DudV Require Import Base.Bytes Base.Json Model.Fs Model.Cache Model.Crash
  Proofs.CacheDefs Proofs.CommitProofs Proofs.CrashProofs Proofs.NestedRetryProofs.
Import ListNotations.
Local Open Scope N_scope.

(* ------------------------------------------------------------------------------------------ *)
(* no workspace entry is missing                                                               *)
(* ------------------------------------------------------------------------------------------ *)

Inductive all_present : node -> node -> Prop :=
| ap_leaf n n1 : is_dir n = false -> all_present n n1
| ap_dir es es1 :
    Forall2 (fun e e1 : bytes * node => fst e1 = fst e /\ all_present (snd e) (snd e1)) es es1 ->
    all_present (Dir es) (Dir es1).

Definition ap_ent (e e1 : bytes * node) : Prop := fst e1 = fst e /\ all_present (snd e) (snd e1).

Fixpoint all_presentb (n n1 : node) : bool :=
  match n with
  | Dir es =>
    match n1 with
    | Dir es1 =>
      (fix go (es es1 : list (bytes * node)) : bool :=
         match es, es1 with
         | [], [] => true
         | e :: r, e1 :: r1 => beqb (fst e1) (fst e) && all_presentb (snd e) (snd e1) && go r r1
         | _, _ => false
         end) es es1
    | _ => false
    end
  | _ => true
  end.

Lemma all_presentb_sound n : forall n1, all_presentb n n1 = true -> all_present n n1.
Proof.
  induction n as [b|d|t| |es IH] using node_ind2; intros n1 Hb;
    try (apply ap_leaf; reflexivity).
  destruct n1 as [| | |es1|]; try discriminate Hb. apply ap_dir.
  cbn [all_presentb] in Hb. revert es1 Hb.
  induction IH as [|[name ch] r IHch _ IHr]; intros [|[name1 ch1] r1] Hb; try discriminate Hb.
  - constructor.
  - cbn [fst snd] in Hb, IHch. apply andb_true_iff in Hb as [Hb Hr].
    apply andb_true_iff in Hb as [Hn Hc]. apply beqb_eq in Hn.
    constructor; [|exact (IHr _ Hr)]. split; [exact Hn|exact (IHch _ Hc)].
Qed.

Lemma all_presentb_complete n : forall n1, all_present n n1 -> all_presentb n n1 = true.
Proof.
  induction n as [b|d|t| |es IH] using node_ind2; intros n1 Hap; try reflexivity.
  inversion Hap as [n0 n0' Hnd|es0 es1 Hf]; subst; [discriminate|].
  cbn [all_presentb]. clear Hap. revert es1 Hf.
  induction IH as [|[name ch] r IHch _ IHr]; intros es1 Hf; inversion Hf as [|e e1 r0 r1 Hh Ht]; subst.
  - reflexivity.
  - destruct Hh as [Hn Hc]. cbn [fst snd] in *. rewrite Hn, beqb_refl, (IHch _ Hc), (IHr _ Ht).
    reflexivity.
Qed.

Lemma all_present_refl n : all_present n n.
Proof.
  induction n as [b|d|t| |es IH] using node_ind2; try (apply ap_leaf; reflexivity).
  apply ap_dir. induction IH as [|[name ch] r IHch _ IHr]; constructor; [|exact IHr].
  split; [reflexivity|exact IHch].
Qed.

(* ------------------------------------------------------------------------------------------ *)
(* helpers that do not depend on the section variables                                         *)
(* ------------------------------------------------------------------------------------------ *)

Lemma file_mid_slot H st cr b s l :
  In (s, l) (file_commit_mid H st cr b) -> s = Some (File b) \/ s = None.
Proof.
  unfold file_commit_mid. destruct st, cr; cbn [In]; intros Hin;
    repeat (destruct Hin as [Hin|Hin]; [injection Hin as <- _; auto|]); destruct Hin.
Qed.

Lemma file_mid_slot_norename H st cr b s l :
  st = Copy \/ cr = false -> In (s, l) (file_commit_mid H st cr b) -> s = Some (File b).
Proof.
  unfold file_commit_mid. intros [-> | ->]; [destruct cr|destruct st]; cbn [In]; intros Hin;
    repeat (destruct Hin as [Hin|Hin]; [injection Hin as <- _; reflexivity|]); destruct Hin.
Qed.

(* a slot that is absent has its object in the log (what restoreWorkspaceFile relies on) *)
Lemma file_mid_none_log H st cr b l :
  In (None, l) (file_commit_mid H st cr b) -> exists m, In (wr H b m) l.
Proof.
  unfold file_commit_mid. destruct st, cr; cbn [In]; intros Hin;
    repeat (destruct Hin as [Hin|Hin];
            [try discriminate Hin; injection Hin as <-; eexists; left; reflexivity|]);
    destruct Hin.
Qed.

Lemma file_fin_resolved H st cr b c0 l' :
  incl (snd (file_commit_fin H st cr b)) l' ->
  resolved (capply c0 l') (match st with Link => LinkC (H b) | Copy => File b end).
Proof.
  intros Hincl. destruct st; [|constructor].
  assert (Hin : In (H b, mkObj b cache_perms) l').
  { apply Hincl. cbn [file_commit_fin snd]. right. left. reflexivity. }
  destruct (cget_capply_in l' c0 _ _ Hin) as (o' & Hg & _). exact (rs_linkc _ _ _ Hg).
Qed.

Lemma resolved_capply c0 l' n : resolved c0 n -> resolved (capply c0 l') n.
Proof.
  induction n as [b|d|t| |es IH] using node_ind2; intros Hr; try constructor.
  - inversion Hr as [|d' o Hg| | |]; subst.
    destruct (cget_capply_some l' _ _ _ Hg) as (o' & Hg'). exact (rs_linkc _ _ _ Hg').
  - inversion Hr as [| | | |es' Hes]; subst.
    rewrite Forall_forall in *. intros e Hin. exact (IH _ Hin (Hes _ Hin)).
Qed.

Lemma F2_length {A B} (P : A -> B -> Prop) l l' : Forall2 P l l' -> length l = length l'.
Proof. induction 1; cbn [length]; congruence. Qed.

Lemma entries_of_length ks : (length (entries_of ks) <= length ks)%nat.
Proof.
  induction ks as [|[k [n|]] r IH]; [apply le_n| |].
  - change (entries_of ((k, Some n) :: r)) with ((k, n) :: entries_of r). cbn [length]. lia.
  - change (entries_of ((k, @None node) :: r)) with (entries_of r). cbn [length]. lia.
Qed.

Lemma entries_of_some k n ks : entries_of ((k, Some n) :: ks) = (k, n) :: entries_of ks.
Proof. reflexivity. Qed.

Lemma entries_of_none k ks : entries_of ((k, None) :: ks) = entries_of ks.
Proof. reflexivity. Qed.

(* ------------------------------------------------------------------------------------------ *)
(* the error path's restoration, on trees                                                      *)
(* ------------------------------------------------------------------------------------------ *)

(* [restore_tree n n1]: every entry of the original listing [n] that is missing from [n1] is put
   back (restoreWorkspaceFile: the file is re-created from its cache object, whose bytes are
   those of the original file, see cut_file_restore_ws); entries that are present are kept,
   sub-directories are restored recursively.  Entries are matched by name. *)
Fixpoint restore_tree (n n1 : node) : node :=
  match n with
  | Dir es =>
    match n1 with
    | Dir es1 =>
      Dir ((fix go (es : list (bytes * node)) : list (bytes * node) :=
              match es with
              | [] => []
              | e :: r => match alookup (fst e) es1 with
                          | Some ch1 => (fst e, restore_tree (snd e) ch1)
                          | None => e
                          end :: go r
              end) es)
    | _ => n1
    end
  | _ => n1
  end.

Definition restore_entry (es1 : list (bytes * node)) (e : bytes * node) : bytes * node :=
  match alookup (fst e) es1 with
  | Some ch1 => (fst e, restore_tree (snd e) ch1)
  | None => e
  end.

Definition restore_slot (n : node) (s : option node) : node :=
  match s with Some n1 => restore_tree n n1 | None => n end.

Lemma restore_tree_dir es es1 :
  restore_tree (Dir es) (Dir es1) = Dir (map (restore_entry es1) es).
Proof.
  reflexivity.
Qed.

Lemma restore_tree_leaf n n1 : is_dir n = false -> restore_tree n n1 = n1.
Proof. destruct n; intros Hd; try discriminate Hd; reflexivity. Qed.

Lemma restore_tree_refl n : ntree n -> restore_tree n n = n.
Proof.
  induction n as [b|d|t| |es IH] using node_ind2; intros Hn; try reflexivity.
  inversion Hn as [| | | |es' Hnd Hall]; subst. rewrite restore_tree_dir. f_equal.
  transitivity (map (fun e : bytes * node => e) es); [|apply map_id].
  apply map_ext_in. intros [k v] Hin. unfold restore_entry. cbn [fst snd].
  rewrite (alookup_nodup es k v Hnd Hin). rewrite Forall_forall in IH, Hall.
  pose proof (IH _ Hin (Hall _ Hin)) as E. cbn [snd] in E. rewrite E. reflexivity.
Qed.

Section CutRetry.
  Variable H : bytes -> bytes.
  Variable st : strategy.
  Variable cr : bool.

  (* ---------------------------------------------------------------------------------------- *)
  (* tree_state2: reflexivity, weakening of the flags                                          *)
  (* ---------------------------------------------------------------------------------------- *)

  Definition ent2 (nr : bool) (e e1 : bytes * node) : Prop :=
    fst e1 = fst e /\
    ((nr && is_dir (snd e) = true /\ snd e1 = snd e) \/
     (nr && is_dir (snd e) = false /\ tree_state2 H st false false (snd e) (snd e1))).

  Lemma ts2_dir sk nr es es1 :
    Forall2 (ent2 nr) es es1 -> tree_state2 H st sk nr (Dir es) (Dir es1).
  Proof. intros Hf. apply t2_dir. exact Hf. Qed.

  Lemma ts2_refl n : forall sk nr, tree_state2 H st sk nr n n.
  Proof.
    induction n as [b|d|t| |es IH] using node_ind2; intros sk nr;
      try (apply t2_same; reflexivity).
    apply ts2_dir. induction IH as [|[name ch] r IHch _ IHr]; constructor; [|exact IHr].
    split; [reflexivity|]. cbn [fst snd] in *.
    destruct (nr && is_dir ch) eqn:E; [left; split; reflexivity|right; split; [reflexivity|apply IHch]].
  Qed.

  (* the children of a directory artifact are related at flags (false, false) whatever flags the
     old manifest recorded for them: a relation at any flags implies the one at (false, false) *)
  Lemma ts2_weaken sk nr n n1 :
    tree_state2 H st sk nr n n1 -> tree_state2 H st false false n n1.
  Proof.
    intros Hts. destruct Hts as [sk nr n Hnd|nr b Hl|sk nr es es1 Hf].
    - apply t2_same. exact Hnd.
    - apply t2_linked. exact Hl.
    - apply ts2_dir.
      induction Hf as [|e e1 r r1 (Hn & Hd) _ IH]; constructor; [|exact IH].
      split; [exact Hn|]. right. split; [reflexivity|].
      destruct Hd as [(_ & ->)|(_ & Hx)]; [apply ts2_refl|exact Hx].
  Qed.

  Lemma kids_cut_length nr old es c ks logs om :
    kids_cut H st cr nr old es c ks logs om -> length ks = length es.
  Proof.
    intros Hk. apply (kids_cut_names H st cr) in Hk. apply (f_equal (@length bytes)) in Hk.
    rewrite !map_length in Hk. exact Hk.
  Qed.

  (* a listing with all entries present: the head slot is not absent *)
  Lemma ap_head_present (P : bytes * node -> bytes * node -> Prop) name ch r s ks :
    length ks = length r ->
    Forall2 P ((name, ch) :: r) (entries_of ((name, s) :: ks)) ->
    exists n1, s = Some n1 /\ P (name, ch) (name, n1) /\ Forall2 P r (entries_of ks).
  Proof.
    intros Hlen Hf. destruct s as [n1|].
    - rewrite entries_of_some in Hf. inversion Hf as [|e e1 r0 r1 Hh Ht]; subst.
      exists n1. split; [reflexivity|]. split; assumption.
    - rewrite entries_of_none in Hf. exfalso. apply F2_length in Hf.
      pose proof (entries_of_length ks) as Hle. cbn [length] in Hf. lia.
  Qed.

  (* ---------------------------------------------------------------------------------------- *)
  (* cuts satisfy tree_state2                                                                  *)
  (* ---------------------------------------------------------------------------------------- *)

  Lemma cut_ts2_mut :
    (forall a n c s l oa, ccut H st cr a n c s l oa ->
       forall n1, s = Some n1 -> all_present n n1 ->
       tree_state2 H st (a_skip a) (a_norec a) n n1) /\
    (forall nr old es c ks logs om, kids_cut H st cr nr old es c ks logs om ->
       Forall2 ap_ent es (entries_of ks) -> Forall2 (ent2 nr) es (entries_of ks)).
  Proof.
    assert (Hdir : forall a es ks n1,
      (Forall2 ap_ent es (entries_of ks) -> Forall2 (ent2 (a_norec a)) es (entries_of ks)) ->
      Some (Dir (entries_of ks)) = Some n1 -> all_present (Dir es) n1 ->
      tree_state2 H st (a_skip a) (a_norec a) (Dir es) n1).
    { intros a es ks n1 IHk He Hap. injection He as <-.
      inversion Hap as [n0 n0' Hnd|es0 es1 Hf]; subst; [discriminate|].
      apply ts2_dir. exact (IHk Hf). }
    apply ccut_kids_ind.
    - (* cc_init *) intros a n c n1 He _. injection He as <-. apply ts2_refl.
    - (* cc_noop *) intros a n c a' _ _ _ n1 He _. injection He as <-. apply ts2_refl.
    - (* cc_file_mid *) intros a b c s l _ _ Hin n1 He _.
      destruct (file_mid_slot _ _ _ _ _ _ Hin) as [Hs|Hs]; rewrite Hs in He; [|discriminate].
      injection He as <-. apply t2_same. reflexivity.
    - (* cc_file_fin *) intros a b c _ Hsk n1 He _. cbn [file_commit_fin fst] in He.
      injection He as <-. rewrite Hsk.
      assert (Hn : forall s0, s0 = st ->
                tree_state2 H st false (a_norec a) (File b)
                            (match s0 with Link => LinkC (H b) | Copy => File b end)).
      { intros [|] E; [apply t2_linked; symmetry; exact E|apply t2_same; reflexivity]. }
      exact (Hn st eq_refl).
    - (* cc_dir *) intros a es c old ks logs om l _ _ _ IHk _ n1 He Hap.
      exact (Hdir a es ks n1 IHk He Hap).
    - (* cc_dir_man *) intros a es c old ks logs m l _ _ _ IHk _ n1 He Hap.
      exact (Hdir a es ks n1 IHk He Hap).
    - (* cc_dir_fin *) intros a es c old ks logs m l _ _ _ IHk _ n1 He Hap.
      exact (Hdir a es ks n1 IHk He Hap).
    - (* kc_nil *) intros nr old c _. constructor.
    - (* kc_skip *) intros nr old name ch r c ks logs om Hs Hk IH Hf.
      destruct (ap_head_present _ _ _ _ _ _ (kids_cut_length _ _ _ _ _ _ _ Hk) Hf)
        as (n1 & He & _ & Ht).
      injection He as <-. rewrite entries_of_some. constructor; [|exact (IH Ht)].
      split; [reflexivity|]. left. split; [exact Hs|reflexivity].
    - (* kc_bad *) intros nr old name ch r c ks logs om Hs _ Hk IH Hf.
      destruct (ap_head_present _ _ _ _ _ _ (kids_cut_length _ _ _ _ _ _ _ Hk) Hf)
        as (n1 & He & _ & Ht).
      injection He as <-. rewrite entries_of_some. constructor; [|exact (IH Ht)].
      split; [reflexivity|]. right. split; [exact Hs|apply ts2_refl].
    - (* kc_child *) intros nr old name ch r c s l oa ks logs om Hs _ _ IHc Hk IHk Hf.
      destruct (ap_head_present _ _ _ _ _ _ (kids_cut_length _ _ _ _ _ _ _ Hk) Hf)
        as (n1 & -> & (_ & Hap) & Ht).
      rewrite entries_of_some. constructor; [|exact (IHk Ht)].
      split; [reflexivity|]. right. split; [exact Hs|]. cbn [snd] in *.
      exact (ts2_weaken _ _ _ _ (IHc n1 eq_refl Hap)).
  Qed.

  (* THE CONNECTION: every cut of the cut semantics in which no workspace entry is missing is a
     state of the hand-written relation.  No premise on the hash, the cache or the manifests. *)
  Theorem cut_tree_state2 a n c n1 c1 :
    commit_cut H st cr a n c (Some n1, c1) -> all_present n n1 ->
    tree_state2 H st (a_skip a) (a_norec a) n n1.
  Proof.
    intros Hcut Hap. inversion Hcut as [s l oa Hc Hs]; subst.
    exact (proj1 cut_ts2_mut _ _ _ _ _ _ Hc n1 eq_refl Hap).
  Qed.

  (* ---------------------------------------------------------------------------------------- *)
  (* the links of a cut point to objects of the cut's cache                                    *)
  (* ---------------------------------------------------------------------------------------- *)

  Lemma cut_resolved_mut :
    (forall a n c s l oa, ccut H st cr a n c s l oa ->
       forall n1, s = Some n1 -> all_present n n1 ->
       forall c0 l', incl l l' -> resolved c0 n -> resolved (capply c0 l') n1) /\
    (forall nr old es c ks logs om, kids_cut H st cr nr old es c ks logs om ->
       Forall2 ap_ent es (entries_of ks) ->
       forall c0 l', (forall l, In l logs -> incl l l') ->
       Forall (fun e => resolved c0 (snd e)) es ->
       Forall (fun e => resolved (capply c0 l') (snd e)) (entries_of ks)).
  Proof.
    assert (Hdir : forall (a : artifact) es ks (logs : list wlog) n1 c0 l',
      (Forall2 ap_ent es (entries_of ks) ->
       forall c0 l', (forall l, In l logs -> incl l l') ->
       Forall (fun e => resolved c0 (snd e)) es ->
       Forall (fun e => resolved (capply c0 l') (snd e)) (entries_of ks)) ->
      Some (Dir (entries_of ks)) = Some n1 -> all_present (Dir es) n1 ->
      (forall l, In l logs -> incl l l') -> resolved c0 (Dir es) ->
      resolved (capply c0 l') n1).
    { intros a es ks logs n1 c0 l' IHk He Hap Hincl Hr. injection He as <-.
      inversion Hap as [n0 n0' Hnd|es0 es1 Hf]; subst; [discriminate|].
      inversion Hr as [| | | |es' Hes]; subst. constructor. exact (IHk Hf c0 l' Hincl Hes). }
    apply ccut_kids_ind.
    - intros a n c n1 He _ c0 l' _ Hr. injection He as <-. apply resolved_capply. exact Hr.
    - intros a n c a' _ _ _ n1 He _ c0 l' _ Hr. injection He as <-. apply resolved_capply. exact Hr.
    - intros a b c s l _ _ Hin n1 He _ c0 l' _ _.
      destruct (file_mid_slot _ _ _ _ _ _ Hin) as [Hs|Hs]; rewrite Hs in He; [|discriminate].
      injection He as <-. constructor.
    - intros a b c _ _ n1 He _ c0 l' Hincl _. cbn [file_commit_fin fst] in He. injection He as <-.
      exact (file_fin_resolved H st cr b c0 l' Hincl).
    - intros a es c old ks logs om l _ _ _ IHk Hp n1 He Hap c0 l' Hincl Hr.
      apply (Hdir a es ks logs n1 c0 l' IHk He Hap); [|exact Hr].
      intros l0 Hl0 e Hin. apply Hincl. exact (in_concat_perm _ _ _ _ Hp Hl0 Hin).
    - intros a es c old ks logs m l _ _ _ IHk Hp n1 He Hap c0 l' Hincl Hr.
      apply (Hdir a es ks logs n1 c0 l' IHk He Hap); [|exact Hr].
      intros l0 Hl0 e Hin. apply Hincl. apply in_or_app. left.
      exact (in_concat_perm _ _ _ _ Hp Hl0 Hin).
    - intros a es c old ks logs m l _ _ _ IHk Hp n1 He Hap c0 l' Hincl Hr.
      apply (Hdir a es ks logs n1 c0 l' IHk He Hap); [|exact Hr].
      intros l0 Hl0 e Hin. apply Hincl. apply in_or_app. left.
      exact (in_concat_perm _ _ _ _ Hp Hl0 Hin).
    - intros nr old c _ c0 l' _ _. constructor.
    - intros nr old name ch r c ks logs om _ Hk IH Hf c0 l' Hincl Hr.
      destruct (ap_head_present _ _ _ _ _ _ (kids_cut_length _ _ _ _ _ _ _ Hk) Hf)
        as (n1 & He & _ & Ht).
      injection He as <-. rewrite entries_of_some.
      inversion Hr as [|e0 r0 Hr1 Hrr]; subst. constructor; [|exact (IH Ht c0 l' Hincl Hrr)].
      apply resolved_capply. exact Hr1.
    - intros nr old name ch r c ks logs om _ _ Hk IH Hf c0 l' Hincl Hr.
      destruct (ap_head_present _ _ _ _ _ _ (kids_cut_length _ _ _ _ _ _ _ Hk) Hf)
        as (n1 & He & _ & Ht).
      injection He as <-. rewrite entries_of_some.
      inversion Hr as [|e0 r0 Hr1 Hrr]; subst. constructor; [|exact (IH Ht c0 l' Hincl Hrr)].
      apply resolved_capply. exact Hr1.
    - intros nr old name ch r c s l oa ks logs om _ _ _ IHc Hk IHk Hf c0 l' Hincl Hr.
      destruct (ap_head_present _ _ _ _ _ _ (kids_cut_length _ _ _ _ _ _ _ Hk) Hf)
        as (n1 & -> & (_ & Hap) & Ht).
      rewrite entries_of_some. inversion Hr as [|e0 r0 Hr1 Hrr]; subst. cbn [snd] in *.
      constructor.
      + cbn [snd]. apply (IHc n1 eq_refl Hap c0 l'); [|exact Hr1]. apply Hincl. left. reflexivity.
      + apply (IHk Ht c0 l'); [|exact Hrr]. intros l0 Hl0. apply Hincl. right. exact Hl0.
  Qed.

  Theorem cut_resolved a n c n1 c1 :
    commit_cut H st cr a n c (Some n1, c1) -> all_present n n1 ->
    resolved c n -> resolved c1 n1.
  Proof.
    intros Hcut Hap Hr. inversion Hcut as [s l oa Hc Hs]; subst.
    exact (proj1 cut_resolved_mut _ _ _ _ _ _ Hc n1 eq_refl Hap c l (incl_refl _) Hr).
  Qed.

  (* ---------------------------------------------------------------------------------------- *)
  (* the cache of a cut                                                                        *)
  (* ---------------------------------------------------------------------------------------- *)

  Theorem cut_cache_le a n c s c1 :
    H_inj H -> keyed H c -> commit_cut H st cr a n c (s, c1) -> cache_le c c1.
  Proof. intros Hinj Hk Hcut. exact (C03_cache_grows H st cr a n c s c1 Hinj Hk Hcut). Qed.

  Theorem cut_keyed a n c s c1 :
    keyed H c -> commit_cut H st cr a n c (s, c1) -> keyed H c1.
  Proof.
    intros Hk Hcut. inversion Hcut as [s0 l oa Hc Hs]; subst. apply capply_keyed; [exact Hk|].
    exact (proj1 (ccut_logs_ok H st cr) _ _ _ _ _ _ Hc).
  Qed.

  (* the cache of every cut is below the final cache of the undisturbed run: no extra premise.
     (cache_le compares the bytes of the objects, not their modes: an object that is still in
     temp mode is below the read-only object of the final cache; and the order in which the
     children's writes are interleaved does not matter, every write of a cut being a write of
     the undisturbed run.) *)
  Theorem cut_cache_below_final a n c s c1 nf cf af :
    H_inj H -> cache_ok H c -> commit_node H a n c st = Ok (nf, cf, af) ->
    commit_cut H st cr a n c (s, c1) -> cache_le c1 cf.
  Proof.
    intros Hinj Hc Hok Hcut.
    exact (proj2 (proj2 (proj2 (C03_cut_endpoints H st cr a n c nf cf af Hinj Hc Hok)) s c1 Hcut)).
  Qed.

  (* ---------------------------------------------------------------------------------------- *)
  (* C04 from every cut                                                                        *)
  (* ---------------------------------------------------------------------------------------- *)

  (* The premises are those of C04_retry_nested_inv that concern the initial state and the FINAL
     cache of the undisturbed run; everything about the intermediate state (n1, c1) follows from
     its being a cut.  [resolved c n]: the original tree has no dangling cache link (premise of
     C04_retry_nested_inv on n1, see cx_resolved_needs_premise). *)
  Theorem C04_retry_from_cut a n n1 c c1 nf cf af :
    H_inj H -> cache_ok H c -> resolved c n ->
    man_plain cf -> man_closed cf -> art_hist_ok cf a ->
    commit_cut H st cr a n c (Some n1, c1) -> all_present n n1 ->
    commit_node H a n c st = Ok (nf, cf, af) ->
    exists cf1, commit_node H a n1 c1 st = Ok (nf, cf1, af) /\
                cache_le cf cf1 /\ cache_le cf1 cf.
  Proof.
    intros Hinj Hc Hres Hmp Hmc Hh Hcut Hap Hok.
    pose proof (cache_ok_keyed H c Hc) as Hk.
    apply (C04_retry_nested_inv H st a n n1 c c1 nf cf af Hinj Hc).
    - exact (cut_keyed a n c _ c1 Hk Hcut).
    - exact (cut_cache_le a n c _ c1 Hinj Hk Hcut).
    - exact (cut_cache_below_final a n c _ c1 nf cf af Hinj Hc Hok Hcut).
    - exact Hmp.
    - exact Hmc.
    - exact Hh.
    - exact (cut_tree_state2 a n c n1 c1 Hcut Hap).
    - exact (cut_resolved a n c n1 c1 Hcut Hap Hres).
    - exact Hok.
  Qed.

  (* ---------------------------------------------------------------------------------------- *)
  (* when is the premise [all_present] automatic                                               *)
  (* ---------------------------------------------------------------------------------------- *)

  (* copy strategy, or link strategy on a cache the workspace file cannot be renamed into: the
     workspace entry is never absent, at any depth *)
  Lemma cut_all_present_mut : st = Copy \/ cr = false ->
    (forall a n c s l oa, ccut H st cr a n c s l oa ->
       exists n1, s = Some n1 /\ all_present n n1) /\
    (forall nr old es c ks logs om, kids_cut H st cr nr old es c ks logs om ->
       Forall2 ap_ent es (entries_of ks)).
  Proof.
    intros Hmode.
    assert (Hdir : forall es ks, Forall2 ap_ent es (entries_of ks) ->
              exists n1, Some (Dir (entries_of ks)) = Some n1 /\ all_present (Dir es) n1).
    { intros es ks Hf. exists (Dir (entries_of ks)). split; [reflexivity|]. apply ap_dir. exact Hf. }
    apply ccut_kids_ind.
    - intros a n c. exists n. split; [reflexivity|apply all_present_refl].
    - intros a n c a' _ _ _. exists n. split; [reflexivity|apply all_present_refl].
    - intros a b c s l _ _ Hin. exists (File b).
      split; [exact (file_mid_slot_norename _ _ _ _ _ _ Hmode Hin)|apply ap_leaf; reflexivity].
    - intros a b c _ _. eexists. split; [reflexivity|apply ap_leaf; reflexivity].
    - intros a es c old ks logs om l _ _ _ IHk _. exact (Hdir es ks IHk).
    - intros a es c old ks logs m l _ _ _ IHk _. exact (Hdir es ks IHk).
    - intros a es c old ks logs m l _ _ _ IHk _. exact (Hdir es ks IHk).
    - intros nr old c. constructor.
    - intros nr old name ch r c ks logs om _ _ IH. rewrite entries_of_some.
      constructor; [|exact IH]. split; [reflexivity|apply all_present_refl].
    - intros nr old name ch r c ks logs om _ _ _ IH. rewrite entries_of_some.
      constructor; [|exact IH]. split; [reflexivity|apply all_present_refl].
    - intros nr old name ch r c s l oa ks logs om _ _ _ (n1 & -> & Hap) _ IHk.
      rewrite entries_of_some. constructor; [|exact IHk]. split; [reflexivity|exact Hap].
  Qed.

  Theorem cut_all_present_norename a n c s c1 :
    st = Copy \/ cr = false -> commit_cut H st cr a n c (s, c1) ->
    exists n1, s = Some n1 /\ all_present n n1.
  Proof.
    intros Hmode Hcut. inversion Hcut as [s0 l oa Hc Hs]; subst.
    exact (proj1 (cut_all_present_mut Hmode) _ _ _ _ _ _ Hc).
  Qed.

  Theorem C04_retry_from_cut_norename a n s c c1 nf cf af :
    st = Copy \/ cr = false ->
    H_inj H -> cache_ok H c -> resolved c n ->
    man_plain cf -> man_closed cf -> art_hist_ok cf a ->
    commit_cut H st cr a n c (s, c1) ->
    commit_node H a n c st = Ok (nf, cf, af) ->
    exists n1 cf1, s = Some n1 /\ commit_node H a n1 c1 st = Ok (nf, cf1, af) /\
                   cache_le cf cf1 /\ cache_le cf1 cf.
  Proof.
    intros Hmode Hinj Hc Hres Hmp Hmc Hh Hcut Hok.
    destruct (cut_all_present_norename a n c s c1 Hmode Hcut) as (n1 & -> & Hap).
    destruct (C04_retry_from_cut a n n1 c c1 nf cf af Hinj Hc Hres Hmp Hmc Hh Hcut Hap Hok)
      as (cf1 & H1 & H2 & H3).
    exists n1, cf1. repeat split; assumption.
  Qed.

  (* a cut of the copy strategy has the original tree (never a link, never a missing entry) *)
  Lemma cut_copy_same_mut : st = Copy ->
    (forall a n c s l oa, ccut H st cr a n c s l oa -> s = Some n) /\
    (forall nr old es c ks logs om, kids_cut H st cr nr old es c ks logs om ->
       entries_of ks = es).
  Proof.
    intros Hcopy. apply ccut_kids_ind.
    - reflexivity.
    - reflexivity.
    - intros a b c s l _ _ Hin. exact (file_mid_slot_norename _ _ _ _ _ _ (or_introl Hcopy) Hin).
    - intros a b c _ _. cbn [file_commit_fin fst].
      assert (Hn : forall s0, s0 = Copy ->
                Some (match s0 with Link => LinkC (H b) | Copy => File b end) = Some (File b))
        by (intros s0 ->; reflexivity).
      exact (Hn st Hcopy).
    - intros a es c old ks logs om l _ _ _ IHk _. rewrite IHk. reflexivity.
    - intros a es c old ks logs m l _ _ _ IHk _. rewrite IHk. reflexivity.
    - intros a es c old ks logs m l _ _ _ IHk _. rewrite IHk. reflexivity.
    - reflexivity.
    - intros nr old name ch r c ks logs om _ _ IH. rewrite entries_of_some, IH. reflexivity.
    - intros nr old name ch r c ks logs om _ _ _ IH. rewrite entries_of_some, IH. reflexivity.
    - intros nr old name ch r c s l oa ks logs om _ _ _ IHc _ IHk. rewrite IHc.
      rewrite entries_of_some, IHk. reflexivity.
  Qed.

  Theorem cut_copy_same a n c s c1 :
    st = Copy -> commit_cut H st cr a n c (s, c1) -> s = Some n.
  Proof.
    intros Hcopy Hcut. revert Hcopy. inversion Hcut as [s0 l oa Hc Hs]; subst. intros Hcopy.
    exact (proj1 (cut_copy_same_mut Hcopy) _ _ _ _ _ _ Hc).
  Qed.

  (* ---------------------------------------------------------------------------------------- *)
  (* ANY cut, after the restoration of its missing entries                                     *)
  (* ---------------------------------------------------------------------------------------- *)

  (* the model of restoreWorkspaceFile on one file ([restore_ws]) puts back the original bytes *)
  Lemma cut_file_restore_ws a b c l oa :
    H_inj H -> ccut H st cr a (File b) c None l oa ->
    restore_ws H b (None, capply c l) = (Some (File b), capply c l).
  Proof.
    intros Hinj Hc. pose proof (proj1 (ccut_logs_ok H st cr) _ _ _ _ _ _ Hc) as Hl.
    assert (Hm : exists m, In (wr H b m) l).
    { inversion Hc as [| |a0 b0 c0 s0 l0 _ _ Hin| | | |]; subst.
      exact (file_mid_none_log _ _ _ _ _ Hin). }
    destruct Hm as (m & Hin).
    destruct (capply_has H c l b (mkObj b m) Hinj Hl Hin) as (o' & Hg & Hd).
    unfold restore_ws. cbn [fst snd]. rewrite Hg, Hd. reflexivity.
  Qed.

  Definition full_for (ks : list (bytes * option node)) (full : list (bytes * node)) : Prop :=
    forall name s, In (name, s) ks -> alookup name full = s.

  Lemma full_for_entries ks : NoDup (map fst ks) -> full_for ks (entries_of ks).
  Proof. intros Hnd name s Hin. exact (alookup_entries_of ks name s Hnd Hin). Qed.

  Lemma restore_entry_slot full name ch s :
    alookup name full = s -> restore_entry full (name, ch) = (name, restore_slot ch s).
  Proof. intros Hl. unfold restore_entry. cbn [fst snd]. rewrite Hl. destruct s; reflexivity. Qed.

  Lemma cut_restored_ts2_mut :
    (forall a n c s l oa, ccut H st cr a n c s l oa -> ntree n ->
       tree_state2 H st (a_skip a) (a_norec a) n (restore_slot n s)) /\
    (forall nr old es c ks logs om, kids_cut H st cr nr old es c ks logs om ->
       Forall (fun e => ntree (snd e)) es ->
       forall full, full_for ks full ->
       Forall2 (ent2 nr) es (map (restore_entry full) es)).
  Proof.
    assert (Hdir : forall a nr old es c ks logs om,
      kids_cut H st cr nr old es c ks logs om ->
      (Forall (fun e => ntree (snd e)) es ->
       forall full, full_for ks full -> Forall2 (ent2 (a_norec a)) es (map (restore_entry full) es)) ->
      ntree (Dir es) ->
      tree_state2 H st (a_skip a) (a_norec a) (Dir es)
                  (restore_slot (Dir es) (Some (Dir (entries_of ks))))).
    { intros a nr old es c ks logs om Hk IHk Hn.
      inversion Hn as [| | | |es' Hnd Hall]; subst.
      cbn [restore_slot]. rewrite restore_tree_dir. apply ts2_dir. apply (IHk Hall).
      apply full_for_entries. rewrite (kids_cut_names H st cr _ _ _ _ _ _ _ Hk). exact Hnd. }
    apply ccut_kids_ind.
    - intros a n c Hn. cbn [restore_slot]. rewrite (restore_tree_refl n Hn). apply ts2_refl.
    - intros a n c a' _ _ _ Hn. cbn [restore_slot]. rewrite (restore_tree_refl n Hn). apply ts2_refl.
    - intros a b c s l _ _ Hin _.
      destruct (file_mid_slot _ _ _ _ _ _ Hin) as [-> | ->]; apply t2_same; reflexivity.
    - intros a b c _ Hsk _. cbn [file_commit_fin fst restore_slot restore_tree]. rewrite Hsk.
      assert (Hn : forall s0, s0 = st ->
                tree_state2 H st false (a_norec a) (File b)
                            (match s0 with Link => LinkC (H b) | Copy => File b end)).
      { intros [|] E; [apply t2_linked; symmetry; exact E|apply t2_same; reflexivity]. }
      exact (Hn st eq_refl).
    - intros a es c old ks logs om l _ _ Hk IHk _ Hn. exact (Hdir a _ _ _ _ _ _ _ Hk IHk Hn).
    - intros a es c old ks logs m l _ _ Hk IHk _ Hn. exact (Hdir a _ _ _ _ _ _ _ Hk IHk Hn).
    - intros a es c old ks logs m l _ _ Hk IHk _ Hn. exact (Hdir a _ _ _ _ _ _ _ Hk IHk Hn).
    - intros nr old c _ full _. constructor.
    - intros nr old name ch r c ks logs om Hs _ IH Hall full Hfull.
      inversion Hall as [|e0 r0 Hch Hr]; subst. cbn [snd] in Hch. cbn [map].
      rewrite (restore_entry_slot full name ch (Some ch) (Hfull _ _ (or_introl eq_refl))).
      cbn [restore_slot]. rewrite (restore_tree_refl ch Hch). constructor.
      + split; [reflexivity|]. left. split; [exact Hs|reflexivity].
      + apply (IH Hr). intros nm s Hin. exact (Hfull nm s (or_intror Hin)).
    - intros nr old name ch r c ks logs om Hs _ _ IH Hall full Hfull.
      inversion Hall as [|e0 r0 Hch Hr]; subst. cbn [snd] in Hch. cbn [map].
      rewrite (restore_entry_slot full name ch (Some ch) (Hfull _ _ (or_introl eq_refl))).
      cbn [restore_slot]. rewrite (restore_tree_refl ch Hch). constructor.
      + split; [reflexivity|]. right. split; [exact Hs|apply ts2_refl].
      + apply (IH Hr). intros nm s Hin. exact (Hfull nm s (or_intror Hin)).
    - intros nr old name ch r c s l oa ks logs om Hs _ _ IHc _ IHk Hall full Hfull.
      inversion Hall as [|e0 r0 Hch Hr]; subst. cbn [snd] in Hch. cbn [map].
      rewrite (restore_entry_slot full name ch s (Hfull _ _ (or_introl eq_refl))). constructor.
      + split; [reflexivity|]. right. split; [exact Hs|]. cbn [snd].
        exact (ts2_weaken _ _ _ _ (IHc Hch)).
      + apply (IHk Hr). intros nm s' Hin. exact (Hfull nm s' (or_intror Hin)).
  Qed.

  Lemma cut_restored_resolved_mut :
    (forall a n c s l oa, ccut H st cr a n c s l oa -> ntree n ->
       forall c0 l', incl l l' -> resolved c0 n -> resolved (capply c0 l') (restore_slot n s)) /\
    (forall nr old es c ks logs om, kids_cut H st cr nr old es c ks logs om ->
       Forall (fun e => ntree (snd e)) es ->
       forall full, full_for ks full ->
       forall c0 l', (forall l, In l logs -> incl l l') ->
       Forall (fun e => resolved c0 (snd e)) es ->
       Forall (fun e => resolved (capply c0 l') (snd e)) (map (restore_entry full) es)).
  Proof.
    assert (Hdir : forall nr old es c ks logs om c0 l',
      kids_cut H st cr nr old es c ks logs om ->
      (Forall (fun e => ntree (snd e)) es ->
       forall full, full_for ks full ->
       forall c0 l', (forall l, In l logs -> incl l l') ->
       Forall (fun e => resolved c0 (snd e)) es ->
       Forall (fun e => resolved (capply c0 l') (snd e)) (map (restore_entry full) es)) ->
      ntree (Dir es) -> (forall l, In l logs -> incl l l') -> resolved c0 (Dir es) ->
      resolved (capply c0 l') (restore_slot (Dir es) (Some (Dir (entries_of ks))))).
    { intros nr old es c ks logs om c0 l' Hk IHk Hn Hincl Hr.
      inversion Hn as [| | | |es' Hnd Hall]; subst. inversion Hr as [| | | |es' Hes]; subst.
      cbn [restore_slot]. rewrite restore_tree_dir. constructor.
      apply (IHk Hall (entries_of ks)); [|exact Hincl|exact Hes].
      apply full_for_entries. rewrite (kids_cut_names H st cr _ _ _ _ _ _ _ Hk). exact Hnd. }
    apply ccut_kids_ind.
    - intros a n c Hn c0 l' _ Hr. cbn [restore_slot]. rewrite (restore_tree_refl n Hn).
      apply resolved_capply. exact Hr.
    - intros a n c a' _ _ _ Hn c0 l' _ Hr. cbn [restore_slot]. rewrite (restore_tree_refl n Hn).
      apply resolved_capply. exact Hr.
    - intros a b c s l _ _ Hin _ c0 l' _ _.
      destruct (file_mid_slot _ _ _ _ _ _ Hin) as [-> | ->]; constructor.
    - intros a b c _ _ _ c0 l' Hincl _. cbn [file_commit_fin fst restore_slot restore_tree].
      exact (file_fin_resolved H st cr b c0 l' Hincl).
    - intros a es c old ks logs om l _ _ Hk IHk Hp Hn c0 l' Hincl Hr.
      apply (Hdir _ _ _ _ _ _ _ c0 l' Hk IHk Hn); [|exact Hr].
      intros l0 Hl0 e Hin. apply Hincl. exact (in_concat_perm _ _ _ _ Hp Hl0 Hin).
    - intros a es c old ks logs m l _ _ Hk IHk Hp Hn c0 l' Hincl Hr.
      apply (Hdir _ _ _ _ _ _ _ c0 l' Hk IHk Hn); [|exact Hr].
      intros l0 Hl0 e Hin. apply Hincl. apply in_or_app. left.
      exact (in_concat_perm _ _ _ _ Hp Hl0 Hin).
    - intros a es c old ks logs m l _ _ Hk IHk Hp Hn c0 l' Hincl Hr.
      apply (Hdir _ _ _ _ _ _ _ c0 l' Hk IHk Hn); [|exact Hr].
      intros l0 Hl0 e Hin. apply Hincl. apply in_or_app. left.
      exact (in_concat_perm _ _ _ _ Hp Hl0 Hin).
    - intros nr old c _ full _ c0 l' _ _. constructor.
    - intros nr old name ch r c ks logs om _ _ IH Hall full Hfull c0 l' Hincl Hres.
      inversion Hall as [|e0 r0 Hch Hr]; subst. inversion Hres as [|e0 r0 Hr1 Hrr]; subst.
      cbn [snd] in Hch, Hr1. cbn [map].
      rewrite (restore_entry_slot full name ch (Some ch) (Hfull _ _ (or_introl eq_refl))).
      cbn [restore_slot]. rewrite (restore_tree_refl ch Hch). constructor.
      + apply resolved_capply. exact Hr1.
      + apply (IH Hr full); [|exact Hincl|exact Hrr].
        intros nm s Hin. exact (Hfull nm s (or_intror Hin)).
    - intros nr old name ch r c ks logs om _ _ _ IH Hall full Hfull c0 l' Hincl Hres.
      inversion Hall as [|e0 r0 Hch Hr]; subst. inversion Hres as [|e0 r0 Hr1 Hrr]; subst.
      cbn [snd] in Hch, Hr1. cbn [map].
      rewrite (restore_entry_slot full name ch (Some ch) (Hfull _ _ (or_introl eq_refl))).
      cbn [restore_slot]. rewrite (restore_tree_refl ch Hch). constructor.
      + apply resolved_capply. exact Hr1.
      + apply (IH Hr full); [|exact Hincl|exact Hrr].
        intros nm s Hin. exact (Hfull nm s (or_intror Hin)).
    - intros nr old name ch r c s l oa ks logs om _ _ _ IHc _ IHk Hall full Hfull c0 l' Hincl Hres.
      inversion Hall as [|e0 r0 Hch Hr]; subst. inversion Hres as [|e0 r0 Hr1 Hrr]; subst.
      cbn [snd] in Hch, Hr1. cbn [map].
      rewrite (restore_entry_slot full name ch s (Hfull _ _ (or_introl eq_refl))). constructor.
      + cbn [snd]. apply (IHc Hch c0 l'); [|exact Hr1]. apply Hincl. left. reflexivity.
      + apply (IHk Hr full); [| |exact Hrr].
        * intros nm s' Hin. exact (Hfull nm s' (or_intror Hin)).
        * intros l0 Hl0. apply Hincl. right. exact Hl0.
  Qed.

  (* EVERY cut (entries missing or not) of a tree with distinct entry names, once the missing
     entries have been put back, is a state of the hand-written relation *)
  Theorem cut_restored_tree_state2 a n c s c1 :
    ntree n -> commit_cut H st cr a n c (s, c1) ->
    tree_state2 H st (a_skip a) (a_norec a) n (restore_slot n s).
  Proof.
    intros Hn Hcut. inversion Hcut as [s0 l oa Hc Hs]; subst.
    exact (proj1 cut_restored_ts2_mut _ _ _ _ _ _ Hc Hn).
  Qed.

  Theorem cut_restored_resolved a n c s c1 :
    ntree n -> commit_cut H st cr a n c (s, c1) -> resolved c n -> resolved c1 (restore_slot n s).
  Proof.
    intros Hn Hcut Hr. inversion Hcut as [s0 l oa Hc Hs]; subst.
    exact (proj1 cut_restored_resolved_mut _ _ _ _ _ _ Hc Hn c l (incl_refl _) Hr).
  Qed.

  (* the restoration does nothing when nothing is missing *)
  Lemma restore_all_present n : ntree n -> forall n1, all_present n n1 -> restore_tree n n1 = n1.
  Proof.
    induction n as [b|d|t| |es IH] using node_ind2; intros Hn n1 Hap; try reflexivity.
    inversion Hap as [n0 n0' Hnd|es0 es1 Hf]; subst; [discriminate|].
    inversion Hn as [| | | |es' Hnd Hall]; subst. rewrite restore_tree_dir. f_equal.
    assert (Hnd1 : NoDup (map fst es1)).
    { replace (map fst es1) with (map fst es); [exact Hnd|].
      clear -Hf. induction Hf as [|e e1 r r1 (Hn & _) _ IHf]; [reflexivity|].
      cbn [map]. rewrite Hn, IHf. reflexivity. }
    clear Hap Hn Hnd.
    assert (Hgen : forall full, (forall e1, In e1 es1 -> alookup (fst e1) full = Some (snd e1)) ->
                                map (restore_entry full) es = es1).
    { intros full. induction Hf as [|[k v] [k1 v1] r r1 (Hk & Hv) _ IHf]; intros Hfull; [reflexivity|].
      cbn [fst snd] in Hk, Hv. subst k1.
      inversion IH as [|e0 r0 IHv IHr]; subst. inversion Hall as [|e0 r0 Hv0 Hr0]; subst.
      inversion Hnd1 as [|x xs _ Hnd1']; subst. cbn [snd] in IHv, Hv0.
      cbn [map]. unfold restore_entry at 1. cbn [fst snd].
      pose proof (Hfull (k, v1) (or_introl eq_refl)) as E. cbn [fst snd] in E. rewrite E.
      rewrite (IHv Hv0 v1 Hv).
      rewrite (IHf IHr Hr0 Hnd1'); [reflexivity|].
      intros e1 Hin. exact (Hfull e1 (or_intror Hin)). }
    apply Hgen. intros [k1 v1] Hin. exact (alookup_nodup es1 k1 v1 Hnd1 Hin).
  Qed.

  (* C04 from ANY cut, after the error path's restoration *)
  Theorem C04_retry_from_restored_cut a n s c c1 nf cf af :
    H_inj H -> cache_ok H c -> resolved c n -> ntree n ->
    man_plain cf -> man_closed cf -> art_hist_ok cf a ->
    commit_cut H st cr a n c (s, c1) ->
    commit_node H a n c st = Ok (nf, cf, af) ->
    exists cf1, commit_node H a (restore_slot n s) c1 st = Ok (nf, cf1, af) /\
                cache_le cf cf1 /\ cache_le cf1 cf.
  Proof.
    intros Hinj Hc Hres Hn Hmp Hmc Hh Hcut Hok.
    pose proof (cache_ok_keyed H c Hc) as Hk.
    apply (C04_retry_nested_inv H st a n (restore_slot n s) c c1 nf cf af Hinj Hc).
    - exact (cut_keyed a n c _ c1 Hk Hcut).
    - exact (cut_cache_le a n c _ c1 Hinj Hk Hcut).
    - exact (cut_cache_below_final a n c _ c1 nf cf af Hinj Hc Hok Hcut).
    - exact Hmp.
    - exact Hmc.
    - exact Hh.
    - exact (cut_restored_tree_state2 a n c s c1 Hn Hcut).
    - exact (cut_restored_resolved a n c s c1 Hn Hcut Hres).
    - exact Hok.
  Qed.
End CutRetry.

Print Assumptions cut_tree_state2.
Print Assumptions cut_resolved.
Print Assumptions cut_cache_le.
Print Assumptions cut_keyed.
Print Assumptions cut_cache_below_final.
Print Assumptions C04_retry_from_cut.
Print Assumptions cut_all_present_norename.
Print Assumptions C04_retry_from_cut_norename.
Print Assumptions cut_copy_same.
Print Assumptions cut_file_restore_ws.
Print Assumptions cut_restored_tree_state2.
Print Assumptions cut_restored_resolved.
Print Assumptions restore_all_present.
Print Assumptions C04_retry_from_restored_cut.

(* ------------------------------------------------------------------------------------------ *)
(* closed example: depth 2, one inner file moved into the cache and linked, nothing else done  *)
(* ------------------------------------------------------------------------------------------ *)

(* d/ = { s/ = { a = "xy", b = "z" }, w = "w" } (ex2_tree of NestedRetryProofs), link strategy,
   rename-able cache.  The cut: s/a has run to completion (rename into the cache, chmod, symlink:
   the entry is the link, log = two writes of its object); s/b and w have not started; no
   manifest has been written.  Its state is (ex2_left, ex2_c1). *)
Definition ex_log : wlog := [wr Hx ex_x file_mode; wr Hx ex_x cache_perms].

Example ex_cut : commit_cut Hx Link true ex_dir_art ex2_tree [] (Some ex2_left, ex2_c1).
Proof.
  (* s/a: final *)
  assert (Ka : ccut Hx Link true (cchild [] [97] (File ex_x)) (File ex_x) []
                    (Some (LinkC (Hx ex_x))) ex_log
                    (Some (set_cs (cchild [] [97] (File ex_x)) (Hx ex_x)))).
  { exact (cc_file_fin Hx Link true (cchild [] [97] (File ex_x)) ex_x [] eq_refl eq_refl). }
  (* s/b: not started *)
  pose proof (kc_child Hx Link true false [] [98] (File ex_y) []
                       (next_cache Hx Link (cchild [] [97] (File ex_x)) (File ex_x) [])
                       (Some (File ex_y)) [] None [] [] (Some [])
                       eq_refl eq_refl (cc_init Hx Link true _ _ _) (kc_nil Hx Link true false [] _)) as Kb.
  pose proof (kc_child Hx Link true false [] [97] (File ex_x) _ [] _ _ _ _ _ _
                       eq_refl eq_refl Ka Kb) as Ks.
  cbv iota in Ks.
  (* s/: its children's writes, no manifest *)
  assert (Kdir : ccut Hx Link true (cchild [] [115] (Dir [([97], File ex_x); ([98], File ex_y)]))
                      (Dir [([97], File ex_x); ([98], File ex_y)]) []
                      (Some (Dir [([97], LinkC (Hx ex_x)); ([98], File ex_y)])) ex_log None).
  { exact (cc_dir Hx Link true (cchild [] [115] (Dir [([97], File ex_x); ([98], File ex_y)])) _ [] [] _ _ _ ex_log eq_refl eq_refl Ks (Permutation_refl _)). }
  (* w: not started *)
  pose proof (kc_child Hx Link true false [] [119] (File [119]) []
                       (next_cache Hx Link (cchild [] [115] (Dir [([97], File ex_x); ([98], File ex_y)]))
                                   (Dir [([97], File ex_x); ([98], File ex_y)]) [])
                       (Some (File [119])) [] None [] [] (Some [])
                       eq_refl eq_refl (cc_init Hx Link true _ _ _) (kc_nil Hx Link true false [] _)) as Kw.
  pose proof (kc_child Hx Link true false [] [115] (Dir [([97], File ex_x); ([98], File ex_y)]) _ [] _ _ _ _ _ _
                       eq_refl eq_refl Kdir Kw) as Ktop.
  cbv iota in Ktop.
  change ex2_c1 with (capply [] ex_log).
  apply (commit_cut_intro Hx Link true ex_dir_art ex2_tree [] _ _ None).
  exact (cc_dir Hx Link true ex_dir_art _ [] [] _ _ _ ex_log eq_refl eq_refl Ktop (Permutation_refl _)).
Qed.

Example ex_all_present : all_present ex2_tree ex2_left.
Proof. apply all_presentb_sound. vm_compute. reflexivity. Qed.

(* the derived tree_state2 fact *)
Example ex_cut_state2 : tree_state2 Hx Link false false ex2_tree ex2_left.
Proof. exact (cut_tree_state2 Hx Link true ex_dir_art ex2_tree [] ex2_left ex2_c1 ex_cut ex_all_present). Qed.

(* the retry equality, through C04_retry_from_cut: premises discharged by computation *)
Example ex_cut_retry :
  exists nf cf af cf1,
    commit_node Hx ex_dir_art ex2_tree [] Link = Ok (nf, cf, af) /\
    commit_node Hx ex_dir_art ex2_left ex2_c1 Link = Ok (nf, cf1, af) /\
    cache_le cf cf1 /\ cache_le cf1 cf.
Proof.
  destruct (commit_node Hx ex_dir_art ex2_tree [] Link) as [[[nf cf] af]|] eqn:Hok;
    [|vm_compute in Hok; discriminate].
  exists nf, cf, af.
  destruct (C04_retry_from_cut Hx Link true ex_dir_art ex2_tree ex2_left [] ex2_c1 nf cf af)
    as (cf1 & H1 & H2 & H3).
  - exact Hx_inj.
  - intros d o Hg. discriminate.
  - repeat constructor.
  - vm_compute in Hok. injection Hok as <- <- <-. apply man_plain_b_sound. vm_compute. reflexivity.
  - vm_compute in Hok. injection Hok as <- <- <-. apply man_closed_b_sound. vm_compute. reflexivity.
  - vm_compute in Hok. injection Hok as <- <- <-. intros _ o Hg. vm_compute in Hg. discriminate.
  - exact ex_cut.
  - exact ex_all_present.
  - exact Hok.
  - exists cf1. split; [reflexivity|]. split; [exact H1|]. split; assumption.
Qed.
Print Assumptions ex_cut.
Print Assumptions ex_cut_state2.
Print Assumptions ex_cut_retry.

(* ------------------------------------------------------------------------------------------ *)
(* the premises cannot be dropped                                                              *)
(* ------------------------------------------------------------------------------------------ *)

(* WITHOUT [all_present]: d/ = { a = "xy" }, link strategy, rename-able cache, cut after the
   rename of d/a into the cache: the entry is missing, the state is (Dir [], {object of a}).
   It is a cut; it is not in tree_state2 (which keeps the names of the listing); and the re-run
   from it records the checksum of an EMPTY directory.  After the restoration
   (restore_slot) the state is the original tree again, and C04_retry_from_restored_cut applies. *)
Definition cm_n1 : node := Dir [].
Definition cm_c1 : cache := capply [] [wr Hx ex_x file_mode].

Example cx_missing_entry :
  commit_cut Hx Link true ex_dir_art ex_dir [] (Some cm_n1, cm_c1) /\
  ~ all_present ex_dir cm_n1 /\
  (forall sk nr, ~ tree_state2 Hx Link sk nr ex_dir cm_n1) /\
  (exists nf cf af nf1 cf1 af1,
     commit_node Hx ex_dir_art ex_dir [] Link = Ok (nf, cf, af) /\
     commit_node Hx ex_dir_art cm_n1 cm_c1 Link = Ok (nf1, cf1, af1) /\ af1 <> af) /\
  restore_slot ex_dir (Some cm_n1) = ex_dir.
Proof.
  split; [|split; [|split; [|split]]].
  - assert (Ka : ccut Hx Link true (cchild [] [97] (File ex_x)) (File ex_x) []
                      None [wr Hx ex_x file_mode] None).
    { apply cc_file_mid; [reflexivity|reflexivity|]. right. left. reflexivity. }
    pose proof (kc_child Hx Link true false [] [97] (File ex_x) [] _ _ _ None [] [] (Some [])
                         eq_refl eq_refl Ka (kc_nil Hx Link true false [] _)) as K1.
    apply (commit_cut_intro Hx Link true ex_dir_art ex_dir [] _ _ None).
    exact (cc_dir Hx Link true ex_dir_art _ [] [] _ _ _ [wr Hx ex_x file_mode] eq_refl eq_refl K1
                  (Permutation_refl _)).
  - intros Hap. inversion Hap as [n0 n0' Hnd|es0 es1 Hf]; [discriminate Hnd|inversion Hf].
  - intros sk nr Hts. remember ex_dir as n eqn:En. remember cm_n1 as n1 eqn:En1.
    destruct Hts as [sk nr n Hnd|nr b Hl|sk nr es es1 Hf].
    + subst n. discriminate En1.
    + discriminate En.
    + injection En as ->. injection En1 as ->. inversion Hf.
  - do 6 eexists. split; [vm_compute; reflexivity|]. split; [vm_compute; reflexivity|].
    intros E. discriminate E.
  - vm_compute. reflexivity.
Qed.

(* WITHOUT [resolved c n]: d/ = { a = "xy", z -> the object of "xy" }, empty cache.  The commit
   succeeds (a is stored first, then the link z is adopted), the initial state is a cut with
   every entry present, but z dangles in the cut's cache: [resolved c1 n1], a premise of
   C04_retry_nested_inv, fails.  (The re-run from that state is the commit itself: the premise
   is an artefact of the retry theorem, not of the cut semantics.) *)
Definition cx_r_tree : node := Dir [([97], File ex_x); ([122], LinkC (Hx ex_x))].

Example cx_resolved_needs_premise :
  (exists nf cf af, commit_node Hx ex_dir_art cx_r_tree [] Link = Ok (nf, cf, af)) /\
  commit_cut Hx Link true ex_dir_art cx_r_tree [] (Some cx_r_tree, []) /\
  all_present cx_r_tree cx_r_tree /\
  ~ resolved [] cx_r_tree.
Proof.
  split; [|split; [|split]].
  - do 3 eexists. vm_compute. reflexivity.
  - apply C03_initial_is_cut.
  - apply all_present_refl.
  - intros Hr. inversion Hr as [| | | |es Hes]; subst.
    inversion Hes as [|e0 r0 _ Hes1]; subst. inversion Hes1 as [|e1 r1 Hz _]; subst.
    cbn [snd] in Hz. inversion Hz as [|d o Hg| | |]; subst. discriminate Hg.
Qed.
Print Assumptions cx_missing_entry.
Print Assumptions cx_resolved_needs_premise.
