(* C08: properties of the pipeline traversals of Model/Index.v (run_stage, and the cycle / fuel
   parts for checkout_stage, status_stage, commit_stage).

   Method (ported from spikes/Pipe.v).  The model keeps [ran] sorted by key, so the order in which
   stages were inserted is lost; the proofs re-introduce it as a GHOST list [fin] (finish order,
   newest first) that is existentially quantified in the invariant [W]:
     - fin is duplicate free and is exactly the domain of ran,
     - (recursive = true) every owner of an input of a finished stage finished EARLIER,
     - log is duplicate free, log is a subset of fin, and the log order is the fin order.
   The recursion stack [inprog] is a parameter of the model function (not a state), which makes
   the fuel argument independent of W.

   Vocabulary: [edge idx a b] = stage a is the owner (find_owner idx) of an input of stage b;
   upstream = clos_refl_trans (edge idx); on a cycle = clos_trans (edge idx) a a;
   [run_targets] (resp. checkout_/status_/commit_targets) = the fold over the targets that
   System.step performs (lemmas step_CRun, step_CCheckout, step_CStatus, step_CCommit).

   Final theorems (all closed under the global context):
     C08_once, C08_once_single                  no stage twice in the log
     C08_order, C08_order_single                owner executed before user (recursive = true)
     C08_finish_order, C08_owners_before_exec   owners are in ran before the user is executed
     C08_scope, C08_scope_single                visited stages are upstream of the targets
     C08_cycle, C08_cycle_targets, C08_cycle_fuel   a cycle upstream of a target => Err
     C08_executed_not_on_cycle, C08_cycle_exec_irrelevant(_single)
                                                exec is never applied to a stage on a cycle
     C08_fuel, C08_fuel_targets                 fuel = S (length idx) is enough
     C08_checkout_cycle(_targets), C08_checkout_fuel(_targets)
     C08_status_cycle(_targets),   C08_status_fuel(_targets)
     C08_commit_cycle(_targets),   C08_commit_fuel(_targets)
     C08_step_run, C08_step_run_cycle, C08_step_status_cycle, C08_step_checkout_cycle,
     C08_step_commit_cycle                      the same at the level of one dud command
   Examples (module Examples): a 3-stage chain and a 2-cycle. *)
From Coq Require Import NArith List Bool Lia Relations.
From DudV Require Import Base.Bytes Base.Json Model.Fs Model.Cache Model.Stage Model.Index.
From DudV Require Model.System.
Import ListNotations.

(* ------------------------------------------------------------------------------------------ *)
(* byte-string keys                                                                            *)
(* ------------------------------------------------------------------------------------------ *)
Lemma beqb_neq a b : beqb a b = false <-> a <> b.
Proof.
  split.
  - intros Hf Heq. apply beqb_eq in Heq. congruence.
  - intros Hne. destruct (beqb a b) eqn:Hb; [|reflexivity]. apply beqb_eq in Hb. contradiction.
Qed.

Lemma bytes_dec (a b : bytes) : {a = b} + {a <> b}.
Proof.
  destruct (beqb a b) eqn:Hb; [left; apply beqb_eq; exact Hb|right; apply beqb_neq; exact Hb].
Qed.

Lemma bool_cases (b : bool) : b = true \/ b = false.
Proof. destruct b; auto. Qed.
Lemma if_true_eq {A} (b : bool) (x y z : A) : b = true -> (if b then x else y) = z -> x = z.
Proof. intros Hb. rewrite Hb. auto. Qed.
Lemma if_false_eq {A} (b : bool) (x y z : A) : b = false -> (if b then x else y) = z -> y = z.
Proof. intros Hb. rewrite Hb. auto. Qed.

Lemma mem_In x l : mem x l = true <-> In x l.
Proof.
  unfold mem. rewrite existsb_exists. split.
  - intros [y [Hy Hb]]. apply beqb_eq in Hb. subst y. exact Hy.
  - intros Hin. exists x. split; [exact Hin|apply beqb_refl].
Qed.

Lemma mem_notIn x l : mem x l = false <-> ~ In x l.
Proof.
  split.
  - intros Hf Hin. apply mem_In in Hin. congruence.
  - intros Hn. destruct (mem x l) eqn:Hm; [|reflexivity]. apply mem_In in Hm. contradiction.
Qed.

Lemma alookup_ins_sorted {A} k k' (v : A) l :
  alookup k (ins_sorted k' v l) = if beqb k k' then Some v else alookup k l.
Proof.
  induction l as [|[k2 v2] r IH]; simpl.
  - reflexivity.
  - destruct (beqb k' k2) eqn:Hk2.
    + apply beqb_eq in Hk2. subst k2. simpl. destruct (beqb k k'); reflexivity.
    + destruct (bltb k' k2); simpl.
      * reflexivity.
      * rewrite IH. destruct (beqb k k') eqn:Hkk'; [|reflexivity].
        apply beqb_eq in Hkk'. subst k'. rewrite Hk2. reflexivity.
Qed.

Lemma alookup_ins_same {A} k (v : A) l : alookup k (ins_sorted k v l) = Some v.
Proof. rewrite alookup_ins_sorted, beqb_refl. reflexivity. Qed.

Lemma alookup_ins_other {A} k k' (v : A) l : k <> k' -> alookup k (ins_sorted k' v l) = alookup k l.
Proof. intros Hne. rewrite alookup_ins_sorted. apply beqb_neq in Hne. rewrite Hne. reflexivity. Qed.

Lemma alookup_Some_In {A} k (v : A) l : alookup k l = Some v -> In k (map fst l).
Proof.
  induction l as [|[k2 v2] r IH]; simpl; [discriminate|].
  destruct (beqb k k2) eqn:Hb.
  - intros _. left. apply beqb_eq in Hb. congruence.
  - intros Hl. right. apply IH. exact Hl.
Qed.

Lemma alookup_None_notIn {A} k (l : list (bytes * A)) : alookup k l = None <-> ~ In k (map fst l).
Proof.
  induction l as [|[k2 v2] r IH]; simpl.
  - tauto.
  - destruct (beqb k k2) eqn:Hb.
    + apply beqb_eq in Hb. subst k2. split; [discriminate|]. intros Hn. exfalso. apply Hn. left. reflexivity.
    + apply beqb_neq in Hb. rewrite IH. split.
      * intros Hn [Heq|Hin]; [congruence|contradiction].
      * intros Hn Hin. apply Hn. right. exact Hin.
Qed.

(* ------------------------------------------------------------------------------------------ *)
(* order in newest-first lists                                                                 *)
(* ------------------------------------------------------------------------------------------ *)
(* [earlier l a b]: in the newest-first list l, a was added strictly before b (a lies deeper). *)
Fixpoint earlier (l : list bytes) (a b : bytes) : Prop :=
  match l with
  | [] => False
  | s :: r => (b = s /\ In a r) \/ earlier r a b
  end.

Lemma earlier_In_l l a b : earlier l a b -> In a l.
Proof.
  induction l as [|s r IH]; simpl; [tauto|]. intros [[_ Ha]|He]; [right; exact Ha|right; apply IH; exact He].
Qed.

Lemma earlier_In_r l a b : earlier l a b -> In b l.
Proof.
  induction l as [|s r IH]; simpl; [tauto|]. intros [[Hb _]|He]; [left; congruence|right; apply IH; exact He].
Qed.

Lemma earlier_irrefl l a : NoDup l -> ~ earlier l a a.
Proof.
  induction l as [|s r IH]; simpl; intros Hnd He; [exact He|].
  inversion Hnd as [|s' r' Hnotin Hnd']; subst.
  destruct He as [[Has Ha]|He]; [subst; contradiction|apply (IH Hnd' He)].
Qed.

Lemma earlier_trans l a b c : NoDup l -> earlier l a b -> earlier l b c -> earlier l a c.
Proof.
  induction l as [|s r IH]; simpl; intros Hnd Hab Hbc; [exact Hab|].
  inversion Hnd as [|s' r' Hnotin Hnd']; subst.
  destruct Hab as [[Hbs Ha]|Hab].
  - subst s. destruct Hbc as [[_ Hb]|Hbc]; [contradiction|].
    exfalso. apply Hnotin. eapply earlier_In_l. exact Hbc.
  - destruct Hbc as [[Hcs Hb]|Hbc].
    + left. split; [exact Hcs|]. eapply earlier_In_l. exact Hab.
    + right. apply IH; assumption.
Qed.

Lemma earlier_total l a b : In a l -> In b l -> a <> b -> earlier l a b \/ earlier l b a.
Proof.
  induction l as [|s r IH]; simpl; intros Ha Hb Hne; [tauto|].
  destruct Ha as [Ha|Ha]; destruct Hb as [Hb|Hb].
  - congruence.
  - subst s. right. left. split; [reflexivity|exact Hb].
  - subst s. left. left. split; [reflexivity|exact Ha].
  - destruct (IH Ha Hb Hne) as [He|He]; [left; right; exact He|right; right; exact He].
Qed.

Lemma earlier_app_r l0 l a b : earlier l a b -> earlier (l0 ++ l) a b.
Proof. induction l0 as [|s r IH]; simpl; intros He; [exact He|right; apply IH; exact He]. Qed.

(* the readable characterisation: l = l1 ++ b :: l2 ++ a :: l3 *)
Lemma earlier_split l a b : earlier l a b <-> exists l1 l2 l3, l = l1 ++ b :: l2 ++ a :: l3.
Proof.
  split.
  - induction l as [|s r IH]; simpl; [tauto|]. intros [[Hb Ha]|He].
    + subst s. apply in_split in Ha as [l2 [l3 Hr]]. exists [], l2, l3. simpl. congruence.
    + destruct (IH He) as [l1 [l2 [l3 Hr]]]. exists (s :: l1), l2, l3. simpl. congruence.
  - intros [l1 [l2 [l3 Hl]]]. subst l. apply earlier_app_r. simpl. left. split; [reflexivity|].
    apply in_or_app. right. left. reflexivity.
Qed.

(* in execution order (rev of the newest-first log): a strictly before b *)
Lemma earlier_rev l a b : earlier l a b <-> exists p q r, rev l = p ++ a :: q ++ b :: r.
Proof.
  rewrite earlier_split. split.
  - intros [l1 [l2 [l3 Hl]]]. exists (rev l3), (rev l2), (rev l1). subst l.
    rewrite rev_app_distr. simpl. rewrite rev_app_distr. simpl.
    repeat rewrite <- app_assoc. simpl. reflexivity.
  - intros [p [q [r Hl]]]. exists (rev r), (rev q), (rev p).
    rewrite <- (rev_involutive l), Hl.
    rewrite rev_app_distr. simpl. rewrite rev_app_distr. simpl.
    repeat rewrite <- app_assoc. simpl. reflexivity.
Qed.

(* ------------------------------------------------------------------------------------------ *)
(* the dependency relation of an index                                                         *)
(* ------------------------------------------------------------------------------------------ *)
(* [edge idx a b]: stage a owns (per find_owner) an input of stage b: a is directly upstream. *)
Definition edge (idx : index) (a b : bytes) : Prop :=
  exists stg art up,
    alookup b idx = Some stg /\ In art (s_inputs stg) /\ find_owner idx (a_path art) = Some (a, up).

(* a path of at least one edge *)
Inductive path (idx : index) : bytes -> bytes -> Prop :=
| path_one a b : edge idx a b -> path idx a b
| path_step a b c : edge idx a b -> path idx b c -> path idx a c.

(* reflexive-transitive closure: a is b or upstream of b *)
Definition upstream (idx : index) (a b : bytes) : Prop := a = b \/ path idx a b.

Definition on_cycle (idx : index) (a : bytes) : Prop := path idx a a.

Lemma path_snoc idx a b c : path idx a b -> edge idx b c -> path idx a c.
Proof.
  intros Hp He. induction Hp as [a b Hab|a b c' Hab Hp IH].
  - eapply path_step; [exact Hab|apply path_one; exact He].
  - eapply path_step; [exact Hab|apply IH; exact He].
Qed.

Lemma upstream_edge idx a b c : edge idx a b -> upstream idx b c -> upstream idx a c.
Proof.
  intros He [Hbc|Hp]; right.
  - subst c. apply path_one. exact He.
  - eapply path_step; eassumption.
Qed.

Lemma upstream_clos idx a b : upstream idx a b <-> clos_refl_trans bytes (edge idx) a b.
Proof.
  split.
  - intros [Heq|Hp].
    + subst b. apply rt_refl.
    + induction Hp as [a b Hab|a b c Hab Hp IH].
      * apply rt_step. exact Hab.
      * eapply rt_trans; [apply rt_step; exact Hab|exact IH].
  - intros Hc. apply clos_rt_rt1n in Hc. induction Hc as [a|a b c Hab Hbc IH].
    + left. reflexivity.
    + eapply upstream_edge; eassumption.
Qed.

(* ------------------------------------------------------------------------------------------ *)
(* the ghost finish order and the core invariant, shared by all traversals                     *)
(* ------------------------------------------------------------------------------------------ *)
Section Core.
  Variable idx : index.

  (* fin: finish order, newest first *)
  Record core (fin : list bytes) : Prop := {
    core_nodup : NoDup fin;
    core_owners : forall a b, In b fin -> edge idx a b -> earlier fin a b }.

  Lemma core_nil : core [].
  Proof. split; [constructor|]. intros a b Hb. destruct Hb. Qed.

  Lemma core_path fin a b : core fin -> path idx a b -> In b fin -> earlier fin a b.
  Proof.
    intros Hc Hp. induction Hp as [a b Hab|a b c Hab Hp IH]; intros Hb.
    - apply (core_owners _ Hc); assumption.
    - specialize (IH Hb). eapply earlier_trans; [apply Hc| |exact IH].
      apply (core_owners _ Hc); [|exact Hab]. eapply earlier_In_l. exact IH.
  Qed.

  Lemma core_acyclic fin a : core fin -> In a fin -> ~ on_cycle idx a.
  Proof.
    intros Hc Ha Hp. eapply earlier_irrefl; [apply Hc|]. eapply core_path; eassumption.
  Qed.

  Lemma core_upstream fin a b : core fin -> upstream idx a b -> In b fin -> In a fin.
  Proof.
    intros Hc [Heq|Hp] Hb; [subst; exact Hb|]. eapply earlier_In_l. eapply core_path; eassumption.
  Qed.

  (* finishing stage s after all the owners of its inputs *)
  Lemma core_finish fin s :
    core fin -> ~ In s fin -> (forall a, edge idx a s -> In a fin) -> core (s :: fin).
  Proof.
    intros Hc Hs Hown. split.
    - constructor; [exact Hs|apply Hc].
    - intros a b [Hb|Hb] Hab; simpl.
      + subst b. left. split; [reflexivity|]. apply Hown. exact Hab.
      + right. apply (core_owners _ Hc); assumption.
  Qed.

  (* a traversal that succeeded on a target cannot have a cycle upstream of it *)
  Lemma core_no_cycle_upstream fin t a :
    core fin -> In t fin -> upstream idx a t -> ~ on_cycle idx a.
  Proof.
    intros Hc Ht Hup. eapply core_acyclic; [exact Hc|]. eapply core_upstream; eassumption.
  Qed.
End Core.

(* ------------------------------------------------------------------------------------------ *)
(* the recursion stack bounds the depth: generic arithmetic                                    *)
(* ------------------------------------------------------------------------------------------ *)
Definition stack_ok {A} (keys : list (bytes * A)) (inprog : list bytes) : Prop :=
  NoDup inprog /\ incl inprog (map fst keys).

Lemma stack_ok_len {A} (keys : list (bytes * A)) inprog : stack_ok keys inprog -> (length inprog <= length keys)%nat.
Proof.
  intros [Hnd Hincl]. rewrite <- (map_length fst keys). apply NoDup_incl_length; assumption.
Qed.

Lemma stack_ok_push {A} (keys : list (bytes * A)) inprog sp v :
  stack_ok keys inprog -> mem sp inprog = false -> alookup sp keys = Some v -> stack_ok keys (sp :: inprog).
Proof.
  intros [Hnd Hincl] Hm Hl. split.
  - constructor; [apply mem_notIn; exact Hm|exact Hnd].
  - intros x [Hx|Hx]; [subst x; eapply alookup_Some_In; exact Hl|apply Hincl; exact Hx].
Qed.

Lemma stack_ok_nil {A} (keys : list (bytes * A)) : stack_ok keys [].
Proof. split; [constructor|intros x Hx; destruct Hx]. Qed.

(* ------------------------------------------------------------------------------------------ *)
(* run_stage                                                                                   *)
(* ------------------------------------------------------------------------------------------ *)
Definition rstate := (node * list (bytes * bool) * list bytes)%type.

Section Run.
  Variable H : bytes -> bytes.
  Variable exec : bytes -> stage -> node -> cache -> res node.
  Variable idx : index.
  Variable c : cache.
  Variable recursive : bool.
  (* [K] switches the ORDER part of the invariant on (K := True: theorems about order and cycles)
     or off (K := False: the remaining part holds of ANY ran/log with log inside dom ran, which
     gives the once / scope theorems from an arbitrary starting state). *)
  Variable K : Prop.

  (* the loop over the inputs (the inner [fix ins] of run_stage) as a top-level function *)
  Fixpoint run_ins (f : nat) (stack : list bytes) (arts : list artifact)
           (root : node) (ran : list (bytes * bool)) (log : list bytes) (doit : bool)
    : res (node * list (bytes * bool) * list bytes * bool) :=
    match arts with
    | [] => Ok (root, ran, log, doit)
    | a :: r =>
      match find_owner idx (a_path a) with
      | None =>
        match short_top H a root c with
        | Ok cm => run_ins f stack r root ran log (doit || negb cm)
        | Err => Err
        end
      | Some (op, up) =>
        if recursive then
          match run_stage H exec f idx c recursive root ran log stack op with
          | Ok (root', ran', log') =>
            let upran := match alookup op ran' with Some b => b | None => false end in
            run_ins f stack r root' ran' log' (doit || upran || negb (beqb (a_cs a) (a_cs up)))
          | Err => Err
          end
        else run_ins f stack r root ran log doit
      end
    end.

  Definition has_cmd_of (stg : stage) : bool := match s_cmd stg with [] => false | _ => true end.
  Definition do0_of (stg : stage) : bool :=
    let cs_ok := match s_cs stg with [] => false | cs => beqb (def_checksum H stg) cs end in
    (has_cmd_of stg && match s_inputs stg with [] => true | _ => false end) || negb cs_ok.

  (* what happens after the loop over the inputs *)
  Definition run_finish (sp : bytes) (stg : stage)
             (r : res (node * list (bytes * bool) * list bytes * bool)) : res rstate :=
    match r with
    | Err => Err
    | Ok (root1, ran1, log1, do1) =>
      let do2 := if do1 then Ok true else any_stale H (s_outputs stg) root1 c in
      match do2 with
      | Err => Err
      | Ok d =>
        if d && has_cmd_of stg then
          match exec sp stg root1 c with
          | Ok root2 => Ok (root2, ins_sorted sp d ran1, sp :: log1)
          | Err => Err
          end
        else Ok (root1, ins_sorted sp d ran1, log1)
      end
    end.

  Lemma run_stage_S f root ran log inprog sp :
    run_stage H exec (S f) idx c recursive root ran log inprog sp =
    match alookup sp ran with
    | Some _ => Ok (root, ran, log)
    | None =>
      if mem sp inprog then Err
      else match alookup sp idx with
           | None => Err
           | Some stg =>
             run_finish sp stg (run_ins f (sp :: inprog) (s_inputs stg) root ran log (do0_of stg))
           end
    end.
  Proof.
    cbn [run_stage].
    destruct (alookup sp ran) as [b|]; [reflexivity|].
    destruct (mem sp inprog); [reflexivity|].
    destruct (alookup sp idx) as [stg|]; [|reflexivity].
    unfold run_finish, do0_of, has_cmd_of.
    match goal with
    | |- match ?F _ _ _ _ _ with _ => _ end = _ =>
      assert (Hins : forall arts root0 ran0 log0 doit0,
                 F arts root0 ran0 log0 doit0 = run_ins f (sp :: inprog) arts root0 ran0 log0 doit0)
    end.
    { induction arts as [|a r IH]; intros root0 ran0 log0 doit0; cbn [run_ins]; [reflexivity|].
      destruct (find_owner idx (a_path a)) as [[op up]|].
      - destruct recursive; [|apply IH].
        destruct (run_stage H exec f idx c true root0 ran0 log0 (sp :: inprog) op) as [[[root' ran'] log']|];
          [apply IH|reflexivity].
      - destruct (short_top H a root0 c) as [cm|]; [apply IH|reflexivity]. }
    rewrite Hins. reflexivity.
  Qed.

  (* ---- the invariant ---- *)
  Definition disj (ran : list (bytes * bool)) (stack : list bytes) : Prop :=
    forall s, In s stack -> alookup s ran = None.

  Record W (ran : list (bytes * bool)) (log fin : list bytes) : Prop := {
    W_nodup : NoDup fin;
    W_dom : forall s, In s fin <-> alookup s ran <> None;
    W_core : K -> recursive = true -> core idx fin;
    W_log_sub : forall s, In s log -> In s fin;
    W_log_nodup : NoDup log;
    W_log_order : forall a b, earlier log a b -> earlier fin a b }.

  Lemma W_nil : W [] [] [].
  Proof.
    split.
    - constructor.
    - intros s. simpl. split; [intros Hf; destruct Hf|intros Hne; apply Hne; reflexivity].
    - intros _ _. apply core_nil.
    - intros s Hs. destruct Hs.
    - constructor.
    - intros a b Hab. destruct Hab.
  Qed.

  Lemma W_finish ran log fin sp d log' :
    W ran log fin -> alookup sp ran = None ->
    (recursive = true -> forall a, edge idx a sp -> In a fin) ->
    log' = log \/ log' = sp :: log ->
    W (ins_sorted sp d ran) log' (sp :: fin).
  Proof.
    intros HW Hsp Hown Hlog.
    assert (Hnotfin : ~ In sp fin).
    { intros Hin. apply (W_dom _ _ _ HW) in Hin. contradiction. }
    assert (Hnotlog : ~ In sp log).
    { intros Hin. apply Hnotfin. apply (W_log_sub _ _ _ HW). exact Hin. }
    split.
    - constructor; [exact Hnotfin|apply HW].
    - intros s. destruct (bytes_dec s sp) as [Heq|Hne].
      + subst s. rewrite alookup_ins_same. split; [discriminate|]. intros _. left. reflexivity.
      + rewrite alookup_ins_other by exact Hne. rewrite <- (W_dom _ _ _ HW). simpl. split.
        * intros [Heq|Hin]; [congruence|exact Hin].
        * intros Hin. right. exact Hin.
    - intros HK Hrec. apply core_finish; [apply HW; assumption|exact Hnotfin|apply Hown; exact Hrec].
    - intros s Hs. destruct Hlog as [Hl|Hl]; subst log'.
      + right. apply (W_log_sub _ _ _ HW). exact Hs.
      + destruct Hs as [Hs|Hs]; [left; exact Hs|right; apply (W_log_sub _ _ _ HW); exact Hs].
    - destruct Hlog as [Hl|Hl]; subst log'; [apply HW|].
      constructor; [exact Hnotlog|apply HW].
    - intros a b Hab. destruct Hlog as [Hl|Hl]; subst log'.
      + simpl. right. apply (W_log_order _ _ _ HW). exact Hab.
      + simpl in Hab. simpl. destruct Hab as [[Hb Ha]|Hab].
        * left. split; [exact Hb|]. apply (W_log_sub _ _ _ HW). exact Ha.
        * right. apply (W_log_order _ _ _ HW). exact Hab.
  Qed.

  (* relation between the state before and after a (successful) piece of traversal; P bounds the
     newly finished stages *)
  Record post (P : bytes -> Prop) (stack : list bytes)
         (ran : list (bytes * bool)) (log fin : list bytes)
         (ran' : list (bytes * bool)) (log' fin' : list bytes) : Prop := {
    P_W : W ran' log' fin';
    P_fin : exists e, fin' = e ++ fin /\ forall s, In s e -> P s;
    P_log : exists e, log' = e ++ log;
    P_disj : disj ran' stack;
    P_mono : forall s b, alookup s ran = Some b -> alookup s ran' = Some b }.

  Lemma post_refl P stack ran log fin : W ran log fin -> disj ran stack -> post P stack ran log fin ran log fin.
  Proof.
    intros HW Hd. split; [exact HW| | |exact Hd|auto].
    - exists []. split; [reflexivity|]. intros s Hs. destruct Hs.
    - exists []. reflexivity.
  Qed.

  Lemma post_trans (P Q R : bytes -> Prop) stack ran1 log1 fin1 ran2 log2 fin2 ran3 log3 fin3 :
    (forall s, P s -> R s) -> (forall s, Q s -> R s) ->
    post P stack ran1 log1 fin1 ran2 log2 fin2 ->
    post Q stack ran2 log2 fin2 ran3 log3 fin3 ->
    post R stack ran1 log1 fin1 ran3 log3 fin3.
  Proof.
    intros HPR HQR [HW2 [e2 [Hf2 He2]] [l2 Hl2] Hd2 Hm2] [HW3 [e3 [Hf3 He3]] [l3 Hl3] Hd3 Hm3].
    split; [exact HW3| | |exact Hd3|auto].
    - exists (e3 ++ e2). split; [subst; rewrite app_assoc; reflexivity|].
      intros s Hs. apply in_app_or in Hs as [Hs|Hs]; [apply HQR, He3, Hs|apply HPR, He2, Hs].
    - exists (l3 ++ l2). subst. rewrite app_assoc. reflexivity.
  Qed.

  Definition in_scope (t s : bytes) : Prop := if recursive then upstream idx s t else s = t.

  Lemma in_scope_refl t : in_scope t t.
  Proof. unfold in_scope. destruct recursive; [left|]; reflexivity. Qed.

  Lemma upstream_edge_path s op sp : upstream idx s op -> edge idx op sp -> path idx s sp.
  Proof.
    intros [Heq|Hp] He; [subst; apply path_one; exact He|eapply path_snoc; eassumption].
  Qed.

  Definition run_spec (f : nat) (stack : list bytes) : Prop :=
    forall root ran log fin sp root' ran' log',
      W ran log fin -> disj ran stack ->
      run_stage H exec f idx c recursive root ran log stack sp = Ok (root', ran', log') ->
      exists fin', post (in_scope sp) stack ran log fin ran' log' fin' /\ In sp fin'.

  Lemma ins_post f stack sp stg :
    run_spec f stack -> alookup sp idx = Some stg ->
    forall arts root ran log doit fin root' ran' log' doit',
      incl arts (s_inputs stg) -> W ran log fin -> disj ran stack ->
      run_ins f stack arts root ran log doit = Ok (root', ran', log', doit') ->
      exists fin',
        post (fun s => recursive = true /\ path idx s sp) stack ran log fin ran' log' fin' /\
        (recursive = true -> forall a op up,
            In a arts -> find_owner idx (a_path a) = Some (op, up) -> In op fin').
  Proof.
    intros IH Hstg. induction arts as [|a r IHr];
      intros root ran log doit fin root' ran' log' doit' Hincl HW Hd Hrun; cbn [run_ins] in Hrun.
    - inversion Hrun; subst. exists fin. split; [apply post_refl; assumption|].
      intros _ a op up Ha. destruct Ha.
    - assert (Hinclr : incl r (s_inputs stg)).
      { intros x Hx. apply Hincl. right. exact Hx. }
      destruct (find_owner idx (a_path a)) as [[op up]|] eqn:Hfo.
      + destruct (bool_cases recursive) as [Hrec|Hrec].
        * apply (if_true_eq _ _ _ _ Hrec) in Hrun.
          destruct (run_stage H exec f idx c recursive root ran log stack op) as [[[root1 ran1] log1]|] eqn:Hsub;
            [|discriminate].
          destruct (IH _ _ _ _ _ _ _ _ HW Hd Hsub) as [fin1 [Hp1 Hop]].
          destruct (IHr _ _ _ _ _ _ _ _ _ Hinclr (P_W _ _ _ _ _ _ _ _ Hp1) (P_disj _ _ _ _ _ _ _ _ Hp1) Hrun)
            as [fin2 [Hp2 Hown2]].
          exists fin2. split.
          -- eapply post_trans; [| |exact Hp1|exact Hp2].
             ++ intros s Hs. split; [exact Hrec|]. unfold in_scope in Hs. rewrite Hrec in Hs.
                eapply upstream_edge_path; [exact Hs|].
                exists stg, a, up. split; [exact Hstg|]. split; [apply Hincl; left; reflexivity|exact Hfo].
             ++ auto.
          -- intros _ a' op' up' [Ha'|Ha'] Hfo'.
             ++ subst a'. rewrite Hfo in Hfo'. inversion Hfo'; subst.
                destruct (P_fin _ _ _ _ _ _ _ _ Hp2) as [e [He _]]. rewrite He.
                apply in_or_app. right. exact Hop.
             ++ eapply Hown2; [exact Hrec|exact Ha'|exact Hfo'].
        * apply (if_false_eq _ _ _ _ Hrec) in Hrun.
          destruct (IHr _ _ _ _ _ _ _ _ _ Hinclr HW Hd Hrun) as [fin2 [Hp2 Hown2]].
          exists fin2. split; [exact Hp2|]. intros Hf. congruence.
      + destruct (short_top H a root c) as [cm|]; [|discriminate].
        destruct (IHr _ _ _ _ _ _ _ _ _ Hinclr HW Hd Hrun) as [fin2 [Hp2 Hown2]].
        exists fin2. split; [exact Hp2|].
        intros Hrec a' op' up' [Ha'|Ha'] Hfo'.
        * subst a'. congruence.
        * eapply Hown2; eassumption.
  Qed.

  Lemma finish_post stack sp stg ran log fin ran1 log1 fin1 :
    alookup sp ran = None -> mem sp stack = false -> alookup sp idx = Some stg ->
    post (fun s => recursive = true /\ path idx s sp) (sp :: stack) ran log fin ran1 log1 fin1 ->
    (recursive = true -> forall a op up,
        In a (s_inputs stg) -> find_owner idx (a_path a) = Some (op, up) -> In op fin1) ->
    forall d lg, lg = log1 \/ lg = sp :: log1 ->
      post (in_scope sp) stack ran log fin (ins_sorted sp d ran1) lg (sp :: fin1).
  Proof.
    intros Hnone Hmem Hstg Hp1 Hown1 d lg Hlg.
    assert (Hsp1 : alookup sp ran1 = None).
    { apply (P_disj _ _ _ _ _ _ _ _ Hp1). left. reflexivity. }
    split.
    - apply (W_finish ran1 log1 fin1); [apply Hp1|exact Hsp1| |exact Hlg].
      intros Hrec a [stg' [art [up [Hstg' [Hart Hfo]]]]].
      rewrite Hstg in Hstg'. inversion Hstg'; subst stg'.
      eapply Hown1; eassumption.
    - destruct (P_fin _ _ _ _ _ _ _ _ Hp1) as [e1 [He1 Hsc1]].
      exists (sp :: e1). split; [simpl; congruence|].
      intros s [Hs|Hs]; [subst s; apply in_scope_refl|].
      destruct (Hsc1 s Hs) as [Hrec Hpath]. unfold in_scope. rewrite Hrec. right. exact Hpath.
    - destruct (P_log _ _ _ _ _ _ _ _ Hp1) as [l1 Hl1].
      destruct Hlg as [Hlg|Hlg]; subst lg.
      + exists l1. exact Hl1.
      + exists (sp :: l1). simpl. congruence.
    - intros s Hs. assert (Hne : s <> sp).
      { intros Heq. subst s. apply mem_notIn in Hmem. contradiction. }
      rewrite alookup_ins_other by exact Hne. apply (P_disj _ _ _ _ _ _ _ _ Hp1). right. exact Hs.
    - intros s b Hs. assert (Hne : s <> sp).
      { intros Heq. subst s. congruence. }
      rewrite alookup_ins_other by exact Hne. apply (P_mono _ _ _ _ _ _ _ _ Hp1). exact Hs.
  Qed.

  Lemma run_post : forall f stack, run_spec f stack.
  Proof.
    induction f as [|f IH]; intros stack root ran log fin sp root' ran' log' HW Hd Hrun.
    { simpl in Hrun. discriminate. }
    rewrite run_stage_S in Hrun.
    destruct (alookup sp ran) as [b|] eqn:Hran.
    { inversion Hrun; subst. exists fin. split; [apply post_refl; assumption|].
      apply (W_dom _ _ _ HW). rewrite Hran. discriminate. }
    destruct (mem sp stack) eqn:Hmem; [discriminate|].
    destruct (alookup sp idx) as [stg|] eqn:Hstg; [|discriminate].
    destruct (run_ins f (sp :: stack) (s_inputs stg) root ran log (do0_of stg))
      as [[[[root1 ran1] log1] do1]|] eqn:Hins; [|discriminate].
    assert (Hd1 : disj ran (sp :: stack)).
    { intros s [Hs|Hs]; [subst s; exact Hran|apply Hd; exact Hs]. }
    destruct (ins_post f (sp :: stack) sp stg (IH (sp :: stack)) Hstg _ _ _ _ _ fin _ _ _ _
                       (incl_refl _) HW Hd1 Hins) as [fin1 [Hp1 Hown1]].
    pose proof (finish_post stack sp stg ran log fin ran1 log1 fin1
                            Hran Hmem Hstg Hp1 Hown1) as Hfin.
    unfold run_finish in Hrun.
    destruct (if do1 then Ok true else any_stale H (s_outputs stg) root1 c) as [d|]; [|discriminate].
    destruct (d && has_cmd_of stg).
    - destruct (exec sp stg root1 c) as [root2|]; [|discriminate].
      inversion Hrun; subst. exists (sp :: fin1). split; [|left; reflexivity].
      apply Hfin. right. reflexivity.
    - inversion Hrun; subst. exists (sp :: fin1). split; [|left; reflexivity].
      apply Hfin. left. reflexivity.
  Qed.

  (* ---- several targets, as System.step (CRun) runs them ---- *)
  Definition run_targets (fuel : nat) (ts : list bytes) (init : res rstate) : res rstate :=
    fold_left (fun acc t =>
                 match acc with
                 | Ok (root, ran, log) => run_stage H exec fuel idx c recursive root ran log [] t
                 | Err => Err
                 end) ts init.

  Lemma run_targets_Err fuel ts : run_targets fuel ts Err = Err.
  Proof. induction ts as [|t r IH]; [reflexivity|exact IH]. Qed.

  Lemma run_targets_cons fuel t r root ran log :
    run_targets fuel (t :: r) (Ok (root, ran, log)) =
    run_targets fuel r (run_stage H exec fuel idx c recursive root ran log [] t).
  Proof. reflexivity. Qed.

  Lemma disj_nil ran : disj ran [].
  Proof. intros s Hs. destruct Hs. Qed.

  Lemma run_targets_post fuel : forall ts root ran log fin root' ran' log',
    W ran log fin ->
    run_targets fuel ts (Ok (root, ran, log)) = Ok (root', ran', log') ->
    exists fin',
      post (fun s => exists t, In t ts /\ in_scope t s) [] ran log fin ran' log' fin' /\
      forall t, In t ts -> In t fin'.
  Proof.
    induction ts as [|t r IH]; intros root ran log fin root' ran' log' HW Hrun.
    - inversion Hrun; subst. exists fin. split; [apply post_refl; [exact HW|apply disj_nil]|].
      intros t Ht. destruct Ht.
    - rewrite run_targets_cons in Hrun.
      destruct (run_stage H exec fuel idx c recursive root ran log [] t) as [[[root1 ran1] log1]|] eqn:Hone.
      2:{ rewrite run_targets_Err in Hrun. discriminate. }
      destruct (run_post fuel [] _ _ _ _ _ _ _ _ HW (disj_nil ran) Hone) as [fin1 [Hp1 Ht1]].
      destruct (IH _ _ _ _ _ _ _ (P_W _ _ _ _ _ _ _ _ Hp1) Hrun) as [fin2 [Hp2 Hts2]].
      exists fin2. split.
      + eapply post_trans; [| |exact Hp1|exact Hp2].
        * intros s Hs. exists t. split; [left; reflexivity|exact Hs].
        * intros s [t' [Ht' Hs]]. exists t'. split; [right; exact Ht'|exact Hs].
      + intros t' [Ht'|Ht']; [|apply Hts2; exact Ht'].
        subst t'. destruct (P_fin _ _ _ _ _ _ _ _ Hp2) as [e [He _]]. rewrite He.
        apply in_or_app. right. exact Ht1.
  Qed.
End Run.

(* ---- fuel: the recursion depth is bounded by the stack, whose entries are distinct keys of idx ---- *)
Section RunFuel.
  Variable H : bytes -> bytes.
  Variable exec : bytes -> stage -> node -> cache -> res node.
  Variable idx : index.
  Variable c : cache.
  Variable recursive : bool.

  Lemma run_ins_fuel f f' stack :
    (forall root ran log sp,
        run_stage H exec f idx c recursive root ran log stack sp =
        run_stage H exec f' idx c recursive root ran log stack sp) ->
    forall arts root ran log doit,
      run_ins H exec idx c recursive f stack arts root ran log doit =
      run_ins H exec idx c recursive f' stack arts root ran log doit.
  Proof.
    intros IH. induction arts as [|a r IHr]; intros root ran log doit; cbn [run_ins]; [reflexivity|].
    destruct (find_owner idx (a_path a)) as [[op up]|].
    - destruct recursive; [|apply IHr]. rewrite IH.
      destruct (run_stage H exec f' idx c true root ran log stack op) as [[[root1 ran1] log1]|];
        [apply IHr|reflexivity].
    - destruct (short_top H a root c) as [cm|]; [apply IHr|reflexivity].
  Qed.

  Lemma run_fuel : forall f f' stack root ran log sp,
    stack_ok idx stack ->
    (length idx < f + length stack)%nat -> (length idx < f' + length stack)%nat ->
    run_stage H exec f idx c recursive root ran log stack sp =
    run_stage H exec f' idx c recursive root ran log stack sp.
  Proof.
    induction f as [|f IH]; intros f' stack root ran log sp Hok Hf Hf'.
    { exfalso. apply stack_ok_len in Hok. lia. }
    destruct f' as [|f'].
    { exfalso. apply stack_ok_len in Hok. lia. }
    rewrite !run_stage_S.
    destruct (alookup sp ran) as [b|]; [reflexivity|].
    destruct (mem sp stack) eqn:Hmem; [reflexivity|].
    destruct (alookup sp idx) as [stg|] eqn:Hstg; [|reflexivity].
    rewrite (run_ins_fuel f f' (sp :: stack)); [reflexivity|].
    intros root0 ran0 log0 sp0. apply IH.
    - eapply stack_ok_push; eassumption.
    - simpl. lia.
    - simpl. lia.
  Qed.
End RunFuel.

(* ---- exec is never called on a stage that lies on a cycle (recursive = true) ---- *)
Section RunExt.
  Variable H : bytes -> bytes.
  Variables exec exec' : bytes -> stage -> node -> cache -> res node.
  Variable idx : index.
  Variable c : cache.
  Hypothesis agree : forall sp stg root, ~ on_cycle idx sp -> exec sp stg root c = exec' sp stg root c.

  Lemma run_ins_ext f stack :
    (forall root ran log fin sp,
        W idx true True ran log fin -> disj ran stack ->
        run_stage H exec f idx c true root ran log stack sp =
        run_stage H exec' f idx c true root ran log stack sp) ->
    forall arts root ran log doit fin,
      W idx true True ran log fin -> disj ran stack ->
      run_ins H exec idx c true f stack arts root ran log doit =
      run_ins H exec' idx c true f stack arts root ran log doit.
  Proof.
    intros IH. induction arts as [|a r IHr]; intros root ran log doit fin HW Hd; cbn [run_ins]; [reflexivity|].
    destruct (find_owner idx (a_path a)) as [[op up]|].
    - rewrite <- (IH _ _ _ _ _ HW Hd).
      destruct (run_stage H exec f idx c true root ran log stack op) as [[[root1 ran1] log1]|] eqn:Hsub;
        [|reflexivity].
      destruct (run_post H exec idx c true True f stack _ _ _ _ _ _ _ _ HW Hd Hsub) as [fin1 [Hp1 _]].
      eapply IHr; [apply Hp1|apply Hp1].
    - destruct (short_top H a root c) as [cm|]; [|reflexivity]. eapply IHr; eassumption.
  Qed.

  Lemma run_ext : forall f stack root ran log fin sp,
    W idx true True ran log fin -> disj ran stack ->
    run_stage H exec f idx c true root ran log stack sp =
    run_stage H exec' f idx c true root ran log stack sp.
  Proof.
    induction f as [|f IH]; intros stack root ran log fin sp HW Hd; [reflexivity|].
    rewrite !run_stage_S.
    destruct (alookup sp ran) as [b|] eqn:Hran; [reflexivity|].
    destruct (mem sp stack) eqn:Hmem; [reflexivity|].
    destruct (alookup sp idx) as [stg|] eqn:Hstg; [|reflexivity].
    assert (Hd1 : disj ran (sp :: stack)).
    { intros s [Hs|Hs]; [subst s; exact Hran|apply Hd; exact Hs]. }
    rewrite <- (run_ins_ext f (sp :: stack) (IH (sp :: stack)) _ _ _ _ _ fin HW Hd1).
    destruct (run_ins H exec idx c true f (sp :: stack) (s_inputs stg) root ran log (do0_of H stg))
      as [[[[root1 ran1] log1] do1]|] eqn:Hins; [|reflexivity].
    destruct (ins_post H exec idx c true True f (sp :: stack) sp stg
                       (run_post H exec idx c true True f (sp :: stack)) Hstg _ _ _ _ _ fin _ _ _ _
                       (incl_refl _) HW Hd1 Hins) as [fin1 [Hp1 Hown1]].
    pose proof (finish_post idx true True stack sp stg ran log fin ran1 log1 fin1
                            Hran Hmem Hstg Hp1 Hown1) as Hfin.
    unfold run_finish.
    destruct (if do1 then Ok true else any_stale H (s_outputs stg) root1 c) as [d|]; [|reflexivity].
    destruct (d && has_cmd_of stg); [|reflexivity].
    rewrite agree; [reflexivity|].
    specialize (Hfin d log1 (or_introl eq_refl)).
    eapply core_acyclic; [apply (W_core _ _ _ _ _ _ (P_W _ _ _ _ _ _ _ _ _ _ _ Hfin) I eq_refl)|].
    left. reflexivity.
  Qed.
End RunExt.

(* ------------------------------------------------------------------------------------------ *)
(* C08 for run_stage: the final theorems                                                       *)
(* ------------------------------------------------------------------------------------------ *)
Lemma path_clos_trans idx a b : path idx a b <-> clos_trans bytes (edge idx) a b.
Proof.
  rewrite clos_trans_t1n_iff. split.
  - intros Hp. induction Hp as [a b Hab|a b c Hab Hp IH].
    + apply t1n_step. exact Hab.
    + eapply Relation_Operators.t1n_trans; eassumption.
  - intros Hc. induction Hc as [a b Hab|a b c Hab Hc IH].
    + apply path_one. exact Hab.
    + eapply path_step; eassumption.
Qed.

Lemma NoDup_app_intro {A} (l1 l2 : list A) :
  NoDup l1 -> NoDup l2 -> (forall x, In x l1 -> ~ In x l2) -> NoDup (l1 ++ l2).
Proof.
  induction l1 as [|x l1 IH]; simpl; intros H1 H2 Hd; [exact H2|].
  inversion H1 as [|x' l' Hx H1']; subst. constructor.
  - intros Hin. apply in_app_or in Hin as [Hin|Hin]; [contradiction|]. apply (Hd x); [left; reflexivity|exact Hin].
  - apply IH; [exact H1'|exact H2|]. intros y Hy. apply Hd. right. exact Hy.
Qed.

Lemma earlier_app_l l r a b : earlier l a b -> earlier (l ++ r) a b.
Proof.
  induction l as [|s l IH]; simpl; [tauto|]. intros [[Hb Ha]|He].
  - left. split; [exact Hb|]. apply in_or_app. left. exact Ha.
  - right. apply IH. exact He.
Qed.

(* a starting state is consistent when the log is duplicate free and every logged stage is in ran *)
Definition log_ok (ran : list (bytes * bool)) (log : list bytes) : Prop :=
  NoDup log /\ forall s, In s log -> alookup s ran <> None.

(* with the order part switched off, every consistent state satisfies the invariant *)
Lemma W_any idx recursive ran log : log_ok ran log -> exists fin, W idx recursive False ran log fin.
Proof.
  intros [Hnd Hsub].
  exists (log ++ filter (fun k => negb (mem k log)) (nodup bytes_dec (map fst ran))).
  split.
  - apply NoDup_app_intro; [exact Hnd|apply NoDup_filter; apply NoDup_nodup|].
    intros x Hx Hf. apply filter_In in Hf as [_ Hf]. apply negb_true_iff in Hf.
    apply mem_notIn in Hf. contradiction.
  - intros s. rewrite in_app_iff, filter_In, nodup_In. split.
    + intros [Hs|[Hs _]]; [apply Hsub; exact Hs|]. intros Hn. apply alookup_None_notIn in Hn. contradiction.
    + intros Hs. destruct (mem s log) eqn:Hm; [left; apply mem_In; exact Hm|].
      right. split; [|reflexivity].
      destruct (in_dec bytes_dec s (map fst ran)) as [Hin|Hnin]; [exact Hin|].
      apply alookup_None_notIn in Hnin. contradiction.
  - intros HF. destruct HF.
  - intros s Hs. apply in_or_app. left. exact Hs.
  - exact Hnd.
  - intros a b Hab. apply earlier_app_l. exact Hab.
Qed.

Section C08.
  Variable H : bytes -> bytes.
  Variable exec : bytes -> stage -> node -> cache -> res node.
  Variable idx : index.
  Variable c : cache.

  Lemma run_targets_one recursive fuel t root ran log :
    run_targets H exec idx c recursive fuel [t] (Ok (root, ran, log)) =
    run_stage H exec fuel idx c recursive root ran log [] t.
  Proof. reflexivity. Qed.

  Lemma log_ok_nil : log_ok [] [].
  Proof. split; [constructor|]. intros s Hs. destruct Hs. Qed.

  (* ---- C08_once ---- *)
  Theorem C08_once recursive fuel ts root ran log root' ran' log' :
    log_ok ran log ->
    run_targets H exec idx c recursive fuel ts (Ok (root, ran, log)) = Ok (root', ran', log') ->
    log_ok ran' log'.
  Proof.
    intros Hok Hrun. destruct (W_any idx recursive ran log Hok) as [fin HW].
    destruct (run_targets_post H exec idx c recursive False fuel ts _ _ _ _ _ _ _ HW Hrun) as [fin' [Hp _]].
    pose proof (P_W _ _ _ _ _ _ _ _ _ _ _ Hp) as HW'. split.
    - apply HW'.
    - intros s Hs. apply (W_dom _ _ _ _ _ _ HW'). apply (W_log_sub _ _ _ _ _ _ HW'). exact Hs.
  Qed.

  Corollary C08_once_single recursive fuel t root root' ran' log' :
    run_stage H exec fuel idx c recursive root [] [] [] t = Ok (root', ran', log') ->
    NoDup log'.
  Proof.
    intros Hrun. rewrite <- run_targets_one in Hrun.
    apply (C08_once _ _ _ _ _ _ _ _ _ log_ok_nil Hrun).
  Qed.

  (* ---- C08_scope ---- *)
  Theorem C08_scope recursive fuel ts root ran log root' ran' log' s :
    log_ok ran log ->
    run_targets H exec idx c recursive fuel ts (Ok (root, ran, log)) = Ok (root', ran', log') ->
    alookup s ran' <> None ->
    alookup s ran <> None \/
    exists t, In t ts /\ (if recursive then clos_refl_trans bytes (edge idx) s t else s = t).
  Proof.
    intros Hok Hrun Hs. destruct (W_any idx recursive ran log Hok) as [fin HW].
    destruct (run_targets_post H exec idx c recursive False fuel ts _ _ _ _ _ _ _ HW Hrun) as [fin' [Hp _]].
    pose proof (P_W _ _ _ _ _ _ _ _ _ _ _ Hp) as HW'.
    apply (W_dom _ _ _ _ _ _ HW') in Hs.
    destruct (P_fin _ _ _ _ _ _ _ _ _ _ _ Hp) as [e [He Hsc]]. rewrite He in Hs.
    apply in_app_or in Hs as [Hs|Hs].
    - right. destruct (Hsc s Hs) as [t [Ht Hin]]. exists t. split; [exact Ht|].
      unfold in_scope in Hin. destruct recursive; [apply upstream_clos; exact Hin|exact Hin].
    - left. apply (W_dom _ _ _ _ _ _ HW). exact Hs.
  Qed.

  Corollary C08_scope_single recursive fuel t root root' ran' log' s :
    run_stage H exec fuel idx c recursive root [] [] [] t = Ok (root', ran', log') ->
    alookup s ran' <> None ->
    if recursive then clos_refl_trans bytes (edge idx) s t else s = t.
  Proof.
    intros Hrun Hs. rewrite <- run_targets_one in Hrun.
    destruct (C08_scope _ _ _ _ _ _ _ _ _ s log_ok_nil Hrun Hs) as [Hn|[t' [[Ht'|Ht'] Hsc]]].
    - exfalso. apply Hn. reflexivity.
    - subst t'. exact Hsc.
    - destruct Ht'.
  Qed.

  (* ---- the full invariant (recursive = true), as a predicate on the visible state ---- *)
  Definition run_inv (ran : list (bytes * bool)) (log : list bytes) : Prop :=
    exists fin, W idx true True ran log fin.

  Lemma run_inv_init : run_inv [] [].
  Proof. exists []. apply W_nil. Qed.

  Lemma run_inv_log_ok ran log : run_inv ran log -> log_ok ran log.
  Proof.
    intros [fin HW]. split; [apply HW|]. intros s Hs.
    apply (W_dom _ _ _ _ _ _ HW). apply (W_log_sub _ _ _ _ _ _ HW). exact Hs.
  Qed.

  Theorem run_inv_preserved fuel ts root ran log root' ran' log' :
    run_inv ran log ->
    run_targets H exec idx c true fuel ts (Ok (root, ran, log)) = Ok (root', ran', log') ->
    run_inv ran' log'.
  Proof.
    intros [fin HW] Hrun.
    destruct (run_targets_post H exec idx c true True fuel ts _ _ _ _ _ _ _ HW Hrun) as [fin' [Hp _]].
    exists fin'. apply Hp.
  Qed.

  (* ---- C08_order ---- *)
  Lemma W_order ran log fin a b :
    W idx true True ran log fin -> edge idx a b -> In a log -> In b log -> earlier log a b.
  Proof.
    intros HW Hab Ha Hb.
    pose proof (W_core _ _ _ _ _ _ HW I eq_refl) as Hc.
    assert (Hfab : earlier fin a b).
    { apply (core_owners _ _ Hc); [apply (W_log_sub _ _ _ _ _ _ HW); exact Hb|exact Hab]. }
    destruct (bytes_dec a b) as [Heq|Hne].
    { subst b. exfalso. eapply earlier_irrefl; [apply (W_nodup _ _ _ _ _ _ HW)|exact Hfab]. }
    destruct (earlier_total log a b Ha Hb Hne) as [He|He]; [exact He|].
    exfalso. apply (W_log_order _ _ _ _ _ _ HW) in He.
    eapply earlier_irrefl; [apply (W_nodup _ _ _ _ _ _ HW)|].
    eapply earlier_trans; [apply (W_nodup _ _ _ _ _ _ HW)|exact Hfab|exact He].
  Qed.

  (* if A owns an input of B and both were executed, A was executed strictly before B *)
  Theorem C08_order fuel ts root ran log root' ran' log' a b :
    run_inv ran log ->
    run_targets H exec idx c true fuel ts (Ok (root, ran, log)) = Ok (root', ran', log') ->
    edge idx a b -> In a log' -> In b log' ->
    exists p q r, rev log' = p ++ a :: q ++ b :: r.
  Proof.
    intros Hinv Hrun Hab Ha Hb.
    destruct (run_inv_preserved _ _ _ _ _ _ _ _ Hinv Hrun) as [fin' HW'].
    apply earlier_rev. eapply W_order; eassumption.
  Qed.

  Corollary C08_order_single fuel t root root' ran' log' a b :
    run_stage H exec fuel idx c true root [] [] [] t = Ok (root', ran', log') ->
    edge idx a b -> In a log' -> In b log' ->
    exists p q r, rev log' = p ++ a :: q ++ b :: r.
  Proof.
    intros Hrun. rewrite <- run_targets_one in Hrun.
    apply (C08_order _ _ _ _ _ _ _ _ a b run_inv_init Hrun).
  Qed.

  (* the order in which stages entered [ran] (ghost list fin, newest first): every owner of an
     input of a visited stage B entered ran strictly before B did, and B is executed (if at all)
     at the moment it enters ran: the log order is the fin order *)
  Theorem C08_finish_order fuel ts root ran log root' ran' log' :
    run_inv ran log ->
    run_targets H exec idx c true fuel ts (Ok (root, ran, log)) = Ok (root', ran', log') ->
    exists fin,
      NoDup fin /\
      (forall s, In s fin <-> alookup s ran' <> None) /\
      (forall s, In s log' -> In s fin) /\
      (forall a b, earlier log' a b -> earlier fin a b) /\
      (forall a b, In b fin -> edge idx a b -> earlier fin a b).
  Proof.
    intros Hinv Hrun. destruct (run_inv_preserved _ _ _ _ _ _ _ _ Hinv Hrun) as [fin' HW'].
    exists fin'. split; [apply HW'|]. split; [apply HW'|]. split; [apply HW'|]. split; [apply HW'|].
    apply (core_owners _ _ (W_core _ _ _ _ _ _ HW' I eq_refl)).
  Qed.

  (* the local form: run_stage (S f) on a fresh stage sp is [run_finish sp stg (run_ins ...)]
     (lemma run_stage_S) and exec is only applied inside run_finish, to the state produced by
     run_ins; in that state every owner of an input of sp is already in ran *)
  Theorem C08_owners_before_exec f stack sp stg root ran log root1 ran1 log1 do1 :
    run_inv ran log -> disj ran (sp :: stack) -> alookup sp idx = Some stg ->
    run_ins H exec idx c true f (sp :: stack) (s_inputs stg) root ran log (do0_of H stg)
      = Ok (root1, ran1, log1, do1) ->
    forall a, edge idx a sp -> alookup a ran1 <> None.
  Proof.
    intros [fin HW] Hd Hstg Hins a [stg' [art [up [Hstg' [Hart Hfo]]]]].
    rewrite Hstg in Hstg'. inversion Hstg'; subst stg'.
    destruct (ins_post H exec idx c true True f (sp :: stack) sp stg
                       (run_post H exec idx c true True f (sp :: stack)) Hstg _ _ _ _ _ fin _ _ _ _
                       (incl_refl _) HW Hd Hins) as [fin1 [Hp1 Hown1]].
    apply (W_dom _ _ _ _ _ _ (P_W _ _ _ _ _ _ _ _ _ _ _ Hp1)).
    eapply Hown1; [reflexivity|exact Hart|exact Hfo].
  Qed.

  (* ---- C08_cycle ---- *)
  (* a cycle at or upstream of the target makes run_stage fail (whatever the fuel) *)
  Theorem C08_cycle fuel root ran log stack t a :
    run_inv ran log -> disj ran stack ->
    clos_refl_trans bytes (edge idx) a t -> clos_trans bytes (edge idx) a a ->
    run_stage H exec fuel idx c true root ran log stack t = Err.
  Proof.
    intros [fin HW] Hd Hup Hcyc.
    destruct (run_stage H exec fuel idx c true root ran log stack t) as [[[root' ran'] log']|] eqn:Hrun;
      [|reflexivity].
    exfalso.
    destruct (run_post H exec idx c true True fuel stack _ _ _ _ _ _ _ _ HW Hd Hrun) as [fin' [Hp Ht]].
    pose proof (W_core _ _ _ _ _ _ (P_W _ _ _ _ _ _ _ _ _ _ _ Hp) I eq_refl) as Hc.
    apply upstream_clos in Hup. apply path_clos_trans in Hcyc.
    eapply core_no_cycle_upstream; eassumption.
  Qed.

  Theorem C08_cycle_targets fuel ts root ran log t a :
    run_inv ran log -> In t ts ->
    clos_refl_trans bytes (edge idx) a t -> clos_trans bytes (edge idx) a a ->
    run_targets H exec idx c true fuel ts (Ok (root, ran, log)) = Err.
  Proof.
    intros [fin HW] Ht Hup Hcyc.
    destruct (run_targets H exec idx c true fuel ts (Ok (root, ran, log))) as [[[root' ran'] log']|] eqn:Hrun;
      [|reflexivity].
    exfalso.
    destruct (run_targets_post H exec idx c true True fuel ts _ _ _ _ _ _ _ HW Hrun) as [fin' [Hp Hts]].
    pose proof (W_core _ _ _ _ _ _ (P_W _ _ _ _ _ _ _ _ _ _ _ Hp) I eq_refl) as Hc.
    apply upstream_clos in Hup. apply path_clos_trans in Hcyc.
    eapply core_no_cycle_upstream; [exact Hc|apply Hts; exact Ht|exact Hup|exact Hcyc].
  Qed.

  (* no stage on a cycle is in the log (nor even in ran) of a successful run *)
  Theorem C08_executed_not_on_cycle fuel ts root ran log root' ran' log' s :
    run_inv ran log ->
    run_targets H exec idx c true fuel ts (Ok (root, ran, log)) = Ok (root', ran', log') ->
    (In s log' \/ alookup s ran' <> None) -> ~ clos_trans bytes (edge idx) s s.
  Proof.
    intros Hinv Hrun Hs Hcyc. destruct (run_inv_preserved _ _ _ _ _ _ _ _ Hinv Hrun) as [fin' HW'].
    apply path_clos_trans in Hcyc.
    eapply core_acyclic; [apply (W_core _ _ _ _ _ _ HW' I eq_refl)| |exact Hcyc].
    destruct Hs as [Hs|Hs]; [apply (W_log_sub _ _ _ _ _ _ HW'); exact Hs|apply (W_dom _ _ _ _ _ _ HW'); exact Hs].
  Qed.

  (* exec is never applied to a stage on a cycle, in failing runs either: the result of the whole
     traversal does not depend on what exec does on such stages.  (Taking for exec' the function
     that fails on the stages of a set X of on-cycle stages gives the formulation "exec may as
     well refuse every stage of X".) *)
  Theorem C08_cycle_exec_irrelevant exec' fuel ts root ran log :
    (forall sp stg root0, ~ clos_trans bytes (edge idx) sp sp -> exec sp stg root0 c = exec' sp stg root0 c) ->
    run_inv ran log ->
    run_targets H exec idx c true fuel ts (Ok (root, ran, log)) =
    run_targets H exec' idx c true fuel ts (Ok (root, ran, log)).
  Proof.
    intros Hagree. assert (Hagree' : forall sp stg root0, ~ on_cycle idx sp -> exec sp stg root0 c = exec' sp stg root0 c).
    { intros sp stg root0 Hn. apply Hagree. intros Hc. apply Hn. apply path_clos_trans. exact Hc. }
    revert root ran log. induction ts as [|t r IH]; intros root ran log [fin HW]; [reflexivity|].
    rewrite !run_targets_cons.
    rewrite <- (run_ext H exec exec' idx c Hagree' fuel [] root ran log fin t HW (disj_nil ran)).
    destruct (run_stage H exec fuel idx c true root ran log [] t) as [[[root1 ran1] log1]|] eqn:Hone.
    - destruct (run_post H exec idx c true True fuel [] _ _ _ _ _ _ _ _ HW (disj_nil ran) Hone) as [fin1 [Hp1 _]].
      apply IH. exists fin1. apply Hp1.
    - rewrite !run_targets_Err. reflexivity.
  Qed.

  (* ---- C08_fuel ---- *)
  Theorem C08_fuel recursive fuel' root ran log t :
    (S (length idx) <= fuel')%nat ->
    run_stage H exec fuel' idx c recursive root ran log [] t =
    run_stage H exec (S (length idx)) idx c recursive root ran log [] t.
  Proof.
    intros Hle. apply run_fuel; [apply stack_ok_nil|simpl; lia|simpl; lia].
  Qed.

  Theorem C08_fuel_targets recursive fuel' ts init :
    (S (length idx) <= fuel')%nat ->
    run_targets H exec idx c recursive fuel' ts init =
    run_targets H exec idx c recursive (S (length idx)) ts init.
  Proof.
    intros Hle. revert init. induction ts as [|t r IH]; intros init; [reflexivity|].
    destruct init as [[[root ran] log]|].
    - rewrite !run_targets_cons. rewrite (C08_fuel recursive fuel' root ran log t Hle). apply IH.
    - rewrite !run_targets_Err. reflexivity.
  Qed.

  (* with enough fuel a cycle upstream of a target is the reason of the failure, and the failure
     is the same at every larger fuel *)
  Corollary C08_cycle_fuel fuel' root t a :
    (S (length idx) <= fuel')%nat ->
    clos_refl_trans bytes (edge idx) a t -> clos_trans bytes (edge idx) a a ->
    run_stage H exec fuel' idx c true root [] [] [] t = Err.
  Proof. intros _. apply C08_cycle; [apply run_inv_init|apply disj_nil]. Qed.
End C08.

Print Assumptions C08_once.
Print Assumptions C08_once_single.
Print Assumptions C08_scope.
Print Assumptions C08_scope_single.
Print Assumptions run_inv_preserved.
Print Assumptions C08_order.
Print Assumptions C08_order_single.
Print Assumptions C08_finish_order.
Print Assumptions C08_owners_before_exec.
Print Assumptions C08_cycle.
Print Assumptions C08_cycle_targets.
Print Assumptions C08_executed_not_on_cycle.
Print Assumptions C08_cycle_exec_irrelevant.
Print Assumptions C08_fuel.
Print Assumptions C08_fuel_targets.
Print Assumptions C08_cycle_fuel.

(* ------------------------------------------------------------------------------------------ *)
(* non-vacuity: a 3-stage chain and a 2-cycle                                                  *)
(* ------------------------------------------------------------------------------------------ *)
Module Examples.
  Local Open Scope N_scope.
  Definition art (p : bytes) : artifact := mkArt [] p false false false.
  Definition sA : bytes := [97].  Definition sB : bytes := [98].  Definition sC : bytes := [99].
  Definition fx : bytes := [120]. Definition fy : bytes := [121]. Definition fz : bytes := [122].
  Definition cmd : bytes := [116].

  (* A: -> x ; B: x -> y ; C: y -> z *)
  Definition chain : index :=
    [ (sA, mkStage [] cmd [] [] [art fx]);
      (sB, mkStage [] cmd [] [art fx] [art fy]);
      (sC, mkStage [] cmd [] [art fy] [art fz]) ].

  Definition idH : bytes -> bytes := fun b => b.
  Definition ok_exec : bytes -> stage -> node -> cache -> res node := fun _ _ r _ => Ok r.

  Example chain_edge_AB : edge chain sA sB.
  Proof. exists (mkStage [] cmd [] [art fx] [art fy]), (art fx), (art fx). repeat split. left. reflexivity. Qed.
  Example chain_edge_BC : edge chain sB sC.
  Proof. exists (mkStage [] cmd [] [art fy] [art fz]), (art fy), (art fy). repeat split. left. reflexivity. Qed.

  Example chain_run :
    run_stage idH ok_exec (S (length chain)) chain [] true (Dir []) [] [] [] sC
    = Ok (Dir [], [(sA, true); (sB, true); (sC, true)], [sC; sB; sA]).
  Proof. vm_compute. reflexivity. Qed.

  Example chain_run_single :
    run_stage idH ok_exec (S (length chain)) chain [] false (Dir []) [] [] [] sC
    = Ok (Dir [], [(sC, true)], [sC]).
  Proof. vm_compute. reflexivity. Qed.

  (* the premises of C08_order hold on the chain, and its conclusion is the expected one *)
  Example chain_order : exists p q r, rev [sC; sB; sA] = p ++ sA :: q ++ sB :: r.
  Proof.
    apply (C08_order_single idH ok_exec chain [] _ sC (Dir []) _ _ _ sA sB chain_run chain_edge_AB);
      simpl; tauto.
  Qed.

  (* P: q -> p ; Q: p -> q *)
  Definition sP : bytes := [112]. Definition sQ : bytes := [113].
  Definition fp : bytes := [117]. Definition fq : bytes := [118].
  Definition cyc : index :=
    [ (sP, mkStage [] cmd [] [art fq] [art fp]);
      (sQ, mkStage [] cmd [] [art fp] [art fq]) ].

  Example cyc_edge_PQ : edge cyc sP sQ.
  Proof. exists (mkStage [] cmd [] [art fp] [art fq]), (art fp), (art fp). repeat split. left. reflexivity. Qed.
  Example cyc_edge_QP : edge cyc sQ sP.
  Proof. exists (mkStage [] cmd [] [art fq] [art fp]), (art fq), (art fq). repeat split. left. reflexivity. Qed.

  Example cyc_on_cycle : clos_trans bytes (edge cyc) sP sP.
  Proof. eapply t_trans; apply t_step; [exact cyc_edge_PQ|exact cyc_edge_QP]. Qed.

  Example cyc_run : run_stage idH ok_exec (S (length cyc)) cyc [] true (Dir []) [] [] [] sP = Err.
  Proof. vm_compute. reflexivity. Qed.

  (* the same by the theorem (premises: P is the target itself and lies on a cycle) *)
  Example cyc_run_thm : run_stage idH ok_exec (S (length cyc)) cyc [] true (Dir []) [] [] [] sP = Err.
  Proof. apply (C08_cycle_fuel idH ok_exec cyc [] _ (Dir []) sP sP); [lia|apply rt_refl|exact cyc_on_cycle]. Qed.

  (* with recursive = false a stage on a cycle IS executed: the cycle theorems need recursive = true *)
  Example cyc_run_single :
    run_stage idH ok_exec (S (length cyc)) cyc [] false (Dir []) [] [] [] sP = Ok (Dir [], [(sP, true)], [sP]).
  Proof. vm_compute. reflexivity. Qed.
End Examples.

(* ------------------------------------------------------------------------------------------ *)
(* checkout_stage: cycle => Err, fuel                                                          *)
(* ------------------------------------------------------------------------------------------ *)
Section Checkout.
  Variable H : bytes -> bytes.
  Variable idx : index.
  Variable c : cache.
  Variable strat : strategy.

  Fixpoint co_ins (recursive : bool) (f : nat) (stack : list bytes) (arts : list artifact)
           (root : node) (done : list bytes) : res (node * list bytes) :=
    match arts with
    | [] => Ok (root, done)
    | a :: r =>
      match find_owner idx (a_path a) with
      | Some (op, _) =>
        if recursive then
          match checkout_stage H f idx c strat recursive root done stack op with
          | Ok (root', done') => co_ins recursive f stack r root' done'
          | Err => Err
          end
        else co_ins recursive f stack r root done
      | None => co_ins recursive f stack r root done
      end
    end.

  Lemma checkout_stage_S recursive f root done inprog sp :
    checkout_stage H (S f) idx c strat recursive root done inprog sp =
    if mem sp done then Ok (root, done)
    else if mem sp inprog then Err
    else match alookup sp idx with
         | None => Err
         | Some stg =>
           match co_ins recursive f (sp :: inprog) (s_inputs stg) root done with
           | Err => Err
           | Ok (root1, done1) =>
             match checkout_arts H 64 (s_outputs stg) root1 c strat with
             | Ok root2 => Ok (root2, sp :: done1)
             | Err => Err
             end
           end
         end.
  Proof.
    cbn [checkout_stage].
    destruct (mem sp done); [reflexivity|].
    destruct (mem sp inprog); [reflexivity|].
    destruct (alookup sp idx) as [stg|]; [|reflexivity].
    match goal with
    | |- match ?F _ _ _ with _ => _ end = _ =>
      assert (Hins : forall arts root0 done0,
                 F arts root0 done0 = co_ins recursive f (sp :: inprog) arts root0 done0)
    end.
    { induction arts as [|a r IH]; intros root0 done0; cbn [co_ins]; [reflexivity|].
      destruct (find_owner idx (a_path a)) as [[op up]|]; [|apply IH].
      destruct recursive; [|apply IH].
      destruct (checkout_stage H f idx c strat true root0 done0 (sp :: inprog) op) as [[root' done']|];
        [apply IH|reflexivity]. }
    rewrite Hins. reflexivity.
  Qed.

  (* ---- fuel ---- *)
  Lemma co_ins_fuel recursive f f' stack :
    (forall root done sp,
        checkout_stage H f idx c strat recursive root done stack sp =
        checkout_stage H f' idx c strat recursive root done stack sp) ->
    forall arts root done,
      co_ins recursive f stack arts root done = co_ins recursive f' stack arts root done.
  Proof.
    intros IH. induction arts as [|a r IHr]; intros root done; cbn [co_ins]; [reflexivity|].
    destruct (find_owner idx (a_path a)) as [[op up]|]; [|apply IHr].
    destruct recursive; [|apply IHr]. rewrite IH.
    destruct (checkout_stage H f' idx c strat true root done stack op) as [[root1 done1]|];
      [apply IHr|reflexivity].
  Qed.

  Lemma checkout_fuel recursive : forall f f' stack root done sp,
    stack_ok idx stack ->
    (length idx < f + length stack)%nat -> (length idx < f' + length stack)%nat ->
    checkout_stage H f idx c strat recursive root done stack sp =
    checkout_stage H f' idx c strat recursive root done stack sp.
  Proof.
    induction f as [|f IH]; intros f' stack root done sp Hok Hf Hf'.
    { exfalso. apply stack_ok_len in Hok. lia. }
    destruct f' as [|f'].
    { exfalso. apply stack_ok_len in Hok. lia. }
    rewrite !checkout_stage_S.
    destruct (mem sp done); [reflexivity|].
    destruct (mem sp stack) eqn:Hmem; [reflexivity|].
    destruct (alookup sp idx) as [stg|] eqn:Hstg; [|reflexivity].
    rewrite (co_ins_fuel recursive f f' (sp :: stack)); [reflexivity|].
    intros root0 done0 sp0. apply IH.
    - eapply stack_ok_push; eassumption.
    - simpl. lia.
    - simpl. lia.
  Qed.

  (* ---- invariant (recursive = true): [done] itself is the finish order ---- *)
  Definition cdisj (done stack : list bytes) : Prop := forall s, In s stack -> ~ In s done.

  Definition co_spec (f : nat) (stack : list bytes) : Prop :=
    forall root done sp root' done',
      core idx done -> cdisj done stack ->
      checkout_stage H f idx c strat true root done stack sp = Ok (root', done') ->
      core idx done' /\ (exists e, done' = e ++ done) /\ cdisj done' stack /\ In sp done'.

  Lemma co_ins_post f stack :
    co_spec f stack ->
    forall arts root done root' done',
      core idx done -> cdisj done stack ->
      co_ins true f stack arts root done = Ok (root', done') ->
      core idx done' /\ (exists e, done' = e ++ done) /\ cdisj done' stack /\
      (forall a op up, In a arts -> find_owner idx (a_path a) = Some (op, up) -> In op done').
  Proof.
    intros IH. induction arts as [|a r IHr]; intros root done root' done' Hc Hd Hrun; cbn [co_ins] in Hrun.
    - inversion Hrun; subst. split; [exact Hc|]. split; [exists []; reflexivity|]. split; [exact Hd|].
      intros a op up Ha. destruct Ha.
    - destruct (find_owner idx (a_path a)) as [[op up]|] eqn:Hfo.
      + destruct (checkout_stage H f idx c strat true root done stack op) as [[root1 done1]|] eqn:Hsub;
          [|discriminate].
        destruct (IH _ _ _ _ _ Hc Hd Hsub) as [Hc1 [[e1 He1] [Hd1 Hop]]].
        destruct (IHr _ _ _ _ Hc1 Hd1 Hrun) as [Hc2 [[e2 He2] [Hd2 Hown2]]].
        split; [exact Hc2|]. split; [exists (e2 ++ e1); subst; rewrite app_assoc; reflexivity|].
        split; [exact Hd2|].
        intros a' op' up' [Ha'|Ha'] Hfo'.
        * subst a'. assert (Heq : op' = op) by congruence. rewrite Heq, He2.
          apply in_or_app. right. exact Hop.
        * eapply Hown2; eassumption.
      + destruct (IHr _ _ _ _ Hc Hd Hrun) as [Hc2 [He2 [Hd2 Hown2]]].
        split; [exact Hc2|]. split; [exact He2|]. split; [exact Hd2|].
        intros a' op' up' [Ha'|Ha'] Hfo'; [subst a'; congruence|eapply Hown2; eassumption].
  Qed.

  Lemma co_post : forall f stack, co_spec f stack.
  Proof.
    induction f as [|f IH]; intros stack root done sp root' done' Hc Hd Hrun.
    { simpl in Hrun. discriminate. }
    rewrite checkout_stage_S in Hrun.
    destruct (mem sp done) eqn:Hdone.
    { inversion Hrun; subst. split; [exact Hc|]. split; [exists []; reflexivity|]. split; [exact Hd|].
      apply mem_In. exact Hdone. }
    destruct (mem sp stack) eqn:Hmem; [discriminate|].
    destruct (alookup sp idx) as [stg|] eqn:Hstg; [|discriminate].
    destruct (co_ins true f (sp :: stack) (s_inputs stg) root done) as [[root1 done1]|] eqn:Hins; [|discriminate].
    destruct (checkout_arts H 64 (s_outputs stg) root1 c strat) as [root2|]; [|discriminate].
    inversion Hrun; subst root' done'.
    assert (Hd0 : cdisj done (sp :: stack)).
    { intros s [Hs|Hs]; [subst s; apply mem_notIn; exact Hdone|apply Hd; exact Hs]. }
    destruct (co_ins_post f (sp :: stack) (IH (sp :: stack)) _ _ _ _ _ Hc Hd0 Hins)
      as [Hc1 [[e1 He1] [Hd1 Hown1]]].
    split; [|split; [|split]].
    - apply core_finish; [exact Hc1|apply Hd1; left; reflexivity|].
      intros a [stg' [art [up [Hstg' [Hart Hfo]]]]].
      rewrite Hstg in Hstg'. inversion Hstg'; subst stg'. eapply Hown1; eassumption.
    - exists (sp :: e1). simpl. congruence.
    - intros s Hs [Heq|Hin].
      + subst s. apply mem_notIn in Hmem. contradiction.
      + apply (Hd1 s); [right; exact Hs|exact Hin].
    - left. reflexivity.
  Qed.

  Definition checkout_targets (recursive : bool) (fuel : nat) (ts : list bytes) (init : res (node * list bytes))
    : res (node * list bytes) :=
    fold_left (fun acc t =>
                 match acc with
                 | Ok (root, done) => checkout_stage H fuel idx c strat recursive root done [] t
                 | Err => Err
                 end) ts init.

  Lemma checkout_targets_Err recursive fuel ts : checkout_targets recursive fuel ts Err = Err.
  Proof. induction ts as [|t r IH]; [reflexivity|exact IH]. Qed.

  Lemma cdisj_nil done : cdisj done [].
  Proof. intros s Hs. destruct Hs. Qed.

  Lemma checkout_targets_cons recursive fuel t r root done :
    checkout_targets recursive fuel (t :: r) (Ok (root, done)) =
    checkout_targets recursive fuel r (checkout_stage H fuel idx c strat recursive root done [] t).
  Proof. reflexivity. Qed.

  Lemma checkout_targets_post fuel : forall ts root done root' done',
    core idx done ->
    checkout_targets true fuel ts (Ok (root, done)) = Ok (root', done') ->
    core idx done' /\ (exists e, done' = e ++ done) /\ forall t, In t ts -> In t done'.
  Proof.
    induction ts as [|t r IH]; intros root done root' done' Hc Hrun.
    - inversion Hrun; subst. split; [exact Hc|]. split; [exists []; reflexivity|]. intros t Ht. destruct Ht.
    - rewrite checkout_targets_cons in Hrun.
      destruct (checkout_stage H fuel idx c strat true root done [] t) as [[root1 done1]|] eqn:Hone.
      2:{ rewrite checkout_targets_Err in Hrun. discriminate. }
      destruct (co_post fuel [] _ _ _ _ _ Hc (cdisj_nil done) Hone) as [Hc1 [[e1 He1] [_ Ht1]]].
      destruct (IH _ _ _ _ Hc1 Hrun) as [Hc2 [[e2 He2] Hts2]]. split; [exact Hc2|].
      split; [exists (e2 ++ e1); rewrite He2, He1; rewrite app_assoc; reflexivity|].
      intros t' [Ht'|Ht']; [|apply Hts2; exact Ht'].
      subst t'. rewrite He2. apply in_or_app. right. exact Ht1.
  Qed.

  (* ---- the theorems ---- *)
  Theorem C08_checkout_cycle fuel root done stack t a :
    core idx done -> cdisj done stack ->
    clos_refl_trans bytes (edge idx) a t -> clos_trans bytes (edge idx) a a ->
    checkout_stage H fuel idx c strat true root done stack t = Err.
  Proof.
    intros Hc Hd Hup Hcyc.
    destruct (checkout_stage H fuel idx c strat true root done stack t) as [[root' done']|] eqn:Hrun;
      [|reflexivity].
    exfalso. destruct (co_post fuel stack _ _ _ _ _ Hc Hd Hrun) as [Hc' [_ [_ Ht]]].
    apply upstream_clos in Hup. apply path_clos_trans in Hcyc.
    eapply core_no_cycle_upstream; eassumption.
  Qed.

  (* as System.step (CCheckout) runs it: from done = [] over the list of targets *)
  Theorem C08_checkout_cycle_targets fuel ts root t a :
    In t ts -> clos_refl_trans bytes (edge idx) a t -> clos_trans bytes (edge idx) a a ->
    checkout_targets true fuel ts (Ok (root, [])) = Err.
  Proof.
    intros Ht Hup Hcyc.
    destruct (checkout_targets true fuel ts (Ok (root, []))) as [[root' done']|] eqn:Hrun; [|reflexivity].
    exfalso. destruct (checkout_targets_post fuel ts _ _ _ _ (core_nil idx) Hrun) as [Hc' [_ Hts]].
    apply upstream_clos in Hup. apply path_clos_trans in Hcyc.
    eapply core_no_cycle_upstream; [exact Hc'|apply Hts; exact Ht|exact Hup|exact Hcyc].
  Qed.

  Theorem C08_checkout_fuel recursive fuel' root done t :
    (S (length idx) <= fuel')%nat ->
    checkout_stage H fuel' idx c strat recursive root done [] t =
    checkout_stage H (S (length idx)) idx c strat recursive root done [] t.
  Proof.
    intros Hle. apply checkout_fuel; [apply stack_ok_nil|simpl; lia|simpl; lia].
  Qed.

  Theorem C08_checkout_fuel_targets recursive fuel' ts init :
    (S (length idx) <= fuel')%nat ->
    checkout_targets recursive fuel' ts init = checkout_targets recursive (S (length idx)) ts init.
  Proof.
    intros Hle. revert init. induction ts as [|t r IH]; intros init; [reflexivity|].
    destruct init as [[root done]|].
    - rewrite !checkout_targets_cons. rewrite (C08_checkout_fuel recursive fuel' root done t Hle). apply IH.
    - rewrite !checkout_targets_Err. reflexivity.
  Qed.
End Checkout.

Print Assumptions C08_checkout_cycle.
Print Assumptions C08_checkout_cycle_targets.
Print Assumptions C08_checkout_fuel.
Print Assumptions C08_checkout_fuel_targets.

(* ------------------------------------------------------------------------------------------ *)
(* status_stage: cycle => Err, fuel                                                            *)
(* ------------------------------------------------------------------------------------------ *)
Definition adisj {A} (m : list (bytes * A)) (stack : list bytes) : Prop :=
  forall s, In s stack -> alookup s m = None.

Section Status.
  Variable H : bytes -> bytes.
  Variable idx : index.
  Variable c : cache.
  Variable root : node.

  Fixpoint st_ins (f : nat) (stack : list bytes) (arts : list artifact) (out : list (bytes * sstatus))
    : res (list artifact * list (bytes * sstatus)) :=
    match arts with
    | [] => Ok ([], out)
    | a :: r =>
      match find_owner idx (a_path a) with
      | Some (op, _) =>
        match status_stage H f idx c root out stack op with
        | Ok out' => st_ins f stack r out'
        | Err => Err
        end
      | None => match st_ins f stack r out with
                | Ok (plain, out') => Ok (a :: plain, out')
                | Err => Err
                end
      end
    end.

  Definition st_finish (sp : bytes) (stg : stage) (r : res (list artifact * list (bytes * sstatus)))
    : res (list (bytes * sstatus)) :=
    match r with
    | Err => Err
    | Ok (plain, out1) =>
      match status_arts H plain root c, status_arts H (s_outputs stg) root c with
      | Ok l1, Ok l2 =>
        let has := match s_cs stg with [] => false | _ => true end in
        Ok (ins_sorted sp (mkSS has (has && beqb (def_checksum H stg) (s_cs stg))
                                (sort_kv (l1 ++ l2))) out1)
      | _, _ => Err
      end
    end.

  Lemma status_stage_S f out inprog sp :
    status_stage H (S f) idx c root out inprog sp =
    match alookup sp out with
    | Some _ => Ok out
    | None =>
      if mem sp inprog then Err
      else match alookup sp idx with
           | None => Err
           | Some stg => st_finish sp stg (st_ins f (sp :: inprog) (s_inputs stg) out)
           end
    end.
  Proof.
    cbn [status_stage].
    destruct (alookup sp out) as [b|]; [reflexivity|].
    destruct (mem sp inprog); [reflexivity|].
    destruct (alookup sp idx) as [stg|]; [|reflexivity].
    unfold st_finish.
    match goal with
    | |- match ?F _ _ with _ => _ end = _ =>
      assert (Hins : forall arts out0, F arts out0 = st_ins f (sp :: inprog) arts out0)
    end.
    { induction arts as [|a r IH]; intros out0; cbn [st_ins]; [reflexivity|].
      destruct (find_owner idx (a_path a)) as [[op up]|].
      - destruct (status_stage H f idx c root out0 (sp :: inprog) op) as [out'|]; [apply IH|reflexivity].
      - rewrite IH. reflexivity. }
    rewrite Hins. reflexivity.
  Qed.

  Lemma st_finish_Ok sp stg r out' :
    st_finish sp stg r = Ok out' ->
    exists plain out1 v, r = Ok (plain, out1) /\ out' = ins_sorted sp v out1.
  Proof.
    unfold st_finish. destruct r as [[plain out1]|]; [|discriminate].
    destruct (status_arts H plain root c) as [l1|]; [|discriminate].
    destruct (status_arts H (s_outputs stg) root c) as [l2|]; [|discriminate].
    intros Heq. inversion Heq. eexists _, _, _. split; reflexivity.
  Qed.

  (* ---- fuel ---- *)
  Lemma st_ins_fuel f f' stack :
    (forall out sp, status_stage H f idx c root out stack sp = status_stage H f' idx c root out stack sp) ->
    forall arts out, st_ins f stack arts out = st_ins f' stack arts out.
  Proof.
    intros IH. induction arts as [|a r IHr]; intros out; cbn [st_ins]; [reflexivity|].
    destruct (find_owner idx (a_path a)) as [[op up]|].
    - rewrite IH. destruct (status_stage H f' idx c root out stack op) as [out'|]; [apply IHr|reflexivity].
    - rewrite IHr. reflexivity.
  Qed.

  Lemma status_fuel : forall f f' stack out sp,
    stack_ok idx stack ->
    (length idx < f + length stack)%nat -> (length idx < f' + length stack)%nat ->
    status_stage H f idx c root out stack sp = status_stage H f' idx c root out stack sp.
  Proof.
    induction f as [|f IH]; intros f' stack out sp Hok Hf Hf'.
    { exfalso. apply stack_ok_len in Hok. lia. }
    destruct f' as [|f'].
    { exfalso. apply stack_ok_len in Hok. lia. }
    rewrite !status_stage_S.
    destruct (alookup sp out); [reflexivity|].
    destruct (mem sp stack) eqn:Hmem; [reflexivity|].
    destruct (alookup sp idx) as [stg|] eqn:Hstg; [|reflexivity].
    rewrite (st_ins_fuel f f' (sp :: stack)); [reflexivity|].
    intros out0 sp0. apply IH.
    - eapply stack_ok_push; eassumption.
    - simpl. lia.
    - simpl. lia.
  Qed.

  (* ---- invariant: ghost finish order for [out] ---- *)
  Definition Ws (out : list (bytes * sstatus)) (fin : list bytes) : Prop :=
    core idx fin /\ forall s, In s fin <-> alookup s out <> None.

  Lemma Ws_nil : Ws [] [].
  Proof.
    split; [apply core_nil|]. intros s. simpl. split; [intros Hf; destruct Hf|intros Hn; apply Hn; reflexivity].
  Qed.

  Lemma Ws_finish out fin sp v :
    Ws out fin -> alookup sp out = None -> (forall a, edge idx a sp -> In a fin) ->
    Ws (ins_sorted sp v out) (sp :: fin).
  Proof.
    intros [Hc Hdom] Hsp Hown.
    assert (Hnotfin : ~ In sp fin).
    { intros Hin. apply Hdom in Hin. contradiction. }
    split; [apply core_finish; assumption|].
    intros s. destruct (bytes_dec s sp) as [Heq|Hne].
    - subst s. rewrite alookup_ins_same. split; [discriminate|]. intros _. left. reflexivity.
    - rewrite alookup_ins_other by exact Hne. rewrite <- Hdom. simpl. split.
      + intros [Heq|Hin]; [congruence|exact Hin].
      + intros Hin. right. exact Hin.
  Qed.

  Definition st_spec (f : nat) (stack : list bytes) : Prop :=
    forall out fin sp out',
      Ws out fin -> adisj out stack ->
      status_stage H f idx c root out stack sp = Ok out' ->
      exists fin', Ws out' fin' /\ (exists e, fin' = e ++ fin) /\ adisj out' stack /\ In sp fin'.

  Lemma st_ins_post f stack :
    st_spec f stack ->
    forall arts out fin plain out',
      Ws out fin -> adisj out stack ->
      st_ins f stack arts out = Ok (plain, out') ->
      exists fin', Ws out' fin' /\ (exists e, fin' = e ++ fin) /\ adisj out' stack /\
        (forall a op up, In a arts -> find_owner idx (a_path a) = Some (op, up) -> In op fin').
  Proof.
    intros IH. induction arts as [|a r IHr]; intros out fin plain out' HW Hd Hrun; cbn [st_ins] in Hrun.
    - inversion Hrun; subst. exists fin. split; [exact HW|]. split; [exists []; reflexivity|].
      split; [exact Hd|]. intros a op up Ha. destruct Ha.
    - destruct (find_owner idx (a_path a)) as [[op up]|] eqn:Hfo.
      + destruct (status_stage H f idx c root out stack op) as [out1|] eqn:Hsub; [|discriminate].
        destruct (IH _ _ _ _ HW Hd Hsub) as [fin1 [HW1 [[e1 He1] [Hd1 Hop]]]].
        destruct (IHr _ _ _ _ HW1 Hd1 Hrun) as [fin2 [HW2 [[e2 He2] [Hd2 Hown2]]]].
        exists fin2. split; [exact HW2|].
        split; [exists (e2 ++ e1); rewrite He2, He1; rewrite app_assoc; reflexivity|].
        split; [exact Hd2|].
        intros a' op' up' [Ha'|Ha'] Hfo'.
        * subst a'. assert (Heq : op' = op) by congruence. rewrite Heq, He2.
          apply in_or_app. right. exact Hop.
        * eapply Hown2; eassumption.
      + destruct (st_ins f stack r out) as [[plain2 out2]|] eqn:Hrest; [|discriminate].
        inversion Hrun; subst plain out'.
        destruct (IHr _ _ _ _ HW Hd Hrest) as [fin2 [HW2 [He2 [Hd2 Hown2]]]].
        exists fin2. split; [exact HW2|]. split; [exact He2|]. split; [exact Hd2|].
        intros a' op' up' [Ha'|Ha'] Hfo'; [subst a'; congruence|eapply Hown2; eassumption].
  Qed.

  Lemma st_post : forall f stack, st_spec f stack.
  Proof.
    induction f as [|f IH]; intros stack out fin sp out' HW Hd Hrun.
    { simpl in Hrun. discriminate. }
    rewrite status_stage_S in Hrun.
    destruct (alookup sp out) as [b|] eqn:Hout.
    { inversion Hrun; subst. exists fin. split; [exact HW|]. split; [exists []; reflexivity|].
      split; [exact Hd|]. apply (proj2 HW). rewrite Hout. discriminate. }
    destruct (mem sp stack) eqn:Hmem; [discriminate|].
    destruct (alookup sp idx) as [stg|] eqn:Hstg; [|discriminate].
    apply st_finish_Ok in Hrun as [plain [out1 [v [Hins Hout']]]]. subst out'.
    assert (Hd0 : adisj out (sp :: stack)).
    { intros s [Hs|Hs]; [subst s; exact Hout|apply Hd; exact Hs]. }
    destruct (st_ins_post f (sp :: stack) (IH (sp :: stack)) _ _ _ _ _ HW Hd0 Hins)
      as [fin1 [HW1 [[e1 He1] [Hd1 Hown1]]]].
    exists (sp :: fin1). split; [|split; [|split]].
    - apply Ws_finish; [exact HW1|apply Hd1; left; reflexivity|].
      intros a [stg' [art [up [Hstg' [Hart Hfo]]]]].
      rewrite Hstg in Hstg'. inversion Hstg'; subst stg'. eapply Hown1; eassumption.
    - exists (sp :: e1). simpl. congruence.
    - intros s Hs. assert (Hne : s <> sp).
      { intros Heq. subst s. apply mem_notIn in Hmem. contradiction. }
      rewrite alookup_ins_other by exact Hne. apply Hd1. right. exact Hs.
    - left. reflexivity.
  Qed.

  Definition status_targets (fuel : nat) (ts : list bytes) (init : res (list (bytes * sstatus)))
    : res (list (bytes * sstatus)) :=
    fold_left (fun acc t =>
                 match acc with
                 | Ok out => status_stage H fuel idx c root out [] t
                 | Err => Err
                 end) ts init.

  Lemma status_targets_Err fuel ts : status_targets fuel ts Err = Err.
  Proof. induction ts as [|t r IH]; [reflexivity|exact IH]. Qed.

  Lemma status_targets_cons fuel t r out :
    status_targets fuel (t :: r) (Ok out) = status_targets fuel r (status_stage H fuel idx c root out [] t).
  Proof. reflexivity. Qed.

  Lemma adisj_nil {A} (m : list (bytes * A)) : adisj m [].
  Proof. intros s Hs. destruct Hs. Qed.

  Lemma status_targets_post fuel : forall ts out fin out',
    Ws out fin -> status_targets fuel ts (Ok out) = Ok out' ->
    exists fin', Ws out' fin' /\ (exists e, fin' = e ++ fin) /\ forall t, In t ts -> In t fin'.
  Proof.
    induction ts as [|t r IH]; intros out fin out' HW Hrun.
    - inversion Hrun; subst. exists fin. split; [exact HW|]. split; [exists []; reflexivity|].
      intros t Ht. destruct Ht.
    - rewrite status_targets_cons in Hrun.
      destruct (status_stage H fuel idx c root out [] t) as [out1|] eqn:Hone.
      2:{ rewrite status_targets_Err in Hrun. discriminate. }
      destruct (st_post fuel [] _ _ _ _ HW (adisj_nil out) Hone) as [fin1 [HW1 [[e1 He1] [_ Ht1]]]].
      destruct (IH _ _ _ HW1 Hrun) as [fin2 [HW2 [[e2 He2] Hts2]]].
      exists fin2. split; [exact HW2|].
      split; [exists (e2 ++ e1); rewrite He2, He1; rewrite app_assoc; reflexivity|].
      intros t' [Ht'|Ht']; [|apply Hts2; exact Ht'].
      subst t'. rewrite He2. apply in_or_app. right. exact Ht1.
  Qed.

  (* ---- the theorems ---- *)
  Definition status_inv (out : list (bytes * sstatus)) : Prop := exists fin, Ws out fin.

  Theorem C08_status_cycle fuel out stack t a :
    status_inv out -> adisj out stack ->
    clos_refl_trans bytes (edge idx) a t -> clos_trans bytes (edge idx) a a ->
    status_stage H fuel idx c root out stack t = Err.
  Proof.
    intros [fin HW] Hd Hup Hcyc.
    destruct (status_stage H fuel idx c root out stack t) as [out'|] eqn:Hrun; [|reflexivity].
    exfalso. destruct (st_post fuel stack _ _ _ _ HW Hd Hrun) as [fin' [[Hc' _] [_ [_ Ht]]]].
    apply upstream_clos in Hup. apply path_clos_trans in Hcyc.
    eapply core_no_cycle_upstream; eassumption.
  Qed.

  (* as System.step (CStatus) runs it: from out = [] over the list of targets *)
  Theorem C08_status_cycle_targets fuel ts t a :
    In t ts -> clos_refl_trans bytes (edge idx) a t -> clos_trans bytes (edge idx) a a ->
    status_targets fuel ts (Ok []) = Err.
  Proof.
    intros Ht Hup Hcyc.
    destruct (status_targets fuel ts (Ok [])) as [out'|] eqn:Hrun; [|reflexivity].
    exfalso. destruct (status_targets_post fuel ts _ _ _ Ws_nil Hrun) as [fin' [[Hc' _] [_ Hts]]].
    apply upstream_clos in Hup. apply path_clos_trans in Hcyc.
    eapply core_no_cycle_upstream; [exact Hc'|apply Hts; exact Ht|exact Hup|exact Hcyc].
  Qed.

  Theorem C08_status_fuel fuel' out t :
    (S (length idx) <= fuel')%nat ->
    status_stage H fuel' idx c root out [] t = status_stage H (S (length idx)) idx c root out [] t.
  Proof.
    intros Hle. apply status_fuel; [apply stack_ok_nil|simpl; lia|simpl; lia].
  Qed.

  Theorem C08_status_fuel_targets fuel' ts init :
    (S (length idx) <= fuel')%nat ->
    status_targets fuel' ts init = status_targets (S (length idx)) ts init.
  Proof.
    intros Hle. revert init. induction ts as [|t r IH]; intros init; [reflexivity|].
    destruct init as [out|].
    - rewrite !status_targets_cons. rewrite (C08_status_fuel fuel' out t Hle). apply IH.
    - rewrite !status_targets_Err. reflexivity.
  Qed.
End Status.

Print Assumptions C08_status_cycle.
Print Assumptions C08_status_cycle_targets.
Print Assumptions C08_status_fuel.
Print Assumptions C08_status_fuel_targets.

(* ------------------------------------------------------------------------------------------ *)
(* commit_stage: fuel (the index is rewritten during the traversal, its key set is not)        *)
(* ------------------------------------------------------------------------------------------ *)
Lemma ins_sorted_keys {A} k (v : A) l x :
  In x (map fst (ins_sorted k v l)) -> x = k \/ In x (map fst l).
Proof.
  induction l as [|[k2 v2] r IH]; simpl.
  - intros [Hx|Hx]; [left; congruence|destruct Hx].
  - destruct (beqb k k2) eqn:Hk.
    + simpl. intros [Hx|Hx]; [left; congruence|right; right; exact Hx].
    + destruct (bltb k k2); simpl.
      * intros [Hx|[Hx|Hx]]; [left; congruence|right; left; exact Hx|right; right; exact Hx].
      * intros [Hx|Hx]; [right; left; exact Hx|].
        destruct (IH Hx) as [Hxk|Hxr]; [left; exact Hxk|right; right; exact Hxr].
Qed.

Section Commit.
  Variable H : bytes -> bytes.
  Variable strat : strategy.

  Definition cm_acc := (list artifact * list artifact * istate * list bytes)%type.

  Fixpoint cm_ins (f : nat) (stack : list bytes) (arts : list artifact) (st : istate) (done : list bytes)
    : res cm_acc :=
    match arts with
    | [] => Ok ([], [], st, done)
    | a :: r =>
      match find_owner (i_idx st) (a_path a) with
      | None =>
        match cm_ins f stack r st done with
        | Ok (owned, plain, st', done') => Ok (owned, a :: plain, st', done')
        | Err => Err
        end
      | Some (op, _) =>
        match commit_stage H f st strat done stack op with
        | Err => Err
        | Ok (st1, done1) =>
          let cs := match find_owner (i_idx st1) (a_path a) with
                    | Some (_, up) => a_cs up | None => a_cs a end in
          match cm_ins f stack r st1 done1 with
          | Ok (owned, plain, st', done') => Ok (set_cs a cs :: owned, plain, st', done')
          | Err => Err
          end
        end
      end
    end.

  Definition cm_finish (sp : bytes) (stg : stage) (r : res cm_acc) : res (istate * list bytes) :=
    match r with
    | Err => Err
    | Ok (owned, plain, st1, done1) =>
      match commit_arts H plain true (i_root st1) (i_cache st1) strat with
      | Err => Err
      | Ok (plain', root2, c2) =>
        match commit_arts H (s_outputs stg) false root2 c2 strat with
        | Err => Err
        | Ok (outs', root3, c3) =>
          let inputs' := fold_left art_set (owned ++ plain') (s_inputs stg) in
          let stg1 := mkStage (s_cs stg) (s_cmd stg) (s_wd stg) inputs' outs' in
          let stg2 := mkStage (def_checksum H stg1) (s_cmd stg) (s_wd stg) inputs' outs' in
          Ok (mkI (set_stage (i_idx st1) sp stg2) root3 c3, sp :: done1)
        end
      end
    end.

  Lemma commit_stage_S f st done inprog sp :
    commit_stage H (S f) st strat done inprog sp =
    if mem sp done then Ok (st, done)
    else if mem sp inprog then Err
    else match alookup sp (i_idx st) with
         | None => Err
         | Some stg => cm_finish sp stg (cm_ins f (sp :: inprog) (s_inputs stg) st done)
         end.
  Proof.
    cbn [commit_stage].
    destruct (mem sp done); [reflexivity|].
    destruct (mem sp inprog); [reflexivity|].
    destruct (alookup sp (i_idx st)) as [stg|]; [|reflexivity].
    unfold cm_finish.
    match goal with
    | |- match ?F _ _ _ with _ => _ end = _ =>
      assert (Hins : forall arts st0 done0, F arts st0 done0 = cm_ins f (sp :: inprog) arts st0 done0)
    end.
    { induction arts as [|a r IH]; intros st0 done0; cbn [cm_ins]; [reflexivity|].
      destruct (find_owner (i_idx st0) (a_path a)) as [[op up]|].
      - destruct (commit_stage H f st0 strat done0 (sp :: inprog) op) as [[st1 done1]|]; [|reflexivity].
        rewrite IH. reflexivity.
      - rewrite IH. reflexivity. }
    rewrite Hins. reflexivity.
  Qed.

  Lemma cm_finish_Ok sp stg r st' done' :
    cm_finish sp stg r = Ok (st', done') ->
    exists owned plain st1 done1 stg2 root3 c3,
      r = Ok (owned, plain, st1, done1) /\
      st' = mkI (set_stage (i_idx st1) sp stg2) root3 c3 /\ done' = sp :: done1.
  Proof.
    unfold cm_finish. destruct r as [[[[owned plain] st1] done1]|]; [|discriminate].
    destruct (commit_arts H plain true (i_root st1) (i_cache st1) strat) as [[[plain' root2] c2]|]; [|discriminate].
    destruct (commit_arts H (s_outputs stg) false root2 c2 strat) as [[[outs' root3] c3]|]; [|discriminate].
    intros Heq. inversion Heq. eexists _, _, _, _, _, _, _. repeat split.
  Qed.

  (* the keys of the index stay inside a fixed list ks *)
  Variable ks : list bytes.
  Definition kincl (st : istate) : Prop := incl (map fst (i_idx st)) ks.

  Lemma cm_ins_keys f stack :
    (forall st done sp st' done',
        commit_stage H f st strat done stack sp = Ok (st', done') -> kincl st -> kincl st') ->
    forall arts st done owned plain st' done',
      cm_ins f stack arts st done = Ok (owned, plain, st', done') -> kincl st -> kincl st'.
  Proof.
    intros IH. induction arts as [|a r IHr]; intros st done owned plain st' done' Hrun Hk; cbn [cm_ins] in Hrun.
    - inversion Hrun; subst. exact Hk.
    - destruct (find_owner (i_idx st) (a_path a)) as [[op up]|].
      + destruct (commit_stage H f st strat done stack op) as [[st1 done1]|] eqn:Hsub; [|discriminate].
        destruct (cm_ins f stack r st1 done1) as [[[[owned2 plain2] st2] done2]|] eqn:Hrest; [|discriminate].
        inversion Hrun; subst. eapply IHr; [exact Hrest|]. eapply IH; eassumption.
      + destruct (cm_ins f stack r st done) as [[[[owned2 plain2] st2] done2]|] eqn:Hrest; [|discriminate].
        inversion Hrun; subst. eapply IHr; eassumption.
  Qed.

  Lemma commit_keys : forall f stack st done sp st' done',
    commit_stage H f st strat done stack sp = Ok (st', done') -> kincl st -> kincl st'.
  Proof.
    induction f as [|f IH]; intros stack st done sp st' done' Hrun Hk.
    { simpl in Hrun. discriminate. }
    rewrite commit_stage_S in Hrun.
    destruct (mem sp done); [inversion Hrun; subst; exact Hk|].
    destruct (mem sp stack); [discriminate|].
    destruct (alookup sp (i_idx st)) as [stg|] eqn:Hstg; [|discriminate].
    apply cm_finish_Ok in Hrun as [owned [plain [st1 [done1 [stg2 [root3 [c3 [Hins [Hst' _]]]]]]]]].
    pose proof (cm_ins_keys f (sp :: stack) (IH (sp :: stack)) _ _ _ _ _ _ _ Hins Hk) as Hk1.
    subst st'. unfold kincl, set_stage. simpl. intros x Hx.
    apply ins_sorted_keys in Hx as [Hx|Hx]; [|apply Hk1; exact Hx].
    subst x. apply Hk. eapply alookup_Some_In. exact Hstg.
  Qed.

  Definition kstack_ok (stack : list bytes) : Prop := NoDup stack /\ incl stack ks.

  Lemma cm_ins_fuel f f' stack :
    (forall st done sp, kincl st ->
        commit_stage H f st strat done stack sp = commit_stage H f' st strat done stack sp) ->
    forall arts st done, kincl st -> cm_ins f stack arts st done = cm_ins f' stack arts st done.
  Proof.
    intros IH. induction arts as [|a r IHr]; intros st done Hk; cbn [cm_ins]; [reflexivity|].
    destruct (find_owner (i_idx st) (a_path a)) as [[op up]|].
    - rewrite (IH _ _ _ Hk).
      destruct (commit_stage H f' st strat done stack op) as [[st1 done1]|] eqn:Hsub; [|reflexivity].
      rewrite IHr; [reflexivity|]. eapply commit_keys; eassumption.
    - rewrite (IHr _ _ Hk). reflexivity.
  Qed.

  Lemma commit_fuel : forall f f' stack st done sp,
    kincl st -> kstack_ok stack ->
    (length ks < f + length stack)%nat -> (length ks < f' + length stack)%nat ->
    commit_stage H f st strat done stack sp = commit_stage H f' st strat done stack sp.
  Proof.
    induction f as [|f IH]; intros f' stack st done sp Hk [Hnd Hincl] Hf Hf'.
    { exfalso. pose proof (NoDup_incl_length Hnd Hincl). lia. }
    destruct f' as [|f'].
    { exfalso. pose proof (NoDup_incl_length Hnd Hincl). lia. }
    rewrite !commit_stage_S.
    destruct (mem sp done); [reflexivity|].
    destruct (mem sp stack) eqn:Hmem; [reflexivity|].
    destruct (alookup sp (i_idx st)) as [stg|] eqn:Hstg; [|reflexivity].
    rewrite (cm_ins_fuel f f' (sp :: stack)); [reflexivity| |exact Hk].
    intros st0 done0 sp0 Hk0. apply IH.
    - exact Hk0.
    - split.
      + constructor; [apply mem_notIn; exact Hmem|exact Hnd].
      + intros x [Hx|Hx]; [subst x; apply Hk; eapply alookup_Some_In; exact Hstg|apply Hincl; exact Hx].
    - simpl. lia.
    - simpl. lia.
  Qed.

  Definition commit_targets (fuel : nat) (ts : list bytes) (init : res (istate * list bytes))
    : res (istate * list bytes) :=
    fold_left (fun acc t =>
                 match acc with
                 | Ok (st, done) => commit_stage H fuel st strat done [] t
                 | Err => Err
                 end) ts init.

  Lemma commit_targets_Err fuel ts : commit_targets fuel ts Err = Err.
  Proof. induction ts as [|t r IH]; [reflexivity|exact IH]. Qed.

  Lemma commit_targets_cons fuel t r st done :
    commit_targets fuel (t :: r) (Ok (st, done)) =
    commit_targets fuel r (commit_stage H fuel st strat done [] t).
  Proof. reflexivity. Qed.

  Lemma commit_targets_fuel fuel' : forall ts st done,
    kincl st -> (S (length ks) <= fuel')%nat ->
    commit_targets fuel' ts (Ok (st, done)) = commit_targets (S (length ks)) ts (Ok (st, done)).
  Proof.
    induction ts as [|t r IH]; intros st done Hk Hle; [reflexivity|].
    rewrite !commit_targets_cons.
    rewrite (commit_fuel fuel' (S (length ks)) [] st done t Hk);
      [|split; [constructor|intros x Hx; destruct Hx]|simpl; lia|simpl; lia].
    destruct (commit_stage H (S (length ks)) st strat done [] t) as [[st1 done1]|] eqn:Hone.
    - apply IH; [|exact Hle]. eapply commit_keys; eassumption.
    - rewrite !commit_targets_Err. reflexivity.
  Qed.
End Commit.

(* fuel = S (length idx) of the index the command starts with (System.fuel_of) is enough, for
   every target of the fold although the index is rewritten between (and during) the targets *)
Theorem C08_commit_fuel H strat fuel' st done t :
  (S (length (i_idx st)) <= fuel')%nat ->
  commit_stage H fuel' st strat done [] t = commit_stage H (S (length (i_idx st))) st strat done [] t.
Proof.
  intros Hle. apply (commit_fuel H strat (map fst (i_idx st))).
  - intros x Hx. exact Hx.
  - split; [constructor|intros x Hx; destruct Hx].
  - rewrite map_length. simpl. lia.
  - rewrite map_length. simpl. lia.
Qed.

Theorem C08_commit_fuel_targets H strat fuel' ts st done :
  (S (length (i_idx st)) <= fuel')%nat ->
  commit_targets H strat fuel' ts (Ok (st, done)) =
  commit_targets H strat (S (length (i_idx st))) ts (Ok (st, done)).
Proof.
  intros Hle. pose proof (commit_targets_fuel H strat (map fst (i_idx st)) fuel' ts st done) as Hf.
  rewrite map_length in Hf. apply Hf; [intros x Hx; exact Hx|exact Hle].
Qed.

Print Assumptions C08_commit_fuel.
Print Assumptions C08_commit_fuel_targets.

(* ------------------------------------------------------------------------------------------ *)
(* the folds above are the ones System.step performs (fuel = System.fuel_of idx = S (length idx)) *)
(* ------------------------------------------------------------------------------------------ *)
Section Bridge.
  Variable H : bytes -> bytes.
  Variable sems : list (bytes * System.cmdsem).
  Variable w : System.world.
  Variable idx : index.
  Hypothesis unlocked : System.w_lock w = false.
  Hypothesis loaded : load_index (System.w_index w) (System.w_stages w) [] = Some idx.

  Lemma step_CRun targets single :
    idx <> [] ->
    System.step H sems w (System.CRun targets single) =
    match run_targets H (System.exec sems) idx (System.w_cache w) (negb single) (System.fuel_of idx)
                      (System.all_or targets idx) (Ok (System.w_root w, [], [])) with
    | Ok (root, _, log) =>
      (System.mkW root (System.w_cache w) (System.w_stages w) (System.w_index w) false, true,
       System.ORun (rev log))
    | Err => (w, false, System.ONone)
    end.
  Proof.
    intros Hne. unfold System.step. rewrite unlocked, loaded.
    destruct idx as [|e r]; [contradiction|reflexivity].
  Qed.

  Lemma step_CCheckout targets copy single :
    idx <> [] ->
    System.step H sems w (System.CCheckout targets copy single) =
    match checkout_targets H idx (System.w_cache w) (System.strat_of copy)
                           (match targets with [] => true | _ => negb single end)
                           (System.fuel_of idx) (System.all_or targets idx) (Ok (System.w_root w, [])) with
    | Ok (root, _) =>
      (System.mkW root (System.w_cache w) (System.w_stages w) (System.w_index w) false, true, System.ONone)
    | Err => (w, false, System.ONone)
    end.
  Proof.
    intros Hne. unfold System.step. rewrite unlocked, loaded.
    destruct idx as [|e r]; [contradiction|reflexivity].
  Qed.

  Lemma step_CStatus targets :
    idx <> [] ->
    System.step H sems w (System.CStatus targets) =
    match status_targets H idx (System.w_cache w) (System.w_root w) (System.fuel_of idx)
                         (System.all_or targets idx) (Ok []) with
    | Ok out => (w, true, System.OStatus out)
    | Err => (w, false, System.ONone)
    end.
  Proof.
    intros Hne. unfold System.step. rewrite unlocked, loaded.
    destruct idx as [|e r]; [contradiction|reflexivity].
  Qed.

  Lemma step_CCommit targets copy :
    System.all_or targets idx <> [] ->
    System.step H sems w (System.CCommit targets copy) =
    match commit_targets H (System.strat_of copy) (System.fuel_of idx) (System.all_or targets idx)
                         (Ok (mkI idx (System.w_root w) (System.w_cache w), [])) with
    | Ok (st, done) =>
      (System.mkW (i_root st) (i_cache st) (System.write_back (System.w_stages w) (i_idx st) done)
                  (System.w_index w) false, true, System.ONone)
    | Err => (w, false, System.ONone)
    end.
  Proof.
    intros Hne. unfold System.step. rewrite unlocked, loaded.
    destruct (System.all_or targets idx) as [|t r]; [contradiction|reflexivity].
  Qed.

  (* C08 at the level of one [dud run] command: the printed execution log has no duplicates, and
     respects the dependency order when the run is recursive *)
  Theorem C08_step_run targets single w' log :
    System.step H sems w (System.CRun targets single) = (w', true, System.ORun log) ->
    NoDup log /\
    (single = false -> forall a b, edge idx a b -> In a log -> In b log ->
                                   exists p q r, log = p ++ a :: q ++ b :: r).
  Proof.
    intros Hstep.
    assert (Hne : idx <> []).
    { intros Heq. unfold System.step in Hstep. rewrite unlocked, loaded, Heq in Hstep. discriminate. }
    rewrite (step_CRun targets single Hne) in Hstep.
    destruct (run_targets H (System.exec sems) idx (System.w_cache w) (negb single) (System.fuel_of idx)
                          (System.all_or targets idx) (Ok (System.w_root w, [], [])))
      as [[[root' ran'] log']|] eqn:Hrun; [|discriminate].
    inversion Hstep; subst. split.
    - apply NoDup_rev. eapply (C08_once H (System.exec sems) idx); [apply log_ok_nil|exact Hrun].
    - intros Hs a b Hab Ha Hb. subst single. simpl in Hrun.
      apply (C08_order H (System.exec sems) idx _ _ _ _ _ _ _ _ _ a b (run_inv_init idx) Hrun Hab);
        apply in_rev; assumption.
  Qed.
End Bridge.

Print Assumptions step_CRun.
Print Assumptions step_CCheckout.
Print Assumptions step_CStatus.
Print Assumptions step_CCommit.
Print Assumptions C08_step_run.

(* ------------------------------------------------------------------------------------------ *)
(* commit_stage: cycle => Err.  The index is rewritten by the traversal, but only the checksums *)
(* change: the SHAPE (keys, input paths, output paths and the dis-recursive flags), hence the   *)
(* dependency relation, stays that of the initial index.  In-place replacement by ins_sorted    *)
(* needs the keys to be strictly sorted (they are: the index is built by ins_sorted).           *)
(* ------------------------------------------------------------------------------------------ *)
Lemma bltb_asym a b : bltb a b = true -> bltb b a = false.
Proof.
  revert b. induction a as [|x a IH]; intros [|y b]; simpl; try congruence.
  destruct (N.ltb_spec x y) as [Hxy|Hxy].
  - intros _. destruct (N.ltb_spec y x) as [Hyx|Hyx]; [lia|reflexivity].
  - destruct (N.ltb_spec y x) as [Hyx|Hyx]; [discriminate|]. apply IH.
Qed.

Fixpoint ksorted (ks : list bytes) : Prop :=
  match ks with
  | [] => True
  | k :: r => (forall k2, In k2 r -> bltb k k2 = true) /\ ksorted r
  end.

Definition oshape (arts : list artifact) : list (bytes * bool) := map (fun a => (a_path a, a_norec a)) arts.

Definition sshape (s s' : stage) : Prop :=
  oshape (s_outputs s) = oshape (s_outputs s') /\ map a_path (s_inputs s) = map a_path (s_inputs s').

Definition ishape (idx idx' : index) : Prop :=
  Forall2 (fun e e' => fst e = fst e' /\ sshape (snd e) (snd e')) idx idx'.

Lemma sshape_refl s : sshape s s.
Proof. split; reflexivity. Qed.
Lemma sshape_sym s s' : sshape s s' -> sshape s' s.
Proof. intros [H1 H2]. split; symmetry; assumption. Qed.
Lemma sshape_trans s1 s2 s3 : sshape s1 s2 -> sshape s2 s3 -> sshape s1 s3.
Proof. intros [H1 H2] [H3 H4]. split; congruence. Qed.

Lemma ishape_refl idx : ishape idx idx.
Proof. induction idx as [|e r IH]; constructor; [split; [reflexivity|apply sshape_refl]|exact IH]. Qed.
Lemma ishape_sym idx idx' : ishape idx idx' -> ishape idx' idx.
Proof.
  intros Hs. induction Hs as [|e e' r r' [Hk Hsh] Hr IH]; constructor; [|exact IH].
  split; [symmetry; exact Hk|apply sshape_sym; exact Hsh].
Qed.
Lemma ishape_trans idx1 idx2 idx3 : ishape idx1 idx2 -> ishape idx2 idx3 -> ishape idx1 idx3.
Proof.
  intros H12. revert idx3. induction H12 as [|e1 e2 r1 r2 [Hk Hsh] Hr IH]; intros idx3 H23.
  - inversion H23. constructor.
  - inversion H23 as [|e2' e3 r2' r3 [Hk' Hsh'] Hr']; subst. constructor.
    + split; [congruence|eapply sshape_trans; eassumption].
    + apply IH. exact Hr'.
Qed.

Lemma ishape_keys idx idx' : ishape idx idx' -> map fst idx = map fst idx'.
Proof. intros Hs. induction Hs as [|e e' r r' [Hk _] Hr IH]; simpl; congruence. Qed.

Lemma ishape_alookup idx idx' b stg :
  ishape idx idx' -> alookup b idx = Some stg -> exists stg', alookup b idx' = Some stg' /\ sshape stg stg'.
Proof.
  intros Hs. induction Hs as [|[k v] [k' v'] r r' [Hk Hsh] Hr IH]; simpl; [discriminate|].
  simpl in Hk, Hsh. subst k'. destruct (beqb b k).
  - intros Heq. inversion Heq; subst. exists v'. split; [reflexivity|exact Hsh].
  - exact IH.
Qed.

(* find_owner only looks at the shape of the outputs *)
Lemma art_lookup_shape p arts arts' :
  oshape arts = oshape arts' ->
  match art_lookup p arts, art_lookup p arts' with
  | Some a, Some a' => a_norec a = a_norec a'
  | None, None => True
  | _, _ => False
  end.
Proof.
  revert arts'. induction arts as [|a r IH]; intros [|a' r'] Hsh; simpl in Hsh; try discriminate.
  - simpl. exact I.
  - inversion Hsh as [[Hp Hn Hr]]. unfold art_lookup. simpl. rewrite <- Hp.
    destruct (beqb (a_path a) p); [exact Hn|]. apply IH. exact Hr.
Qed.

Definition osome {A} (o : option A) : bool := match o with Some _ => true | None => false end.

Lemma fdo_walk_shape arts arts' fullDir :
  oshape arts = oshape arts' ->
  forall parts d, osome (fdo_walk parts d fullDir arts) = osome (fdo_walk parts d fullDir arts').
Proof.
  intros Hsh. induction parts as [|part r IH]; intros d; simpl; [reflexivity|].
  pose proof (art_lookup_shape (GoPath.join2 d part) arts arts' Hsh) as Hl.
  destruct (art_lookup (GoPath.join2 d part) arts) as [o|];
    destruct (art_lookup (GoPath.join2 d part) arts') as [o'|]; try contradiction.
  - rewrite Hl. destruct (negb (a_norec o') || beqb (GoPath.join2 d part) fullDir); [reflexivity|apply IH].
  - apply IH.
Qed.

Definition own (idx : index) (p : bytes) : option bytes := option_map fst (find_owner idx p).

Lemma ishape_own idx idx' p : ishape idx idx' -> own idx p = own idx' p.
Proof.
  unfold own. intros Hs. induction Hs as [|[k v] [k' v'] r r' [Hk [Hout _]] Hr IH]; simpl; [reflexivity|].
  simpl in Hk, Hout. subst k'.
  pose proof (art_lookup_shape p _ _ Hout) as Hl.
  destruct (art_lookup p (s_outputs v)) as [o|]; destruct (art_lookup p (s_outputs v')) as [o'|];
    try contradiction; [reflexivity|].
  pose proof (fdo_walk_shape _ _ (GoPath.dir p) Hout (GoPath.split (GoPath.dir p)) []) as Hf.
  unfold find_dir_owner.
  destruct (fdo_walk (GoPath.split (GoPath.dir p)) [] (GoPath.dir p) (s_outputs v)) as [o|];
    destruct (fdo_walk (GoPath.split (GoPath.dir p)) [] (GoPath.dir p) (s_outputs v')) as [o'|];
    simpl in Hf; try discriminate; [reflexivity|exact IH].
Qed.

(* replacing the stage of an existing key by one of the same shape *)
Lemma ishape_set idx sp stgc stg2 :
  ksorted (map fst idx) -> alookup sp idx = Some stgc -> sshape stgc stg2 ->
  ishape idx (ins_sorted sp stg2 idx).
Proof.
  induction idx as [|[k v] r IH]; simpl; intros Hsorted Hl Hsh; [discriminate|].
  destruct Hsorted as [Hlt Hsr].
  destruct (beqb sp k) eqn:Hk.
  - inversion Hl; subst v. apply beqb_eq in Hk. subst k. constructor; [|apply ishape_refl].
    split; [reflexivity|exact Hsh].
  - assert (Hin : In sp (map fst r)) by (eapply alookup_Some_In; exact Hl).
    rewrite (bltb_asym _ _ (Hlt sp Hin)). constructor; [split; [reflexivity|apply sshape_refl]|].
    apply IH; assumption.
Qed.

Lemma edge_own idx a b :
  edge idx a b <->
  exists stg p, alookup b idx = Some stg /\ In p (map a_path (s_inputs stg)) /\ own idx p = Some a.
Proof.
  unfold edge, own. split.
  - intros [stg [art [up [Hstg [Hart Hfo]]]]]. exists stg, (a_path art).
    split; [exact Hstg|]. split; [apply in_map; exact Hart|]. rewrite Hfo. reflexivity.
  - intros [stg [p [Hstg [Hp Hown]]]]. apply in_map_iff in Hp as [art [Hpa Hart]].
    destruct (find_owner idx p) as [[a' up]|] eqn:Hfo; [|discriminate].
    simpl in Hown. inversion Hown; subst a'. exists stg, art, up.
    split; [exact Hstg|]. split; [exact Hart|]. rewrite Hpa. exact Hfo.
Qed.

Section CommitShape.
  Variable H : bytes -> bytes.

  Lemma commit_file_shape a n c st n' c' a' :
    commit_file H a n c st = Ok (n', c', a') -> a_path a' = a_path a /\ a_norec a' = a_norec a.
  Proof.
    unfold commit_file.
    (* robust against new cases in commit_file: every Ok result is [a] or [set_cs a _] *)
    repeat (match goal with
            | |- (if ?b then _ else _) = _ -> _ => destruct b
            | |- match ?x with _ => _ end = _ -> _ => destruct x
            end);
      try discriminate; intros Heq; inversion Heq; subst; split; reflexivity.
  Qed.

  Lemma commit_node_shape a n c st n' c' a' :
    commit_node H a n c st = Ok (n', c', a') -> a_path a' = a_path a /\ a_norec a' = a_norec a.
  Proof.
    destruct n; cbn [commit_node]; destruct (a_isdir a); try discriminate;
      try (apply commit_file_shape).
    destruct (old_contents a c) as [old|]; [|discriminate].
    match goal with
    | |- match ?X with _ => _ end = _ -> _ => destruct X as [[[es' c''] m]|]
    end; [|discriminate].
    intros Heq. inversion Heq; subst. split; reflexivity.
  Qed.

  Lemma commit_top_shape a root c st root' c' a' :
    commit_top H a root c st = Ok (root', c', a') -> a_path a' = a_path a /\ a_norec a' = a_norec a.
  Proof.
    unfold commit_top. destruct (slot_of root (a_path a)) as [slot|]; [|discriminate].
    unfold commit_art. destruct slot as [n|]; [|discriminate].
    destruct (commit_node H a n c st) as [[[n1 c1] a1]|] eqn:Hn; [|discriminate].
    destruct (put root (GoPath.comps (a_path a)) (Some n1)); [|discriminate].
    intros Heq. inversion Heq; subst. eapply commit_node_shape. exact Hn.
  Qed.

  Lemma commit_arts_shape st : forall arts fs root c l root' c',
    commit_arts H arts fs root c st = Ok (l, root', c') -> oshape l = oshape arts.
  Proof.
    induction arts as [|a r IH]; intros fs root c l root' c'; simpl.
    - intros Heq. inversion Heq. reflexivity.
    - match goal with
      | |- match commit_top H ?A0 root c st with _ => _ end = _ -> _ =>
        destruct (commit_top H A0 root c st) as [[[root1 c1] a1]|] eqn:Htop
      end; [|discriminate].
      destruct (commit_arts H r fs root1 c1 st) as [[[l2 root2] c2]|] eqn:Hrest; [|discriminate].
      intros Heq. inversion Heq; subst. simpl. rewrite (IH _ _ _ _ _ _ Hrest).
      apply commit_top_shape in Htop as [Hp Hn]. rewrite Hp, Hn. destruct fs; reflexivity.
  Qed.

  Lemma art_set_paths arts a : map a_path (art_set arts a) = map a_path arts.
  Proof.
    unfold art_set. rewrite map_map. apply map_ext. intros b.
    destruct (beqb (a_path b) (a_path a)) eqn:Hb; [|reflexivity]. apply beqb_eq in Hb. congruence.
  Qed.

  Lemma fold_art_set_paths l : forall arts, map a_path (fold_left art_set l arts) = map a_path arts.
  Proof.
    induction l as [|a r IH]; intros arts; simpl; [reflexivity|]. rewrite IH. apply art_set_paths.
  Qed.
End CommitShape.

Section CommitCycle.
  Variable H : bytes -> bytes.
  Variable strat : strategy.
  Variable idx0 : index.                      (* the index the command starts with *)
  Hypothesis sorted0 : ksorted (map fst idx0).

  Lemma cm_finish_shape sp stg r st' done' :
    cm_finish H strat sp stg r = Ok (st', done') ->
    exists owned plain st1 done1 stg2 root3 c3,
      r = Ok (owned, plain, st1, done1) /\
      st' = mkI (set_stage (i_idx st1) sp stg2) root3 c3 /\ done' = sp :: done1 /\ sshape stg stg2.
  Proof.
    unfold cm_finish. destruct r as [[[[owned plain] st1] done1]|]; [|discriminate].
    destruct (commit_arts H plain true (i_root st1) (i_cache st1) strat) as [[[plain' root2] c2]|]; [|discriminate].
    destruct (commit_arts H (s_outputs stg) false root2 c2 strat) as [[[outs' root3] c3]|] eqn:Houts; [|discriminate].
    intros Heq. inversion Heq. eexists _, _, _, _, _, _, _.
    split; [reflexivity|]. split; [reflexivity|]. split; [reflexivity|].
    split; simpl.
    - symmetry. eapply commit_arts_shape. exact Houts.
    - symmetry. apply fold_art_set_paths.
  Qed.

  Definition cm_inv (st : istate) (done : list bytes) : Prop :=
    ishape idx0 (i_idx st) /\ core idx0 done.

  Definition cm_spec (f : nat) (stack : list bytes) : Prop :=
    forall st done sp st' done',
      cm_inv st done -> cdisj done stack ->
      commit_stage H f st strat done stack sp = Ok (st', done') ->
      cm_inv st' done' /\ (exists e, done' = e ++ done) /\ cdisj done' stack /\ In sp done'.

  Lemma cm_ins_post f stack :
    cm_spec f stack ->
    forall arts st done owned plain st' done',
      cm_inv st done -> cdisj done stack ->
      cm_ins H strat f stack arts st done = Ok (owned, plain, st', done') ->
      cm_inv st' done' /\ (exists e, done' = e ++ done) /\ cdisj done' stack /\
      (forall a op, In a arts -> own idx0 (a_path a) = Some op -> In op done').
  Proof.
    intros IH. induction arts as [|a r IHr]; intros st done owned plain st' done' Hinv Hd Hrun;
      cbn [cm_ins] in Hrun.
    - inversion Hrun; subst. split; [exact Hinv|]. split; [exists []; reflexivity|]. split; [exact Hd|].
      intros a op Ha. destruct Ha.
    - assert (Hown0 : own idx0 (a_path a) = own (i_idx st) (a_path a)).
      { apply ishape_own. apply Hinv. }
      destruct (find_owner (i_idx st) (a_path a)) as [[op up]|] eqn:Hfo.
      + destruct (commit_stage H f st strat done stack op) as [[st1 done1]|] eqn:Hsub; [|discriminate].
        destruct (cm_ins H strat f stack r st1 done1) as [[[[owned2 plain2] st2] done2]|] eqn:Hrest;
          [|discriminate].
        inversion Hrun; subst owned plain st' done'.
        destruct (IH _ _ _ _ _ Hinv Hd Hsub) as [Hinv1 [[e1 He1] [Hd1 Hop]]].
        destruct (IHr _ _ _ _ _ _ Hinv1 Hd1 Hrest) as [Hinv2 [[e2 He2] [Hd2 Hown2]]].
        split; [exact Hinv2|].
        split; [exists (e2 ++ e1); rewrite He2, He1; rewrite app_assoc; reflexivity|].
        split; [exact Hd2|].
        intros a' op' [Ha'|Ha'] Hown'.
        * subst a'. rewrite Hown0 in Hown'. unfold own in Hown'. rewrite Hfo in Hown'. simpl in Hown'.
          inversion Hown'; subst op'. rewrite He2. apply in_or_app. right. exact Hop.
        * eapply Hown2; eassumption.
      + destruct (cm_ins H strat f stack r st done) as [[[[owned2 plain2] st2] done2]|] eqn:Hrest;
          [|discriminate].
        inversion Hrun; subst owned plain st' done'.
        destruct (IHr _ _ _ _ _ _ Hinv Hd Hrest) as [Hinv2 [He2 [Hd2 Hown2]]].
        split; [exact Hinv2|]. split; [exact He2|]. split; [exact Hd2|].
        intros a' op' [Ha'|Ha'] Hown'.
        * subst a'. rewrite Hown0 in Hown'. unfold own in Hown'. rewrite Hfo in Hown'. discriminate.
        * eapply Hown2; eassumption.
  Qed.

  Lemma cm_post : forall f stack, cm_spec f stack.
  Proof.
    induction f as [|f IH]; intros stack st done sp st' done' Hinv Hd Hrun.
    { simpl in Hrun. discriminate. }
    rewrite commit_stage_S in Hrun.
    destruct (mem sp done) eqn:Hdone.
    { inversion Hrun; subst. split; [exact Hinv|]. split; [exists []; reflexivity|]. split; [exact Hd|].
      apply mem_In. exact Hdone. }
    destruct (mem sp stack) eqn:Hmem; [discriminate|].
    destruct (alookup sp (i_idx st)) as [stg|] eqn:Hstg; [|discriminate].
    apply cm_finish_shape in Hrun
      as [owned [plain [st1 [done1 [stg2 [root3 [c3 [Hins [Hst' [Hdone' Hsh2]]]]]]]]]].
    subst st' done'.
    assert (Hd0 : cdisj done (sp :: stack)).
    { intros s [Hs|Hs]; [subst s; apply mem_notIn; exact Hdone|apply Hd; exact Hs]. }
    destruct (cm_ins_post f (sp :: stack) (IH (sp :: stack)) _ _ _ _ _ _ _ Hinv Hd0 Hins)
      as [[Hish1 Hc1] [[e1 He1] [Hd1 Hown1]]].
    (* the stage of sp in the initial index, and in the index after the loop *)
    destruct Hinv as [Hish Hc].
    destruct (ishape_alookup _ _ _ _ (ishape_sym _ _ Hish) Hstg) as [stg0 [Hstg0 Hsh0]].
    destruct (ishape_alookup _ _ _ _ Hish1 Hstg0) as [stgc [Hstgc Hshc]].
    split; [split|split; [|split]].
    - simpl. eapply ishape_trans; [exact Hish1|].
      apply (ishape_set (i_idx st1) sp stgc stg2).
      + rewrite <- (ishape_keys _ _ Hish1). exact sorted0.
      + exact Hstgc.
      + eapply sshape_trans; [apply sshape_sym; exact Hshc|].
        eapply sshape_trans; [apply sshape_sym; exact Hsh0|exact Hsh2].
    - apply core_finish; [exact Hc1|apply Hd1; left; reflexivity|].
      intros a Hedge. apply edge_own in Hedge as [stg0' [p [Hstg0' [Hp Hown]]]].
      rewrite Hstg0 in Hstg0'. inversion Hstg0'; subst stg0'.
      destruct Hsh0 as [_ Hinp]. rewrite <- Hinp in Hp.
      apply in_map_iff in Hp as [art [Hpa Hart]]. apply (Hown1 art a Hart). rewrite Hpa. exact Hown.
    - exists (sp :: e1). simpl. congruence.
    - intros s Hs [Heq|Hin].
      + subst s. apply mem_notIn in Hmem. contradiction.
      + apply (Hd1 s); [right; exact Hs|exact Hin].
    - left. reflexivity.
  Qed.

  Lemma commit_targets_post fuel : forall ts st done st' done',
    cm_inv st done ->
    commit_targets H strat fuel ts (Ok (st, done)) = Ok (st', done') ->
    cm_inv st' done' /\ (exists e, done' = e ++ done) /\ forall t, In t ts -> In t done'.
  Proof.
    induction ts as [|t r IH]; intros st done st' done' Hinv Hrun.
    - inversion Hrun; subst. split; [exact Hinv|]. split; [exists []; reflexivity|]. intros t Ht. destruct Ht.
    - rewrite commit_targets_cons in Hrun.
      destruct (commit_stage H fuel st strat done [] t) as [[st1 done1]|] eqn:Hone.
      2:{ rewrite commit_targets_Err in Hrun. discriminate. }
      destruct (cm_post fuel [] _ _ _ _ _ Hinv (cdisj_nil done) Hone) as [Hinv1 [[e1 He1] [_ Ht1]]].
      destruct (IH _ _ _ _ Hinv1 Hrun) as [Hinv2 [[e2 He2] Hts2]]. split; [exact Hinv2|].
      split; [exists (e2 ++ e1); rewrite He2, He1; rewrite app_assoc; reflexivity|].
      intros t' [Ht'|Ht']; [|apply Hts2; exact Ht'].
      subst t'. rewrite He2. apply in_or_app. right. exact Ht1.
  Qed.

  (* the dependency relation is the one of the initial index idx0 *)
  Theorem C08_commit_cycle fuel st done stack t a :
    ishape idx0 (i_idx st) -> core idx0 done -> cdisj done stack ->
    clos_refl_trans bytes (edge idx0) a t -> clos_trans bytes (edge idx0) a a ->
    commit_stage H fuel st strat done stack t = Err.
  Proof.
    intros Hish Hc Hd Hup Hcyc.
    destruct (commit_stage H fuel st strat done stack t) as [[st' done']|] eqn:Hrun; [|reflexivity].
    exfalso. destruct (cm_post fuel stack _ _ _ _ _ (conj Hish Hc) Hd Hrun) as [[_ Hc'] [_ [_ Ht]]].
    apply upstream_clos in Hup. apply path_clos_trans in Hcyc.
    eapply core_no_cycle_upstream; eassumption.
  Qed.

  (* as System.step (CCommit) runs it *)
  Theorem C08_commit_cycle_targets fuel ts root c t a :
    In t ts -> clos_refl_trans bytes (edge idx0) a t -> clos_trans bytes (edge idx0) a a ->
    commit_targets H strat fuel ts (Ok (mkI idx0 root c, [])) = Err.
  Proof.
    intros Ht Hup Hcyc.
    destruct (commit_targets H strat fuel ts (Ok (mkI idx0 root c, []))) as [[st' done']|] eqn:Hrun;
      [|reflexivity].
    exfalso.
    destruct (commit_targets_post fuel ts (mkI idx0 root c) [] _ _ (conj (ishape_refl idx0) (core_nil idx0)) Hrun)
      as [[_ Hc'] [_ Hts]].
    apply upstream_clos in Hup. apply path_clos_trans in Hcyc.
    eapply core_no_cycle_upstream; [exact Hc'|apply Hts; exact Ht|exact Hup|exact Hcyc].
  Qed.
End CommitCycle.

Print Assumptions C08_commit_cycle.
Print Assumptions C08_commit_cycle_targets.

(* ------------------------------------------------------------------------------------------ *)
(* the indexes that load_index builds are strictly sorted by key                               *)
(* ------------------------------------------------------------------------------------------ *)
Lemma bltb_trans a b c : bltb a b = true -> bltb b c = true -> bltb a c = true.
Proof.
  revert b c. induction a as [|x a IH]; intros [|y b] [|z c]; simpl; try congruence.
  destruct (N.ltb_spec x y) as [Hxy|Hxy]; destruct (N.ltb_spec y z) as [Hyz|Hyz];
    destruct (N.ltb_spec x z) as [Hxz|Hxz]; try reflexivity; try lia;
    destruct (N.ltb_spec y x) as [Hyx|Hyx]; destruct (N.ltb_spec z y) as [Hzy|Hzy];
    destruct (N.ltb_spec z x) as [Hzx|Hzx]; try discriminate; try lia.
  apply IH.
Qed.

Lemma bltb_total a b : bltb a b = false -> beqb a b = false -> bltb b a = true.
Proof.
  revert b. induction a as [|x a IH]; intros [|y b]; simpl; try congruence.
  destruct (N.ltb_spec x y) as [Hxy|Hxy]; [discriminate|].
  destruct (N.ltb_spec y x) as [Hyx|Hyx]; [reflexivity|].
  assert (Heq : x = y) by lia. subst y. rewrite N.eqb_refl. simpl. apply IH.
Qed.

Lemma ksorted_ins {A} k (v : A) l : ksorted (map fst l) -> ksorted (map fst (ins_sorted k v l)).
Proof.
  induction l as [|[k2 v2] r IH]; simpl.
  - intros _. split; [intros k3 Hk3; destruct Hk3|exact I].
  - intros [Hlt Hsr]. destruct (beqb k k2) eqn:Hk.
    + apply beqb_eq in Hk. subst k2. simpl. split; assumption.
    + destruct (bltb k k2) eqn:Hb; simpl.
      * split; [|split; assumption].
        intros k3 [Hk3|Hk3]; [subst k3; exact Hb|]. eapply bltb_trans; [exact Hb|apply Hlt; exact Hk3].
      * split; [|apply IH; exact Hsr].
        intros k3 Hk3. apply ins_sorted_keys in Hk3 as [Hk3|Hk3]; [|apply Hlt; exact Hk3].
        subst k3. apply bltb_total; assumption.
Qed.

Lemma load_index_sorted files : forall lines idx idx',
  load_index lines files idx = Some idx' -> ksorted (map fst idx) -> ksorted (map fst idx').
Proof.
  induction lines as [|l r IH]; intros idx idx'; simpl.
  - intros Heq. inversion Heq. auto.
  - destruct (alookup l files) as [[s|]|]; try discriminate.
    destruct (validate l s); [|discriminate].
    destruct (add_stage idx l s) as [idx1|] eqn:Hadd; [|discriminate].
    intros Hload Hs. apply (IH _ _ Hload).
    unfold add_stage in Hadd. destruct (alookup l idx); [discriminate|].
    match type of Hadd with (if ?b then _ else _) = _ => destruct b end; [|discriminate].
    inversion Hadd. apply ksorted_ins. exact Hs.
Qed.

(* ------------------------------------------------------------------------------------------ *)
(* cycle => failure at the level of one dud command (System.step)                              *)
(* ------------------------------------------------------------------------------------------ *)
Section BridgeCycle.
  Variable H : bytes -> bytes.
  Variable sems : list (bytes * System.cmdsem).
  Variable w : System.world.
  Variable idx : index.
  Hypothesis unlocked : System.w_lock w = false.
  Hypothesis loaded : load_index (System.w_index w) (System.w_stages w) [] = Some idx.
  Variables t a : bytes.
  Hypothesis reach : clos_refl_trans bytes (edge idx) a t.
  Hypothesis cyc : clos_trans bytes (edge idx) a a.

  Lemma loaded_sorted : ksorted (map fst idx).
  Proof. eapply load_index_sorted; [exact loaded|exact I]. Qed.

  Lemma idx_nonempty targets : In t (System.all_or targets idx) -> idx <> [].
  Proof.
    intros Ht Heq. apply upstream_clos in reach. apply path_clos_trans in cyc.
    assert (Hnoedge : forall x y, ~ edge idx x y).
    { intros x y [stg [art [up [Hstg _]]]]. rewrite Heq in Hstg. discriminate. }
    inversion cyc as [x y Hxy|x y z Hxy _]; subst; eapply Hnoedge; exact Hxy.
  Qed.

  Theorem C08_step_run_cycle targets :
    In t (System.all_or targets idx) ->
    System.step H sems w (System.CRun targets false) = (w, false, System.ONone).
  Proof.
    intros Ht. rewrite (step_CRun H sems w idx unlocked loaded targets false (idx_nonempty targets Ht)).
    simpl negb.
    rewrite (C08_cycle_targets H (System.exec sems) idx (System.w_cache w) _ _ _ _ _ t a
                               (run_inv_init idx) Ht reach cyc).
    reflexivity.
  Qed.

  Theorem C08_step_status_cycle targets :
    In t (System.all_or targets idx) ->
    System.step H sems w (System.CStatus targets) = (w, false, System.ONone).
  Proof.
    intros Ht. rewrite (step_CStatus H sems w idx unlocked loaded targets (idx_nonempty targets Ht)).
    rewrite (C08_status_cycle_targets H idx (System.w_cache w) (System.w_root w) _ _ t a Ht reach cyc).
    reflexivity.
  Qed.

  (* checkout is recursive when no target is given or when --single is not *)
  Theorem C08_step_checkout_cycle targets copy single :
    In t (System.all_or targets idx) ->
    match targets with [] => true | _ => negb single end = true ->
    System.step H sems w (System.CCheckout targets copy single) = (w, false, System.ONone).
  Proof.
    intros Ht Hrec.
    rewrite (step_CCheckout H sems w idx unlocked loaded targets copy single (idx_nonempty targets Ht)).
    rewrite Hrec.
    rewrite (C08_checkout_cycle_targets H idx (System.w_cache w) (System.strat_of copy) _ _ _ t a Ht reach cyc).
    reflexivity.
  Qed.

  Theorem C08_step_commit_cycle targets copy :
    In t (System.all_or targets idx) ->
    System.step H sems w (System.CCommit targets copy) = (w, false, System.ONone).
  Proof.
    intros Ht.
    assert (Hne : System.all_or targets idx <> []).
    { intros Heq. rewrite Heq in Ht. destruct Ht. }
    rewrite (step_CCommit H sems w idx unlocked loaded targets copy Hne).
    rewrite (C08_commit_cycle_targets H (System.strat_of copy) idx loaded_sorted _ _ _ _ t a Ht reach cyc).
    reflexivity.
  Qed.
End BridgeCycle.

Print Assumptions C08_step_run_cycle.
Print Assumptions C08_step_status_cycle.
Print Assumptions C08_step_checkout_cycle.
Print Assumptions C08_step_commit_cycle.

(* single-call form of the exec-irrelevance theorem, from the empty state *)
Corollary C08_cycle_exec_irrelevant_single H exec exec' idx c fuel root t :
  (forall sp stg root0, ~ clos_trans bytes (edge idx) sp sp -> exec sp stg root0 c = exec' sp stg root0 c) ->
  run_stage H exec fuel idx c true root [] [] [] t = run_stage H exec' fuel idx c true root [] [] [] t.
Proof.
  intros Hagree. rewrite <- !run_targets_one.
  apply C08_cycle_exec_irrelevant; [exact Hagree|apply run_inv_init].
Qed.
Print Assumptions C08_cycle_exec_irrelevant_single.
