(* C08: properties of the pipeline traversals of Model/Index.v (run_stage, and the cycle / fuel
   parts for checkout_stage, status_stage, commit_stage).

   Method (ported from spikes/Pipe.v).  The model keeps [ran] sorted by key, so the order in which
   stages were inserted is lost; the proofs re-introduce it as a GHOST list [fin] (finish order,
   newest first) that is existentially quantified in the invariant [W]:
     - fin is duplicate free and is exactly the domain of ran,
     - (recursive = true) every owner of an input of a finished stage finished EARLIER,
     - log is duplicate free, log is a subset of fin, and the log order is the fin order.
   The recursion stack [inprog] is a parameter of the model function (not a state), which makes
   the fuel argument independent of W. *)
From Coq Require Import NArith List Bool Lia Relations.
From DudV Require Import Base.Bytes Base.Json Model.Fs Model.Cache Model.Stage Model.Index.
Import ListNotations.

(* ------------------------------------------------------------------------------------------ *)
(* byte-string keys                                                                            *)
(* ------------------------------------------------------------------------------------------ *)
Lemma beqb_neq a b : beqb a b = false <-> a <> b.
Proof.
  split.
  - intros Hf Heq. apply beqb_eq in Heq. congruence.
  - intros Hne. destruct (beqb a b) eqn:Hb; [|reflexivity]. apply beqb_eq in Hb. contradiction.
Qed.

Lemma bytes_dec (a b : bytes) : {a = b} + {a <> b}.
Proof.
  destruct (beqb a b) eqn:Hb; [left; apply beqb_eq; exact Hb|right; apply beqb_neq; exact Hb].
Qed.

Lemma bool_cases (b : bool) : b = true \/ b = false.
Proof. destruct b; auto. Qed.
Lemma if_true_eq {A} (b : bool) (x y z : A) : b = true -> (if b then x else y) = z -> x = z.
Proof. intros Hb. rewrite Hb. auto. Qed.
Lemma if_false_eq {A} (b : bool) (x y z : A) : b = false -> (if b then x else y) = z -> y = z.
Proof. intros Hb. rewrite Hb. auto. Qed.

Lemma mem_In x l : mem x l = true <-> In x l.
Proof.
  unfold mem. rewrite existsb_exists. split.
  - intros [y [Hy Hb]]. apply beqb_eq in Hb. subst y. exact Hy.
  - intros Hin. exists x. split; [exact Hin|apply beqb_refl].
Qed.

Lemma mem_notIn x l : mem x l = false <-> ~ In x l.
Proof.
  split.
  - intros Hf Hin. apply mem_In in Hin. congruence.
  - intros Hn. destruct (mem x l) eqn:Hm; [|reflexivity]. apply mem_In in Hm. contradiction.
Qed.

Lemma alookup_ins_sorted {A} k k' (v : A) l :
  alookup k (ins_sorted k' v l) = if beqb k k' then Some v else alookup k l.
Proof.
  induction l as [|[k2 v2] r IH]; simpl.
  - reflexivity.
  - destruct (beqb k' k2) eqn:Hk2.
    + apply beqb_eq in Hk2. subst k2. simpl. destruct (beqb k k'); reflexivity.
    + destruct (bltb k' k2); simpl.
      * reflexivity.
      * rewrite IH. destruct (beqb k k') eqn:Hkk'; [|reflexivity].
        apply beqb_eq in Hkk'. subst k'. rewrite Hk2. reflexivity.
Qed.

Lemma alookup_ins_same {A} k (v : A) l : alookup k (ins_sorted k v l) = Some v.
Proof. rewrite alookup_ins_sorted, beqb_refl. reflexivity. Qed.

Lemma alookup_ins_other {A} k k' (v : A) l : k <> k' -> alookup k (ins_sorted k' v l) = alookup k l.
Proof. intros Hne. rewrite alookup_ins_sorted. apply beqb_neq in Hne. rewrite Hne. reflexivity. Qed.

Lemma alookup_Some_In {A} k (v : A) l : alookup k l = Some v -> In k (map fst l).
Proof.
  induction l as [|[k2 v2] r IH]; simpl; [discriminate|].
  destruct (beqb k k2) eqn:Hb.
  - intros _. left. apply beqb_eq in Hb. congruence.
  - intros Hl. right. apply IH. exact Hl.
Qed.

Lemma alookup_None_notIn {A} k (l : list (bytes * A)) : alookup k l = None <-> ~ In k (map fst l).
Proof.
  induction l as [|[k2 v2] r IH]; simpl.
  - tauto.
  - destruct (beqb k k2) eqn:Hb.
    + apply beqb_eq in Hb. subst k2. split; [discriminate|]. intros Hn. exfalso. apply Hn. left. reflexivity.
    + apply beqb_neq in Hb. rewrite IH. split.
      * intros Hn [Heq|Hin]; [congruence|contradiction].
      * intros Hn Hin. apply Hn. right. exact Hin.
Qed.

(* ------------------------------------------------------------------------------------------ *)
(* order in newest-first lists                                                                 *)
(* ------------------------------------------------------------------------------------------ *)
(* [earlier l a b]: in the newest-first list l, a was added strictly before b (a lies deeper). *)
Fixpoint earlier (l : list bytes) (a b : bytes) : Prop :=
  match l with
  | [] => False
  | s :: r => (b = s /\ In a r) \/ earlier r a b
  end.

Lemma earlier_In_l l a b : earlier l a b -> In a l.
Proof.
  induction l as [|s r IH]; simpl; [tauto|]. intros [[_ Ha]|He]; [right; exact Ha|right; apply IH; exact He].
Qed.

Lemma earlier_In_r l a b : earlier l a b -> In b l.
Proof.
  induction l as [|s r IH]; simpl; [tauto|]. intros [[Hb _]|He]; [left; congruence|right; apply IH; exact He].
Qed.

Lemma earlier_irrefl l a : NoDup l -> ~ earlier l a a.
Proof.
  induction l as [|s r IH]; simpl; intros Hnd He; [exact He|].
  inversion Hnd as [|s' r' Hnotin Hnd']; subst.
  destruct He as [[Has Ha]|He]; [subst; contradiction|apply (IH Hnd' He)].
Qed.

Lemma earlier_trans l a b c : NoDup l -> earlier l a b -> earlier l b c -> earlier l a c.
Proof.
  induction l as [|s r IH]; simpl; intros Hnd Hab Hbc; [exact Hab|].
  inversion Hnd as [|s' r' Hnotin Hnd']; subst.
  destruct Hab as [[Hbs Ha]|Hab].
  - subst s. destruct Hbc as [[_ Hb]|Hbc]; [contradiction|].
    exfalso. apply Hnotin. eapply earlier_In_l. exact Hbc.
  - destruct Hbc as [[Hcs Hb]|Hbc].
    + left. split; [exact Hcs|]. eapply earlier_In_l. exact Hab.
    + right. apply IH; assumption.
Qed.

Lemma earlier_total l a b : In a l -> In b l -> a <> b -> earlier l a b \/ earlier l b a.
Proof.
  induction l as [|s r IH]; simpl; intros Ha Hb Hne; [tauto|].
  destruct Ha as [Ha|Ha]; destruct Hb as [Hb|Hb].
  - congruence.
  - subst s. right. left. split; [reflexivity|exact Hb].
  - subst s. left. left. split; [reflexivity|exact Ha].
  - destruct (IH Ha Hb Hne) as [He|He]; [left; right; exact He|right; right; exact He].
Qed.

Lemma earlier_app_r l0 l a b : earlier l a b -> earlier (l0 ++ l) a b.
Proof. induction l0 as [|s r IH]; simpl; intros He; [exact He|right; apply IH; exact He]. Qed.

(* the readable characterisation: l = l1 ++ b :: l2 ++ a :: l3 *)
Lemma earlier_split l a b : earlier l a b <-> exists l1 l2 l3, l = l1 ++ b :: l2 ++ a :: l3.
Proof.
  split.
  - induction l as [|s r IH]; simpl; [tauto|]. intros [[Hb Ha]|He].
    + subst s. apply in_split in Ha as [l2 [l3 Hr]]. exists [], l2, l3. simpl. congruence.
    + destruct (IH He) as [l1 [l2 [l3 Hr]]]. exists (s :: l1), l2, l3. simpl. congruence.
  - intros [l1 [l2 [l3 Hl]]]. subst l. apply earlier_app_r. simpl. left. split; [reflexivity|].
    apply in_or_app. right. left. reflexivity.
Qed.

(* in execution order (rev of the newest-first log): a strictly before b *)
Lemma earlier_rev l a b : earlier l a b <-> exists p q r, rev l = p ++ a :: q ++ b :: r.
Proof.
  rewrite earlier_split. split.
  - intros [l1 [l2 [l3 Hl]]]. exists (rev l3), (rev l2), (rev l1). subst l.
    rewrite rev_app_distr. simpl. rewrite rev_app_distr. simpl.
    repeat rewrite <- app_assoc. simpl. reflexivity.
  - intros [p [q [r Hl]]]. exists (rev r), (rev q), (rev p).
    rewrite <- (rev_involutive l), Hl.
    rewrite rev_app_distr. simpl. rewrite rev_app_distr. simpl.
    repeat rewrite <- app_assoc. simpl. reflexivity.
Qed.

(* ------------------------------------------------------------------------------------------ *)
(* the dependency relation of an index                                                         *)
(* ------------------------------------------------------------------------------------------ *)
(* [edge idx a b]: stage a owns (per find_owner) an input of stage b: a is directly upstream. *)
Definition edge (idx : index) (a b : bytes) : Prop :=
  exists stg art up,
    alookup b idx = Some stg /\ In art (s_inputs stg) /\ find_owner idx (a_path art) = Some (a, up).

(* a path of at least one edge *)
Inductive path (idx : index) : bytes -> bytes -> Prop :=
| path_one a b : edge idx a b -> path idx a b
| path_step a b c : edge idx a b -> path idx b c -> path idx a c.

(* reflexive-transitive closure: a is b or upstream of b *)
Definition upstream (idx : index) (a b : bytes) : Prop := a = b \/ path idx a b.

Definition on_cycle (idx : index) (a : bytes) : Prop := path idx a a.

Lemma path_snoc idx a b c : path idx a b -> edge idx b c -> path idx a c.
Proof.
  intros Hp He. induction Hp as [a b Hab|a b c' Hab Hp IH].
  - eapply path_step; [exact Hab|apply path_one; exact He].
  - eapply path_step; [exact Hab|apply IH; exact He].
Qed.

Lemma upstream_edge idx a b c : edge idx a b -> upstream idx b c -> upstream idx a c.
Proof.
  intros He [Hbc|Hp]; right.
  - subst c. apply path_one. exact He.
  - eapply path_step; eassumption.
Qed.

Lemma upstream_clos idx a b : upstream idx a b <-> clos_refl_trans bytes (edge idx) a b.
Proof.
  split.
  - intros [Heq|Hp].
    + subst b. apply rt_refl.
    + induction Hp as [a b Hab|a b c Hab Hp IH].
      * apply rt_step. exact Hab.
      * eapply rt_trans; [apply rt_step; exact Hab|exact IH].
  - intros Hc. apply clos_rt_rt1n in Hc. induction Hc as [a|a b c Hab Hbc IH].
    + left. reflexivity.
    + eapply upstream_edge; eassumption.
Qed.

(* ------------------------------------------------------------------------------------------ *)
(* the ghost finish order and the core invariant, shared by all traversals                     *)
(* ------------------------------------------------------------------------------------------ *)
Section Core.
  Variable idx : index.

  (* fin: finish order, newest first *)
  Record core (fin : list bytes) : Prop := {
    core_nodup : NoDup fin;
    core_owners : forall a b, In b fin -> edge idx a b -> earlier fin a b }.

  Lemma core_nil : core [].
  Proof. split; [constructor|]. intros a b Hb. destruct Hb. Qed.

  Lemma core_path fin a b : core fin -> path idx a b -> In b fin -> earlier fin a b.
  Proof.
    intros Hc Hp. induction Hp as [a b Hab|a b c Hab Hp IH]; intros Hb.
    - apply (core_owners _ Hc); assumption.
    - specialize (IH Hb). eapply earlier_trans; [apply Hc| |exact IH].
      apply (core_owners _ Hc); [|exact Hab]. eapply earlier_In_l. exact IH.
  Qed.

  Lemma core_acyclic fin a : core fin -> In a fin -> ~ on_cycle idx a.
  Proof.
    intros Hc Ha Hp. eapply earlier_irrefl; [apply Hc|]. eapply core_path; eassumption.
  Qed.

  Lemma core_upstream fin a b : core fin -> upstream idx a b -> In b fin -> In a fin.
  Proof.
    intros Hc [Heq|Hp] Hb; [subst; exact Hb|]. eapply earlier_In_l. eapply core_path; eassumption.
  Qed.

  (* finishing stage s after all the owners of its inputs *)
  Lemma core_finish fin s :
    core fin -> ~ In s fin -> (forall a, edge idx a s -> In a fin) -> core (s :: fin).
  Proof.
    intros Hc Hs Hown. split.
    - constructor; [exact Hs|apply Hc].
    - intros a b [Hb|Hb] Hab; simpl.
      + subst b. left. split; [reflexivity|]. apply Hown. exact Hab.
      + right. apply (core_owners _ Hc); assumption.
  Qed.

  (* a traversal that succeeded on a target cannot have a cycle upstream of it *)
  Lemma core_no_cycle_upstream fin t a :
    core fin -> In t fin -> upstream idx a t -> ~ on_cycle idx a.
  Proof.
    intros Hc Ht Hup. eapply core_acyclic; [exact Hc|]. eapply core_upstream; eassumption.
  Qed.
End Core.

(* ------------------------------------------------------------------------------------------ *)
(* the recursion stack bounds the depth: generic arithmetic                                    *)
(* ------------------------------------------------------------------------------------------ *)
Definition stack_ok {A} (keys : list (bytes * A)) (inprog : list bytes) : Prop :=
  NoDup inprog /\ incl inprog (map fst keys).

Lemma stack_ok_len {A} (keys : list (bytes * A)) inprog : stack_ok keys inprog -> (length inprog <= length keys)%nat.
Proof.
  intros [Hnd Hincl]. rewrite <- (map_length fst keys). apply NoDup_incl_length; assumption.
Qed.

Lemma stack_ok_push {A} (keys : list (bytes * A)) inprog sp v :
  stack_ok keys inprog -> mem sp inprog = false -> alookup sp keys = Some v -> stack_ok keys (sp :: inprog).
Proof.
  intros [Hnd Hincl] Hm Hl. split.
  - constructor; [apply mem_notIn; exact Hm|exact Hnd].
  - intros x [Hx|Hx]; [subst x; eapply alookup_Some_In; exact Hl|apply Hincl; exact Hx].
Qed.

Lemma stack_ok_nil {A} (keys : list (bytes * A)) : stack_ok keys [].
Proof. split; [constructor|intros x Hx; destruct Hx]. Qed.

(* ------------------------------------------------------------------------------------------ *)
(* run_stage                                                                                   *)
(* ------------------------------------------------------------------------------------------ *)
Definition rstate := (node * list (bytes * bool) * list bytes)%type.

Section Run.
  Variable H : bytes -> bytes.
  Variable exec : bytes -> stage -> node -> cache -> res node.
  Variable idx : index.
  Variable c : cache.
  Variable recursive : bool.
  (* [K] switches the ORDER part of the invariant on (K := True: theorems about order and cycles)
     or off (K := False: the remaining part holds of ANY ran/log with log inside dom ran, which
     gives the once / scope theorems from an arbitrary starting state). *)
  Variable K : Prop.

  (* the loop over the inputs (the inner [fix ins] of run_stage) as a top-level function *)
  Fixpoint run_ins (f : nat) (stack : list bytes) (arts : list artifact)
           (root : node) (ran : list (bytes * bool)) (log : list bytes) (doit : bool)
    : res (node * list (bytes * bool) * list bytes * bool) :=
    match arts with
    | [] => Ok (root, ran, log, doit)
    | a :: r =>
      match find_owner idx (a_path a) with
      | None =>
        match short_top H a root c with
        | Ok cm => run_ins f stack r root ran log (doit || negb cm)
        | Err => Err
        end
      | Some (op, up) =>
        if recursive then
          match run_stage H exec f idx c recursive root ran log stack op with
          | Ok (root', ran', log') =>
            let upran := match alookup op ran' with Some b => b | None => false end in
            run_ins f stack r root' ran' log' (doit || upran || negb (beqb (a_cs a) (a_cs up)))
          | Err => Err
          end
        else run_ins f stack r root ran log doit
      end
    end.

  Definition has_cmd_of (stg : stage) : bool := match s_cmd stg with [] => false | _ => true end.
  Definition do0_of (stg : stage) : bool :=
    let cs_ok := match s_cs stg with [] => false | cs => beqb (def_checksum H stg) cs end in
    (has_cmd_of stg && match s_inputs stg with [] => true | _ => false end) || negb cs_ok.

  (* what happens after the loop over the inputs *)
  Definition run_finish (sp : bytes) (stg : stage)
             (r : res (node * list (bytes * bool) * list bytes * bool)) : res rstate :=
    match r with
    | Err => Err
    | Ok (root1, ran1, log1, do1) =>
      let do2 := if do1 then Ok true else any_stale H (s_outputs stg) root1 c in
      match do2 with
      | Err => Err
      | Ok d =>
        if d && has_cmd_of stg then
          match exec sp stg root1 c with
          | Ok root2 => Ok (root2, ins_sorted sp d ran1, sp :: log1)
          | Err => Err
          end
        else Ok (root1, ins_sorted sp d ran1, log1)
      end
    end.

  Lemma run_stage_S f root ran log inprog sp :
    run_stage H exec (S f) idx c recursive root ran log inprog sp =
    match alookup sp ran with
    | Some _ => Ok (root, ran, log)
    | None =>
      if mem sp inprog then Err
      else match alookup sp idx with
           | None => Err
           | Some stg =>
             run_finish sp stg (run_ins f (sp :: inprog) (s_inputs stg) root ran log (do0_of stg))
           end
    end.
  Proof.
    cbn [run_stage].
    destruct (alookup sp ran) as [b|]; [reflexivity|].
    destruct (mem sp inprog); [reflexivity|].
    destruct (alookup sp idx) as [stg|]; [|reflexivity].
    unfold run_finish, do0_of, has_cmd_of.
    match goal with
    | |- match ?F _ _ _ _ _ with _ => _ end = _ =>
      assert (Hins : forall arts root0 ran0 log0 doit0,
                 F arts root0 ran0 log0 doit0 = run_ins f (sp :: inprog) arts root0 ran0 log0 doit0)
    end.
    { induction arts as [|a r IH]; intros root0 ran0 log0 doit0; cbn [run_ins]; [reflexivity|].
      destruct (find_owner idx (a_path a)) as [[op up]|].
      - destruct recursive; [|apply IH].
        destruct (run_stage H exec f idx c true root0 ran0 log0 (sp :: inprog) op) as [[[root' ran'] log']|];
          [apply IH|reflexivity].
      - destruct (short_top H a root0 c) as [cm|]; [apply IH|reflexivity]. }
    rewrite Hins. reflexivity.
  Qed.

  (* ---- the invariant ---- *)
  Definition disj (ran : list (bytes * bool)) (stack : list bytes) : Prop :=
    forall s, In s stack -> alookup s ran = None.

  Record W (ran : list (bytes * bool)) (log fin : list bytes) : Prop := {
    W_nodup : NoDup fin;
    W_dom : forall s, In s fin <-> alookup s ran <> None;
    W_core : K -> recursive = true -> core idx fin;
    W_log_sub : forall s, In s log -> In s fin;
    W_log_nodup : NoDup log;
    W_log_order : forall a b, earlier log a b -> earlier fin a b }.

  Lemma W_nil : W [] [] [].
  Proof.
    split.
    - constructor.
    - intros s. simpl. split; [intros Hf; destruct Hf|intros Hne; apply Hne; reflexivity].
    - intros _ _. apply core_nil.
    - intros s Hs. destruct Hs.
    - constructor.
    - intros a b Hab. destruct Hab.
  Qed.

  Lemma W_finish ran log fin sp d log' :
    W ran log fin -> alookup sp ran = None ->
    (recursive = true -> forall a, edge idx a sp -> In a fin) ->
    log' = log \/ log' = sp :: log ->
    W (ins_sorted sp d ran) log' (sp :: fin).
  Proof.
    intros HW Hsp Hown Hlog.
    assert (Hnotfin : ~ In sp fin).
    { intros Hin. apply (W_dom _ _ _ HW) in Hin. contradiction. }
    assert (Hnotlog : ~ In sp log).
    { intros Hin. apply Hnotfin. apply (W_log_sub _ _ _ HW). exact Hin. }
    split.
    - constructor; [exact Hnotfin|apply HW].
    - intros s. destruct (bytes_dec s sp) as [Heq|Hne].
      + subst s. rewrite alookup_ins_same. split; [discriminate|]. intros _. left. reflexivity.
      + rewrite alookup_ins_other by exact Hne. rewrite <- (W_dom _ _ _ HW). simpl. split.
        * intros [Heq|Hin]; [congruence|exact Hin].
        * intros Hin. right. exact Hin.
    - intros HK Hrec. apply core_finish; [apply HW; assumption|exact Hnotfin|apply Hown; exact Hrec].
    - intros s Hs. destruct Hlog as [Hl|Hl]; subst log'.
      + right. apply (W_log_sub _ _ _ HW). exact Hs.
      + destruct Hs as [Hs|Hs]; [left; exact Hs|right; apply (W_log_sub _ _ _ HW); exact Hs].
    - destruct Hlog as [Hl|Hl]; subst log'; [apply HW|].
      constructor; [exact Hnotlog|apply HW].
    - intros a b Hab. destruct Hlog as [Hl|Hl]; subst log'.
      + simpl. right. apply (W_log_order _ _ _ HW). exact Hab.
      + simpl in Hab. simpl. destruct Hab as [[Hb Ha]|Hab].
        * left. split; [exact Hb|]. apply (W_log_sub _ _ _ HW). exact Ha.
        * right. apply (W_log_order _ _ _ HW). exact Hab.
  Qed.

  (* relation between the state before and after a (successful) piece of traversal; P bounds the
     newly finished stages *)
  Record post (P : bytes -> Prop) (stack : list bytes)
         (ran : list (bytes * bool)) (log fin : list bytes)
         (ran' : list (bytes * bool)) (log' fin' : list bytes) : Prop := {
    P_W : W ran' log' fin';
    P_fin : exists e, fin' = e ++ fin /\ forall s, In s e -> P s;
    P_log : exists e, log' = e ++ log;
    P_disj : disj ran' stack;
    P_mono : forall s b, alookup s ran = Some b -> alookup s ran' = Some b }.

  Lemma post_refl P stack ran log fin : W ran log fin -> disj ran stack -> post P stack ran log fin ran log fin.
  Proof.
    intros HW Hd. split; [exact HW| | |exact Hd|auto].
    - exists []. split; [reflexivity|]. intros s Hs. destruct Hs.
    - exists []. reflexivity.
  Qed.

  Lemma post_trans (P Q R : bytes -> Prop) stack ran1 log1 fin1 ran2 log2 fin2 ran3 log3 fin3 :
    (forall s, P s -> R s) -> (forall s, Q s -> R s) ->
    post P stack ran1 log1 fin1 ran2 log2 fin2 ->
    post Q stack ran2 log2 fin2 ran3 log3 fin3 ->
    post R stack ran1 log1 fin1 ran3 log3 fin3.
  Proof.
    intros HPR HQR [HW2 [e2 [Hf2 He2]] [l2 Hl2] Hd2 Hm2] [HW3 [e3 [Hf3 He3]] [l3 Hl3] Hd3 Hm3].
    split; [exact HW3| | |exact Hd3|auto].
    - exists (e3 ++ e2). split; [subst; rewrite app_assoc; reflexivity|].
      intros s Hs. apply in_app_or in Hs as [Hs|Hs]; [apply HQR, He3, Hs|apply HPR, He2, Hs].
    - exists (l3 ++ l2). subst. rewrite app_assoc. reflexivity.
  Qed.

  Definition in_scope (t s : bytes) : Prop := if recursive then upstream idx s t else s = t.

  Lemma in_scope_refl t : in_scope t t.
  Proof. unfold in_scope. destruct recursive; [left|]; reflexivity. Qed.

  Lemma upstream_edge_path s op sp : upstream idx s op -> edge idx op sp -> path idx s sp.
  Proof.
    intros [Heq|Hp] He; [subst; apply path_one; exact He|eapply path_snoc; eassumption].
  Qed.

  Definition run_spec (f : nat) (stack : list bytes) : Prop :=
    forall root ran log fin sp root' ran' log',
      W ran log fin -> disj ran stack ->
      run_stage H exec f idx c recursive root ran log stack sp = Ok (root', ran', log') ->
      exists fin', post (in_scope sp) stack ran log fin ran' log' fin' /\ In sp fin'.

  Lemma ins_post f stack sp stg :
    run_spec f stack -> alookup sp idx = Some stg ->
    forall arts root ran log doit fin root' ran' log' doit',
      incl arts (s_inputs stg) -> W ran log fin -> disj ran stack ->
      run_ins f stack arts root ran log doit = Ok (root', ran', log', doit') ->
      exists fin',
        post (fun s => recursive = true /\ path idx s sp) stack ran log fin ran' log' fin' /\
        (recursive = true -> forall a op up,
            In a arts -> find_owner idx (a_path a) = Some (op, up) -> In op fin').
  Proof.
    intros IH Hstg. induction arts as [|a r IHr];
      intros root ran log doit fin root' ran' log' doit' Hincl HW Hd Hrun; cbn [run_ins] in Hrun.
    - inversion Hrun; subst. exists fin. split; [apply post_refl; assumption|].
      intros _ a op up Ha. destruct Ha.
    - assert (Hinclr : incl r (s_inputs stg)).
      { intros x Hx. apply Hincl. right. exact Hx. }
      destruct (find_owner idx (a_path a)) as [[op up]|] eqn:Hfo.
      + destruct (bool_cases recursive) as [Hrec|Hrec].
        * apply (if_true_eq _ _ _ _ Hrec) in Hrun.
          destruct (run_stage H exec f idx c recursive root ran log stack op) as [[[root1 ran1] log1]|] eqn:Hsub;
            [|discriminate].
          destruct (IH _ _ _ _ _ _ _ _ HW Hd Hsub) as [fin1 [Hp1 Hop]].
          destruct (IHr _ _ _ _ _ _ _ _ _ Hinclr (P_W _ _ _ _ _ _ _ _ Hp1) (P_disj _ _ _ _ _ _ _ _ Hp1) Hrun)
            as [fin2 [Hp2 Hown2]].
          exists fin2. split.
          -- eapply post_trans; [| |exact Hp1|exact Hp2].
             ++ intros s Hs. split; [exact Hrec|]. unfold in_scope in Hs. rewrite Hrec in Hs.
                eapply upstream_edge_path; [exact Hs|].
                exists stg, a, up. split; [exact Hstg|]. split; [apply Hincl; left; reflexivity|exact Hfo].
             ++ auto.
          -- intros _ a' op' up' [Ha'|Ha'] Hfo'.
             ++ subst a'. rewrite Hfo in Hfo'. inversion Hfo'; subst.
                destruct (P_fin _ _ _ _ _ _ _ _ Hp2) as [e [He _]]. rewrite He.
                apply in_or_app. right. exact Hop.
             ++ eapply Hown2; [exact Hrec|exact Ha'|exact Hfo'].
        * apply (if_false_eq _ _ _ _ Hrec) in Hrun.
          destruct (IHr _ _ _ _ _ _ _ _ _ Hinclr HW Hd Hrun) as [fin2 [Hp2 Hown2]].
          exists fin2. split; [exact Hp2|]. intros Hf. congruence.
      + destruct (short_top H a root c) as [cm|]; [|discriminate].
        destruct (IHr _ _ _ _ _ _ _ _ _ Hinclr HW Hd Hrun) as [fin2 [Hp2 Hown2]].
        exists fin2. split; [exact Hp2|].
        intros Hrec a' op' up' [Ha'|Ha'] Hfo'.
        * subst a'. congruence.
        * eapply Hown2; eassumption.
  Qed.

  Lemma finish_post stack sp stg ran log fin ran1 log1 fin1 :
    alookup sp ran = None -> mem sp stack = false -> alookup sp idx = Some stg ->
    post (fun s => recursive = true /\ path idx s sp) (sp :: stack) ran log fin ran1 log1 fin1 ->
    (recursive = true -> forall a op up,
        In a (s_inputs stg) -> find_owner idx (a_path a) = Some (op, up) -> In op fin1) ->
    forall d lg, lg = log1 \/ lg = sp :: log1 ->
      post (in_scope sp) stack ran log fin (ins_sorted sp d ran1) lg (sp :: fin1).
  Proof.
    intros Hnone Hmem Hstg Hp1 Hown1 d lg Hlg.
    assert (Hsp1 : alookup sp ran1 = None).
    { apply (P_disj _ _ _ _ _ _ _ _ Hp1). left. reflexivity. }
    split.
    - apply (W_finish ran1 log1 fin1); [apply Hp1|exact Hsp1| |exact Hlg].
      intros Hrec a [stg' [art [up [Hstg' [Hart Hfo]]]]].
      rewrite Hstg in Hstg'. inversion Hstg'; subst stg'.
      eapply Hown1; eassumption.
    - destruct (P_fin _ _ _ _ _ _ _ _ Hp1) as [e1 [He1 Hsc1]].
      exists (sp :: e1). split; [simpl; congruence|].
      intros s [Hs|Hs]; [subst s; apply in_scope_refl|].
      destruct (Hsc1 s Hs) as [Hrec Hpath]. unfold in_scope. rewrite Hrec. right. exact Hpath.
    - destruct (P_log _ _ _ _ _ _ _ _ Hp1) as [l1 Hl1].
      destruct Hlg as [Hlg|Hlg]; subst lg.
      + exists l1. exact Hl1.
      + exists (sp :: l1). simpl. congruence.
    - intros s Hs. assert (Hne : s <> sp).
      { intros Heq. subst s. apply mem_notIn in Hmem. contradiction. }
      rewrite alookup_ins_other by exact Hne. apply (P_disj _ _ _ _ _ _ _ _ Hp1). right. exact Hs.
    - intros s b Hs. assert (Hne : s <> sp).
      { intros Heq. subst s. congruence. }
      rewrite alookup_ins_other by exact Hne. apply (P_mono _ _ _ _ _ _ _ _ Hp1). exact Hs.
  Qed.

  Lemma run_post : forall f stack, run_spec f stack.
  Proof.
    induction f as [|f IH]; intros stack root ran log fin sp root' ran' log' HW Hd Hrun.
    { simpl in Hrun. discriminate. }
    rewrite run_stage_S in Hrun.
    destruct (alookup sp ran) as [b|] eqn:Hran.
    { inversion Hrun; subst. exists fin. split; [apply post_refl; assumption|].
      apply (W_dom _ _ _ HW). rewrite Hran. discriminate. }
    destruct (mem sp stack) eqn:Hmem; [discriminate|].
    destruct (alookup sp idx) as [stg|] eqn:Hstg; [|discriminate].
    destruct (run_ins f (sp :: stack) (s_inputs stg) root ran log (do0_of stg))
      as [[[[root1 ran1] log1] do1]|] eqn:Hins; [|discriminate].
    assert (Hd1 : disj ran (sp :: stack)).
    { intros s [Hs|Hs]; [subst s; exact Hran|apply Hd; exact Hs]. }
    destruct (ins_post f (sp :: stack) sp stg (IH (sp :: stack)) Hstg _ _ _ _ _ fin _ _ _ _
                       (incl_refl _) HW Hd1 Hins) as [fin1 [Hp1 Hown1]].
    pose proof (finish_post stack sp stg ran log fin ran1 log1 fin1
                            Hran Hmem Hstg Hp1 Hown1) as Hfin.
    unfold run_finish in Hrun.
    destruct (if do1 then Ok true else any_stale H (s_outputs stg) root1 c) as [d|]; [|discriminate].
    destruct (d && has_cmd_of stg).
    - destruct (exec sp stg root1 c) as [root2|]; [|discriminate].
      inversion Hrun; subst. exists (sp :: fin1). split; [|left; reflexivity].
      apply Hfin. right. reflexivity.
    - inversion Hrun; subst. exists (sp :: fin1). split; [|left; reflexivity].
      apply Hfin. left. reflexivity.
  Qed.

  (* ---- several targets, as System.step (CRun) runs them ---- *)
  Definition run_targets (fuel : nat) (ts : list bytes) (init : res rstate) : res rstate :=
    fold_left (fun acc t =>
                 match acc with
                 | Ok (root, ran, log) => run_stage H exec fuel idx c recursive root ran log [] t
                 | Err => Err
                 end) ts init.

  Lemma run_targets_Err fuel ts : run_targets fuel ts Err = Err.
  Proof. induction ts as [|t r IH]; [reflexivity|exact IH]. Qed.

  Lemma run_targets_cons fuel t r root ran log :
    run_targets fuel (t :: r) (Ok (root, ran, log)) =
    run_targets fuel r (run_stage H exec fuel idx c recursive root ran log [] t).
  Proof. reflexivity. Qed.

  Lemma disj_nil ran : disj ran [].
  Proof. intros s Hs. destruct Hs. Qed.

  Lemma run_targets_post fuel : forall ts root ran log fin root' ran' log',
    W ran log fin ->
    run_targets fuel ts (Ok (root, ran, log)) = Ok (root', ran', log') ->
    exists fin',
      post (fun s => exists t, In t ts /\ in_scope t s) [] ran log fin ran' log' fin' /\
      forall t, In t ts -> In t fin'.
  Proof.
    induction ts as [|t r IH]; intros root ran log fin root' ran' log' HW Hrun.
    - inversion Hrun; subst. exists fin. split; [apply post_refl; [exact HW|apply disj_nil]|].
      intros t Ht. destruct Ht.
    - rewrite run_targets_cons in Hrun.
      destruct (run_stage H exec fuel idx c recursive root ran log [] t) as [[[root1 ran1] log1]|] eqn:Hone.
      2:{ rewrite run_targets_Err in Hrun. discriminate. }
      destruct (run_post fuel [] _ _ _ _ _ _ _ _ HW (disj_nil ran) Hone) as [fin1 [Hp1 Ht1]].
      destruct (IH _ _ _ _ _ _ _ (P_W _ _ _ _ _ _ _ _ Hp1) Hrun) as [fin2 [Hp2 Hts2]].
      exists fin2. split.
      + eapply post_trans; [| |exact Hp1|exact Hp2].
        * intros s Hs. exists t. split; [left; reflexivity|exact Hs].
        * intros s [t' [Ht' Hs]]. exists t'. split; [right; exact Ht'|exact Hs].
      + intros t' [Ht'|Ht']; [|apply Hts2; exact Ht'].
        subst t'. destruct (P_fin _ _ _ _ _ _ _ _ Hp2) as [e [He _]]. rewrite He.
        apply in_or_app. right. exact Ht1.
  Qed.
End Run.

(* ---- fuel: the recursion depth is bounded by the stack, whose entries are distinct keys of idx ---- *)
Section RunFuel.
  Variable H : bytes -> bytes.
  Variable exec : bytes -> stage -> node -> cache -> res node.
  Variable idx : index.
  Variable c : cache.
  Variable recursive : bool.

  Lemma run_ins_fuel f f' stack :
    (forall root ran log sp,
        run_stage H exec f idx c recursive root ran log stack sp =
        run_stage H exec f' idx c recursive root ran log stack sp) ->
    forall arts root ran log doit,
      run_ins H exec idx c recursive f stack arts root ran log doit =
      run_ins H exec idx c recursive f' stack arts root ran log doit.
  Proof.
    intros IH. induction arts as [|a r IHr]; intros root ran log doit; cbn [run_ins]; [reflexivity|].
    destruct (find_owner idx (a_path a)) as [[op up]|].
    - destruct recursive; [|apply IHr]. rewrite IH.
      destruct (run_stage H exec f' idx c true root ran log stack op) as [[[root1 ran1] log1]|];
        [apply IHr|reflexivity].
    - destruct (short_top H a root c) as [cm|]; [apply IHr|reflexivity].
  Qed.

  Lemma run_fuel : forall f f' stack root ran log sp,
    stack_ok idx stack ->
    (length idx < f + length stack)%nat -> (length idx < f' + length stack)%nat ->
    run_stage H exec f idx c recursive root ran log stack sp =
    run_stage H exec f' idx c recursive root ran log stack sp.
  Proof.
    induction f as [|f IH]; intros f' stack root ran log sp Hok Hf Hf'.
    { exfalso. apply stack_ok_len in Hok. lia. }
    destruct f' as [|f'].
    { exfalso. apply stack_ok_len in Hok. lia. }
    rewrite !run_stage_S.
    destruct (alookup sp ran) as [b|]; [reflexivity|].
    destruct (mem sp stack) eqn:Hmem; [reflexivity|].
    destruct (alookup sp idx) as [stg|] eqn:Hstg; [|reflexivity].
    rewrite (run_ins_fuel f f' (sp :: stack)); [reflexivity|].
    intros root0 ran0 log0 sp0. apply IH.
    - eapply stack_ok_push; eassumption.
    - simpl. lia.
    - simpl. lia.
  Qed.
End RunFuel.

(* ---- exec is never called on a stage that lies on a cycle (recursive = true) ---- *)
Section RunExt.
  Variable H : bytes -> bytes.
  Variables exec exec' : bytes -> stage -> node -> cache -> res node.
  Variable idx : index.
  Variable c : cache.
  Hypothesis agree : forall sp stg root, ~ on_cycle idx sp -> exec sp stg root c = exec' sp stg root c.

  Lemma run_ins_ext f stack :
    (forall root ran log fin sp,
        W idx true True ran log fin -> disj ran stack ->
        run_stage H exec f idx c true root ran log stack sp =
        run_stage H exec' f idx c true root ran log stack sp) ->
    forall arts root ran log doit fin,
      W idx true True ran log fin -> disj ran stack ->
      run_ins H exec idx c true f stack arts root ran log doit =
      run_ins H exec' idx c true f stack arts root ran log doit.
  Proof.
    intros IH. induction arts as [|a r IHr]; intros root ran log doit fin HW Hd; cbn [run_ins]; [reflexivity|].
    destruct (find_owner idx (a_path a)) as [[op up]|].
    - rewrite <- (IH _ _ _ _ _ HW Hd).
      destruct (run_stage H exec f idx c true root ran log stack op) as [[[root1 ran1] log1]|] eqn:Hsub;
        [|reflexivity].
      destruct (run_post H exec idx c true True f stack _ _ _ _ _ _ _ _ HW Hd Hsub) as [fin1 [Hp1 _]].
      eapply IHr; [apply Hp1|apply Hp1].
    - destruct (short_top H a root c) as [cm|]; [|reflexivity]. eapply IHr; eassumption.
  Qed.

  Lemma run_ext : forall f stack root ran log fin sp,
    W idx true True ran log fin -> disj ran stack ->
    run_stage H exec f idx c true root ran log stack sp =
    run_stage H exec' f idx c true root ran log stack sp.
  Proof.
    induction f as [|f IH]; intros stack root ran log fin sp HW Hd; [reflexivity|].
    rewrite !run_stage_S.
    destruct (alookup sp ran) as [b|] eqn:Hran; [reflexivity|].
    destruct (mem sp stack) eqn:Hmem; [reflexivity|].
    destruct (alookup sp idx) as [stg|] eqn:Hstg; [|reflexivity].
    assert (Hd1 : disj ran (sp :: stack)).
    { intros s [Hs|Hs]; [subst s; exact Hran|apply Hd; exact Hs]. }
    rewrite <- (run_ins_ext f (sp :: stack) (IH (sp :: stack)) _ _ _ _ _ fin HW Hd1).
    destruct (run_ins H exec idx c true f (sp :: stack) (s_inputs stg) root ran log (do0_of H stg))
      as [[[[root1 ran1] log1] do1]|] eqn:Hins; [|reflexivity].
    destruct (ins_post H exec idx c true True f (sp :: stack) sp stg
                       (run_post H exec idx c true True f (sp :: stack)) Hstg _ _ _ _ _ fin _ _ _ _
                       (incl_refl _) HW Hd1 Hins) as [fin1 [Hp1 Hown1]].
    pose proof (finish_post idx true True stack sp stg ran log fin ran1 log1 fin1
                            Hran Hmem Hstg Hp1 Hown1) as Hfin.
    unfold run_finish.
    destruct (if do1 then Ok true else any_stale H (s_outputs stg) root1 c) as [d|]; [|reflexivity].
    destruct (d && has_cmd_of stg); [|reflexivity].
    rewrite agree; [reflexivity|].
    specialize (Hfin d log1 (or_introl eq_refl)).
    eapply core_acyclic; [apply (W_core _ _ _ _ _ _ (P_W _ _ _ _ _ _ _ _ _ _ _ Hfin) I eq_refl)|].
    left. reflexivity.
  Qed.
End RunExt.
