(* C02 over histories that INCLUDE the transfers of `dud push` / `dud fetch`.

   C02_history (Properties/C02.v) is about histories of LOCAL commands: push / fetch occur in
   [step] only as their index traversal.  Here the state is the project together with the remote
   store, and a history may interleave, in any order and any number of times,
     - any local command                                   (GLocal, through [step]),
     - a push / fetch that runs to the end                 (GPush / GFetch, rstep_push / rstep_fetch),
     - a push / fetch whose rclone run is aborted part-way (GPushAborted / GFetchAborted:
       interrupted_copy of FetchRetryProofs, i.e. the first n listed objects arrive, then the
       permission fix-up over the whole list, as the repaired remoteCopy does).
   Theorem: from any state in which both stores are content-addressed and read-only (in
   particular two empty stores), after ANY such history both the local cache and the remote are
   content-addressed and read-only (cache_ok), and every object either store held at the start is
   still there with the same bytes (cache_le) -- for both sides.

   The aborted transfers are deliberately MORE general than what the tool can do: any cut n, any
   list of keys (not only the lists fetch / push compute), and no lock check.  A push / fetch
   that fails after some of its stages went through is a history GPushAborted / GFetchAborted
   ... (one per rclone call that happened) followed by nothing. *)
From Coq Require Import NArith List Bool Lia PeanoNat String.
From DudV Require Import Base.Bytes Base.JsonStr Base.Json Model.Fs Model.Cache Model.Stage Model.Index
  Model.System Model.Remote Proofs.CacheDefs Proofs.CheckoutProofs Proofs.CommitProofs Proofs.Glue
  Proofs.RemoteProofs Proofs.FetchRetryProofs Proofs.Glue.
Import ListNotations.
Local Open Scope N_scope.

(* ================================================================== *)
(* 1. the global state and its commands                                *)
(* ================================================================== *)

(* world = mkW w_root w_cache w_stages w_index w_lock (Model/System.v); only the cache changes *)
Definition with_cache (w : world) (c : cache) : world :=
  mkW (w_root w) c (w_stages w) (w_index w) (w_lock w).

(* (project, remote store) *)
Definition gstate : Type := (world * cache)%type.

Inductive gcommand :=
| GLocal (c : command)                                (* any local command, via [step] *)
| GPush (targets : list bytes) (single : bool)        (* dud push [targets] [-s], transfer included *)
| GFetch (targets : list bytes) (single : bool)       (* dud fetch [targets] [-s], transfer included *)
| GFetchAborted (n : nat) (files : list bytes)        (* rclone remote -> local cut after n of files *)
| GPushAborted (n : nat) (files : list bytes).        (* rclone local -> remote cut after n of files *)

Definition gstep (H : bytes -> bytes) (sems : list (bytes * cmdsem)) (g : gstate) (c : gcommand) : gstate :=
  let w := fst g in
  let remote := snd g in
  match c with
  | GLocal cmd => (fst (fst (step H sems w cmd)), remote)
  | GPush targets single =>
    match rstep_push w remote targets single with
    | Ok remote' => (w, remote')
    | Err => (w, remote)
    end
  | GFetch targets single =>
    match rstep_fetch w remote targets single with
    | Ok c' => (with_cache w c', remote)
    | Err => (w, remote)
    end
  | GFetchAborted n files => (with_cache w (interrupted_copy n files remote (w_cache w)), remote)
  | GPushAborted n files => (w, interrupted_copy n files (w_cache w) remote)
  end.

Definition grun (H : bytes -> bytes) (sems : list (bytes * cmdsem)) (cmds : list gcommand) (g : gstate) : gstate :=
  fold_left (gstep H sems) cmds g.

Lemma w_cache_with_cache w c : w_cache (with_cache w c) = c.
Proof. reflexivity. Qed.

(* ================================================================== *)
(* 2. the stage-by-stage folds of push / fetch                         *)
(* ================================================================== *)

Lemma push_stages_cache_ok H idx c sps :
  H_inj H -> cache_ok H c ->
  forall r r', cache_ok H r -> push_stages idx c sps (Ok r) = Ok r' ->
               cache_ok H r' /\ cache_le r r'.
Proof.
  intros Hinj Hc. induction sps as [|sp rest IH]; intros r r' Hr Hp.
  - cbn [push_stages fold_left] in Hp. injection Hp as <-. split; [exact Hr|apply cache_le_refl].
  - unfold push_stages in Hp. cbn [fold_left] in Hp.
    destruct (push_arts (stage_outputs idx sp) c r) as [r1|] eqn:Hp1.
    + destruct (C11_push_closure_ok H _ _ _ _ Hinj Hc Hr Hp1) as (_ & Hle1 & Hok1).
      destruct (IH r1 r' Hok1 Hp) as (Hok' & Hle').
      split; [exact Hok'|exact (cache_le_trans _ _ _ Hle1 Hle')].
    + fold (push_stages idx c rest Err) in Hp. rewrite push_stages_err in Hp. discriminate Hp.
Qed.

Lemma fetch_stages_cache_ok H idx remote sps :
  cache_ok H remote ->
  forall c c', cache_ok H c -> fetch_stages idx remote sps (Ok c) = Ok c' ->
               cache_ok H c' /\ cache_le c c'.
Proof.
  intros Hr. induction sps as [|sp rest IH]; intros c c' Hc Hf.
  - cbn [fetch_stages fold_left] in Hf. injection Hf as <-. split; [exact Hc|apply cache_le_refl].
  - unfold fetch_stages in Hf. cbn [fold_left] in Hf.
    destruct (fetch_arts 64 (stage_outputs idx sp) c remote) as [c1|] eqn:Hf1.
    + pose proof (fetch_cache_ok H _ _ _ _ _ Hc Hr Hf1) as Hok1.
      pose proof (fetch_le _ _ _ _ _ Hf1) as Hle1.
      destruct (IH c1 c' Hok1 Hf) as (Hok' & Hle').
      split; [exact Hok'|exact (cache_le_trans _ _ _ Hle1 Hle')].
    + fold (fetch_stages idx remote rest Err) in Hf. rewrite fetch_stages_err in Hf. discriminate Hf.
Qed.

(* the whole commands *)
Theorem rstep_push_cache_ok H w remote targets single remote' :
  H_inj H -> cache_ok H (w_cache w) -> cache_ok H remote ->
  rstep_push w remote targets single = Ok remote' ->
  cache_ok H remote' /\ cache_le remote remote'.
Proof.
  intros Hinj Hc Hr Hp.
  destruct (C11_scope_push _ _ _ _ _ Hp) as (_ & idx & sps & _ & _ & Hps).
  exact (push_stages_cache_ok H idx (w_cache w) sps Hinj Hc remote remote' Hr Hps).
Qed.

Theorem rstep_fetch_cache_ok H w remote targets single c' :
  cache_ok H (w_cache w) -> cache_ok H remote ->
  rstep_fetch w remote targets single = Ok c' ->
  cache_ok H c' /\ cache_le (w_cache w) c'.
Proof.
  intros Hc Hr Hf.
  destruct (C11_scope_fetch _ _ _ _ _ Hf) as (_ & idx & sps & _ & _ & Hfs).
  exact (fetch_stages_cache_ok H idx remote sps Hr (w_cache w) c' Hc Hfs).
Qed.

(* ================================================================== *)
(* 3. one global step                                                  *)
(* ================================================================== *)

Theorem gstep_cache_ok :
  forall (H : bytes -> bytes), H_inj H ->
    forall sems (w : world) (remote : cache) (c : gcommand),
      cache_ok H (w_cache w) -> cache_ok H remote ->
      let g' := gstep H sems (w, remote) c in
      cache_ok H (w_cache (fst g')) /\ cache_ok H (snd g') /\
      cache_le (w_cache w) (w_cache (fst g')) /\ cache_le remote (snd g').
Proof.
  intros H Hinj sems w remote c Hc Hr. cbv zeta.
  destruct c as [cmd|targets single|targets single|n files|n files];
    unfold gstep; cbn [fst snd].
  - destruct (step_cache_ok H Hinj sems w cmd Hc) as (Hok & Hle).
    split; [exact Hok|]. split; [exact Hr|]. split; [exact Hle|apply cache_le_refl].
  - destruct (rstep_push w remote targets single) as [remote'|] eqn:Hp; cbn [fst snd].
    + destruct (rstep_push_cache_ok H _ _ _ _ _ Hinj Hc Hr Hp) as (Hok & Hle).
      split; [exact Hc|]. split; [exact Hok|]. split; [apply cache_le_refl|exact Hle].
    + split; [exact Hc|]. split; [exact Hr|]. split; apply cache_le_refl.
  - destruct (rstep_fetch w remote targets single) as [c'|] eqn:Hf; cbn [fst snd].
    + rewrite w_cache_with_cache.
      destruct (rstep_fetch_cache_ok H _ _ _ _ _ Hc Hr Hf) as (Hok & Hle).
      split; [exact Hok|]. split; [exact Hr|]. split; [exact Hle|apply cache_le_refl].
    + split; [exact Hc|]. split; [exact Hr|]. split; apply cache_le_refl.
  - rewrite w_cache_with_cache.
    split; [apply interrupted_copy_cache_ok; assumption|]. split; [exact Hr|].
    split; [apply interrupted_copy_le|apply cache_le_refl].
  - split; [exact Hc|]. split; [apply interrupted_copy_cache_ok; assumption|].
    split; [apply cache_le_refl|apply interrupted_copy_le].
Qed.

(* what a transfer does NOT touch: the workspace, the stage files, the index, the lock; push
   leaves the local cache alone and fetch the remote *)
Theorem gstep_transfer_frame H sems (w : world) (remote : cache) (c : gcommand) :
  (forall cmd, c <> GLocal cmd) ->
  let g' := gstep H sems (w, remote) c in
  w_root (fst g') = w_root w /\ w_stages (fst g') = w_stages w /\
  w_index (fst g') = w_index w /\ w_lock (fst g') = w_lock w /\
  match c with
  | GPush _ _ | GPushAborted _ _ => w_cache (fst g') = w_cache w
  | GFetch _ _ | GFetchAborted _ _ => snd g' = remote
  | GLocal _ => True
  end.
Proof.
  intros Hnl. cbv zeta.
  destruct c as [cmd|targets single|targets single|n files|n files]; unfold gstep; cbn [fst snd].
  - exfalso. exact (Hnl cmd eq_refl).
  - destruct (rstep_push w remote targets single); cbn [fst snd]; repeat split.
  - destruct (rstep_fetch w remote targets single); cbn [fst snd]; repeat split.
  - repeat split.
  - repeat split.
Qed.

(* ================================================================== *)
(* 4. every history                                                    *)
(* ================================================================== *)

Theorem transfer_history_cache_ok :
  forall (H : bytes -> bytes), H_inj H ->
    forall sems (cmds : list gcommand) (w : world) (remote : cache),
      cache_ok H (w_cache w) -> cache_ok H remote ->
      let g' := fold_left (gstep H sems) cmds (w, remote) in
      cache_ok H (w_cache (fst g')) /\ cache_ok H (snd g') /\
      cache_le (w_cache w) (w_cache (fst g')) /\ cache_le remote (snd g').
Proof.
  intros H Hinj sems cmds. induction cmds as [|c rest IH]; intros w remote Hc Hr; cbv zeta; cbn [fold_left].
  - cbn [fst snd]. split; [exact Hc|]. split; [exact Hr|]. split; apply cache_le_refl.
  - destruct (gstep_cache_ok H Hinj sems w remote c Hc Hr) as (Hc1 & Hr1 & Hlc1 & Hlr1).
    destruct (gstep H sems (w, remote) c) as [w1 r1] eqn:Hg. cbn [fst snd] in Hc1, Hr1, Hlc1, Hlr1.
    destruct (IH w1 r1 Hc1 Hr1) as (Hc2 & Hr2 & Hlc2 & Hlr2).
    split; [exact Hc2|]. split; [exact Hr2|].
    split; [exact (cache_le_trans _ _ _ Hlc1 Hlc2)|exact (cache_le_trans _ _ _ Hlr1 Hlr2)].
Qed.

(* the same through [grun] *)
Corollary grun_cache_ok :
  forall (H : bytes -> bytes), H_inj H ->
    forall sems (cmds : list gcommand) (g : gstate),
      cache_ok H (w_cache (fst g)) -> cache_ok H (snd g) ->
      cache_ok H (w_cache (fst (grun H sems cmds g))) /\ cache_ok H (snd (grun H sems cmds g)) /\
      cache_le (w_cache (fst g)) (w_cache (fst (grun H sems cmds g))) /\
      cache_le (snd g) (snd (grun H sems cmds g)).
Proof.
  intros H Hinj sems cmds [w remote] Hc Hr. cbn [fst snd] in *.
  exact (transfer_history_cache_ok H Hinj sems cmds w remote Hc Hr).
Qed.

(* from `dud init` and an empty remote: two empty stores *)
Corollary transfer_history_from_empty :
  forall (H : bytes -> bytes), H_inj H ->
    forall sems (cmds : list gcommand) (w : world),
      w_cache w = [] ->
      let g' := fold_left (gstep H sems) cmds (w, []) in
      cache_ok H (w_cache (fst g')) /\ cache_ok H (snd g').
Proof.
  intros H Hinj sems cmds w He. cbv zeta.
  assert (Hc : cache_ok H (w_cache w)) by (rewrite He; apply cache_ok_empty).
  destruct (transfer_history_cache_ok H Hinj sems cmds w [] Hc (cache_ok_empty H)) as (Hc' & Hr' & _).
  split; [exact Hc'|exact Hr'].
Qed.

(* cache_ok includes the mode: every object, on both sides, has mode cache_perms (0444) *)
Corollary transfer_history_all_ro :
  forall (H : bytes -> bytes), H_inj H ->
    forall sems (cmds : list gcommand) (w : world) (remote : cache),
      cache_ok H (w_cache w) -> cache_ok H remote ->
      let g' := fold_left (gstep H sems) cmds (w, remote) in
      (forall d o, cget (w_cache (fst g')) d = Some o -> o_mode o = cache_perms) /\
      (forall d o, cget (snd g') d = Some o -> o_mode o = cache_perms).
Proof.
  intros H Hinj sems cmds w remote Hc Hr. cbv zeta.
  destruct (transfer_history_cache_ok H Hinj sems cmds w remote Hc Hr) as (Hc' & Hr' & _).
  split; intros d o Hd; [exact (proj2 (Hc' _ _ Hd))|exact (proj2 (Hr' _ _ Hd))].
Qed.

(* ... and is stored under the digest of its own bytes, and the objects of the start keep their
   bytes: the statement of C02 spelled out, for both stores *)
Corollary transfer_history_C02 :
  forall (H : bytes -> bytes), H_inj H ->
    forall sems (cmds : list gcommand) (w : world) (remote : cache),
      cache_ok H (w_cache w) -> cache_ok H remote ->
      let g' := fold_left (gstep H sems) cmds (w, remote) in
      (forall d o, cget (w_cache (fst g')) d = Some o -> d = H (o_data o) /\ o_mode o = cache_perms) /\
      (forall d o, cget (snd g') d = Some o -> d = H (o_data o) /\ o_mode o = cache_perms) /\
      (forall d o, cget (w_cache w) d = Some o ->
         exists o', cget (w_cache (fst g')) d = Some o' /\ o_data o' = o_data o) /\
      (forall d o, cget remote d = Some o ->
         exists o', cget (snd g') d = Some o' /\ o_data o' = o_data o).
Proof. exact transfer_history_cache_ok. Qed.

(* ================================================================== *)
(* 5. non-vacuity: histories that really move objects                  *)
(* ================================================================== *)

Module TransferDemo.
  Import Demo.
  (* Demo (RemoteProofs): tree = {a, sub/{x, y}} (4 objects: 2 manifests, "hello", "world"),
     a0 its committed artifact, r0 the remote holding the 4 objects, cpart the local cache with
     the top manifest only.  Retry (FetchRetryProofs): lvl2 = the two keys the second level of
     the fetch lists. *)

  Lemma Hd_inj : H_inj Hd.
  Proof. intros a b E. unfold Hd in E. injection E as E. exact E. Qed.

  Lemma cache_ok_check (c : cache) :
    forallb (fun kv => beqb (fst kv) (Hd (o_data (snd kv))) && (o_mode (snd kv) =? cache_perms)) c = true ->
    cache_ok Hd c.
  Proof.
    intros Hall d o Hg. apply CheckoutProofs.alookup_In in Hg. rewrite forallb_forall in Hall.
    specialize (Hall _ Hg). cbn [fst snd] in Hall. apply andb_prop in Hall as (E1 & E2).
    apply beqb_eq in E1. apply N.eqb_eq in E2. split; assumption.
  Qed.

  (* ---- A. a clone that has the committed stage file and a part of the cache ---- *)
  Definition st_done : stage := mkStage [] (str "cmd") [] [] [a0].
  Definition wA : world :=
    mkW (Dir []) cpart [(str "s.yaml", Some st_done)] [str "s.yaml"] false.
  Definition histA : list gcommand := [GFetchAborted 1 Retry.lvl2; GFetch [] false].
  Definition gA1 : gstate := gstep Hd [] (wA, r0) (GFetchAborted 1 Retry.lvl2).
  Definition gA2 : gstate := gstep Hd [] gA1 (GFetch [] false).

  (* the aborted run brought one object (1 -> 2), the retry the other two (2 -> 4); the fetch
     is the command's own (rstep_fetch succeeds), the remote is untouched, and checkout from the
     final cache reproduces the tree *)
  Example histA_moves :
    grun Hd [] histA (wA, r0) = gA2 /\
    List.length (w_cache wA) = 1%nat /\
    List.length (w_cache (fst gA1)) = 2%nat /\
    List.length (w_cache (fst gA2)) = 4%nat /\
    cget (w_cache wA) Retry.k_hello = None /\
    cget (w_cache (fst gA1)) Retry.k_hello = Some (mkObj (str "hello") cache_perms) /\
    rstep_fetch (fst gA1) r0 [] false = Ok (w_cache (fst gA2)) /\
    snd gA1 = r0 /\ snd gA2 = r0 /\
    checkout_node Hd 64 a0 None (w_cache (fst gA2)) Copy = Ok (Some tree).
  Proof. vm_compute. repeat split; reflexivity. Qed.

  Example histA_premises : H_inj Hd /\ cache_ok Hd (w_cache wA) /\ cache_ok Hd r0.
  Proof.
    split; [exact Hd_inj|]. split; apply cache_ok_check; vm_compute; reflexivity.
  Qed.

  Example histA_conclusion :
    cache_ok Hd (w_cache (fst gA2)) /\ cache_ok Hd (snd gA2) /\
    cache_le (w_cache wA) (w_cache (fst gA2)) /\ cache_le r0 (snd gA2).
  Proof.
    destruct histA_premises as (Hinj & Hc & Hr). destruct histA_moves as (E & _). rewrite <- E.
    exact (transfer_history_cache_ok Hd Hinj [] histA wA r0 Hc Hr).
  Qed.

  (* ---- B. the whole story from two EMPTY stores: commit, a push cut after one object, the
          push again; then a fresh clone (same stage files, empty cache, workspace lost)
          fetches with one aborted run in between ---- *)
  Definition st_new : stage := mkStage [] (str "cmd") [] [] [top].
  Definition wB : world :=
    mkW (Dir [(str "data", tree)]) [] [(str "s.yaml", Some st_new)] [str "s.yaml"] false.
  Definition filesB : list bytes := map fst c0.
  Definition histB : list gcommand :=
    [GLocal (CCommit [] true); GPushAborted 1 filesB; GPush [] false].
  Definition gB1 : gstate := gstep Hd [] (wB, []) (GLocal (CCommit [] true)).
  Definition gB2 : gstate := gstep Hd [] gB1 (GPushAborted 1 filesB).
  Definition gB3 : gstate := gstep Hd [] gB2 (GPush [] false).
  (* the clone: stage files and index of the committed project, nothing else *)
  Definition wC : world := mkW (Dir []) [] (w_stages (fst gB3)) (w_index (fst gB3)) false.
  Definition histC : list gcommand :=
    [GFetch [] false; GLocal (CCheckout [] true false)].
  Definition gC1 : gstate := gstep Hd [] (wC, snd gB3) (GFetch [] false).
  Definition gC2 : gstate := gstep Hd [] gC1 (GLocal (CCheckout [] true false)).

  Example histB_moves :
    grun Hd [] histB (wB, []) = gB3 /\
    (* local cache 0 -> 4 -> 4 -> 4, remote 0 -> 0 -> 1 -> 4 *)
    List.length (w_cache (fst gB1)) = 4%nat /\ List.length (snd gB1) = 0%nat /\
    List.length (w_cache (fst gB2)) = 4%nat /\ List.length (snd gB2) = 1%nat /\
    List.length (w_cache (fst gB3)) = 4%nat /\ List.length (snd gB3) = 4%nat /\
    w_cache (fst gB3) = c0 /\ snd gB3 = r0 /\
    rstep_push (fst gB2) (snd gB2) [] false = Ok (snd gB3).
  Proof. vm_compute. repeat split; reflexivity. Qed.

  Example histC_moves :
    grun Hd [] histC (wC, snd gB3) = gC2 /\
    List.length (w_cache wC) = 0%nat /\
    List.length (w_cache (fst gC1)) = 4%nat /\
    rstep_fetch wC (snd gB3) [] false = Ok (w_cache (fst gC1)) /\
    snd gC2 = r0 /\
    w_root (fst gC2) = Dir [(str "data", tree)].
  Proof. vm_compute. repeat split; reflexivity. Qed.

  Example histB_conclusion :
    cache_ok Hd (w_cache (fst gB3)) /\ cache_ok Hd (snd gB3) /\
    cache_ok Hd (w_cache (fst gC2)) /\ cache_ok Hd (snd gC2).
  Proof.
    destruct histB_moves as (EB & _). destruct histC_moves as (EC & _).
    destruct (transfer_history_from_empty Hd Hd_inj [] histB wB eq_refl) as (HcB & HrB).
    change (fold_left (gstep Hd []) histB (wB, [])) with (grun Hd [] histB (wB, [])) in HcB, HrB.
    rewrite EB in HcB, HrB.
    split; [exact HcB|]. split; [exact HrB|].
    destruct (transfer_history_cache_ok Hd Hd_inj [] histC wC (snd gB3) (cache_ok_empty Hd) HrB)
      as (HcC & HrC & _).
    change (fold_left (gstep Hd []) histC (wC, snd gB3)) with (grun Hd [] histC (wC, snd gB3)) in HcC, HrC.
    rewrite EC in HcC, HrC. split; [exact HcC|exact HrC].
  Qed.
End TransferDemo.

Print Assumptions rstep_push_cache_ok.
Print Assumptions rstep_fetch_cache_ok.
Print Assumptions gstep_cache_ok.
Print Assumptions gstep_transfer_frame.
Print Assumptions transfer_history_cache_ok.
Print Assumptions grun_cache_ok.
Print Assumptions transfer_history_from_empty.
Print Assumptions transfer_history_all_ro.
Print Assumptions transfer_history_C02.
Print Assumptions TransferDemo.histA_moves.
Print Assumptions TransferDemo.histA_conclusion.
Print Assumptions TransferDemo.histB_moves.
Print Assumptions TransferDemo.histC_moves.
Print Assumptions TransferDemo.histB_conclusion.
