(* C12: one dud at a time; the lock never outlives the command.  Proofs over Model/Lock.v. *)
From Coq Require Import List Bool Arith Lia.
From DudV Require Import Model.Lock.
Import ListNotations.

(* ---------- lists ---------- *)

Lemma nth_error_upd_eq A (l : list A) i x y :
  nth_error l i = Some y -> nth_error (upd l i x) i = Some x.
Proof.
  revert i. induction l as [|a r IH]; intros [|i] Hn; simpl in *; try discriminate; auto.
Qed.

Lemma nth_error_upd_neq A (l : list A) i j x :
  i <> j -> nth_error (upd l i x) j = nth_error l j.
Proof.
  revert i j. induction l as [|a r IH]; intros [|i] [|j] Hne; simpl; auto; try congruence.
Qed.

Lemma Forall_upd A (P : A -> Prop) l i x :
  Forall P l -> P x -> Forall P (upd l i x).
Proof.
  intros Hl Hx. revert i. induction Hl as [|a r Ha Hr IH]; intros [|i]; simpl; auto.
Qed.

Lemma Forall_nth_error A (P : A -> Prop) l i x :
  Forall P l -> nth_error l i = Some x -> P x.
Proof.
  intros Hl. revert i. induction Hl as [|a r Ha Hr IH]; intros [|i] Hn; simpl in *;
    try discriminate.
  - inversion Hn; subst; auto.
  - eauto.
Qed.

(* ---------- counting the processes whose projectLocked flag is set ---------- *)

Definition b2n (b : bool) : nat := if b then 1 else 0.

Fixpoint count_locked (l : list proc) : nat :=
  match l with
  | [] => 0
  | p :: r => b2n (p_locked p) + count_locked r
  end.

Lemma count_upd l i p p' :
  nth_error l i = Some p ->
  count_locked (upd l i p') + b2n (p_locked p) = count_locked l + b2n (p_locked p').
Proof.
  revert i. induction l as [|a r IH]; intros [|i] Hn; simpl in *; try discriminate.
  - inversion Hn; subst. lia.
  - specialize (IH i Hn). lia.
Qed.

Lemma count_ge l i p :
  nth_error l i = Some p -> p_locked p = true -> 1 <= count_locked l.
Proof.
  revert i. induction l as [|a r IH]; intros [|i] Hn Hl; simpl in *; try discriminate.
  - inversion Hn; subst. rewrite Hl. simpl. lia.
  - specialize (IH i Hn Hl). lia.
Qed.

Lemma count_unique l i j p q :
  count_locked l <= 1 ->
  nth_error l i = Some p -> p_locked p = true ->
  nth_error l j = Some q -> p_locked q = true -> i = j.
Proof.
  revert i j. induction l as [|a r IH]; intros [|i] [|j] Hc Hi Hp Hj Hq; simpl in *;
    try discriminate; auto.
  - inversion Hi; subst. rewrite Hp in Hc. pose proof (count_ge r j q Hj Hq). simpl in Hc. lia.
  - inversion Hj; subst. rewrite Hq in Hc. pose proof (count_ge r i p Hi Hp). simpl in Hc. lia.
  - f_equal. apply IH; auto. lia.
Qed.

Lemma count_zero l :
  (forall i p, nth_error l i = Some p -> p_locked p = false) -> count_locked l = 0.
Proof.
  induction l as [|a r IH]; intros Hall; simpl; auto.
  rewrite (Hall 0 a eq_refl). simpl. apply IH. intros i p Hn. apply (Hall (S i) p Hn).
Qed.

(* ---------- the step function, taken apart ---------- *)

Lemma step_proc_inv k l g i g' :
  step_proc k l g i = Some g' ->
  exists p p' e,
    nth_error (procs g) i = Some p /\
    local_step k l (lockfile g) p = Some (p', e) /\
    lockfile g' = fst (apply_effect e i (lockfile g) (holder g)) /\
    holder g' = snd (apply_effect e i (lockfile g) (holder g)) /\
    procs g' = upd (procs g) i p'.
Proof.
  unfold step_proc. intros Hs.
  destruct (nth_error (procs g) i) as [p|] eqn:Hn; try discriminate.
  destruct (local_step k l (lockfile g) p) as [[p' e]|] eqn:Hl; try discriminate.
  exists p, p', e.
  destruct (apply_effect e i (lockfile g) (holder g)) as [lf h] eqn:Ha.
  inversion Hs; subst; simpl. auto.
Qed.

Lemma step_others k l g i g' j :
  step_proc k l g i = Some g' -> j <> i ->
  nth_error (procs g') j = nth_error (procs g) j.
Proof.
  intros Hs Hne. destruct (step_proc_inv _ _ _ _ _ Hs) as (p & p' & e & _ & _ & _ & _ & Hp).
  rewrite Hp. apply nth_error_upd_neq. congruence.
Qed.

Lemma run_steps k sch : forall g g', run k g sch = Some g' -> steps k g g'.
Proof.
  induction sch as [|[l i] r IH]; intros g g' Hr; simpl in Hr.
  - inversion Hr; subst. apply steps_refl.
  - destruct (step_proc k l g i) as [g1|] eqn:Hs; try discriminate.
    specialize (IH g1 g' Hr). clear Hr.
    induction IH as [|ga gb gc l' i' Hab IHab Hbc].
    + eapply steps_step; [apply steps_refl | exact Hs].
    + eapply steps_step; [apply IHab; exact Hs | exact Hbc].
Qed.

Lemma reachable_step k g l i g' :
  reachable k g -> step_proc k l g i = Some g' -> reachable k g'.
Proof.
  intros [cfg Hst] Hs. exists cfg. eapply steps_step; eauto.
Qed.

(* ---------- per-process invariant (repaired tree) ---------- *)

Definition proc_ok (p : proc) : Prop :=
  (p_locked p = true -> p_path_ok p = true) /\
  (p_refused p = true -> p_locked p = false /\ (p_pc p = Failing \/ p_pc p = Exited 1)) /\
  (locks (p_desc p) = false -> relocks (p_desc p) = false ->
     p_locked p = false /\
     match p_pc p with Resolved | Acquired | Relock => False | _ => True end) /\
  match p_pc p with
  | Start | Resolved => p_locked p = false
  | Acquired => p_locked p = true
  | Body => locks (p_desc p) = true -> p_locked p = true
  | Relock | Done | Failing => True
  | Exited c => p_locked p = false /\ c <= 1
  end.

(* what one step of one process does to its own flag, by effect on the file *)
Definition flag_effect (e : effect) (lf : bool) (p p' : proc) : Prop :=
  match e with
  | Take => lf = false /\ p_locked p = false /\ p_locked p' = true
  | Drop => p_locked p = true /\ p_locked p' = false
  | Keep => p_locked p' = p_locked p
  end.

Lemma local_step_ok l lf p p' e :
  proc_ok p -> local_step ReleaseSamePath l lf p = Some (p', e) ->
  proc_ok p' /\ p_desc p' = p_desc p /\ flag_effect e lf p p'.
Proof.
  destruct p as [c lk po cw rf rl [dl dc dr df]].
  unfold proc_ok, local_step, flag_effect. simpl.
  intros (Hpath & Href & Hnl & Hpc) Hs.
  destruct l, c; simpl in Hs; try discriminate.
  all: repeat match type of Hs with
       | context [if ?b then _ else _] => destruct b eqn:?; simpl in Hs
       end; try discriminate.
  all: inversion Hs; subst; clear Hs; simpl.
  all: repeat split; intros; subst.
  all: repeat match goal with
       | H : ?a = ?a -> _ |- _ => specialize (H eq_refl)
       | H : ?P -> _, H' : ?P |- _ => specialize (H H')
       | H : _ /\ _ |- _ => destruct H
       end.
  all: repeat match goal with
       | H : _ \/ _ |- _ => destruct H
       end.
  all: subst; try discriminate; try tauto; try congruence; try lia; auto.
  all: destruct lk, rf; simpl in *; try discriminate; try tauto; try congruence; auto.
Qed.

(* ---------- global invariant (repaired tree) ---------- *)

Definition Inv (g : global) : Prop :=
  count_locked (procs g) = b2n (lockfile g) /\
  Forall proc_ok (procs g) /\
  match holder g with
  | Some h => lockfile g = true /\ holds g h
  | None => lockfile g = false
  end.

Lemma inv_init cfg : Inv (init cfg).
Proof.
  unfold Inv, init. simpl. repeat split.
  - induction cfg as [|c r IH]; simpl; auto.
  - induction cfg as [|c r IH]; simpl; constructor; auto.
    unfold proc_ok, start_proc. simpl. repeat split; auto; intros; discriminate.
Qed.

Lemma inv_step l g i g' :
  Inv g -> step_proc ReleaseSamePath l g i = Some g' -> Inv g'.
Proof.
  intros (Hcnt & Hall & Hh) Hs.
  destruct (step_proc_inv _ _ _ _ _ Hs) as (p & p' & e & Hn & Hl & Hlf & Hho & Hpr).
  pose proof (Forall_nth_error _ _ _ _ _ Hall Hn) as Hok.
  destruct (local_step_ok _ _ _ _ _ Hok Hl) as (Hok' & _ & Hfe).
  pose proof (count_upd _ _ _ p' Hn) as Hcu.
  pose proof (nth_error_upd_eq _ _ _ p' _ Hn) as Hni.
  unfold Inv. rewrite Hpr, Hlf, Hho.
  split; [|split].
  - destruct e; simpl in *.
    + rewrite Hfe in Hcu. lia.
    + destruct Hfe as (Hlf0 & Hp & Hp'). rewrite Hp, Hp' in Hcu. rewrite Hlf0 in Hcnt.
      simpl in *. lia.
    + destruct Hfe as (Hp & Hp'). rewrite Hp, Hp' in Hcu.
      destruct (lockfile g); simpl in *; lia.
  - apply Forall_upd; auto.
  - destruct e; simpl in *.
    + destruct (holder g) as [h|]; auto.
      destruct Hh as (Hlt & q & Hq & Hql). split; auto.
      unfold holds. rewrite Hpr.
      destruct (Nat.eq_dec h i) as [->|Hne].
      * exists p'. split; auto. rewrite Hfe. congruence.
      * exists q. split; auto. rewrite nth_error_upd_neq; auto.
    + split; auto. exists p'. rewrite Hpr. split; auto. apply Hfe.
    + reflexivity.
Qed.

Lemma inv_steps g g' : steps ReleaseSamePath g g' -> Inv g -> Inv g'.
Proof.
  induction 1 as [|g1 g2 g3 l i H12 IH H23]; intros Hi; auto.
  apply (inv_step l g2 i g3 (IH Hi) H23).
Qed.

Lemma inv_reachable g : reachable ReleaseSamePath g -> Inv g.
Proof.
  intros [cfg Hst]. eapply inv_steps; eauto. apply inv_init.
Qed.

(* ---------- consequences of the invariant ---------- *)

Lemma inv_holds_unique g i j : Inv g -> holds g i -> holds g j -> i = j.
Proof.
  intros (Hcnt & _ & _) (p & Hp & Hpl) (q & Hq & Hql).
  eapply count_unique; eauto. rewrite Hcnt. destruct (lockfile g); simpl; lia.
Qed.

Lemma inv_holds_lockfile g i : Inv g -> holds g i -> lockfile g = true.
Proof.
  intros (Hcnt & _ & _) (p & Hp & Hpl).
  pose proof (count_ge _ _ _ Hp Hpl) as Hge. rewrite Hcnt in Hge.
  destruct (lockfile g); simpl in *; auto; lia.
Qed.

Lemma inv_lockfile_holder g :
  Inv g -> lockfile g = true -> exists h, holder g = Some h /\ holds g h.
Proof.
  intros (_ & _ & Hh) Hlf. destruct (holder g) as [h|].
  - exists h. tauto.
  - congruence.
Qed.

Lemma inv_holder_iff g i : Inv g -> (holder g = Some i <-> holds g i).
Proof.
  intros Hinv. split.
  - destruct Hinv as (_ & _ & Hh). intros Heq. rewrite Heq in Hh. tauto.
  - intros Hi. pose proof (inv_holds_lockfile _ _ Hinv Hi) as Hlf.
    destruct (inv_lockfile_holder _ Hinv Hlf) as (h & Hh & Hhh).
    rewrite Hh. f_equal. eapply inv_holds_unique; eauto.
Qed.

(* a process past the lock of a locking subcommand *)
Definition past_lock (p : proc) : Prop :=
  p_pc p = Acquired \/ (p_pc p = Body /\ locks (p_desc p) = true).

Lemma past_lock_locked p : proc_ok p -> past_lock p -> p_locked p = true.
Proof.
  intros (_ & _ & _ & Hpc) [Ha|[Hb Hl]].
  - rewrite Ha in Hpc. auto.
  - rewrite Hb in Hpc. auto.
Qed.

(* C12, first sentence: at most one at a time gets past the project lock *)
Theorem C12_mutex :
  forall g, reachable ReleaseSamePath g ->
    (lockfile g = true <-> exists i, holds g i /\ forall j, holds g j -> j = i) /\
    (forall i j, holds g i -> holds g j -> i = j) /\
    (forall i, holder g = Some i <-> holds g i) /\
    (forall i p, nth_error (procs g) i = Some p ->
       (p_pc p = Acquired -> p_locked p = true) /\
       (p_pc p = Body -> locks (p_desc p) = true -> p_locked p = true)) /\
    (forall i j p q, nth_error (procs g) i = Some p -> nth_error (procs g) j = Some q ->
       past_lock p -> past_lock q -> i = j).
Proof.
  intros g Hr. pose proof (inv_reachable _ Hr) as Hinv.
  assert (Hall : Forall proc_ok (procs g)) by apply Hinv.
  split; [|split; [|split; [|split]]].
  - split.
    + intros Hlf. destruct (inv_lockfile_holder _ Hinv Hlf) as (h & _ & Hh).
      exists h. split; auto. intros j Hj. eapply inv_holds_unique; eauto.
    + intros (i & Hi & _). eapply inv_holds_lockfile; eauto.
  - intros i j. apply inv_holds_unique; auto.
  - intros i. apply inv_holder_iff; auto.
  - intros i p Hn. pose proof (Forall_nth_error _ _ _ _ _ Hall Hn) as Hok. split.
    + intros Hpc. apply past_lock_locked; auto. left; auto.
    + intros Hpc Hl. apply past_lock_locked; auto. right; auto.
  - intros i j p q Hp Hq Hpp Hpq.
    apply (inv_holds_unique g i j Hinv).
    + exists p. split; auto. apply past_lock_locked; auto. eapply Forall_nth_error; eauto.
    + exists q. split; auto. apply past_lock_locked; auto. eapply Forall_nth_error; eauto.
Qed.
Print Assumptions C12_mutex.

(* ---------- refused processes ---------- *)

Lemma refusal_local k lf p p' e :
  local_step k LAcquireRefused lf p = Some (p', e) ->
  lf = true /\ e = Keep /\ p_pc p = Resolved /\ p' = set_pc (set_refused p true) Failing.
Proof.
  unfold local_step. destruct (p_pc p); try discriminate.
  destruct lf; try discriminate. intros Hs. inversion Hs. auto.
Qed.

Lemma refused_local k l lf p p' e :
  p_refused p = true -> p_locked p = false -> (p_pc p = Failing \/ p_pc p = Exited 1) ->
  local_step k l lf p = Some (p', e) ->
  l = LExit /\ e = Keep /\ p_pc p = Failing /\ p' = set_pc p (Exited 1).
Proof.
  intros Hrf Hlk Hpc. unfold local_step. rewrite Hrf, Hlk.
  destruct Hpc as [Hpc|Hpc]; rewrite Hpc; destruct l; simpl; try discriminate.
  intros Hs. inversion Hs. auto.
Qed.

(* C12: the others exit non-zero without changing anything and without removing the holder's
   lock.  First part: the refusal step itself.  Second part: everything a refused process
   does afterwards (every later state is again reachable, so the step-wise statement covers
   all of its future). *)
Theorem C12_refused_clean :
  forall g i p, reachable ReleaseSamePath g -> nth_error (procs g) i = Some p ->
    (forall g', step_proc ReleaseSamePath LAcquireRefused g i = Some g' ->
       lockfile g = true /\ lockfile g' = true /\ holder g' = holder g /\
       (forall j, j <> i -> nth_error (procs g') j = nth_error (procs g) j) /\
       (exists h, holder g = Some h /\ h <> i /\ holds g h /\ holds g' h) /\
       exists p', nth_error (procs g') i = Some p' /\
         p_refused p' = true /\ p_locked p' = false /\ p_pc p' = Failing) /\
    (p_refused p = true ->
       p_locked p = false /\ ~ holds g i /\ holder g <> Some i /\
       (p_pc p = Failing \/ p_pc p = Exited 1) /\
       (forall c, p_pc p = Exited c -> c <> 0) /\
       (p_pc p = Failing -> exists g', step_proc ReleaseSamePath LExit g i = Some g') /\
       (forall l g', step_proc ReleaseSamePath l g i = Some g' ->
          l = LExit /\ lockfile g' = lockfile g /\ holder g' = holder g /\
          (forall j, j <> i -> nth_error (procs g') j = nth_error (procs g) j) /\
          exists p', nth_error (procs g') i = Some p' /\
            p_refused p' = true /\ p_locked p' = false /\ p_pc p' = Exited 1)).
Proof.
  intros g i p Hr Hn. pose proof (inv_reachable _ Hr) as Hinv.
  assert (Hall : Forall proc_ok (procs g)) by apply Hinv.
  pose proof (Forall_nth_error _ _ _ _ _ Hall Hn) as Hok.
  split.
  - intros g' Hs.
    destruct (step_proc_inv _ _ _ _ _ Hs) as (p0 & p' & e & Hn0 & Hl & Hlf & Hho & Hpr).
    rewrite Hn in Hn0. inversion Hn0; subst p0. clear Hn0.
    destruct (refusal_local _ _ _ _ _ Hl) as (Hlft & He & Hpc & Hp'). subst e. simpl in *.
    assert (Hlk : p_locked p = false).
    { destruct Hok as (_ & _ & _ & Hm). rewrite Hpc in Hm. exact Hm. }
    destruct (inv_lockfile_holder _ Hinv Hlft) as (h & Hh & Hhh).
    assert (Hne : h <> i).
    { intros ->. destruct Hhh as (q & Hq & Hql). congruence. }
    repeat split; auto; try congruence.
    + intros j Hj. eapply step_others; eauto.
    + exists h. repeat split; auto.
      destruct Hhh as (q & Hq & Hql). exists q. split; auto.
      rewrite (step_others _ _ _ _ _ h Hs Hne). auto.
    + exists p'. rewrite Hpr. split.
      * eapply nth_error_upd_eq; eauto.
      * subst p'. simpl. auto.
  - intros Hrf. destruct Hok as (_ & Href & _ & Hm).
    destruct (Href Hrf) as (Hlk & Hpc).
    assert (Hnh : ~ holds g i).
    { intros (q & Hq & Hql). congruence. }
    split; [exact Hlk|]. split; [exact Hnh|].
    split.
    { intros Heq. apply Hnh. apply (inv_holder_iff _ _ Hinv). exact Heq. }
    split; [exact Hpc|].
    split.
    { intros c Hc. destruct Hpc as [Hpc|Hpc]; rewrite Hpc in Hc; inversion Hc; lia. }
    split.
    { intros Hf. unfold step_proc. rewrite Hn. unfold local_step. rewrite Hf, Hrf. simpl.
      eexists. reflexivity. }
    intros l g' Hs.
    destruct (step_proc_inv _ _ _ _ _ Hs) as (p0 & p' & e & Hn0 & Hl & Hlf & Hho & Hpr).
    rewrite Hn in Hn0. inversion Hn0; subst p0. clear Hn0.
    destruct (refused_local _ _ _ _ _ _ Hrf Hlk Hpc Hl) as (Hlab & He & _ & Hp').
    subst l e p'. simpl in *.
    split; [reflexivity|]. split; [exact Hlf|]. split; [exact Hho|].
    split.
    { intros j Hj. eapply step_others; eauto. }
    exists (set_pc p (Exited 1)). rewrite Hpr. split.
    + eapply nth_error_upd_eq; eauto.
    + simpl. auto.
Qed.
Print Assumptions C12_refused_clean.

(* the same, along any number of consecutive steps of the refused process *)
Inductive steps_of (k : release_kind) (i : nat) : global -> global -> Prop :=
| steps_of_refl g : steps_of k i g g
| steps_of_step g1 g2 g3 l :
    steps_of k i g1 g2 -> step_proc k l g2 i = Some g3 -> steps_of k i g1 g3.

Theorem C12_refused_clean_trace :
  forall g g' i p, reachable ReleaseSamePath g -> nth_error (procs g) i = Some p ->
    p_refused p = true -> steps_of ReleaseSamePath i g g' ->
    lockfile g' = lockfile g /\ holder g' = holder g /\
    (forall j, j <> i -> nth_error (procs g') j = nth_error (procs g) j) /\
    exists p', nth_error (procs g') i = Some p' /\ p_refused p' = true /\
      p_locked p' = false /\ (p_pc p' = Failing \/ p_pc p' = Exited 1).
Proof.
  intros g g' i p Hr Hn Hrf Hst.
  assert (Hgoal : reachable ReleaseSamePath g' /\
    lockfile g' = lockfile g /\ holder g' = holder g /\
    (forall j, j <> i -> nth_error (procs g') j = nth_error (procs g) j) /\
    exists p', nth_error (procs g') i = Some p' /\ p_refused p' = true /\
      p_locked p' = false /\ (p_pc p' = Failing \/ p_pc p' = Exited 1)).
  { induction Hst as [g|g1 g2 g3 l H12 IH H23].
    - split; [exact Hr|]. split; [reflexivity|]. split; [reflexivity|].
      split; [intros j Hj; reflexivity|].
      exists p. destruct (C12_refused_clean g i p Hr Hn) as (_ & Hafter).
      destruct (Hafter Hrf) as (Hlk & _ & _ & Hpc & _). auto.
    - destruct (IH Hr Hn) as (Hr2 & Hlf & Hho & Hoth & p2 & Hn2 & Hrf2 & Hlk2 & Hpc2).
      destruct (C12_refused_clean g2 i p2 Hr2 Hn2) as (_ & Hafter).
      destruct (Hafter Hrf2) as (_ & _ & _ & _ & _ & _ & Hstep).
      destruct (Hstep l g3 H23) as (_ & Hlf3 & Hho3 & Hoth3 & p3 & Hn3 & Hrf3 & Hlk3 & Hpc3).
      split; [eapply reachable_step; eauto|].
      split; [congruence|]. split; [congruence|].
      split.
      + intros j Hj. rewrite Hoth3; auto.
      + exists p3. auto. }
  tauto.
Qed.
Print Assumptions C12_refused_clean_trace.

(* ---------- release ---------- *)

(* C12, second sentence: every command that exits on its own leaves the project unlocked.
   The configuration (subcommand descriptor and starting directory of every process) and the
   interleaving, hence the outcome class of every process, are arbitrary. *)
Theorem C12_released :
  forall cfg g, steps ReleaseSamePath (init cfg) g ->
    (forall i p, nth_error (procs g) i = Some p -> is_exited p = true ->
       p_locked p = false /\ ~ holds g i /\ holder g <> Some i /\
       exists c, p_pc p = Exited c /\ c <= 1) /\
    ((forall i p, nth_error (procs g) i = Some p -> is_exited p = true) ->
       lockfile g = false /\ holder g = None).
Proof.
  intros cfg g Hst.
  assert (Hr : reachable ReleaseSamePath g) by (exists cfg; exact Hst).
  pose proof (inv_reachable _ Hr) as Hinv.
  assert (Hall : Forall proc_ok (procs g)) by apply Hinv.
  assert (Hex : forall i p, nth_error (procs g) i = Some p -> is_exited p = true ->
            p_locked p = false /\ exists c, p_pc p = Exited c /\ c <= 1).
  { intros i p Hn He. pose proof (Forall_nth_error _ _ _ _ _ Hall Hn) as Hok.
    destruct Hok as (_ & _ & _ & Hm). unfold is_exited in He.
    destruct (p_pc p) as [| | | | | | |c]; try discriminate.
    destruct Hm as [Hlk Hc]. split; auto. exists c. auto. }
  split.
  - intros i p Hn He. destruct (Hex i p Hn He) as (Hlk & Hc).
    assert (Hnh : ~ holds g i).
    { intros (q & Hq & Hql). congruence. }
    split; [exact Hlk|]. split; [exact Hnh|]. split; [|exact Hc].
    intros Heq. apply Hnh. apply (inv_holder_iff _ _ Hinv). exact Heq.
  - intros Hallex.
    assert (Hz : count_locked (procs g) = 0).
    { apply count_zero. intros i p Hn. apply (Hex i p Hn). apply (Hallex i p Hn). }
    destruct Hinv as (Hcnt & _ & Hh). rewrite Hz in Hcnt.
    assert (Hlf : lockfile g = false).
    { destruct (lockfile g); simpl in Hcnt; auto; discriminate. }
    split; [exact Hlf|].
    destruct (holder g) as [h|]; auto. destruct Hh as [Ht _]. congruence.
Qed.
Print Assumptions C12_released.

(* ---------- pull ---------- *)

(* pull (relocks = true) is covered by the theorems above, which hold for any descriptor;
   spelled out for a process running a relocking subcommand, among any other processes. *)
Theorem C12_pull :
  forall cfg g i p, steps ReleaseSamePath (init cfg) g ->
    nth_error (procs g) i = Some p -> relocks (p_desc p) = true ->
    (p_locked p = true ->
       lockfile g = true /\ holder g = Some i /\ forall j, holds g j -> j = i) /\
    (p_pc p = Acquired -> p_locked p = true) /\
    (p_pc p = Body -> locks (p_desc p) = true -> p_locked p = true) /\
    (p_pc p = Relock -> p_locked p = false -> holder g <> Some i) /\
    (is_exited p = true -> p_locked p = false /\ holder g <> Some i) /\
    (p_refused p = true ->
       p_locked p = false /\ (p_pc p = Failing \/ p_pc p = Exited 1) /\
       forall l g', step_proc ReleaseSamePath l g i = Some g' ->
         lockfile g' = lockfile g /\ holder g' = holder g) /\
    ((forall j q, nth_error (procs g) j = Some q -> is_exited q = true) ->
       lockfile g = false).
Proof.
  intros cfg g i p Hst Hn Hrel.
  assert (Hr : reachable ReleaseSamePath g) by (exists cfg; exact Hst).
  destruct (C12_mutex g Hr) as (_ & Huniq & Hhold & Hpcs & _).
  destruct (C12_released cfg g Hst) as (Hexd & Hallex).
  destruct (C12_refused_clean g i p Hr Hn) as (_ & Hafter).
  destruct (Hpcs i p Hn) as (Hacq & Hbody).
  split.
  { intros Hlk. assert (Hi : holds g i) by (exists p; auto).
    split.
    - destruct (C12_mutex g Hr) as (Hiff & _). apply Hiff. exists i. split; auto.
    - split.
      + apply Hhold. exact Hi.
      + intros j Hj. apply Huniq; auto. }
  split; [exact Hacq|]. split; [exact Hbody|].
  split.
  { intros _ Hlk Heq. apply Hhold in Heq. destruct Heq as (q & Hq & Hql). congruence. }
  split.
  { intros He. destruct (Hexd i p Hn He) as (Hlk & _ & Hne & _). auto. }
  split.
  { intros Hrf. destruct (Hafter Hrf) as (Hlk & _ & _ & Hpc & _ & _ & Hstep).
    split; [exact Hlk|]. split; [exact Hpc|].
    intros l g' Hs. destruct (Hstep l g' Hs) as (_ & Hlf & Hho & _). auto. }
  intros Hall. apply Hallex. exact Hall.
Qed.
Print Assumptions C12_pull.

(* ---------- pre-repair behaviour refuted ---------- *)

(* config get from a sub-directory: root found, lock created at <root>/.dud/lock, config
   read and printed, Main's unlockProject removes ./.dud/lock relative to the sub-directory:
   ENOENT -> fatal -> exit 1, and the lock stays. *)
Definition prerepair_schedule : list (label * nat) :=
  [(LResolve, 0); (LAcquireOk, 0); (LBodyOk, 0); (LBodyOk, 0); (LUnlock, 0); (LExit, 0)].

Definition prerepair_final : global :=
  mkGlobal true (Some 0) [mkProc (Exited 1) false false false false false config_desc].

Theorem C12_prerepair_refuted :
  exists g p,
    reachable ReleaseCwdRelative g /\
    procs g = [p] /\
    p_desc p = mkDesc true false false true /\ p_cwd_root p = false /\
    p_pc p = Exited 1 /\ p_locked p = false /\
    (forall i q, nth_error (procs g) i = Some q -> is_exited q = true) /\
    lockfile g = true.
Proof.
  exists prerepair_final, (mkProc (Exited 1) false false false false false config_desc).
  split.
  - exists [(config_desc, false)].
    apply run_steps with (sch := prerepair_schedule). vm_compute. reflexivity.
  - repeat split; try reflexivity.
    intros [|[|i]] q Hq; simpl in Hq; try discriminate.
    inversion Hq; subst q. reflexivity.
Qed.
Print Assumptions C12_prerepair_refuted.

(* the very same schedule on the repaired tree ends with the project unlocked, exit 0 *)
Example repaired_same_schedule :
  run ReleaseSamePath (init [(config_desc, false)]) prerepair_schedule
  = Some (mkGlobal false None [mkProc (Exited 0) false true false false false config_desc]).
Proof. vm_compute. reflexivity. Qed.

(* pre-repair, the orphaned lock then refuses every later command, here a commit from the
   root, although no dud is running *)
Example prerepair_orphan_refuses_next :
  exists g, run ReleaseCwdRelative (init [(config_desc, false); (prepare_desc, true)])
              (prerepair_schedule ++ [(LResolve, 1); (LAcquireRefused, 1); (LExit, 1)]) = Some g
            /\ lockfile g = true
            /\ map exit_code (procs g) = [Some 1; Some 1].
Proof. eexists. split; [vm_compute; reflexivity|]. split; reflexivity. Qed.

(* ---------- non-vacuity ---------- *)

(* two commits started together from a sub-directory and from the root: 0 acquires, 1 is
   refused and exits 1 while 0 is still working, 0 finishes; nothing is left locked *)
Definition two_procs_schedule : list (label * nat) :=
  [(LResolve, 0); (LResolve, 1); (LAcquireOk, 0); (LAcquireRefused, 1); (LExit, 1);
   (LBodyOk, 0); (LBodyOk, 0); (LUnlock, 0); (LExit, 0)].

Example two_procs_one_refused :
  exists g, run ReleaseSamePath (init [(prepare_desc, false); (prepare_desc, true)])
              two_procs_schedule = Some g
            /\ lockfile g = false /\ holder g = None
            /\ map exit_code (procs g) = [Some 0; Some 1]
            /\ map p_refused (procs g) = [false; true]
            /\ map p_locked (procs g) = [false; false].
Proof. eexists. split; [vm_compute; reflexivity|]. repeat split; reflexivity. Qed.

(* the state in the middle: 0 in its body holding the lock, 1 already gone *)
Example two_procs_middle :
  exists g, run ReleaseSamePath (init [(prepare_desc, false); (prepare_desc, true)])
              (firstn 6 two_procs_schedule) = Some g
            /\ lockfile g = true /\ holder g = Some 0
            /\ map p_pc (procs g) = [Body; Exited 1]
            /\ map p_locked (procs g) = [true; false].
Proof. eexists. split; [vm_compute; reflexivity|]. repeat split; reflexivity. Qed.

(* body failure from a sub-directory (config set, no chdir): fatal unlocks, exit 1 *)
Example body_failure_from_subdir :
  exists g, run ReleaseSamePath (init [(config_desc, false)])
              [(LResolve, 0); (LAcquireOk, 0); (LBodyOk, 0); (LBodyFail, 0); (LUnlock, 0);
               (LExit, 0)] = Some g
            /\ lockfile g = false /\ map exit_code (procs g) = [Some 1].
Proof. eexists. split; [vm_compute; reflexivity|]. split; reflexivity. Qed.

(* pull: 0 = pull, 1 = commit.  1 takes the lock in the window between fetch and checkout;
   the relock of 0 is refused, 0 exits 1 and the lock of 1 is still there; 1 finishes. *)
Definition pull_window_schedule : list (label * nat) :=
  [(LResolve, 0); (LAcquireOk, 0); (LBodyOk, 0); (LBodyOk, 0); (LUnlock, 0);
   (LResolve, 1); (LAcquireOk, 1);
   (LRelock, 0); (LAcquireRefused, 0); (LExit, 0)].

Example pull_window :
  exists g, run ReleaseSamePath (init [(pull_desc, false); (prepare_desc, false)])
              pull_window_schedule = Some g
            /\ lockfile g = true /\ holder g = Some 1
            /\ map p_pc (procs g) = [Exited 1; Acquired]
            /\ map p_locked (procs g) = [false; true]
            /\ exists g', run ReleaseSamePath g
                 [(LBodyOk, 1); (LBodyOk, 1); (LUnlock, 1); (LExit, 1)] = Some g'
               /\ lockfile g' = false /\ map exit_code (procs g') = [Some 1; Some 0].
Proof.
  eexists. split; [vm_compute; reflexivity|]. repeat split; try reflexivity.
  eexists. split; [vm_compute; reflexivity|]. split; reflexivity.
Qed.

(* pull alone: both halves run, exit 0, unlocked *)
Example pull_alone :
  exists g, run ReleaseSamePath (init [(pull_desc, false)])
              [(LResolve, 0); (LAcquireOk, 0); (LBodyOk, 0); (LBodyOk, 0); (LUnlock, 0);
               (LRelock, 0); (LAcquireOk, 0); (LBodyOk, 0); (LBodyOk, 0); (LUnlock, 0);
               (LExit, 0)] = Some g
            /\ lockfile g = false /\ map exit_code (procs g) = [Some 0].
Proof. eexists. split; [vm_compute; reflexivity|]. split; reflexivity. Qed.

(* a second acquire while the lock is held is not a step of the model *)
Example no_double_acquire :
  run ReleaseSamePath (init [(prepare_desc, true); (prepare_desc, true)])
    [(LResolve, 0); (LResolve, 1); (LAcquireOk, 0); (LAcquireOk, 1)] = None.
Proof. vm_compute. reflexivity. Qed.

(* ---------- subcommands that never lock ---------- *)

(* init, checksum, stage gen, config path, config set --user: their steps do not touch the
   lock, whoever holds it *)
Theorem C12_nonlocking_inert :
  forall g i p l g', reachable ReleaseSamePath g -> nth_error (procs g) i = Some p ->
    locks (p_desc p) = false -> relocks (p_desc p) = false ->
    step_proc ReleaseSamePath l g i = Some g' ->
    p_locked p = false /\ lockfile g' = lockfile g /\ holder g' = holder g /\
    (forall j, j <> i -> nth_error (procs g') j = nth_error (procs g) j).
Proof.
  intros g i p l g' Hr Hn Hnl Hnr Hs. pose proof (inv_reachable _ Hr) as Hinv.
  assert (Hall : Forall proc_ok (procs g)) by apply Hinv.
  pose proof (Forall_nth_error _ _ _ _ _ Hall Hn) as Hok.
  destruct (step_proc_inv _ _ _ _ _ Hs) as (p0 & p' & e & Hn0 & Hl & Hlf & Hho & Hpr).
  rewrite Hn in Hn0. inversion Hn0; subst p0. clear Hn0.
  destruct (local_step_ok _ _ _ _ _ Hok Hl) as (Hok' & Hd & Hfe).
  destruct Hok as (_ & _ & Hin & _). destruct (Hin Hnl Hnr) as (Hlk & Hpc).
  destruct Hok' as (_ & _ & Hin' & _). rewrite Hd in Hin'. destruct (Hin' Hnl Hnr) as (Hlk' & _).
  assert (He : e = Keep).
  { destruct e; auto; unfold flag_effect in Hfe.
    - destruct Hfe as (_ & _ & Ht). congruence.
    - destruct Hfe as (Ht & _). congruence. }
  subst e. simpl in *.
  split; [exact Hlk|]. split; [exact Hlf|]. split; [exact Hho|].
  intros j Hj. eapply step_others; eauto.
Qed.
Print Assumptions C12_nonlocking_inert.

(* ---------- every command does exit: no process is ever stuck, no process loops ---------- *)

(* whatever the state and the kind of release, a process that has not exited can move *)
Lemma local_step_enabled k lf p :
  is_exited p = false -> exists l p' e, local_step k l lf p = Some (p', e).
Proof.
  destruct p as [c lk po cw rf rl [dl dc dr df]]. unfold is_exited. simpl. intros He.
  destruct c; try discriminate.
  - exists LResolve. unfold local_step; simpl. destruct dl; eauto.
  - destruct lf.
    + exists LAcquireRefused. unfold local_step; simpl. eauto.
    + exists LAcquireOk. unfold local_step; simpl. eauto.
  - exists LBodyOk. unfold local_step; simpl. eauto.
  - exists LBodyOk. unfold local_step; simpl. destruct (dr && negb rl); eauto.
  - destruct lk.
    + exists LUnlock. unfold local_step; simpl. destruct po; eauto.
    + exists LRelock. unfold local_step; simpl. eauto.
  - destruct lk.
    + exists LUnlock. unfold local_step; simpl. destruct po; eauto.
    + exists LExit. unfold local_step; simpl. eauto.
  - destruct (lk && negb rf) eqn:Hb.
    + exists LUnlock. unfold local_step; simpl. rewrite Hb. destruct po; eauto.
    + exists LExit. unfold local_step; simpl.
      destruct lk, rf; simpl in *; try discriminate; eauto.
Qed.

Theorem C12_never_stuck :
  forall k g i p, nth_error (procs g) i = Some p -> is_exited p = false ->
    exists l g', step_proc k l g i = Some g'.
Proof.
  intros k g i p Hn He.
  destruct (local_step_enabled k (lockfile g) p He) as (l & p' & e & Hl).
  exists l. unfold step_proc. rewrite Hn, Hl.
  destruct (apply_effect e i (lockfile g) (holder g)) as [lf h]. eauto.
Qed.
Print Assumptions C12_never_stuck.

(* a bound on the number of steps a process has left *)
Definition measure (p : proc) : nat :=
  match p_pc p with
  | Exited _ => 0
  | Relock => 13 + b2n (p_locked p)
  | c =>
    (if relocks (p_desc p) && negb (p_relocked p) then 10 else 0) +
    match c with
    | Start => 9
    | Resolved => 8
    | Acquired => 7
    | Body => 6
    | Relock => 0
    | Done => 4 + b2n (p_locked p)
    | Failing => 2 + b2n (p_locked p)
    | Exited _ => 0
    end
  end.

Lemma local_step_decreases k l lf p p' e :
  local_step k l lf p = Some (p', e) -> measure p' < measure p.
Proof.
  destruct p as [c lk po cw rf rl [dl dc dr df]]. unfold local_step, measure. simpl.
  intros Hs.
  destruct l, c; simpl in Hs; try discriminate.
  all: repeat match type of Hs with
       | context [if ?b then _ else _] => destruct b eqn:?; simpl in Hs
       end; try discriminate.
  all: inversion Hs; subst; clear Hs; simpl.
  all: repeat match goal with
       | |- context [if ?b then _ else _] => destruct b eqn:?; simpl
       end; try lia.
  all: try (destruct lk; simpl in *; try discriminate; lia).
Qed.

Fixpoint total_measure (l : list proc) : nat :=
  match l with
  | [] => 0
  | p :: r => measure p + total_measure r
  end.

Lemma total_measure_upd l i p p' :
  nth_error l i = Some p ->
  total_measure (upd l i p') + measure p = total_measure l + measure p'.
Proof.
  revert i. induction l as [|a r IH]; intros [|i] Hn; simpl in *; try discriminate.
  - inversion Hn; subst. lia.
  - specialize (IH i Hn). lia.
Qed.

Lemma step_decreases k l g i g' :
  step_proc k l g i = Some g' -> total_measure (procs g') < total_measure (procs g).
Proof.
  intros Hs. destruct (step_proc_inv _ _ _ _ _ Hs) as (p & p' & e & Hn & Hl & _ & _ & Hpr).
  pose proof (local_step_decreases _ _ _ _ _ _ Hl) as Hd.
  pose proof (total_measure_upd _ _ _ p' Hn) as Hu. rewrite Hpr. lia.
Qed.

Lemma total_measure_init cfg : total_measure (procs (init cfg)) <= 19 * length cfg.
Proof.
  unfold init. simpl. induction cfg as [|c r IH]; simpl; auto.
  assert (Hm : measure (start_proc c) <= 19).
  { unfold measure, start_proc. simpl. destruct (relocks (fst c) && true); simpl; lia. }
  lia.
Qed.

(* every schedule is finite: at most 19 steps per process, whatever the kind of release *)
Theorem C12_bounded :
  forall k cfg sch g, run k (init cfg) sch = Some g -> length sch <= 19 * length cfg.
Proof.
  intros k cfg sch g Hrun.
  assert (Hgen : forall sch g0 g1, run k g0 sch = Some g1 ->
            length sch + total_measure (procs g1) <= total_measure (procs g0)).
  { clear. induction sch as [|[l i] r IH]; intros g0 g1 Hr; simpl in Hr.
    - inversion Hr; subst. simpl. lia.
    - destruct (step_proc k l g0 i) as [g2|] eqn:Hs; try discriminate.
      pose proof (step_decreases _ _ _ _ _ Hs) as Hd. specialize (IH g2 g1 Hr). simpl. lia. }
  specialize (Hgen sch (init cfg) g Hrun). pose proof (total_measure_init cfg) as Hi. lia.
Qed.
Print Assumptions C12_bounded.

(* a reachable state in which nothing can move any more: everybody has exited and the
   project is unlocked.  With C12_never_stuck and C12_bounded: every maximal run of the
   repaired tree ends here. *)
Theorem C12_quiescent_unlocked :
  forall cfg g, steps ReleaseSamePath (init cfg) g ->
    (forall l i, step_proc ReleaseSamePath l g i = None) ->
    (forall i p, nth_error (procs g) i = Some p -> is_exited p = true) /\
    lockfile g = false /\ holder g = None.
Proof.
  intros cfg g Hst Hq.
  assert (Hall : forall i p, nth_error (procs g) i = Some p -> is_exited p = true).
  { intros i p Hn. destruct (is_exited p) eqn:He; auto.
    destruct (C12_never_stuck ReleaseSamePath g i p Hn He) as (l & g' & Hs).
    rewrite Hq in Hs. discriminate. }
  split; [exact Hall|]. apply (C12_released cfg g Hst). exact Hall.
Qed.
Print Assumptions C12_quiescent_unlocked.
