(* C12: one dud at a time; the lock never outlives the command.  Proofs over Model/Lock.v. *)
From Coq Require Import List Bool Arith Lia.
From DudV Require Import Model.Lock.
Import ListNotations.

(* ---------- lists ---------- *)

Lemma nth_error_upd_eq A (l : list A) i x y :
  nth_error l i = Some y -> nth_error (upd l i x) i = Some x.
Proof.
  revert i. induction l as [|a r IH]; intros [|i] Hn; simpl in *; try discriminate; auto.
Qed.

Lemma nth_error_upd_neq A (l : list A) i j x :
  i <> j -> nth_error (upd l i x) j = nth_error l j.
Proof.
  revert i j. induction l as [|a r IH]; intros [|i] [|j] Hne; simpl; auto; try congruence.
Qed.

Lemma Forall_upd A (P : A -> Prop) l i x :
  Forall P l -> P x -> Forall P (upd l i x).
Proof.
  intros Hl Hx. revert i. induction Hl as [|a r Ha Hr IH]; intros [|i]; simpl; auto.
Qed.

Lemma Forall_nth_error A (P : A -> Prop) l i x :
  Forall P l -> nth_error l i = Some x -> P x.
Proof.
  intros Hl. revert i. induction Hl as [|a r Ha Hr IH]; intros [|i] Hn; simpl in *;
    try discriminate.
  - inversion Hn; subst; auto.
  - eauto.
Qed.

(* ---------- counting the processes whose projectLocked flag is set ---------- *)

Definition b2n (b : bool) : nat := if b then 1 else 0.

Fixpoint count_locked (l : list proc) : nat :=
  match l with
  | [] => 0
  | p :: r => b2n (p_locked p) + count_locked r
  end.

Lemma count_upd l i p p' :
  nth_error l i = Some p ->
  count_locked (upd l i p') + b2n (p_locked p) = count_locked l + b2n (p_locked p').
Proof.
  revert i. induction l as [|a r IH]; intros [|i] Hn; simpl in *; try discriminate.
  - inversion Hn; subst. lia.
  - specialize (IH i Hn). lia.
Qed.

Lemma count_ge l i p :
  nth_error l i = Some p -> p_locked p = true -> 1 <= count_locked l.
Proof.
  revert i. induction l as [|a r IH]; intros [|i] Hn Hl; simpl in *; try discriminate.
  - inversion Hn; subst. rewrite Hl. simpl. lia.
  - specialize (IH i Hn Hl). lia.
Qed.

Lemma count_unique l i j p q :
  count_locked l <= 1 ->
  nth_error l i = Some p -> p_locked p = true ->
  nth_error l j = Some q -> p_locked q = true -> i = j.
Proof.
  revert i j. induction l as [|a r IH]; intros [|i] [|j] Hc Hi Hp Hj Hq; simpl in *;
    try discriminate; auto.
  - inversion Hi; subst. rewrite Hp in Hc. pose proof (count_ge r j q Hj Hq). simpl in Hc. lia.
  - inversion Hj; subst. rewrite Hq in Hc. pose proof (count_ge r i p Hi Hp). simpl in Hc. lia.
  - f_equal. apply IH; auto. lia.
Qed.

Lemma count_zero l :
  (forall i p, nth_error l i = Some p -> p_locked p = false) -> count_locked l = 0.
Proof.
  induction l as [|a r IH]; intros Hall; simpl; auto.
  rewrite (Hall 0 a eq_refl). simpl. apply IH. intros i p Hn. apply (Hall (S i) p Hn).
Qed.

(* ---------- the step function, taken apart ---------- *)

Lemma step_proc_inv k l g i g' :
  step_proc k l g i = Some g' ->
  exists p p' e,
    nth_error (procs g) i = Some p /\
    local_step k l (lockfile g) p = Some (p', e) /\
    lockfile g' = fst (apply_effect e i (lockfile g) (holder g)) /\
    holder g' = snd (apply_effect e i (lockfile g) (holder g)) /\
    procs g' = upd (procs g) i p'.
Proof.
  unfold step_proc. intros Hs.
  destruct (nth_error (procs g) i) as [p|] eqn:Hn; try discriminate.
  destruct (local_step k l (lockfile g) p) as [[p' e]|] eqn:Hl; try discriminate.
  exists p, p', e.
  destruct (apply_effect e i (lockfile g) (holder g)) as [lf h] eqn:Ha.
  inversion Hs; subst; simpl. auto.
Qed.

Lemma step_others k l g i g' j :
  step_proc k l g i = Some g' -> j <> i ->
  nth_error (procs g') j = nth_error (procs g) j.
Proof.
  intros Hs Hne. destruct (step_proc_inv _ _ _ _ _ Hs) as (p & p' & e & _ & _ & _ & _ & Hp).
  rewrite Hp. apply nth_error_upd_neq. congruence.
Qed.

Lemma run_steps k sch : forall g g', run k g sch = Some g' -> steps k g g'.
Proof.
  induction sch as [|[l i] r IH]; intros g g' Hr; simpl in Hr.
  - inversion Hr; subst. apply steps_refl.
  - destruct (step_proc k l g i) as [g1|] eqn:Hs; try discriminate.
    specialize (IH g1 g' Hr). clear Hr.
    induction IH as [|ga gb gc l' i' Hab IHab Hbc].
    + eapply steps_step; [apply steps_refl | exact Hs].
    + eapply steps_step; [apply IHab; exact Hs | exact Hbc].
Qed.

Lemma reachable_step k g l i g' :
  reachable k g -> step_proc k l g i = Some g' -> reachable k g'.
Proof.
  intros [cfg Hst] Hs. exists cfg. eapply steps_step; eauto.
Qed.
