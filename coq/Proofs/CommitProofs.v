(* Theorems about commit (Model/Cache.v: commit_file, commit_node), stated through the Props of
   Proofs/CacheDefs.v.

     commit_cache_ok      = stmt_commit_cache_ok    (C02, as in CacheDefs)
     commit_skip          = stmt_commit_skip        (as in CacheDefs)
     commit_logical_resolved, commit_logical_plain  (stmt_commit_logical is FALSE as written:
                                                     counterexample cex_logical; repaired premise
                                                     [resolved c n])
     ...

   No axioms; every theorem is followed by Print Assumptions. *)
From Coq Require Import ZArith NArith List Bool Sorted Lia ZifyBool String.
From DudV Require Import Base.Bytes Base.JsonStr Base.Json Model.Fs Model.Cache Proofs.CacheDefs.
Import ListNotations.
Local Open Scope N_scope.

(* ------------------------------------------------------------------------------------------ *)
(* Byte strings, association lists                                                             *)
(* ------------------------------------------------------------------------------------------ *)

Lemma beqb_false a b : beqb a b = false <-> a <> b.
Proof.
  split.
  - intros Hf He. apply beqb_eq in He. rewrite He in Hf. discriminate.
  - intros Hn. destruct (beqb a b) eqn:E; [|reflexivity]. apply beqb_eq in E. contradiction.
Qed.

Lemma beqb_sym a b : beqb a b = beqb b a.
Proof.
  destruct (beqb a b) eqn:E1, (beqb b a) eqn:E2; try reflexivity.
  - apply beqb_eq in E1. subst b. rewrite beqb_refl in E2. discriminate.
  - apply beqb_eq in E2. subst b. rewrite beqb_refl in E1. discriminate.
Qed.

Lemma bltb_irrefl a : bltb a a = false.
Proof.
  induction a as [|x a IH]; [reflexivity|]. cbn [bltb].
  replace (x <? x) with false by lia. exact IH.
Qed.

Lemma bltb_asym a : forall b, bltb a b = true -> bltb b a = false.
Proof.
  induction a as [|x a IH]; intros [|y b] Hab; cbn [bltb] in *; try reflexivity; try discriminate.
  destruct (x <? y) eqn:Exy.
  - replace (y <? x) with false by lia. reflexivity.
  - destruct (y <? x) eqn:Eyx; [discriminate|]. apply IH. exact Hab.
Qed.

Lemma bltb_neq a b : bltb a b = true -> beqb a b = false.
Proof.
  intros Hab. apply beqb_false. intros ->. rewrite bltb_irrefl in Hab. discriminate.
Qed.

Lemma bltb_trans a : forall b c, bltb a b = true -> bltb b c = true -> bltb a c = true.
Proof.
  induction a as [|x a IH]; intros [|y b] [|z c] Hab Hbc; cbn [bltb] in *;
    try reflexivity; try discriminate.
  destruct (x <? y) eqn:Exy.
  - destruct (y <? z) eqn:Eyz.
    + replace (x <? z) with true by lia. reflexivity.
    + destruct (z <? y) eqn:Ezy; [discriminate|].
      replace (x <? z) with true by lia. reflexivity.
  - destruct (y <? x) eqn:Eyx; [discriminate|].
    destruct (y <? z) eqn:Eyz.
    + replace (x <? z) with true by lia. reflexivity.
    + destruct (z <? y) eqn:Ezy; [discriminate|].
      replace (x <? z) with false by lia. replace (z <? x) with false by lia.
      exact (IH _ _ Hab Hbc).
Qed.

(* The lookup law of [ins_sorted]: holds for EVERY list, sorted or not (no sortedness premise). *)
Lemma alookup_ins_sorted {A} k (v : A) k' l :
  alookup k' (ins_sorted k v l) = if beqb k' k then Some v else alookup k' l.
Proof.
  induction l as [|[k1 v1] r IH].
  - cbn [ins_sorted alookup]. reflexivity.
  - cbn [ins_sorted]. destruct (beqb k k1) eqn:E1.
    + apply beqb_eq in E1. subst k1. cbn [alookup].
      destruct (beqb k' k); reflexivity.
    + destruct (bltb k k1).
      * cbn [alookup]. reflexivity.
      * cbn [alookup]. rewrite IH. destruct (beqb k' k1) eqn:E2; [|reflexivity].
        apply beqb_eq in E2. subst k1.
        destruct (beqb k' k) eqn:E3; [|reflexivity].
        apply beqb_eq in E3. subst k'. rewrite beqb_refl in E1. discriminate.
Qed.

Lemma cget_cput c d b d' :
  cget (cput c d b) d' = if beqb d' d then Some (mkObj b cache_perms) else cget c d'.
Proof. unfold cget, cput. apply alookup_ins_sorted. Qed.

(* ------------------------------------------------------------------------------------------ *)
(* Induction on nodes (nested in a list of pairs)                                              *)
(* ------------------------------------------------------------------------------------------ *)

Section NodeInd.
  Variable P : node -> Prop.
  Hypothesis P_file : forall b, P (File b).
  Hypothesis P_linkc : forall d, P (LinkC d).
  Hypothesis P_linko : forall t, P (LinkO t).
  Hypothesis P_other : P Other.
  Hypothesis P_dir : forall es, Forall (fun e => P (snd e)) es -> P (Dir es).

  Fixpoint node_ind2 (n : node) : P n :=
    match n with
    | File b => P_file b
    | LinkC d => P_linkc d
    | LinkO t => P_linko t
    | Other => P_other
    | Dir es =>
      P_dir es ((fix go (l : list (bytes * node)) : Forall (fun e => P (snd e)) l :=
                   match l with
                   | [] => Forall_nil _
                   | e :: r => Forall_cons e (node_ind2 (snd e)) (go r)
                   end) es)
    end.
End NodeInd.

(* ------------------------------------------------------------------------------------------ *)
(* Unfolding commit_node                                                                       *)
(* ------------------------------------------------------------------------------------------ *)

(* the child artifact a directory commit starts from *)
Definition child_of (old : list (bytes * artifact)) (name : bytes) (ch : node) : artifact :=
  match alookup name old with
  | Some oa => if Bool.eqb (a_isdir oa) (is_dir ch) then oa else fresh_art name (is_dir ch)
  | None => fresh_art name (is_dir ch)
  end.

(* the inner loop of commit_node, with the recursive call abstracted *)
Definition commit_entries (rec : artifact -> node -> cache -> strategy -> res (node * cache * artifact))
  (nr : bool) (old : list (bytes * artifact)) (st : strategy) :=
  fix go (es : list (bytes * node)) (c : cache)
    : res (list (bytes * node) * cache * list (bytes * artifact)) :=
    match es with
    | [] => Ok ([], c, [])
    | (name, ch) :: r =>
      if nr && is_dir ch then
        match go r c with
        | Ok (es', c', m) => Ok ((name, ch) :: es', c', m)
        | Err => Err
        end
      else if negb (utf8_name name) then Err
      else
        match rec (child_of old name ch) ch c st with
        | Err => Err
        | Ok (ch', c1, child') =>
          match go r c1 with
          | Ok (es', c2, m) => Ok ((name, ch') :: es', c2, (a_path child', child') :: m)
          | Err => Err
          end
        end
    end.

Section Commit.
  Variable H : bytes -> bytes.

  Lemma commit_node_dir a es c st :
    commit_node H a (Dir es) c st =
    if a_isdir a then
      match old_contents a c with
      | Err => Err
      | Ok old =>
        match commit_entries (commit_node H) (a_norec a) old st es c with
        | Err => Err
        | Ok (es', c', m) =>
          let mb := enc_manifest (mkMan (a_path a) m) in
          Ok (Dir es', cput c' (H mb) mb, set_cs a (H mb))
        end
      end
    else commit_file H a (Dir es) c st.
  Proof. reflexivity. Qed.

  Lemma commit_node_leaf a n c st :
    is_dir n = false ->
    commit_node H a n c st = if a_isdir a then Err else commit_file H a n c st.
  Proof. destruct n; intros Hd; try discriminate; reflexivity. Qed.

  (* inversion of a successful directory commit *)
  Lemma commit_dir_inv a es c st n' c' a' :
    commit_node H a (Dir es) c st = Ok (n', c', a') ->
    a_isdir a = true /\
    exists old es' c1 m,
      old_contents a c = Ok old /\
      commit_entries (commit_node H) (a_norec a) old st es c = Ok (es', c1, m) /\
      n' = Dir es' /\
      c' = cput c1 (H (enc_manifest (mkMan (a_path a) m))) (enc_manifest (mkMan (a_path a) m)) /\
      a' = set_cs a (H (enc_manifest (mkMan (a_path a) m))).
  Proof.
    rewrite commit_node_dir. destruct (a_isdir a) eqn:Ed.
    - destruct (old_contents a c) as [old|] eqn:Eo; [|discriminate].
      destruct (commit_entries (commit_node H) (a_norec a) old st es c) as [[[es' c1] m]|] eqn:Ee;
        [|discriminate].
      cbv zeta. intros Hok. injection Hok as <- <- <-.
      split; [reflexivity|]. exists old, es', c1, m. repeat split; assumption.
    - unfold commit_file. unfold qmatch. rewrite andb_false_r. discriminate.
  Qed.

  (* inversion of one step of the loop *)
  Lemma commit_entries_nil rec nr old st c r :
    commit_entries rec nr old st [] c = Ok r -> r = ([], c, []).
  Proof. cbn [commit_entries]. intros Hok. injection Hok as <-. reflexivity. Qed.

  Lemma commit_entries_cons rec nr old st name ch r c es' c' m :
    commit_entries rec nr old st ((name, ch) :: r) c = Ok (es', c', m) ->
    (nr && is_dir ch = true /\
     exists es1, commit_entries rec nr old st r c = Ok (es1, c', m) /\ es' = (name, ch) :: es1) \/
    (nr && is_dir ch = false /\ utf8_name name = true /\
     exists ch' c1 child' es1 m1,
       rec (child_of old name ch) ch c st = Ok (ch', c1, child') /\
       commit_entries rec nr old st r c1 = Ok (es1, c', m1) /\
       es' = (name, ch') :: es1 /\ m = (a_path child', child') :: m1).
  Proof.
    cbn [commit_entries]. destruct (nr && is_dir ch) eqn:Es.
    - destruct (commit_entries rec nr old st r c) as [[[es1 c1] m1]|] eqn:Er; [|discriminate].
      intros Hok. injection Hok as <- <- <-. left. split; [reflexivity|].
      exists es1. split; reflexivity.
    - destruct (utf8_name name) eqn:Eu; cbn [negb]; [|discriminate].
      destruct (rec (child_of old name ch) ch c st) as [[[ch' c1] child']|] eqn:Ec; [|discriminate].
      destruct (commit_entries rec nr old st r c1) as [[[es1 c2] m1]|] eqn:Er; [|discriminate].
      intros Hok. injection Hok as <- <- <-. right. split; [reflexivity|]. split; [reflexivity|].
      exists ch', c1, child', es1, m1. repeat split; assumption.
  Qed.

  (* inversion of a successful file commit *)
  Lemma commit_file_inv a n c st n' c' a' :
    commit_file H a n c st = Ok (n', c', a') ->
    (qmatch c (a_cs a) (Some n) = true /\ n' = n /\ c' = c /\ a' = a) \/
    (qmatch c (a_cs a) (Some n) = false /\
     exists b, n = File b /\ a' = set_cs a (H b) /\
       ((a_skip a = true /\ n' = n /\ c' = c) \/
        (a_skip a = false /\ c' = cput c (H b) b /\
         n' = match st with Link => LinkC (H b) | Copy => File b end))) \/
    (* a link to an existing object is adopted *)
    (exists d o, n = LinkC d /\ cget c d = Some o /\ n' = n /\ c' = c /\ a' = set_cs a d).
  Proof.
    unfold commit_file. destruct (qmatch c (a_cs a) (Some n)) eqn:Eq.
    - intros Hok. injection Hok as <- <- <-. left. repeat split; reflexivity.
    - destruct n as [b|d| | |]; try discriminate.
      + intros Hok. right. left. split; [reflexivity|]. exists b. split; [reflexivity|].
        destruct (a_skip a) eqn:Es.
        * injection Hok as <- <- <-. split; [reflexivity|]. left. repeat split; reflexivity.
        * destruct st; injection Hok as <- <- <-; (split; [reflexivity|]); right;
            repeat split; reflexivity.
      + unfold in_cache. destruct (cget c d) as [o|] eqn:Eg; [|discriminate].
        intros Hok. injection Hok as <- <- <-. right. right. exists d, o.
        repeat split; reflexivity || assumption.
  Qed.

  Lemma qmatch_inv c cs n :
    qmatch c cs (Some n) = true ->
    has_cs cs = true /\ n = LinkC cs /\ exists o, cget c cs = Some o.
  Proof.
    unfold qmatch, in_cache. intros Hq.
    apply andb_true_iff in Hq as [Hq H3]. apply andb_true_iff in Hq as [H1 H2].
    split; [exact H1|].
    destruct n as [|d| | |]; try discriminate. apply beqb_eq in H3. subst d.
    split; [reflexivity|].
    destruct (cget c cs) as [o|]; [|discriminate]. exists o. reflexivity.
  Qed.

  (* a successful commit only sets the checksum of the artifact *)
  Lemma commit_node_art a n c st n' c' a' :
    commit_node H a n c st = Ok (n', c', a') -> a' = a \/ exists d, a' = set_cs a d.
  Proof.
    destruct (is_dir n) eqn:Ed.
    - destruct n as [| | |es|]; try discriminate. intros Hok.
      apply commit_dir_inv in Hok as (_ & old & es' & c1 & m & _ & _ & _ & _ & ->).
      right. eexists. reflexivity.
    - rewrite (commit_node_leaf _ _ _ _ Ed). destruct (a_isdir a); [discriminate|].
      intros Hok.
      apply commit_file_inv in Hok as [(_ & _ & _ & ->)|[(_ & b & _ & -> & _)|(d & o & _ & _ & _ & _ & ->)]].
      + left. reflexivity.
      + right. eexists. reflexivity.
      + right. eexists. reflexivity.
  Qed.

  Lemma commit_node_flags a n c st n' c' a' :
    commit_node H a n c st = Ok (n', c', a') ->
    a_path a' = a_path a /\ a_isdir a' = a_isdir a /\ a_norec a' = a_norec a /\ a_skip a' = a_skip a.
  Proof.
    intros Hok. apply commit_node_art in Hok as [->|[d ->]]; repeat split; reflexivity.
  Qed.

  (* ---------------------------------------------------------------------------------------- *)
  (* C02: cache_ok, cache_le                                                                   *)
  (* ---------------------------------------------------------------------------------------- *)

  Lemma cache_le_refl c : cache_le c c.
  Proof. intros d o Hg. exists o. split; [exact Hg|reflexivity]. Qed.

  Lemma cache_le_trans c1 c2 c3 : cache_le c1 c2 -> cache_le c2 c3 -> cache_le c1 c3.
  Proof.
    intros H12 H23 d o Hg. destruct (H12 d o Hg) as (o2 & Hg2 & E2).
    destruct (H23 d o2 Hg2) as (o3 & Hg3 & E3). exists o3. split; [exact Hg3|congruence].
  Qed.

  Lemma cput_ok c b : cache_ok H c -> cache_ok H (cput c (H b) b).
  Proof.
    intros Hc d o. rewrite cget_cput. destruct (beqb d (H b)) eqn:E.
    - apply beqb_eq in E. subst d. intros Ho. injection Ho as <-. cbn [o_data o_mode].
      split; reflexivity.
    - apply Hc.
  Qed.

  Lemma cput_le c b : H_inj H -> cache_ok H c -> cache_le c (cput c (H b) b).
  Proof.
    intros Hinj Hc d o Hg. rewrite cget_cput. destruct (beqb d (H b)) eqn:E.
    - apply beqb_eq in E. subst d. eexists. split; [reflexivity|]. cbn [o_data].
      destruct (Hc _ _ Hg) as [Hd _]. apply Hinj in Hd. exact Hd.
    - exists o. split; [exact Hg|reflexivity].
  Qed.

  Lemma commit_file_cache_ok a n c st n' c' a' :
    H_inj H -> cache_ok H c -> commit_file H a n c st = Ok (n', c', a') ->
    cache_ok H c' /\ cache_le c c'.
  Proof.
    intros Hinj Hc Hok.
    apply commit_file_inv in Hok
      as [(_ & _ & -> & _)|[(_ & b & _ & _ & [(_ & _ & ->)|(_ & -> & _)])|(d & o & _ & _ & _ & -> & _)]].
    - split; [exact Hc|apply cache_le_refl].
    - split; [exact Hc|apply cache_le_refl].
    - split; [apply cput_ok; exact Hc|apply cput_le; assumption].
    - split; [exact Hc|apply cache_le_refl].
  Qed.

  Theorem commit_cache_ok : stmt_commit_cache_ok H.
  Proof.
    unfold stmt_commit_cache_ok. intros Hinj a n. revert a.
    induction n as [b|d|t| |es IH] using node_ind2; intros a c st n' c' a' Hc Hok;
      try (rewrite commit_node_leaf in Hok by reflexivity;
           destruct (a_isdir a); [discriminate|];
           exact (commit_file_cache_ok _ _ _ _ _ _ _ Hinj Hc Hok)).
    apply commit_dir_inv in Hok as (_ & old & es' & c1 & m & _ & He & _ & -> & _).
    assert (Hes : cache_ok H c1 /\ cache_le c c1).
    { clear a'. revert c es' c1 m Hc He.
      induction IH as [|[name ch] r IHch _ IHr]; intros c es' c1 m Hc He.
      - apply commit_entries_nil in He. injection He as _ <- _.
        split; [exact Hc|apply cache_le_refl].
      - apply commit_entries_cons in He
          as [(_ & es1 & Hr & _)|(_ & _ & ch' & c0 & child' & es1 & m1 & Hch & Hr & _ & _)].
        + exact (IHr _ _ _ _ Hc Hr).
        + cbn [snd] in IHch. destruct (IHch _ _ _ _ _ _ Hc Hch) as [Hc0 Hle0].
          destruct (IHr _ _ _ _ Hc0 Hr) as [Hc1 Hle1].
          split; [exact Hc1|exact (cache_le_trans _ _ _ Hle0 Hle1)]. }
    destruct Hes as [Hc1 Hle1]. split.
    - apply cput_ok. exact Hc1.
    - apply (cache_le_trans _ _ _ Hle1). apply cput_le; assumption.
  Qed.

  Lemma commit_entries_cache_ok es :
    H_inj H -> forall nr old st c es' c1 m,
    cache_ok H c -> commit_entries (commit_node H) nr old st es c = Ok (es', c1, m) ->
    cache_ok H c1 /\ cache_le c c1.
  Proof.
    intros Hinj nr old st. induction es as [|[name ch] r IHr]; intros c es' c1 m Hc He.
    - apply commit_entries_nil in He. injection He as _ <- _.
      split; [exact Hc|apply cache_le_refl].
    - apply commit_entries_cons in He
        as [(_ & es1 & Hr & _)|(_ & _ & ch' & c0 & child' & es1 & m1 & Hch & Hr & _ & _)].
      + exact (IHr _ _ _ _ Hc Hr).
      + destruct (commit_cache_ok Hinj _ _ _ _ _ _ _ Hc Hch) as [Hc0 Hle0].
        destruct (IHr _ _ _ _ Hc0 Hr) as [Hc1 Hle1].
        split; [exact Hc1|exact (cache_le_trans _ _ _ Hle0 Hle1)].
  Qed.

  (* ---------------------------------------------------------------------------------------- *)
  (* skip-cache files                                                                          *)
  (* ---------------------------------------------------------------------------------------- *)

  Theorem commit_skip : stmt_commit_skip H.
  Proof.
    unfold stmt_commit_skip. intros a b c st n' c' a' Hd Hs Hok.
    rewrite commit_node_leaf in Hok by reflexivity. rewrite Hd in Hok.
    apply commit_file_inv in Hok
      as [(Hq & _)|[(_ & b' & Eb & -> & [(_ & -> & ->)|(Hs' & _)])|(d & o & Hn & _)]].
    - apply qmatch_inv in Hq as (_ & Hn & _). discriminate.
    - injection Eb as <-. repeat split; reflexivity.
    - congruence.
    - discriminate.
  Qed.

End Commit.
Print Assumptions commit_cache_ok.
Print Assumptions commit_skip.

(* ------------------------------------------------------------------------------------------ *)
(* The logical content is unchanged                                                            *)
(* ------------------------------------------------------------------------------------------ *)

(* no dangling cache link anywhere in the tree *)
Inductive resolved (c : cache) : node -> Prop :=
| rs_file b : resolved c (File b)
| rs_linkc d o : cget c d = Some o -> resolved c (LinkC d)
| rs_linko t : resolved c (LinkO t)
| rs_other : resolved c Other
| rs_dir es : Forall (fun e => resolved c (snd e)) es -> resolved c (Dir es).

Lemma resolved_le c c' n : cache_le c c' -> resolved c n -> resolved c' n.
Proof.
  intros Hle. induction n as [b|d|t| |es IH] using node_ind2; intros Hr; try constructor.
  - inversion Hr as [|d' o Hg| | |]; subst. destruct (Hle _ _ Hg) as (o' & Hg' & _).
    exact (rs_linkc _ _ _ Hg').
  - inversion Hr as [| | | |es' Hes]; subst. clear Hr.
    induction IH as [|e r IHe _ IHr]; [constructor|].
    inversion Hes as [|e' r' He Hr']; subst. constructor; [exact (IHe He)|exact (IHr Hr')].
Qed.

Lemma logical_le c c' n : cache_le c c' -> resolved c n -> logical c' n = logical c n.
Proof.
  intros Hle. induction n as [b|d|t| |es IH] using node_ind2; intros Hr; try reflexivity.
  - inversion Hr as [|d' o Hg| | |]; subst. destruct (Hle _ _ Hg) as (o' & Hg' & Ed).
    cbn [logical]. rewrite Hg, Hg', Ed. reflexivity.
  - inversion Hr as [| | | |es' Hes]; subst. clear Hr. cbn [logical]. f_equal.
    induction IH as [|e r IHe _ IHr]; [reflexivity|].
    inversion Hes as [|e' r' He Hr']; subst. cbn [map]. rewrite (IHe He), (IHr Hr'). reflexivity.
Qed.

Lemma plain_resolved c n : plain n -> resolved c n.
Proof.
  induction n as [b|d|t| |es IH] using node_ind2; intros Hp; try (inversion Hp; fail); constructor.
  inversion Hp as [|es' _ Hes]; subst. clear Hp.
  induction IH as [|e r IHe _ IHr]; [constructor|].
  inversion Hes as [|e' r' [_ He] Hr']; subst. constructor; [exact (IHe He)|exact (IHr Hr')].
Qed.

Lemma plain_logical c n : plain n -> logical c n = n.
Proof.
  induction n as [b|d|t| |es IH] using node_ind2; intros Hp; try reflexivity;
    try (inversion Hp; fail).
  inversion Hp as [|es' _ Hes]; subst. clear Hp. cbn [logical]. f_equal.
  induction IH as [|[k ch] r IHe _ IHr]; [reflexivity|].
  inversion Hes as [|e' r' [_ He] Hr']; subst. cbn [map fst snd] in *.
  rewrite (IHe He), (IHr Hr'). reflexivity.
Qed.

Section Logical.
  Variable H : bytes -> bytes.

  Lemma Forall_resolved_le c c' (es : list (bytes * node)) :
    cache_le c c' -> Forall (fun e => resolved c (snd e)) es -> Forall (fun e => resolved c' (snd e)) es.
  Proof.
    intros Hle Hes. eapply Forall_impl; [|exact Hes]. intros e He. exact (resolved_le _ _ _ Hle He).
  Qed.

  Lemma map_logical_le c c' (es : list (bytes * node)) :
    cache_le c c' -> Forall (fun e => resolved c (snd e)) es ->
    map (fun e => (fst e, logical c' (snd e))) es = map (fun e => (fst e, logical c (snd e))) es.
  Proof.
    intros Hle Hes. induction Hes as [|e r He _ IHr]; [reflexivity|].
    cbn [map]. rewrite (logical_le _ _ _ Hle He), IHr. reflexivity.
  Qed.

  (* stmt_commit_logical with the extra premise [resolved c n]; also: the result has no dangling
     link.  (H_has is not needed.) *)
  Theorem commit_logical_resolved :
    H_inj H -> forall a n c st n' c' a',
      cache_ok H c -> resolved c n -> commit_node H a n c st = Ok (n', c', a') ->
      logical c' n' = logical c n /\ resolved c' n'.
  Proof.
    intros Hinj a n. revert a.
    induction n as [b|d|t| |es IH] using node_ind2; intros a c st n' c' a' Hc Hres Hok.
    1-4: rewrite commit_node_leaf in Hok by reflexivity;
         (destruct (a_isdir a); [discriminate|]);
         apply commit_file_inv in Hok
           as [(_ & -> & -> & _)|[(_ & b' & Eb & _ & [(_ & -> & ->)|(_ & -> & ->)])
                                 |(d' & o' & Ed & _ & -> & -> & _)]];
         try (split; [reflexivity|exact Hres]); try discriminate.
    - injection Eb as <-. destruct st; cbn [logical].
      + rewrite cget_cput, beqb_refl. cbn [o_data]. split; [reflexivity|].
        apply (rs_linkc _ _ (mkObj b cache_perms)). rewrite cget_cput, beqb_refl. reflexivity.
      + split; [reflexivity|constructor].
    - apply commit_dir_inv in Hok as (_ & old & es' & c1 & m & _ & He & -> & -> & _).
      inversion Hres as [| | | |es0 Hes]; subst. clear Hres.
      assert (Hgo : map (fun e => (fst e, logical c1 (snd e))) es' =
                    map (fun e => (fst e, logical c (snd e))) es /\
                    Forall (fun e => resolved c1 (snd e)) es').
      { clear a'. revert c es' c1 m Hc Hes He.
        induction IH as [|[name ch] r IHch _ IHr]; intros c es' c1 m Hc Hes He.
        - apply commit_entries_nil in He. injection He as -> -> _. split; [reflexivity|constructor].
        - inversion Hes as [|e0 r0 Hch0 Hr0]; subst. cbn [snd] in *.
          pose proof (commit_entries_cache_ok H _ Hinj _ _ _ _ _ _ _ Hc He) as [_ Hle].
          apply commit_entries_cons in He
            as [(_ & es1 & Hr & ->)|(_ & _ & ch' & c0 & child' & es1 & m1 & Hch & Hr & -> & _)].
          + destruct (IHr _ _ _ _ Hc Hr0 Hr) as [E1 R1]. cbn [map fst snd]. split.
            * rewrite E1, (logical_le _ _ _ Hle Hch0). reflexivity.
            * constructor; [exact (resolved_le _ _ _ Hle Hch0)|exact R1].
          + destruct (IHch _ _ _ _ _ _ Hc Hch0 Hch) as [E0 R0].
            destruct (commit_cache_ok H Hinj _ _ _ _ _ _ _ Hc Hch) as [Hc0 Hle0].
            pose proof (commit_entries_cache_ok H _ Hinj _ _ _ _ _ _ _ Hc0 Hr) as [_ Hle1].
            destruct (IHr _ _ _ _ Hc0 (Forall_resolved_le _ _ _ Hle0 Hr0) Hr) as [E1 R1].
            cbn [map fst snd]. split.
            * rewrite E1, (logical_le _ _ _ Hle1 R0), E0, (map_logical_le _ _ _ Hle0 Hr0).
              reflexivity.
            * constructor; [exact (resolved_le _ _ _ Hle1 R0)|exact R1]. }
      destruct Hgo as [E R].
      pose proof (commit_entries_cache_ok H _ Hinj _ _ _ _ _ _ _ Hc He) as [Hc1 _].
      assert (Hle : cache_le c1 (cput c1 (H (enc_manifest (mkMan (a_path a) m)))
                                     (enc_manifest (mkMan (a_path a) m))))
        by (apply cput_le; assumption).
      split.
      + rewrite (logical_le _ _ _ Hle (rs_dir _ _ R)). cbn [logical]. rewrite E. reflexivity.
      + exact (resolved_le _ _ _ Hle (rs_dir _ _ R)).
  Qed.

  (* the statement of CacheDefs restricted to trees without dangling links *)
  Theorem commit_logical_plain :
    H_inj H -> forall a n c st n' c' a',
      cache_ok H c -> plain n -> commit_node H a n c st = Ok (n', c', a') ->
      logical c' n' = n.
  Proof.
    intros Hinj a n c st n' c' a' Hc Hp Hok.
    destruct (commit_logical_resolved Hinj _ _ _ _ _ _ _ Hc (plain_resolved c n Hp) Hok) as [E _].
    rewrite E. apply plain_logical. exact Hp.
  Qed.
End Logical.
Print Assumptions commit_logical_resolved.
Print Assumptions commit_logical_plain.

(* ------------------------------------------------------------------------------------------ *)
(* Trees commit is well behaved on; what commit writes is a well-formed manifest               *)
(* ------------------------------------------------------------------------------------------ *)

(* A file whose CONTENT is itself a valid directory manifest is stored under its hash like any
   other blob and is then indistinguishable from a manifest written by commit.  [blob_tame]:
   if the bytes decode as a manifest, its entries carry no flags and are not directories. *)
Definition blob_tame (b : bytes) : Prop :=
  forall m, dec_manifest b = Some m ->
    Forall (fun kv => plain_child (snd kv) /\ a_isdir (snd kv) = false) (m_contents m).

Inductive tame : node -> Prop :=
| tm_file b : blob_tame b -> tame (File b)
| tm_linkc d : tame (LinkC d)
| tm_linko t : tame (LinkO t)
| tm_other : tame Other
| tm_dir es : Forall (fun e => tame (snd e)) es -> tame (Dir es).

(* plain trees in which committed files may have been replaced by (resolved) cache links *)
Inductive ctree (c : cache) : node -> Prop :=
| ct_file b : blob_tame b -> ctree c (File b)
| ct_link d o : cget c d = Some o -> ctree c (LinkC d)
| ct_dir es :
    StronglySorted key_lt es ->
    Forall (fun e => good_name (fst e) /\ ctree c (snd e)) es ->
    ctree c (Dir es).

Lemma plain_tame_ctree c n : plain n -> tame n -> ctree c n.
Proof.
  induction n as [b|d|t| |es IH] using node_ind2; intros Hp Ht; try (inversion Hp; fail).
  - inversion Ht; subst. constructor. assumption.
  - inversion Hp as [|es' Hs Hes]; subst. inversion Ht as [| | | |es' Hts]; subst.
    constructor; [exact Hs|]. clear Hp Ht Hs.
    induction IH as [|e r IHe _ IHr]; [constructor|].
    inversion Hes as [|e' r' [Hg He] Hr']; subst. inversion Hts as [|e' r' Hte Htr]; subst.
    constructor; [split; [exact Hg|exact (IHe He Hte)]|exact (IHr Hr' Htr)].
Qed.

Lemma ctree_le c c' n : cache_le c c' -> ctree c n -> ctree c' n.
Proof.
  intros Hle. induction n as [b|d|t| |es IH] using node_ind2; intros Hr;
    try (inversion Hr; fail).
  - inversion Hr; subst. constructor. assumption.
  - inversion Hr as [|d' o Hg|]; subst. destruct (Hle _ _ Hg) as (o' & Hg' & _).
    exact (ct_link _ _ _ Hg').
  - inversion Hr as [| |es' Hs Hes]; subst. constructor; [exact Hs|]. clear Hr Hs.
    induction IH as [|e r IHe _ IHr]; [constructor|].
    inversion Hes as [|e' r' [Hg He] Hr']; subst.
    constructor; [split; [exact Hg|exact (IHe He)]|exact (IHr Hr')].
Qed.

Lemma ctree_resolved c n : ctree c n -> resolved c n.
Proof.
  induction n as [b|d|t| |es IH] using node_ind2; intros Hr; try (inversion Hr; fail).
  - constructor.
  - inversion Hr as [|d' o Hg|]; subst. exact (rs_linkc _ _ _ Hg).
  - inversion Hr as [| |es' _ Hes]; subst. constructor. clear Hr.
    induction IH as [|e r IHe _ IHr]; [constructor|].
    inversion Hes as [|e' r' [_ He] Hr']; subst. constructor; [exact (IHe He)|exact (IHr Hr')].
Qed.

Lemma Forall_ctree_le c c' (es : list (bytes * node)) :
  cache_le c c' -> Forall (fun e => good_name (fst e) /\ ctree c (snd e)) es ->
  Forall (fun e => good_name (fst e) /\ ctree c' (snd e)) es.
Proof.
  intros Hle Hes. eapply Forall_impl; [|exact Hes]. intros e [Hg He].
  split; [exact Hg|exact (ctree_le _ _ _ Hle He)].
Qed.

(* sortedness of an entry list only depends on the keys *)
Definition blt (a b : bytes) : Prop := bltb a b = true.

Lemma sorted_keys {A} (l : list (bytes * A)) :
  StronglySorted (fun a b => bltb (fst a) (fst b) = true) l <-> StronglySorted blt (map fst l).
Proof.
  induction l as [|e r IH]; cbn [map].
  - split; intros _; constructor.
  - split; intros Hs; inversion Hs as [|e' r' Hr Hall]; subst; constructor.
    + apply IH. exact Hr.
    + apply Forall_map. exact Hall.
    + apply IH. exact Hr.
    + exact (proj1 (Forall_map fst (blt (fst e)) r) Hall).
Qed.

Lemma good_name_wf n : good_name n -> wf_text n.
Proof. intros (Hu & _ & Hb). split; [exact Hu|exact Hb]. Qed.

(* dec_manifest validates key = path and the entry names *)
Lemma dec_manifest_keys b m :
  dec_manifest b = Some m ->
  Forall (fun kv => a_path (snd kv) = fst kv /\ valid_entry_name (fst kv) = true) (m_contents m).
Proof.
  unfold dec_manifest. destruct (parse_json b) as [v|]; [|discriminate].
  unfold dec_manifest_v. destruct v as [| | | | |kv]; try discriminate.
  match goal with |- match ?X with _ => _ end = _ -> _ => destruct X as [m0|]; [|discriminate] end.
  match goal with |- (if ?X then _ else _) = _ -> _ => destruct X eqn:Ef; [|discriminate] end.
  intros Hm. injection Hm as <-. apply Forall_forall. intros kv0 Hin.
  rewrite forallb_forall in Ef. specialize (Ef _ Hin). apply andb_true_iff in Ef as [E1 E2].
  apply beqb_eq in E1. split; assumption.
Qed.

Lemma alookup_In {A} k (l : list (bytes * A)) v : alookup k l = Some v -> In (k, v) l.
Proof.
  induction l as [|[k' v'] r IH]; cbn [alookup]; [discriminate|].
  destruct (beqb k k') eqn:E.
  - apply beqb_eq in E. subst k'. intros Hv. injection Hv as ->. left. reflexivity.
  - intros Hv. right. exact (IH Hv).
Qed.

(* what is known of the old manifest a directory commit starts from *)
Definition old_ok (old : list (bytes * artifact)) : Prop :=
  Forall (fun kv => a_path (snd kv) = fst kv /\ plain_child (snd kv)) old.

Lemma old_contents_ok a c old : man_plain c -> old_contents a c = Ok old -> old_ok old.
Proof.
  intros Hmp. unfold old_contents. destruct (has_cs (a_cs a)).
  - destruct (cget c (a_cs a)) as [o|] eqn:Eg.
    + destruct (dec_manifest (o_data o)) as [m|] eqn:Ed; [|discriminate].
      intros Hok. injection Hok as <-. unfold old_ok.
      pose proof (dec_manifest_keys _ _ Ed) as Hk. pose proof (Hmp _ _ _ Eg Ed) as Hp.
      rewrite Forall_forall in *. intros kv Hin. split; [exact (proj1 (Hk _ Hin))|exact (Hp _ Hin)].
    + intros Hok. injection Hok as <-. constructor.
  - intros Hok. injection Hok as <-. constructor.
Qed.

Lemma child_of_props old name ch :
  old_ok old ->
  a_path (child_of old name ch) = name /\ plain_child (child_of old name ch) /\
  a_isdir (child_of old name ch) = is_dir ch.
Proof.
  intros Hold. unfold child_of.
  assert (Hf : a_path (fresh_art name (is_dir ch)) = name /\ plain_child (fresh_art name (is_dir ch)) /\
               a_isdir (fresh_art name (is_dir ch)) = is_dir ch)
    by (repeat split; reflexivity).
  destruct (alookup name old) as [oa|] eqn:El; [|exact Hf].
  destruct (Bool.eqb (a_isdir oa) (is_dir ch)) eqn:Ek; [|exact Hf].
  apply alookup_In in El. unfold old_ok in Hold. rewrite Forall_forall in Hold.
  destruct (Hold _ El) as [Hp Hpl]. cbn [fst snd] in *.
  split; [exact Hp|]. split; [exact Hpl|]. apply eqb_prop. exact Ek.
Qed.

Definition ent_ok (kv : bytes * artifact) : Prop :=
  a_path (snd kv) = fst kv /\ valid_entry_name (fst kv) = true /\
  wf_text (fst kv) /\ wf_text (a_cs (snd kv)) /\ plain_child (snd kv).

Lemma man_plain_cput c d b :
  man_plain c ->
  (forall m, dec_manifest b = Some m -> Forall (fun kv => plain_child (snd kv)) (m_contents m)) ->
  man_plain (cput c d b).
Proof.
  intros Hmp Hb d' o m. rewrite cget_cput. destruct (beqb d' d).
  - intros Ho. injection Ho as <-. cbn [o_data]. apply Hb.
  - apply Hmp.
Qed.

Section WellFormed.
  Variable H : bytes -> bytes.
  Hypothesis Hinj : H_inj H.
  Hypothesis Htext : H_text H.
  Hypothesis Hcodec : codec_ok.

  (* cache_ok and man_plain are preserved; the result is again a ctree; the recorded checksum is
     text; a directory artifact's manifest is in the cache and decodes *)
  Definition art_present (c : cache) (a : artifact) : Prop :=
    a_isdir a = true -> exists o m, cget c (a_cs a) = Some o /\ dec_manifest (o_data o) = Some m.

  Definition PA (n : node) : Prop :=
    forall a c st n' c' a',
      ctree c n -> wf_text (a_path a) -> cache_ok H c -> man_plain c ->
      commit_node H a n c st = Ok (n', c', a') ->
      man_plain c' /\ ctree c' n' /\ wf_text (a_cs a') /\ art_present c' a'.

  Definition entries_A (es : list (bytes * node)) : Prop :=
    forall nr old st c es' c1 m,
      StronglySorted key_lt es ->
      Forall (fun e => good_name (fst e) /\ ctree c (snd e)) es ->
      old_ok old -> cache_ok H c -> man_plain c ->
      commit_entries (commit_node H) nr old st es c = Ok (es', c1, m) ->
      man_plain c1 /\
      Forall (fun e => good_name (fst e) /\ ctree c1 (snd e)) es' /\
      map fst es' = map fst es /\
      Forall ent_ok m /\
      StronglySorted man_key_lt m /\
      Forall (fun kv => In (fst kv) (map fst es)) m.

  Lemma A_entries es : Forall (fun e => PA (snd e)) es -> entries_A es.
  Proof.
    intros IH. unfold entries_A.
    induction IH as [|[name ch] r IHch _ IHr]; intros nr old st c es' c1 m Hs Hes Hold Hc Hmp He.
    - apply commit_entries_nil in He. injection He as -> -> ->.
      repeat split; try constructor. exact Hmp.
    - inversion Hs as [|e0 r0 Hsr Hlt]; subst.
      inversion Hes as [|e0 r0 [Hgn Hch0] Hr0]; subst. cbn [fst snd] in *.
      apply commit_entries_cons in He
        as [(_ & es1 & Hr & ->)|(_ & _ & ch' & c0 & child' & es1 & m1 & Hch & Hr & -> & ->)].
      + pose proof (commit_entries_cache_ok H _ Hinj _ _ _ _ _ _ _ Hc Hr) as [_ Hle].
        destruct (IHr _ _ _ _ _ _ _ Hsr Hr0 Hold Hc Hmp Hr) as (M1 & T1 & K1 & E1 & S1 & I1).
        split; [exact M1|]. split.
        { constructor; [split; [exact Hgn|exact (ctree_le _ _ _ Hle Hch0)]|exact T1]. }
        split; [cbn [map fst]; rewrite K1; reflexivity|].
        split; [exact E1|]. split; [exact S1|].
        eapply Forall_impl; [|exact I1]. intros kv Hin. right. exact Hin.
      + destruct (child_of_props old name ch Hold) as (Hcp & Hcpl & Hcd).
        assert (Hwfp : wf_text (a_path (child_of old name ch)))
          by (rewrite Hcp; exact (good_name_wf _ Hgn)).
        destruct (IHch _ _ _ _ _ _ Hch0 Hwfp Hc Hmp Hch) as (M0 & T0 & W0 & _).
        destruct (commit_cache_ok H Hinj _ _ _ _ _ _ _ Hc Hch) as [Hc0 Hle0].
        pose proof (commit_entries_cache_ok H _ Hinj _ _ _ _ _ _ _ Hc0 Hr) as [_ Hle1].
        destruct (IHr _ _ _ _ _ _ _ Hsr (Forall_ctree_le _ _ _ Hle0 Hr0) Hold Hc0 M0 Hr)
          as (M1 & T1 & K1 & E1 & S1 & I1).
        destruct (commit_node_flags H _ _ _ _ _ _ _ Hch) as (Fp & Fd & Fn & Fs).
        split; [exact M1|]. split.
        { constructor; [split; [exact Hgn|exact (ctree_le _ _ _ Hle1 T0)]|exact T1]. }
        split; [cbn [map fst]; rewrite K1; reflexivity|].
        assert (Hpath : a_path child' = name) by congruence.
        split.
        { constructor; [|exact E1]. unfold ent_ok. cbn [fst snd]. rewrite Hpath.
          split; [reflexivity|]. split; [exact (proj1 (proj2 Hgn))|].
          split; [exact (good_name_wf _ Hgn)|]. split; [exact W0|].
          destruct Hcpl as [P1 P2]. split; congruence. }
        split.
        { constructor; [exact S1|]. apply Forall_forall. intros kv Hin.
          rewrite Forall_forall in I1. specialize (I1 _ Hin). apply in_map_iff in I1 as (e & Ee & Hine).
          rewrite Forall_forall in Hlt. specialize (Hlt _ Hine).
          unfold man_key_lt, key_lt in *. cbn [fst] in *. rewrite Hpath, <- Ee. exact Hlt. }
        constructor; [left; cbn [fst]; symmetry; exact Hpath|].
        eapply Forall_impl; [|exact I1]. intros kv Hin. right. exact Hin.
  Qed.

  Lemma wf_written p m :
    wf_text p -> Forall ent_ok m -> StronglySorted man_key_lt m -> wf_manifest (mkMan p m).
  Proof.
    intros Hp He Hs. unfold wf_manifest. cbn [m_path m_contents].
    split; [exact Hp|]. split; [exact Hs|exact He].
  Qed.

  Lemma commit_A n : PA n.
  Proof.
    induction n as [b|d|t| |es IH] using node_ind2; intros a c st n' c' a' Ht Hwp Hc Hmp Hok.
    1-4: rewrite commit_node_leaf in Hok by reflexivity;
         destruct (a_isdir a) eqn:Eisd; [discriminate|];
         assert (Hap : forall a0, a_isdir a0 = false -> forall c0, art_present c0 a0)
           by (intros a0 E0 c0 E1; congruence);
         apply commit_file_inv in Hok
           as [(Hq & -> & -> & ->)|[(_ & b' & Eb & -> & [(_ & -> & ->)|(_ & -> & ->)])
                                   |(d' & o' & Ed & Hg' & -> & -> & ->)]];
         try discriminate; try (inversion Ht; fail).
    - (* File, qmatch: impossible *) apply qmatch_inv in Hq as (_ & Hn & _). discriminate.
    - (* File, skip *)
      repeat split; try assumption; try apply (proj1 (Htext _)); try apply (proj2 (Htext _)).
      apply Hap. exact Eisd.
    - (* File, stored *)
      injection Eb as <-. inversion Ht as [b0 Htame| |]; subst.
      split.
      { apply man_plain_cput; [exact Hmp|]. intros m Hm. specialize (Htame m Hm).
        eapply Forall_impl; [|exact Htame]. intros kv [Hk _]. exact Hk. }
      split.
      { destruct st.
        - apply (ct_link _ _ (mkObj b cache_perms)). rewrite cget_cput, beqb_refl. reflexivity.
        - constructor. exact Htame. }
      split; [exact (Htext _)|]. apply Hap. exact Eisd.
    - (* LinkC, qmatch *)
      apply qmatch_inv in Hq as (_ & _ & o & Hg).
      split; [exact Hmp|]. split; [exact Ht|]. split; [|apply Hap; exact Eisd].
      destruct (Hc _ _ Hg) as [-> _]. exact (Htext _).
    - (* LinkC, adopted *)
      injection Ed as <-.
      split; [exact Hmp|]. split; [exact Ht|]. split; [|apply Hap; exact Eisd].
      cbn [set_cs a_cs]. destruct (Hc _ _ Hg') as [-> _]. exact (Htext _).
    - (* Dir *)
      apply commit_dir_inv in Hok as (Eisd & old & es' & c1 & m & Hold & He & -> & -> & ->).
      inversion Ht as [| |es0 Hs Hes]; subst.
      pose proof (old_contents_ok _ _ _ Hmp Hold) as Hoo.
      destruct (A_entries es IH _ _ _ _ _ _ _ Hs Hes Hoo Hc Hmp He) as (M1 & T1 & K1 & E1 & S1 & _).
      pose proof (commit_entries_cache_ok H _ Hinj _ _ _ _ _ _ _ Hc He) as [Hc1 _].
      set (M := mkMan (a_path a) m).
      assert (Hdec : dec_manifest (enc_manifest M) = Some M)
        by (apply Hcodec; apply wf_written; assumption).
      assert (Hle : cache_le c1 (cput c1 (H (enc_manifest M)) (enc_manifest M)))
        by (apply cput_le; assumption).
      split.
      { apply man_plain_cput; [exact M1|]. intros m0 Hm0. rewrite Hdec in Hm0. injection Hm0 as <-.
        cbn [m_contents M]. eapply Forall_impl; [|exact E1]. intros kv Hk. exact (proj2 (proj2 (proj2 (proj2 Hk)))). }
      split.
      { constructor.
        - apply sorted_keys. rewrite K1. apply sorted_keys. exact Hs.
        - exact (Forall_ctree_le _ _ _ Hle T1). }
      split; [exact (Htext _)|].
      intros _. exists (mkObj (enc_manifest M) cache_perms), M. cbn [set_cs a_cs o_data].
      split; [rewrite cget_cput, beqb_refl; reflexivity|exact Hdec].
  Qed.

  Lemma A_entries' es : entries_A es.
  Proof. apply A_entries. apply Forall_forall. intros e _. apply commit_A. Qed.

End WellFormed.

(* ------------------------------------------------------------------------------------------ *)
(* C16: the recorded checksum is the Merkle function of path and logical content               *)
(* ------------------------------------------------------------------------------------------ *)

Definition merkle_entries (rec : bytes -> bool -> node -> option bytes) (nr : bool) :=
  fix go (es : list (bytes * node)) : option (list (bytes * artifact)) :=
    match es with
    | [] => Some []
    | (name, ch) :: r =>
      if nr && is_dir ch then go r else
      match rec name false ch, go r with
      | Some d, Some l => Some ((name, mkArt d name (is_dir ch) false false) :: l)
      | _, _ => None
      end
    end.

Lemma merkle_dir H p nr es :
  merkle H p nr (Dir es) =
  match merkle_entries (merkle H) nr es with
  | Some l => Some (H (enc_manifest (mkMan p l)))
  | None => None
  end.
Proof. reflexivity. Qed.

Lemma is_dir_logical c n : is_dir (logical c n) = is_dir n.
Proof. destruct n as [|d| | |]; try reflexivity. cbn [logical]. destruct (cget c d); reflexivity. Qed.

Section Merkle.
  Variable H : bytes -> bytes.
  Hypothesis Hinj : H_inj H.
  Hypothesis Htext : H_text H.
  Hypothesis Hcodec : codec_ok.

  Definition PM (n : node) : Prop :=
    forall a c st n' c' a',
      ctree c n -> wf_text (a_path a) -> cache_ok H c -> man_plain c ->
      commit_node H a n c st = Ok (n', c', a') ->
      merkle H (a_path a) (a_norec a) (logical c n) = Some (a_cs a').

  Lemma M_entries es :
    Forall (fun e => PM (snd e)) es ->
    forall nr old st c es' c1 m c0,
      cache_le c0 c ->
      StronglySorted key_lt es ->
      Forall (fun e => good_name (fst e) /\ ctree c0 (snd e)) es ->
      old_ok old -> cache_ok H c -> man_plain c ->
      commit_entries (commit_node H) nr old st es c = Ok (es', c1, m) ->
      merkle_entries (merkle H) nr (map (fun e => (fst e, logical c0 (snd e))) es) = Some m.
  Proof.
    intros IH.
    induction IH as [|[name ch] r IHch _ IHr]; intros nr old st c es' c1 m c0 Hle0 Hs Hes Hold Hc Hmp He.
    - apply commit_entries_nil in He. injection He as _ _ ->. reflexivity.
    - inversion Hs as [|e0 r0 Hsr Hlt]; subst.
      inversion Hes as [|e0 r0 [Hgn Hch0] Hr0]; subst. cbn [fst snd] in *.
      cbn [map fst snd merkle_entries]. rewrite is_dir_logical.
      apply commit_entries_cons in He
        as [(Esk & es1 & Hr & _)|(Esk & _ & ch' & c2 & child' & es1 & m1 & Hch & Hr & _ & ->)];
        rewrite Esk.
      + exact (IHr _ _ _ _ _ _ _ _ Hle0 Hsr Hr0 Hold Hc Hmp Hr).
      + destruct (child_of_props old name ch Hold) as (Hcp & [Hcn Hcs] & Hcd).
        assert (Hwfp : wf_text (a_path (child_of old name ch)))
          by (rewrite Hcp; exact (good_name_wf _ Hgn)).
        pose proof (ctree_le _ _ _ Hle0 Hch0) as Hchc.
        pose proof (IHch _ _ _ _ _ _ Hchc Hwfp Hc Hmp Hch) as Hm.
        rewrite Hcp, Hcn, (logical_le _ _ _ Hle0 (ctree_resolved _ _ Hch0)) in Hm. rewrite Hm.
        destruct (commit_A H Hinj Htext Hcodec _ _ _ _ _ _ _ Hchc Hwfp Hc Hmp Hch) as (M2 & _).
        destruct (commit_cache_ok H Hinj _ _ _ _ _ _ _ Hc Hch) as [Hc2 Hle2].
        rewrite (IHr _ _ _ _ _ _ _ _ (cache_le_trans _ _ _ Hle0 Hle2) Hsr Hr0 Hold Hc2 M2 Hr).
        destruct (commit_node_flags H _ _ _ _ _ _ _ Hch) as (Fp & Fd & Fn & Fs).
        destruct child' as [cs' p' d' n' s']. cbn [a_cs a_path a_isdir a_norec a_skip] in *.
        f_equal. f_equal. f_equal; congruence.
  Qed.

  Lemma commit_M n : PM n.
  Proof.
    induction n as [b|d|t| |es IH] using node_ind2; intros a c st n' c' a' Ht Hwp Hc Hmp Hok.
    1-4: rewrite commit_node_leaf in Hok by reflexivity;
         destruct (a_isdir a) eqn:Eisd; [discriminate|];
         apply commit_file_inv in Hok
           as [(Hq & -> & -> & ->)|[(_ & b' & Eb & -> & _)|(d' & o' & Ed & Hg' & -> & -> & ->)]];
         try discriminate; try (inversion Ht; fail).
    - apply qmatch_inv in Hq as (_ & Hn & _). discriminate.
    - injection Eb as <-. reflexivity.
    - apply qmatch_inv in Hq as (_ & Hn & o & Hg). injection Hn as ->.
      cbn [logical]. rewrite Hg. cbn [merkle]. destruct (Hc _ _ Hg) as [<- _]. reflexivity.
    - injection Ed as <-. cbn [logical]. rewrite Hg'. cbn [merkle set_cs a_cs].
      destruct (Hc _ _ Hg') as [<- _]. reflexivity.
    - apply commit_dir_inv in Hok as (Eisd & old & es' & c1 & m & Hold & He & -> & -> & ->).
      inversion Ht as [| |es0 Hs Hes]; subst.
      pose proof (old_contents_ok _ _ _ Hmp Hold) as Hoo.
      cbn [logical]. rewrite merkle_dir.
      rewrite (M_entries es IH _ _ _ _ _ _ _ _ (cache_le_refl c) Hs Hes Hoo Hc Hmp He).
      reflexivity.
  Qed.

  (* stmt_commit_merkle is FALSE as written (cex_merkle_link, cex_merkle_blob below).  Repaired:
     the tree is a [ctree] (sorted good names, no dangling link, no file whose bytes are a manifest
     with flagged or directory entries), the path is text, and H_text / codec_ok are assumed so
     that what commit writes decodes to itself.  The premise [a_skip a = false] is not needed. *)
  Theorem commit_merkle_ctree :
    forall a n c st n' c' a',
      cache_ok H c -> man_plain c -> ctree c n -> wf_text (a_path a) ->
      commit_node H a n c st = Ok (n', c', a') ->
      merkle H (a_path a) (a_norec a) (logical c n) = Some (a_cs a').
  Proof. intros a n c st n' c' a' Hc Hmp Ht Hwp Hok. exact (commit_M n _ _ _ _ _ _ Ht Hwp Hc Hmp Hok). Qed.

  Theorem commit_merkle_plain :
    forall a n c st n' c' a',
      cache_ok H c -> man_plain c -> plain n -> tame n -> wf_text (a_path a) ->
      commit_node H a n c st = Ok (n', c', a') ->
      merkle H (a_path a) (a_norec a) n = Some (a_cs a').
  Proof.
    intros a n c st n' c' a' Hc Hmp Hp Htm Hwp Hok.
    rewrite <- (plain_logical c n Hp) at 1.
    exact (commit_M n _ _ _ _ _ _ (plain_tame_ctree c n Hp Htm) Hwp Hc Hmp Hok).
  Qed.
End Merkle.
Print Assumptions commit_merkle_ctree.
Print Assumptions commit_merkle_plain.
