(* Theorems about commit (Model/Cache.v: commit_file, commit_node; Model/Index.v, Model/System.v
   for the command level), stated through the Props of Proofs/CacheDefs.v.

   Proved exactly as stated in CacheDefs:
     commit_cache_ok : stmt_commit_cache_ok H        (C02; the lookup law alookup_ins_sorted of
                                                      ins_sorted holds for EVERY list, no
                                                      sortedness premise is needed)
     commit_skip     : stmt_commit_skip H
     commit_idem     : stmt_commit_idem H            (C15; uses Proofs/ManifestRT.v, whose round
                                                      trip does not depend on the entry flags;
                                                      commit_idem_links: also for linked trees)
     step_cache_ok, history_cache_ok                 (C02 for every command / history of commands)

   FALSE as stated in CacheDefs (refuted below), proved under repaired premises:
     stmt_commit_logical   ~ by cex_logical.      commit_logical_resolved (+ [resolved c n]: no
                                                  dangling cache link), commit_logical_plain
     stmt_commit_merkle    ~ by cex_merkle_link, cex_merkle_blob.
                                                  commit_merkle_ctree / _plain / _final
     stmt_commit_inv       ~ by cex_inv (= cex_inv_plain + codec_ok_holds), cex_inv_closed.
                                                  commit_inv_ctree / _tame / _final
     stmt_commit_ok        ~ by cex_ok.           commit_ok_ctree / _tame / _final
   Extra premises used by the repaired statements:
     tame n        (blob_tame b for every file: IF the bytes of a file decode as a directory
                    manifest, its entries carry no flags and are not directories)
     ctree c n     (= sorted good names + tame files + cache links allowed if resolved in c;
                    plain n /\ tame n -> ctree c n)
     man_present c (a directory child recorded in a manifest of the cache is in the cache)
     wf_text (a_path a), H_text, codec_ok (codec_ok is proved: codec_ok_holds; *_final versions)

   No axioms; every theorem is followed by Print Assumptions (theorems inside a Section: right
   after the End of the section). *)
From Coq Require Import ZArith NArith List Bool Sorted Lia ZifyBool String.
From DudV Require Import Base.Bytes Base.JsonStr Base.Json Base.GoPath Model.Fs Model.Cache
  Model.Stage Model.Index Model.System Proofs.CacheDefs.
Import ListNotations.
Local Open Scope N_scope.

(* ------------------------------------------------------------------------------------------ *)
(* Byte strings, association lists                                                             *)
(* ------------------------------------------------------------------------------------------ *)

Lemma beqb_false a b : beqb a b = false <-> a <> b.
Proof.
  split.
  - intros Hf He. apply beqb_eq in He. rewrite He in Hf. discriminate.
  - intros Hn. destruct (beqb a b) eqn:E; [|reflexivity]. apply beqb_eq in E. contradiction.
Qed.

Lemma beqb_sym a b : beqb a b = beqb b a.
Proof.
  destruct (beqb a b) eqn:E1, (beqb b a) eqn:E2; try reflexivity.
  - apply beqb_eq in E1. subst b. rewrite beqb_refl in E2. discriminate.
  - apply beqb_eq in E2. subst b. rewrite beqb_refl in E1. discriminate.
Qed.

Lemma bltb_irrefl a : bltb a a = false.
Proof.
  induction a as [|x a IH]; [reflexivity|]. cbn [bltb].
  replace (x <? x) with false by lia. exact IH.
Qed.

Lemma bltb_asym a : forall b, bltb a b = true -> bltb b a = false.
Proof.
  induction a as [|x a IH]; intros [|y b] Hab; cbn [bltb] in *; try reflexivity; try discriminate.
  destruct (x <? y) eqn:Exy.
  - replace (y <? x) with false by lia. reflexivity.
  - destruct (y <? x) eqn:Eyx; [discriminate|]. apply IH. exact Hab.
Qed.

Lemma bltb_neq a b : bltb a b = true -> beqb a b = false.
Proof.
  intros Hab. apply beqb_false. intros ->. rewrite bltb_irrefl in Hab. discriminate.
Qed.

Lemma bltb_trans a : forall b c, bltb a b = true -> bltb b c = true -> bltb a c = true.
Proof.
  induction a as [|x a IH]; intros [|y b] [|z c] Hab Hbc; cbn [bltb] in *;
    try reflexivity; try discriminate.
  destruct (x <? y) eqn:Exy.
  - destruct (y <? z) eqn:Eyz.
    + replace (x <? z) with true by lia. reflexivity.
    + destruct (z <? y) eqn:Ezy; [discriminate|].
      replace (x <? z) with true by lia. reflexivity.
  - destruct (y <? x) eqn:Eyx; [discriminate|].
    destruct (y <? z) eqn:Eyz.
    + replace (x <? z) with true by lia. reflexivity.
    + destruct (z <? y) eqn:Ezy; [discriminate|].
      replace (x <? z) with false by lia. replace (z <? x) with false by lia.
      exact (IH _ _ Hab Hbc).
Qed.

(* The lookup law of [ins_sorted]: holds for EVERY list, sorted or not (no sortedness premise). *)
Lemma alookup_ins_sorted {A} k (v : A) k' l :
  alookup k' (ins_sorted k v l) = if beqb k' k then Some v else alookup k' l.
Proof.
  induction l as [|[k1 v1] r IH].
  - cbn [ins_sorted alookup]. reflexivity.
  - cbn [ins_sorted]. destruct (beqb k k1) eqn:E1.
    + apply beqb_eq in E1. subst k1. cbn [alookup].
      destruct (beqb k' k); reflexivity.
    + destruct (bltb k k1).
      * cbn [alookup]. reflexivity.
      * cbn [alookup]. rewrite IH. destruct (beqb k' k1) eqn:E2; [|reflexivity].
        apply beqb_eq in E2. subst k1.
        destruct (beqb k' k) eqn:E3; [|reflexivity].
        apply beqb_eq in E3. subst k'. rewrite beqb_refl in E1. discriminate.
Qed.

Lemma cget_cput c d b d' :
  cget (cput c d b) d' = if beqb d' d then Some (mkObj b cache_perms) else cget c d'.
Proof. unfold cget, cput. apply alookup_ins_sorted. Qed.

(* ------------------------------------------------------------------------------------------ *)
(* Induction on nodes (nested in a list of pairs)                                              *)
(* ------------------------------------------------------------------------------------------ *)

Section NodeInd.
  Variable P : node -> Prop.
  Hypothesis P_file : forall b, P (File b).
  Hypothesis P_linkc : forall d, P (LinkC d).
  Hypothesis P_linko : forall t, P (LinkO t).
  Hypothesis P_other : P Other.
  Hypothesis P_dir : forall es, Forall (fun e => P (snd e)) es -> P (Dir es).

  Fixpoint node_ind2 (n : node) : P n :=
    match n with
    | File b => P_file b
    | LinkC d => P_linkc d
    | LinkO t => P_linko t
    | Other => P_other
    | Dir es =>
      P_dir es ((fix go (l : list (bytes * node)) : Forall (fun e => P (snd e)) l :=
                   match l with
                   | [] => Forall_nil _
                   | e :: r => Forall_cons e (node_ind2 (snd e)) (go r)
                   end) es)
    end.
End NodeInd.

(* ------------------------------------------------------------------------------------------ *)
(* Unfolding commit_node                                                                       *)
(* ------------------------------------------------------------------------------------------ *)

(* the child artifact a directory commit starts from *)
Definition child_of (old : list (bytes * artifact)) (name : bytes) (ch : node) : artifact :=
  match alookup name old with
  | Some oa => if Bool.eqb (a_isdir oa) (is_dir ch) then oa else fresh_art name (is_dir ch)
  | None => fresh_art name (is_dir ch)
  end.

(* the inner loop of commit_node, with the recursive call abstracted *)
Definition commit_entries (rec : artifact -> node -> cache -> strategy -> res (node * cache * artifact))
  (nr : bool) (old : list (bytes * artifact)) (st : strategy) :=
  fix go (es : list (bytes * node)) (c : cache)
    : res (list (bytes * node) * cache * list (bytes * artifact)) :=
    match es with
    | [] => Ok ([], c, [])
    | (name, ch) :: r =>
      if nr && is_dir ch then
        match go r c with
        | Ok (es', c', m) => Ok ((name, ch) :: es', c', m)
        | Err => Err
        end
      else if negb (utf8_name name) then Err
      else
        match rec (child_of old name ch) ch c st with
        | Err => Err
        | Ok (ch', c1, child') =>
          match go r c1 with
          | Ok (es', c2, m) => Ok ((name, ch') :: es', c2, (a_path child', child') :: m)
          | Err => Err
          end
        end
    end.

Section Commit.
  Variable H : bytes -> bytes.

  Lemma commit_node_dir a es c st :
    commit_node H a (Dir es) c st =
    if a_isdir a then
      match old_contents a c with
      | Err => Err
      | Ok old =>
        match commit_entries (commit_node H) (a_norec a) old st es c with
        | Err => Err
        | Ok (es', c', m) =>
          let mb := enc_manifest (mkMan (a_path a) m) in
          Ok (Dir es', cput c' (H mb) mb, set_cs a (H mb))
        end
      end
    else commit_file H a (Dir es) c st.
  Proof. reflexivity. Qed.

  Lemma commit_node_leaf a n c st :
    is_dir n = false ->
    commit_node H a n c st = if a_isdir a then Err else commit_file H a n c st.
  Proof. destruct n; intros Hd; try discriminate; reflexivity. Qed.

  (* inversion of a successful directory commit *)
  Lemma commit_dir_inv a es c st n' c' a' :
    commit_node H a (Dir es) c st = Ok (n', c', a') ->
    a_isdir a = true /\
    exists old es' c1 m,
      old_contents a c = Ok old /\
      commit_entries (commit_node H) (a_norec a) old st es c = Ok (es', c1, m) /\
      n' = Dir es' /\
      c' = cput c1 (H (enc_manifest (mkMan (a_path a) m))) (enc_manifest (mkMan (a_path a) m)) /\
      a' = set_cs a (H (enc_manifest (mkMan (a_path a) m))).
  Proof.
    rewrite commit_node_dir. destruct (a_isdir a) eqn:Ed.
    - destruct (old_contents a c) as [old|] eqn:Eo; [|discriminate].
      destruct (commit_entries (commit_node H) (a_norec a) old st es c) as [[[es' c1] m]|] eqn:Ee;
        [|discriminate].
      cbv zeta. intros Hok. injection Hok as <- <- <-.
      split; [reflexivity|]. exists old, es', c1, m. repeat split; assumption.
    - unfold commit_file. unfold qmatch. rewrite andb_false_r. discriminate.
  Qed.

  (* inversion of one step of the loop *)
  Lemma commit_entries_nil rec nr old st c r :
    commit_entries rec nr old st [] c = Ok r -> r = ([], c, []).
  Proof. cbn [commit_entries]. intros Hok. injection Hok as <-. reflexivity. Qed.

  Lemma commit_entries_cons rec nr old st name ch r c es' c' m :
    commit_entries rec nr old st ((name, ch) :: r) c = Ok (es', c', m) ->
    (nr && is_dir ch = true /\
     exists es1, commit_entries rec nr old st r c = Ok (es1, c', m) /\ es' = (name, ch) :: es1) \/
    (nr && is_dir ch = false /\ utf8_name name = true /\
     exists ch' c1 child' es1 m1,
       rec (child_of old name ch) ch c st = Ok (ch', c1, child') /\
       commit_entries rec nr old st r c1 = Ok (es1, c', m1) /\
       es' = (name, ch') :: es1 /\ m = (a_path child', child') :: m1).
  Proof.
    cbn [commit_entries]. destruct (nr && is_dir ch) eqn:Es.
    - destruct (commit_entries rec nr old st r c) as [[[es1 c1] m1]|] eqn:Er; [|discriminate].
      intros Hok. injection Hok as <- <- <-. left. split; [reflexivity|].
      exists es1. split; reflexivity.
    - destruct (utf8_name name) eqn:Eu; cbn [negb]; [|discriminate].
      destruct (rec (child_of old name ch) ch c st) as [[[ch' c1] child']|] eqn:Ec; [|discriminate].
      destruct (commit_entries rec nr old st r c1) as [[[es1 c2] m1]|] eqn:Er; [|discriminate].
      intros Hok. injection Hok as <- <- <-. right. split; [reflexivity|]. split; [reflexivity|].
      exists ch', c1, child', es1, m1. repeat split; assumption.
  Qed.

  (* inversion of a successful file commit *)
  Lemma commit_file_inv a n c st n' c' a' :
    commit_file H a n c st = Ok (n', c', a') ->
    (qmatch c (a_cs a) (Some n) = true /\ n' = n /\ c' = c /\ a' = a) \/
    (qmatch c (a_cs a) (Some n) = false /\
     exists b, n = File b /\ a' = set_cs a (H b) /\
       ((a_skip a = true /\ n' = n /\ c' = c) \/
        (a_skip a = false /\ c' = cput c (H b) b /\
         n' = match st with Link => LinkC (H b) | Copy => File b end))) \/
    (* a link to an existing object is adopted *)
    (exists d o, n = LinkC d /\ cget c d = Some o /\ n' = n /\ c' = c /\ a' = set_cs a d).
  Proof.
    unfold commit_file. destruct (qmatch c (a_cs a) (Some n)) eqn:Eq.
    - intros Hok. injection Hok as <- <- <-. left. repeat split; reflexivity.
    - destruct n as [b|d| | |]; try discriminate.
      + intros Hok. right. left. split; [reflexivity|]. exists b. split; [reflexivity|].
        destruct (a_skip a) eqn:Es.
        * injection Hok as <- <- <-. split; [reflexivity|]. left. repeat split; reflexivity.
        * destruct st; injection Hok as <- <- <-; (split; [reflexivity|]); right;
            repeat split; reflexivity.
      + unfold in_cache. destruct (cget c d) as [o|] eqn:Eg; [|discriminate].
        intros Hok. injection Hok as <- <- <-. right. right. exists d, o.
        repeat split; reflexivity || assumption.
  Qed.

  Lemma qmatch_inv c cs n :
    qmatch c cs (Some n) = true ->
    has_cs cs = true /\ n = LinkC cs /\ exists o, cget c cs = Some o.
  Proof.
    unfold qmatch, in_cache. intros Hq.
    apply andb_true_iff in Hq as [Hq H3]. apply andb_true_iff in Hq as [H1 H2].
    split; [exact H1|].
    destruct n as [|d| | |]; try discriminate. apply beqb_eq in H3. subst d.
    split; [reflexivity|].
    destruct (cget c cs) as [o|]; [|discriminate]. exists o. reflexivity.
  Qed.

  (* a successful commit only sets the checksum of the artifact *)
  Lemma commit_node_art a n c st n' c' a' :
    commit_node H a n c st = Ok (n', c', a') -> a' = a \/ exists d, a' = set_cs a d.
  Proof.
    destruct (is_dir n) eqn:Ed.
    - destruct n as [| | |es|]; try discriminate. intros Hok.
      apply commit_dir_inv in Hok as (_ & old & es' & c1 & m & _ & _ & _ & _ & ->).
      right. eexists. reflexivity.
    - rewrite (commit_node_leaf _ _ _ _ Ed). destruct (a_isdir a); [discriminate|].
      intros Hok.
      apply commit_file_inv in Hok as [(_ & _ & _ & ->)|[(_ & b & _ & -> & _)|(d & o & _ & _ & _ & _ & ->)]].
      + left. reflexivity.
      + right. eexists. reflexivity.
      + right. eexists. reflexivity.
  Qed.

  Lemma commit_node_flags a n c st n' c' a' :
    commit_node H a n c st = Ok (n', c', a') ->
    a_path a' = a_path a /\ a_isdir a' = a_isdir a /\ a_norec a' = a_norec a /\ a_skip a' = a_skip a.
  Proof.
    intros Hok. apply commit_node_art in Hok as [->|[d ->]]; repeat split; reflexivity.
  Qed.

  (* ---------------------------------------------------------------------------------------- *)
  (* C02: cache_ok, cache_le                                                                   *)
  (* ---------------------------------------------------------------------------------------- *)

  Lemma cache_le_refl c : cache_le c c.
  Proof. intros d o Hg. exists o. split; [exact Hg|reflexivity]. Qed.

  Lemma cache_le_trans c1 c2 c3 : cache_le c1 c2 -> cache_le c2 c3 -> cache_le c1 c3.
  Proof.
    intros H12 H23 d o Hg. destruct (H12 d o Hg) as (o2 & Hg2 & E2).
    destruct (H23 d o2 Hg2) as (o3 & Hg3 & E3). exists o3. split; [exact Hg3|congruence].
  Qed.

  Lemma cput_ok c b : cache_ok H c -> cache_ok H (cput c (H b) b).
  Proof.
    intros Hc d o. rewrite cget_cput. destruct (beqb d (H b)) eqn:E.
    - apply beqb_eq in E. subst d. intros Ho. injection Ho as <-. cbn [o_data o_mode].
      split; reflexivity.
    - apply Hc.
  Qed.

  Lemma cput_le c b : H_inj H -> cache_ok H c -> cache_le c (cput c (H b) b).
  Proof.
    intros Hinj Hc d o Hg. rewrite cget_cput. destruct (beqb d (H b)) eqn:E.
    - apply beqb_eq in E. subst d. eexists. split; [reflexivity|]. cbn [o_data].
      destruct (Hc _ _ Hg) as [Hd _]. apply Hinj in Hd. exact Hd.
    - exists o. split; [exact Hg|reflexivity].
  Qed.

  Lemma commit_file_cache_ok a n c st n' c' a' :
    H_inj H -> cache_ok H c -> commit_file H a n c st = Ok (n', c', a') ->
    cache_ok H c' /\ cache_le c c'.
  Proof.
    intros Hinj Hc Hok.
    apply commit_file_inv in Hok
      as [(_ & _ & -> & _)|[(_ & b & _ & _ & [(_ & _ & ->)|(_ & -> & _)])|(d & o & _ & _ & _ & -> & _)]].
    - split; [exact Hc|apply cache_le_refl].
    - split; [exact Hc|apply cache_le_refl].
    - split; [apply cput_ok; exact Hc|apply cput_le; assumption].
    - split; [exact Hc|apply cache_le_refl].
  Qed.

  Theorem commit_cache_ok : stmt_commit_cache_ok H.
  Proof.
    unfold stmt_commit_cache_ok. intros Hinj a n. revert a.
    induction n as [b|d|t| |es IH] using node_ind2; intros a c st n' c' a' Hc Hok;
      try (rewrite commit_node_leaf in Hok by reflexivity;
           destruct (a_isdir a); [discriminate|];
           exact (commit_file_cache_ok _ _ _ _ _ _ _ Hinj Hc Hok)).
    apply commit_dir_inv in Hok as (_ & old & es' & c1 & m & _ & He & _ & -> & _).
    assert (Hes : cache_ok H c1 /\ cache_le c c1).
    { clear a'. revert c es' c1 m Hc He.
      induction IH as [|[name ch] r IHch _ IHr]; intros c es' c1 m Hc He.
      - apply commit_entries_nil in He. injection He as _ <- _.
        split; [exact Hc|apply cache_le_refl].
      - apply commit_entries_cons in He
          as [(_ & es1 & Hr & _)|(_ & _ & ch' & c0 & child' & es1 & m1 & Hch & Hr & _ & _)].
        + exact (IHr _ _ _ _ Hc Hr).
        + cbn [snd] in IHch. destruct (IHch _ _ _ _ _ _ Hc Hch) as [Hc0 Hle0].
          destruct (IHr _ _ _ _ Hc0 Hr) as [Hc1 Hle1].
          split; [exact Hc1|exact (cache_le_trans _ _ _ Hle0 Hle1)]. }
    destruct Hes as [Hc1 Hle1]. split.
    - apply cput_ok. exact Hc1.
    - apply (cache_le_trans _ _ _ Hle1). apply cput_le; assumption.
  Qed.

  Lemma commit_entries_cache_ok es :
    H_inj H -> forall nr old st c es' c1 m,
    cache_ok H c -> commit_entries (commit_node H) nr old st es c = Ok (es', c1, m) ->
    cache_ok H c1 /\ cache_le c c1.
  Proof.
    intros Hinj nr old st. induction es as [|[name ch] r IHr]; intros c es' c1 m Hc He.
    - apply commit_entries_nil in He. injection He as _ <- _.
      split; [exact Hc|apply cache_le_refl].
    - apply commit_entries_cons in He
        as [(_ & es1 & Hr & _)|(_ & _ & ch' & c0 & child' & es1 & m1 & Hch & Hr & _ & _)].
      + exact (IHr _ _ _ _ Hc Hr).
      + destruct (commit_cache_ok Hinj _ _ _ _ _ _ _ Hc Hch) as [Hc0 Hle0].
        destruct (IHr _ _ _ _ Hc0 Hr) as [Hc1 Hle1].
        split; [exact Hc1|exact (cache_le_trans _ _ _ Hle0 Hle1)].
  Qed.

  (* ---------------------------------------------------------------------------------------- *)
  (* skip-cache files                                                                          *)
  (* ---------------------------------------------------------------------------------------- *)

  Theorem commit_skip : stmt_commit_skip H.
  Proof.
    unfold stmt_commit_skip. intros a b c st n' c' a' Hd Hs Hok.
    rewrite commit_node_leaf in Hok by reflexivity. rewrite Hd in Hok.
    apply commit_file_inv in Hok
      as [(Hq & _)|[(_ & b' & Eb & -> & [(_ & -> & ->)|(Hs' & _)])|(d & o & Hn & _)]].
    - apply qmatch_inv in Hq as (_ & Hn & _). discriminate.
    - injection Eb as <-. repeat split; reflexivity.
    - congruence.
    - discriminate.
  Qed.

End Commit.
Print Assumptions commit_cache_ok.
Print Assumptions commit_skip.

(* ------------------------------------------------------------------------------------------ *)
(* The logical content is unchanged                                                            *)
(* ------------------------------------------------------------------------------------------ *)

(* no dangling cache link anywhere in the tree *)
Inductive resolved (c : cache) : node -> Prop :=
| rs_file b : resolved c (File b)
| rs_linkc d o : cget c d = Some o -> resolved c (LinkC d)
| rs_linko t : resolved c (LinkO t)
| rs_other : resolved c Other
| rs_dir es : Forall (fun e => resolved c (snd e)) es -> resolved c (Dir es).

Lemma resolved_le c c' n : cache_le c c' -> resolved c n -> resolved c' n.
Proof.
  intros Hle. induction n as [b|d|t| |es IH] using node_ind2; intros Hr; try constructor.
  - inversion Hr as [|d' o Hg| | |]; subst. destruct (Hle _ _ Hg) as (o' & Hg' & _).
    exact (rs_linkc _ _ _ Hg').
  - inversion Hr as [| | | |es' Hes]; subst. clear Hr.
    induction IH as [|e r IHe _ IHr]; [constructor|].
    inversion Hes as [|e' r' He Hr']; subst. constructor; [exact (IHe He)|exact (IHr Hr')].
Qed.

Lemma logical_le c c' n : cache_le c c' -> resolved c n -> logical c' n = logical c n.
Proof.
  intros Hle. induction n as [b|d|t| |es IH] using node_ind2; intros Hr; try reflexivity.
  - inversion Hr as [|d' o Hg| | |]; subst. destruct (Hle _ _ Hg) as (o' & Hg' & Ed).
    cbn [logical]. rewrite Hg, Hg', Ed. reflexivity.
  - inversion Hr as [| | | |es' Hes]; subst. clear Hr. cbn [logical]. f_equal.
    induction IH as [|e r IHe _ IHr]; [reflexivity|].
    inversion Hes as [|e' r' He Hr']; subst. cbn [map]. rewrite (IHe He), (IHr Hr'). reflexivity.
Qed.

Lemma plain_resolved c n : plain n -> resolved c n.
Proof.
  induction n as [b|d|t| |es IH] using node_ind2; intros Hp; try (inversion Hp; fail); constructor.
  inversion Hp as [|es' _ Hes]; subst. clear Hp.
  induction IH as [|e r IHe _ IHr]; [constructor|].
  inversion Hes as [|e' r' [_ He] Hr']; subst. constructor; [exact (IHe He)|exact (IHr Hr')].
Qed.

Lemma plain_logical c n : plain n -> logical c n = n.
Proof.
  induction n as [b|d|t| |es IH] using node_ind2; intros Hp; try reflexivity;
    try (inversion Hp; fail).
  inversion Hp as [|es' _ Hes]; subst. clear Hp. cbn [logical]. f_equal.
  induction IH as [|[k ch] r IHe _ IHr]; [reflexivity|].
  inversion Hes as [|e' r' [_ He] Hr']; subst. cbn [map fst snd] in *.
  rewrite (IHe He), (IHr Hr'). reflexivity.
Qed.

Section Logical.
  Variable H : bytes -> bytes.

  Lemma Forall_resolved_le c c' (es : list (bytes * node)) :
    cache_le c c' -> Forall (fun e => resolved c (snd e)) es -> Forall (fun e => resolved c' (snd e)) es.
  Proof.
    intros Hle Hes. eapply Forall_impl; [|exact Hes]. intros e He. exact (resolved_le _ _ _ Hle He).
  Qed.

  Lemma map_logical_le c c' (es : list (bytes * node)) :
    cache_le c c' -> Forall (fun e => resolved c (snd e)) es ->
    map (fun e => (fst e, logical c' (snd e))) es = map (fun e => (fst e, logical c (snd e))) es.
  Proof.
    intros Hle Hes. induction Hes as [|e r He _ IHr]; [reflexivity|].
    cbn [map]. rewrite (logical_le _ _ _ Hle He), IHr. reflexivity.
  Qed.

  (* stmt_commit_logical with the extra premise [resolved c n]; also: the result has no dangling
     link.  (H_has is not needed.) *)
  Theorem commit_logical_resolved :
    H_inj H -> forall a n c st n' c' a',
      cache_ok H c -> resolved c n -> commit_node H a n c st = Ok (n', c', a') ->
      logical c' n' = logical c n /\ resolved c' n'.
  Proof.
    intros Hinj a n. revert a.
    induction n as [b|d|t| |es IH] using node_ind2; intros a c st n' c' a' Hc Hres Hok.
    1-4: rewrite commit_node_leaf in Hok by reflexivity;
         (destruct (a_isdir a); [discriminate|]);
         apply commit_file_inv in Hok
           as [(_ & -> & -> & _)|[(_ & b' & Eb & _ & [(_ & -> & ->)|(_ & -> & ->)])
                                 |(d' & o' & Ed & _ & -> & -> & _)]];
         try (split; [reflexivity|exact Hres]); try discriminate.
    - injection Eb as <-. destruct st; cbn [logical].
      + rewrite cget_cput, beqb_refl. cbn [o_data]. split; [reflexivity|].
        apply (rs_linkc _ _ (mkObj b cache_perms)). rewrite cget_cput, beqb_refl. reflexivity.
      + split; [reflexivity|constructor].
    - apply commit_dir_inv in Hok as (_ & old & es' & c1 & m & _ & He & -> & -> & _).
      inversion Hres as [| | | |es0 Hes]; subst. clear Hres.
      assert (Hgo : map (fun e => (fst e, logical c1 (snd e))) es' =
                    map (fun e => (fst e, logical c (snd e))) es /\
                    Forall (fun e => resolved c1 (snd e)) es').
      { clear a'. revert c es' c1 m Hc Hes He.
        induction IH as [|[name ch] r IHch _ IHr]; intros c es' c1 m Hc Hes He.
        - apply commit_entries_nil in He. injection He as -> -> _. split; [reflexivity|constructor].
        - inversion Hes as [|e0 r0 Hch0 Hr0]; subst. cbn [snd] in *.
          pose proof (commit_entries_cache_ok H _ Hinj _ _ _ _ _ _ _ Hc He) as [_ Hle].
          apply commit_entries_cons in He
            as [(_ & es1 & Hr & ->)|(_ & _ & ch' & c0 & child' & es1 & m1 & Hch & Hr & -> & _)].
          + destruct (IHr _ _ _ _ Hc Hr0 Hr) as [E1 R1]. cbn [map fst snd]. split.
            * rewrite E1, (logical_le _ _ _ Hle Hch0). reflexivity.
            * constructor; [exact (resolved_le _ _ _ Hle Hch0)|exact R1].
          + destruct (IHch _ _ _ _ _ _ Hc Hch0 Hch) as [E0 R0].
            destruct (commit_cache_ok H Hinj _ _ _ _ _ _ _ Hc Hch) as [Hc0 Hle0].
            pose proof (commit_entries_cache_ok H _ Hinj _ _ _ _ _ _ _ Hc0 Hr) as [_ Hle1].
            destruct (IHr _ _ _ _ Hc0 (Forall_resolved_le _ _ _ Hle0 Hr0) Hr) as [E1 R1].
            cbn [map fst snd]. split.
            * rewrite E1, (logical_le _ _ _ Hle1 R0), E0, (map_logical_le _ _ _ Hle0 Hr0).
              reflexivity.
            * constructor; [exact (resolved_le _ _ _ Hle1 R0)|exact R1]. }
      destruct Hgo as [E R].
      pose proof (commit_entries_cache_ok H _ Hinj _ _ _ _ _ _ _ Hc He) as [Hc1 _].
      assert (Hle : cache_le c1 (cput c1 (H (enc_manifest (mkMan (a_path a) m)))
                                     (enc_manifest (mkMan (a_path a) m))))
        by (apply cput_le; assumption).
      split.
      + rewrite (logical_le _ _ _ Hle (rs_dir _ _ R)). cbn [logical]. rewrite E. reflexivity.
      + exact (resolved_le _ _ _ Hle (rs_dir _ _ R)).
  Qed.

  (* the statement of CacheDefs restricted to trees without dangling links *)
  Theorem commit_logical_plain :
    H_inj H -> forall a n c st n' c' a',
      cache_ok H c -> plain n -> commit_node H a n c st = Ok (n', c', a') ->
      logical c' n' = n.
  Proof.
    intros Hinj a n c st n' c' a' Hc Hp Hok.
    destruct (commit_logical_resolved Hinj _ _ _ _ _ _ _ Hc (plain_resolved c n Hp) Hok) as [E _].
    rewrite E. apply plain_logical. exact Hp.
  Qed.
End Logical.
Print Assumptions commit_logical_resolved.
Print Assumptions commit_logical_plain.

(* ------------------------------------------------------------------------------------------ *)
(* Trees commit is well behaved on; what commit writes is a well-formed manifest               *)
(* ------------------------------------------------------------------------------------------ *)

(* A file whose CONTENT is itself a valid directory manifest is stored under its hash like any
   other blob and is then indistinguishable from a manifest written by commit.  [blob_tame]:
   if the bytes decode as a manifest, its entries carry no flags and are not directories. *)
Definition blob_tame (b : bytes) : Prop :=
  forall m, dec_manifest b = Some m ->
    Forall (fun kv => plain_child (snd kv) /\ a_isdir (snd kv) = false) (m_contents m).

Inductive tame : node -> Prop :=
| tm_file b : blob_tame b -> tame (File b)
| tm_linkc d : tame (LinkC d)
| tm_linko t : tame (LinkO t)
| tm_other : tame Other
| tm_dir es : Forall (fun e => tame (snd e)) es -> tame (Dir es).

(* sorted trees of good names whose files satisfy [B] and in which committed files may have
   been replaced by (resolved) cache links; [ctree]: every file is tame *)
Inductive gtree (B : bytes -> Prop) (c : cache) : node -> Prop :=
| ct_file b : B b -> gtree B c (File b)
| ct_link d o : cget c d = Some o -> gtree B c (LinkC d)
| ct_dir es :
    StronglySorted key_lt es ->
    Forall (fun e => good_name (fst e) /\ gtree B c (snd e)) es ->
    gtree B c (Dir es).
Arguments ct_file {B} c b _.
Arguments ct_link {B} c d o _.
Arguments ct_dir {B} c es _ _.
Notation ctree := (gtree blob_tame).

Lemma plain_tame_ctree c n : plain n -> tame n -> ctree c n.
Proof.
  induction n as [b|d|t| |es IH] using node_ind2; intros Hp Ht; try (inversion Hp; fail).
  - inversion Ht; subst. constructor. assumption.
  - inversion Hp as [|es' Hs Hes]; subst. inversion Ht as [| | | |es' Hts]; subst.
    constructor; [exact Hs|]. clear Hp Ht Hs.
    induction IH as [|e r IHe _ IHr]; [constructor|].
    inversion Hes as [|e' r' [Hg He] Hr']; subst. inversion Hts as [|e' r' Hte Htr]; subst.
    constructor; [split; [exact Hg|exact (IHe He Hte)]|exact (IHr Hr' Htr)].
Qed.

Lemma ctree_le {B} c c' n : cache_le c c' -> gtree B c n -> gtree B c' n.
Proof.
  intros Hle. induction n as [b|d|t| |es IH] using node_ind2; intros Hr;
    try (inversion Hr; fail).
  - inversion Hr; subst. constructor. assumption.
  - inversion Hr as [|d' o Hg|]; subst. destruct (Hle _ _ Hg) as (o' & Hg' & _).
    exact (ct_link _ _ _ Hg').
  - inversion Hr as [| |es' Hs Hes]; subst. constructor; [exact Hs|]. clear Hr Hs.
    induction IH as [|e r IHe _ IHr]; [constructor|].
    inversion Hes as [|e' r' [Hg He] Hr']; subst.
    constructor; [split; [exact Hg|exact (IHe He)]|exact (IHr Hr')].
Qed.

Lemma ctree_resolved {B} c n : gtree B c n -> resolved c n.
Proof.
  induction n as [b|d|t| |es IH] using node_ind2; intros Hr; try (inversion Hr; fail).
  - constructor.
  - inversion Hr as [|d' o Hg|]; subst. exact (rs_linkc _ _ _ Hg).
  - inversion Hr as [| |es' _ Hes]; subst. constructor. clear Hr.
    induction IH as [|e r IHe _ IHr]; [constructor|].
    inversion Hes as [|e' r' [_ He] Hr']; subst. constructor; [exact (IHe He)|exact (IHr Hr')].
Qed.

Lemma Forall_ctree_le {B} c c' (es : list (bytes * node)) :
  cache_le c c' -> Forall (fun e => good_name (fst e) /\ gtree B c (snd e)) es ->
  Forall (fun e => good_name (fst e) /\ gtree B c' (snd e)) es.
Proof.
  intros Hle Hes. eapply Forall_impl; [|exact Hes]. intros e [Hg He].
  split; [exact Hg|exact (ctree_le _ _ _ Hle He)].
Qed.

(* sortedness of an entry list only depends on the keys *)
Definition blt (a b : bytes) : Prop := bltb a b = true.

Lemma sorted_keys {A} (l : list (bytes * A)) :
  StronglySorted (fun a b => bltb (fst a) (fst b) = true) l <-> StronglySorted blt (map fst l).
Proof.
  induction l as [|e r IH]; cbn [map].
  - split; intros _; constructor.
  - split; intros Hs; inversion Hs as [|e' r' Hr Hall]; subst; constructor.
    + apply IH. exact Hr.
    + apply Forall_map. exact Hall.
    + apply IH. exact Hr.
    + exact (proj1 (Forall_map fst (blt (fst e)) r) Hall).
Qed.

Lemma good_name_wf n : good_name n -> wf_text n.
Proof. intros (Hu & _ & Hb). split; [exact Hu|exact Hb]. Qed.

(* dec_manifest validates key = path and the entry names *)
Lemma dec_manifest_keys b m :
  dec_manifest b = Some m ->
  Forall (fun kv => a_path (snd kv) = fst kv /\ valid_entry_name (fst kv) = true) (m_contents m).
Proof.
  unfold dec_manifest. destruct (parse_json b) as [v|]; [|discriminate].
  unfold dec_manifest_v. destruct v as [| | | | |kv]; try discriminate.
  match goal with |- match ?X with _ => _ end = _ -> _ => destruct X as [m0|]; [|discriminate] end.
  match goal with |- (if ?X then _ else _) = _ -> _ => destruct X eqn:Ef; [|discriminate] end.
  intros Hm. injection Hm as <-. apply Forall_forall. intros kv0 Hin.
  rewrite forallb_forall in Ef. specialize (Ef _ Hin). apply andb_true_iff in Ef as [E1 E2].
  apply beqb_eq in E1. split; assumption.
Qed.

Lemma alookup_In {A} k (l : list (bytes * A)) v : alookup k l = Some v -> In (k, v) l.
Proof.
  induction l as [|[k' v'] r IH]; cbn [alookup]; [discriminate|].
  destruct (beqb k k') eqn:E.
  - apply beqb_eq in E. subst k'. intros Hv. injection Hv as ->. left. reflexivity.
  - intros Hv. right. exact (IH Hv).
Qed.

(* what is known of the old manifest a directory commit starts from *)
Definition old_ok (old : list (bytes * artifact)) : Prop :=
  Forall (fun kv => a_path (snd kv) = fst kv /\ plain_child (snd kv)) old.

Lemma old_contents_ok a c old : man_plain c -> old_contents a c = Ok old -> old_ok old.
Proof.
  intros Hmp. unfold old_contents. destruct (has_cs (a_cs a)).
  - destruct (cget c (a_cs a)) as [o|] eqn:Eg.
    + destruct (dec_manifest (o_data o)) as [m|] eqn:Ed; [|discriminate].
      intros Hok. injection Hok as <-. unfold old_ok.
      pose proof (dec_manifest_keys _ _ Ed) as Hk. pose proof (Hmp _ _ _ Eg Ed) as Hp.
      rewrite Forall_forall in *. intros kv Hin. split; [exact (proj1 (Hk _ Hin))|exact (Hp _ Hin)].
    + intros Hok. injection Hok as <-. constructor.
  - intros Hok. injection Hok as <-. constructor.
Qed.

Lemma child_of_props old name ch :
  old_ok old ->
  a_path (child_of old name ch) = name /\ plain_child (child_of old name ch) /\
  a_isdir (child_of old name ch) = is_dir ch.
Proof.
  intros Hold. unfold child_of.
  assert (Hf : a_path (fresh_art name (is_dir ch)) = name /\ plain_child (fresh_art name (is_dir ch)) /\
               a_isdir (fresh_art name (is_dir ch)) = is_dir ch)
    by (repeat split; reflexivity).
  destruct (alookup name old) as [oa|] eqn:El; [|exact Hf].
  destruct (Bool.eqb (a_isdir oa) (is_dir ch)) eqn:Ek; [|exact Hf].
  apply alookup_In in El. unfold old_ok in Hold. rewrite Forall_forall in Hold.
  destruct (Hold _ El) as [Hp Hpl]. cbn [fst snd] in *.
  split; [exact Hp|]. split; [exact Hpl|]. apply eqb_prop. exact Ek.
Qed.

Definition ent_ok (kv : bytes * artifact) : Prop :=
  a_path (snd kv) = fst kv /\ valid_entry_name (fst kv) = true /\
  wf_text (fst kv) /\ wf_text (a_cs (snd kv)) /\ plain_child (snd kv).

Lemma man_plain_cput c d b :
  man_plain c ->
  (forall m, dec_manifest b = Some m -> Forall (fun kv => plain_child (snd kv)) (m_contents m)) ->
  man_plain (cput c d b).
Proof.
  intros Hmp Hb d' o m. rewrite cget_cput. destruct (beqb d' d).
  - intros Ho. injection Ho as <-. cbn [o_data]. apply Hb.
  - apply Hmp.
Qed.

Definition art_present (c : cache) (a : artifact) : Prop :=
  a_isdir a = true -> exists o m, cget c (a_cs a) = Some o /\ dec_manifest (o_data o) = Some m.

(* the development below is generic in what is known of the flags of recorded children
   ([Q]; cache invariant [MP]; condition [B] on file contents): it is instantiated with
   (plain_child, man_plain, blob_tame) and, for idempotence, with the trivial predicates *)
Definition old_okQ (Q : artifact -> Prop) (old : list (bytes * artifact)) : Prop :=
  Forall (fun kv => a_path (snd kv) = fst kv /\ Q (snd kv)) old.
Definition ent_okQ (Q : artifact -> Prop) (kv : bytes * artifact) : Prop :=
  a_path (snd kv) = fst kv /\ valid_entry_name (fst kv) = true /\
  wf_text (fst kv) /\ wf_text (a_cs (snd kv)) /\ Q (snd kv).
Definition wfQ (Q : artifact -> Prop) (m : manifest) : Prop :=
  wf_text (m_path m) /\ StronglySorted man_key_lt (m_contents m) /\
  Forall (ent_okQ Q) (m_contents m).

Lemma child_of_propsQ (Q : artifact -> Prop) old name ch :
  (forall nm d, Q (fresh_art nm d)) -> old_okQ Q old ->
  a_path (child_of old name ch) = name /\ Q (child_of old name ch) /\
  a_isdir (child_of old name ch) = is_dir ch.
Proof.
  intros Qf Hold. unfold child_of.
  assert (Hf : a_path (fresh_art name (is_dir ch)) = name /\ Q (fresh_art name (is_dir ch)) /\
               a_isdir (fresh_art name (is_dir ch)) = is_dir ch)
    by (split; [reflexivity|split; [apply Qf|reflexivity]]).
  destruct (alookup name old) as [oa|] eqn:El; [|exact Hf].
  destruct (Bool.eqb (a_isdir oa) (is_dir ch)) eqn:Ek; [|exact Hf].
  apply alookup_In in El. unfold old_okQ in Hold. rewrite Forall_forall in Hold.
  destruct (Hold _ El) as [Hp Hpl]. cbn [fst snd] in *.
  split; [exact Hp|]. split; [exact Hpl|]. apply eqb_prop. exact Ek.
Qed.

Lemma bltb_total a : forall b, beqb a b = false -> bltb a b = false -> bltb b a = true.
Proof.
  induction a as [|x a IH]; intros [|y b] Hne Hnl; cbn [bltb beqb] in *;
    try reflexivity; try discriminate.
  destruct (x <? y) eqn:Exy; [discriminate|].
  destruct (y <? x) eqn:Eyx; [reflexivity|].
  replace (x =? y) with true in Hne by lia. cbn [andb] in Hne.
  exact (IH _ Hne Hnl).
Qed.

Definition kv_lt {A} (a b : bytes * A) : Prop := bltb (fst a) (fst b) = true.

Lemma in_ins_sorted {A} k (v : A) l x : In x (ins_sorted k v l) -> x = (k, v) \/ In x l.
Proof.
  induction l as [|[k' v'] r IH]; cbn [ins_sorted].
  - intros [<-|[]]. left. reflexivity.
  - destruct (beqb k k').
    + intros [<-|Hin]; [left; reflexivity|right; right; exact Hin].
    + destruct (bltb k k').
      * intros [<-|Hin]; [left; reflexivity|right; exact Hin].
      * intros [<-|Hin]; [right; left; reflexivity|].
        destruct (IH Hin) as [->|Hin']; [left; reflexivity|right; right; exact Hin'].
Qed.

Lemma ins_sorted_sorted {A} k (v : A) l :
  StronglySorted kv_lt l -> StronglySorted kv_lt (ins_sorted k v l).
Proof.
  induction l as [|[k' v'] r IH]; intros Hs; cbn [ins_sorted].
  - constructor; constructor.
  - inversion Hs as [|e0 r0 Hr Hall]; subst. destruct (beqb k k') eqn:E1.
    + apply beqb_eq in E1. subst k'. constructor; [exact Hr|exact Hall].
    + destruct (bltb k k') eqn:E2.
      * constructor; [exact Hs|]. constructor; [exact E2|].
        eapply Forall_impl; [|exact Hall]. intros e He. unfold kv_lt in *. cbn [fst] in *.
        exact (bltb_trans _ _ _ E2 He).
      * constructor; [exact (IH Hr)|]. apply Forall_forall. intros x Hin.
        apply in_ins_sorted in Hin as [->|Hin].
        -- unfold kv_lt. cbn [fst]. apply bltb_total; [exact E1|exact E2].
        -- rewrite Forall_forall in Hall. exact (Hall _ Hin).
Qed.

(* re-inserting a binding that is already there leaves a sorted list unchanged *)
Lemma ins_sorted_id {A} k (v : A) l :
  StronglySorted kv_lt l -> alookup k l = Some v -> ins_sorted k v l = l.
Proof.
  induction l as [|[k' v'] r IH]; intros Hs Hl; cbn [ins_sorted alookup] in *; [discriminate|].
  inversion Hs as [|e0 r0 Hr Hall]; subst. destruct (beqb k k') eqn:E1.
  - apply beqb_eq in E1. injection Hl as <-. subst k'. reflexivity.
  - destruct (bltb k k') eqn:E2.
    + exfalso. apply alookup_In in Hl. rewrite Forall_forall in Hall. specialize (Hall _ Hl).
      unfold kv_lt in Hall. cbn [fst] in Hall. rewrite (bltb_asym _ _ Hall) in E2. discriminate.
    + rewrite (IH Hr Hl). reflexivity.
Qed.

Lemma alookup_sorted_In {A} (l : list (bytes * A)) k v :
  StronglySorted kv_lt l -> In (k, v) l -> alookup k l = Some v.
Proof.
  induction l as [|[k' v'] r IH]; intros Hs Hin; [destruct Hin|].
  inversion Hs as [|e0 r0 Hr Hall]; subst. cbn [alookup]. destruct Hin as [E|Hin].
  - injection E as -> ->. rewrite beqb_refl. reflexivity.
  - rewrite Forall_forall in Hall. pose proof (Hall _ Hin) as Hlt. unfold kv_lt in Hlt. cbn [fst] in Hlt.
    rewrite beqb_sym, (bltb_neq _ _ Hlt). exact (IH Hr Hin).
Qed.

Section Generic.
  Variable H : bytes -> bytes.
  Variable Q : artifact -> Prop.
  Variable MP : cache -> Prop.
  Variable B : bytes -> Prop.
  Hypothesis Hinj : H_inj H.
  Hypothesis Hhas : H_has H.
  Hypothesis Htext : H_text H.
  Hypothesis Q_fresh : forall nm d, Q (fresh_art nm d).
  Hypothesis Q_cs : forall a d, Q a -> Q (set_cs a d).
  Hypothesis MP_old : forall a c old, MP c -> old_contents a c = Ok old -> old_okQ Q old.
  Hypothesis MP_cput : forall c d b, MP c ->
    (forall m, dec_manifest b = Some m -> Forall (fun kv => Q (snd kv)) (m_contents m)) -> MP (cput c d b).
  Hypothesis B_dec : forall b, B b ->
    forall m, dec_manifest b = Some m -> Forall (fun kv => Q (snd kv)) (m_contents m).
  Hypothesis G_codec : forall m, wfQ Q m -> dec_manifest (enc_manifest m) = Some m.

  Definition gPA (n : node) : Prop :=
    forall a c st n' c' a',
      gtree B c n -> wf_text (a_path a) -> cache_ok H c -> MP c ->
      commit_node H a n c st = Ok (n', c', a') ->
      MP c' /\ gtree B c' n' /\ wf_text (a_cs a') /\ art_present c' a'.

  Definition gentries_A (es : list (bytes * node)) : Prop :=
    forall nr old st c es' c1 m,
      StronglySorted key_lt es ->
      Forall (fun e => good_name (fst e) /\ gtree B c (snd e)) es ->
      old_okQ Q old -> cache_ok H c -> MP c ->
      commit_entries (commit_node H) nr old st es c = Ok (es', c1, m) ->
      MP c1 /\
      Forall (fun e => good_name (fst e) /\ gtree B c1 (snd e)) es' /\
      map fst es' = map fst es /\
      Forall (ent_okQ Q) m /\
      StronglySorted man_key_lt m /\
      Forall (fun kv => In (fst kv) (map fst es)) m.

  Lemma gA_entries es : Forall (fun e => gPA (snd e)) es -> gentries_A es.
  Proof.
    intros IH. unfold gentries_A.
    induction IH as [|[name ch] r IHch _ IHr]; intros nr old st c es' c1 m Hs Hes Hold Hc Hmp He.
    - apply commit_entries_nil in He. injection He as -> -> ->.
      repeat split; try constructor. exact Hmp.
    - inversion Hs as [|e0 r0 Hsr Hlt]; subst.
      inversion Hes as [|e0 r0 [Hgn Hch0] Hr0]; subst. cbn [fst snd] in *.
      apply commit_entries_cons in He
        as [(_ & es1 & Hr & ->)|(_ & _ & ch' & c0 & child' & es1 & m1 & Hch & Hr & -> & ->)].
      + pose proof (commit_entries_cache_ok H _ Hinj _ _ _ _ _ _ _ Hc Hr) as [_ Hle].
        destruct (IHr _ _ _ _ _ _ _ Hsr Hr0 Hold Hc Hmp Hr) as (M1 & T1 & K1 & E1 & S1 & I1).
        split; [exact M1|]. split.
        { constructor; [split; [exact Hgn|exact (ctree_le _ _ _ Hle Hch0)]|exact T1]. }
        split; [cbn [map fst]; rewrite K1; reflexivity|].
        split; [exact E1|]. split; [exact S1|].
        eapply Forall_impl; [|exact I1]. intros kv Hin. right. exact Hin.
      + destruct (child_of_propsQ Q old name ch Q_fresh Hold) as (Hcp & Hcpl & Hcd).
        assert (Hwfp : wf_text (a_path (child_of old name ch)))
          by (rewrite Hcp; exact (good_name_wf _ Hgn)).
        destruct (IHch _ _ _ _ _ _ Hch0 Hwfp Hc Hmp Hch) as (M0 & T0 & W0 & _).
        destruct (commit_cache_ok H Hinj _ _ _ _ _ _ _ Hc Hch) as [Hc0 Hle0].
        pose proof (commit_entries_cache_ok H _ Hinj _ _ _ _ _ _ _ Hc0 Hr) as [_ Hle1].
        destruct (IHr _ _ _ _ _ _ _ Hsr (Forall_ctree_le _ _ _ Hle0 Hr0) Hold Hc0 M0 Hr)
          as (M1 & T1 & K1 & E1 & S1 & I1).
        destruct (commit_node_flags H _ _ _ _ _ _ _ Hch) as (Fp & Fd & Fn & Fs).
        split; [exact M1|]. split.
        { constructor; [split; [exact Hgn|exact (ctree_le _ _ _ Hle1 T0)]|exact T1]. }
        split; [cbn [map fst]; rewrite K1; reflexivity|].
        assert (Hpath : a_path child' = name) by congruence.
        split.
        { constructor; [|exact E1]. unfold ent_okQ. cbn [fst snd]. rewrite Hpath.
          split; [reflexivity|]. split; [exact (proj1 (proj2 Hgn))|].
          split; [exact (good_name_wf _ Hgn)|]. split; [exact W0|].
          destruct (commit_node_art H _ _ _ _ _ _ _ Hch) as [E|[d0 E]]; rewrite E;
            [exact Hcpl|exact (Q_cs _ _ Hcpl)]. }
        split.
        { constructor; [exact S1|]. apply Forall_forall. intros kv Hin.
          rewrite Forall_forall in I1. specialize (I1 _ Hin). apply in_map_iff in I1 as (e & Ee & Hine).
          rewrite Forall_forall in Hlt. specialize (Hlt _ Hine).
          unfold man_key_lt, key_lt in *. cbn [fst] in *. rewrite Hpath, <- Ee. exact Hlt. }
        constructor; [left; cbn [fst]; symmetry; exact Hpath|].
        eapply Forall_impl; [|exact I1]. intros kv Hin. right. exact Hin.
  Qed.

  Lemma gwf_written p m :
    wf_text p -> Forall (ent_okQ Q) m -> StronglySorted man_key_lt m -> wfQ Q (mkMan p m).
  Proof.
    intros Hp He Hs. unfold wfQ. cbn [m_path m_contents].
    split; [exact Hp|]. split; [exact Hs|exact He].
  Qed.

  Lemma gcommit_A n : gPA n.
  Proof.
    induction n as [b|d|t| |es IH] using node_ind2; intros a c st n' c' a' Ht Hwp Hc Hmp Hok.
    1-4: rewrite commit_node_leaf in Hok by reflexivity;
         destruct (a_isdir a) eqn:Eisd; [discriminate|];
         assert (Hap : forall a0, a_isdir a0 = false -> forall c0, art_present c0 a0)
           by (intros a0 E0 c0 E1; congruence);
         apply commit_file_inv in Hok
           as [(Hq & -> & -> & ->)|[(_ & b' & Eb & -> & [(_ & -> & ->)|(_ & -> & ->)])
                                   |(d' & o' & Ed & Hg' & -> & -> & ->)]];
         try discriminate; try (inversion Ht; fail).
    - (* File, qmatch: impossible *) apply qmatch_inv in Hq as (_ & Hn & _). discriminate.
    - (* File, skip *)
      repeat split; try assumption; try apply (proj1 (Htext _)); try apply (proj2 (Htext _)).
      apply Hap. exact Eisd.
    - (* File, stored *)
      injection Eb as <-. inversion Ht as [b0 Htame| |]; subst.
      split.
      { apply MP_cput; [exact Hmp|]. exact (B_dec _ Htame). }
      split.
      { destruct st.
        - apply (ct_link _ _ (mkObj b cache_perms)). rewrite cget_cput, beqb_refl. reflexivity.
        - constructor. exact Htame. }
      split; [exact (Htext _)|]. apply Hap. exact Eisd.
    - (* LinkC, qmatch *)
      apply qmatch_inv in Hq as (_ & _ & o & Hg).
      split; [exact Hmp|]. split; [exact Ht|]. split; [|apply Hap; exact Eisd].
      destruct (Hc _ _ Hg) as [-> _]. exact (Htext _).
    - (* LinkC, adopted *)
      injection Ed as <-.
      split; [exact Hmp|]. split; [exact Ht|]. split; [|apply Hap; exact Eisd].
      cbn [set_cs a_cs]. destruct (Hc _ _ Hg') as [-> _]. exact (Htext _).
    - (* Dir *)
      apply commit_dir_inv in Hok as (Eisd & old & es' & c1 & m & Hold & He & -> & -> & ->).
      inversion Ht as [| |es0 Hs Hes]; subst.
      pose proof (MP_old _ _ _ Hmp Hold) as Hoo.
      destruct (gA_entries es IH _ _ _ _ _ _ _ Hs Hes Hoo Hc Hmp He) as (M1 & T1 & K1 & E1 & S1 & _).
      pose proof (commit_entries_cache_ok H _ Hinj _ _ _ _ _ _ _ Hc He) as [Hc1 _].
      set (M := mkMan (a_path a) m).
      assert (Hdec : dec_manifest (enc_manifest M) = Some M)
        by (apply G_codec; apply gwf_written; assumption).
      assert (Hle : cache_le c1 (cput c1 (H (enc_manifest M)) (enc_manifest M)))
        by (apply cput_le; assumption).
      split.
      { apply MP_cput; [exact M1|]. intros m0 Hm0. rewrite Hdec in Hm0. injection Hm0 as <-.
        cbn [m_contents M]. eapply Forall_impl; [|exact E1]. intros kv Hk. exact (proj2 (proj2 (proj2 (proj2 Hk)))). }
      split.
      { constructor.
        - apply sorted_keys. rewrite K1. apply sorted_keys. exact Hs.
        - exact (Forall_ctree_le _ _ _ Hle T1). }
      split; [exact (Htext _)|].
      intros _. exists (mkObj (enc_manifest M) cache_perms), M. cbn [set_cs a_cs o_data].
      split; [rewrite cget_cput, beqb_refl; reflexivity|exact Hdec].
  Qed.

  Lemma gA_entries' es : gentries_A es.
  Proof. apply gA_entries. apply Forall_forall. intros e _. apply gcommit_A. Qed.


  (* any property of caches that [cput] preserves is preserved by commit *)
  Lemma commit_cache_pres (R : cache -> Prop) :
    (forall c d b, R c -> R (cput c d b)) ->
    forall n a c st n' c' a', R c -> commit_node H a n c st = Ok (n', c', a') -> R c'.
  Proof.
    intros HR n.
    induction n as [b|d|t| |es IH] using node_ind2; intros a c st n' c' a' Hc Hok.
    1-4: rewrite commit_node_leaf in Hok by reflexivity;
         (destruct (a_isdir a); [discriminate|]);
         apply commit_file_inv in Hok
           as [(_ & _ & -> & _)|[(_ & b' & _ & _ & [(_ & _ & ->)|(_ & -> & _)])
                               |(d' & o' & _ & _ & _ & -> & _)]];
         try exact Hc; apply HR; exact Hc.
    apply commit_dir_inv in Hok as (_ & old & es' & c1 & m & _ & He & _ & -> & _).
    apply HR. clear a'. revert c es' c1 m Hc He.
    induction IH as [|[name ch] r IHch _ IHr]; intros c es' c1 m Hc He.
    - apply commit_entries_nil in He. injection He as _ <- _. exact Hc.
    - apply commit_entries_cons in He
        as [(_ & es1 & Hr & _)|(_ & _ & ch' & c0 & child' & es1 & m1 & Hch & Hr & _ & _)].
      + exact (IHr _ _ _ _ Hc Hr).
      + exact (IHr _ _ _ _ (IHch _ _ _ _ _ _ Hc Hch) Hr).
  Qed.

  Lemma commit_sorted n a c st n' c' a' :
    cache_sorted c -> commit_node H a n c st = Ok (n', c', a') -> cache_sorted c'.
  Proof.
    apply (commit_cache_pres cache_sorted). intros c0 d b Hs. unfold cput.
    exact (ins_sorted_sorted d (mkObj b cache_perms) c0 Hs).
  Qed.

  Lemma commit_node_isdir a n c st n' c' a' :
    commit_node H a n c st = Ok (n', c', a') -> is_dir n' = is_dir n.
  Proof.
    destruct (is_dir n) eqn:Ed.
    - destruct n as [| | |es|]; try discriminate. intros Hok.
      apply commit_dir_inv in Hok as (_ & old & es' & c1 & m & _ & _ & -> & _). reflexivity.
    - rewrite (commit_node_leaf _ _ _ _ _ Ed). destruct (a_isdir a); [discriminate|].
      intros Hok.
      apply commit_file_inv in Hok
        as [(_ & -> & _)|[(_ & b & -> & _ & [(_ & -> & _)|(_ & _ & ->)])|(d & o & _ & _ & -> & _)]];
        try exact Ed; try reflexivity. destruct st; reflexivity.
  Qed.

  (* storing again an object that is there *)
  Lemma cput_id c b o :
    cache_ok H c -> cache_sorted c -> cget c (H b) = Some o -> o_data o = b -> cput c (H b) b = c.
  Proof.
    intros Hc Hs Hg Hd. unfold cput. apply ins_sorted_id; [exact Hs|].
    destruct (Hc _ _ Hg) as [_ Hm]. destruct o as [d0 m0]. cbn [o_data o_mode] in *. subst. exact Hg.
  Qed.

  Definition gPI (n : node) : Prop :=
    forall a c st n' c' a',
      gtree B c n -> wf_text (a_path a) -> cache_ok H c -> MP c ->
      commit_node H a n c st = Ok (n', c', a') ->
      forall c2, cache_le c' c2 -> cache_ok H c2 -> cache_sorted c2 ->
                 commit_node H a' n' c2 st = Ok (n', c2, a').

  Lemma gI_entries es :
    Forall (fun e => gPI (snd e)) es ->
    forall nr old st c es' c1 m,
      StronglySorted key_lt es ->
      Forall (fun e => good_name (fst e) /\ gtree B c (snd e)) es ->
      old_okQ Q old -> cache_ok H c -> MP c ->
      commit_entries (commit_node H) nr old st es c = Ok (es', c1, m) ->
      forall c2 old2, cache_le c1 c2 -> cache_ok H c2 -> cache_sorted c2 ->
        (forall kv, In kv m -> alookup (fst kv) old2 = Some (snd kv)) ->
        commit_entries (commit_node H) nr old2 st es' c2 = Ok (es', c2, m).
  Proof.
    intros IH.
    induction IH as [|[name ch] r IHch _ IHr];
      intros nr old st c es' c1 m Hs Hes Hold Hc Hmp He c2 old2 Hle2 Hc2 Hs2 Hlk.
    - apply commit_entries_nil in He. injection He as -> _ ->. reflexivity.
    - inversion Hs as [|e0 r0 Hsr Hlt]; subst.
      inversion Hes as [|e0 r0 [Hgn Hch0] Hr0]; subst. cbn [fst snd] in *.
      apply commit_entries_cons in He
        as [(Esk & es1 & Hr & ->)|(Esk & _ & ch' & c0 & child' & es1 & m1 & Hch & Hr & -> & ->)].
      + cbn [commit_entries]. rewrite Esk.
        rewrite (IHr _ _ _ _ _ _ _ Hsr Hr0 Hold Hc Hmp Hr c2 old2 Hle2 Hc2 Hs2 Hlk). reflexivity.
      + destruct (child_of_propsQ Q old name ch Q_fresh Hold) as (Hcp & _ & Hcd).
        assert (Hwfp : wf_text (a_path (child_of old name ch)))
          by (rewrite Hcp; exact (good_name_wf _ Hgn)).
        destruct (gcommit_A _ _ _ _ _ _ _ Hch0 Hwfp Hc Hmp Hch) as (M0 & _).
        destruct (commit_cache_ok H Hinj _ _ _ _ _ _ _ Hc Hch) as [Hc0 Hle0].
        pose proof (commit_entries_cache_ok H _ Hinj _ _ _ _ _ _ _ Hc0 Hr) as [_ Hle1].
        destruct (commit_node_flags H _ _ _ _ _ _ _ Hch) as (Fp & Fd & _ & _).
        pose proof (commit_node_isdir _ _ _ _ _ _ _ Hch) as Eid.
        cbn [commit_entries]. rewrite Eid, Esk, (proj1 Hgn). cbn [negb].
        assert (Ech : child_of old2 name ch' = child').
        { assert (Hpath : a_path child' = name) by congruence.
          pose proof (Hlk (a_path child', child') (or_introl eq_refl)) as Hl.
          cbn [fst snd] in Hl. rewrite Hpath in Hl.
          unfold child_of. rewrite Hl, Fd, Hcd, Eid, eqb_reflx. reflexivity. }
        rewrite Ech.
        rewrite (IHch _ _ _ _ _ _ Hch0 Hwfp Hc Hmp Hch c2 (cache_le_trans _ _ _ Hle1 Hle2) Hc2 Hs2).
        rewrite (IHr _ _ _ _ _ _ _ Hsr (Forall_ctree_le _ _ _ Hle0 Hr0) Hold Hc0 M0 Hr c2 old2 Hle2 Hc2 Hs2).
        * reflexivity.
        * intros kv Hin. apply Hlk. right. exact Hin.
  Qed.

  Lemma gcommit_I n : gPI n.
  Proof.
    induction n as [b|d|t| |es IH] using node_ind2;
      intros a c st n' c' a' Ht Hwp Hc Hmp Hok c2 Hle2 Hc2 Hs2.
    1-4: rewrite commit_node_leaf in Hok by reflexivity;
         destruct (a_isdir a) eqn:Eisd; [discriminate|];
         apply commit_file_inv in Hok
           as [(Hq & -> & -> & ->)|[(_ & b' & Eb & -> & [(Esk & -> & ->)|(Esk & -> & ->)])
                                   |(d' & o' & Ed & Hg' & -> & -> & ->)]];
         try discriminate; try (inversion Ht; fail).
    - apply qmatch_inv in Hq as (_ & Hn & _). discriminate.
    - (* File, skip *)
      injection Eb as <-. rewrite commit_node_leaf by reflexivity. cbn [set_cs a_isdir]. rewrite Eisd.
      unfold commit_file. unfold qmatch at 1. rewrite andb_false_r. cbn [set_cs a_skip]. rewrite Esk.
      reflexivity.
    - (* File, stored *)
      injection Eb as <-.
      assert (Hg2 : exists o2, cget c2 (H b) = Some o2 /\ o_data o2 = b).
      { destruct (Hle2 (H b) (mkObj b cache_perms)) as (o2 & Hg2 & E2).
        - rewrite cget_cput, beqb_refl. reflexivity.
        - exists o2. split; [exact Hg2|exact E2]. }
      destruct Hg2 as (o2 & Hg2 & E2).
      rewrite commit_node_leaf by (destruct st; reflexivity). cbn [set_cs a_isdir]. rewrite Eisd.
      unfold commit_file. destruct st.
      + unfold qmatch, in_cache. cbn [set_cs a_cs]. rewrite (Hhas b), Hg2, beqb_refl. reflexivity.
      + unfold qmatch at 1. rewrite andb_false_r. cbn [set_cs a_skip a_cs]. rewrite Esk.
        rewrite (cput_id _ _ _ Hc2 Hs2 Hg2 E2). reflexivity.
    - (* LinkC, qmatch *)
      apply qmatch_inv in Hq as (Hh & Hn & o & Hg). injection Hn as ->.
      destruct (Hle2 _ _ Hg) as (o2 & Hg2 & _).
      rewrite commit_node_leaf by reflexivity. rewrite Eisd. unfold commit_file.
      unfold qmatch, in_cache. rewrite Hh, Hg2, beqb_refl. reflexivity.
    - (* LinkC, adopted *)
      injection Ed as <-. destruct (Hle2 _ _ Hg') as (o2 & Hg2 & _).
      rewrite commit_node_leaf by reflexivity. cbn [set_cs a_isdir]. rewrite Eisd. unfold commit_file.
      unfold qmatch, in_cache. cbn [set_cs a_cs]. rewrite Hg2, beqb_refl.
      destruct (Hc _ _ Hg') as [-> _]. rewrite (Hhas _). reflexivity.
    - (* Dir *)
      apply commit_dir_inv in Hok as (Eisd & old & es' & c1 & m & Hold & He & -> & -> & ->).
      inversion Ht as [| |es0 Hs Hes]; subst.
      pose proof (MP_old _ _ _ Hmp Hold) as Hoo.
      destruct (gA_entries' es _ _ _ _ _ _ _ Hs Hes Hoo Hc Hmp He)
        as (M1 & T1 & K1 & E1 & S1 & _).
      pose proof (commit_entries_cache_ok H _ Hinj _ _ _ _ _ _ _ Hc He) as [Hc1 _].
      set (M := mkMan (a_path a) m) in *.
      assert (Hdec : dec_manifest (enc_manifest M) = Some M)
        by (apply G_codec; apply gwf_written; assumption).
      assert (Hle1 : cache_le c1 (cput c1 (H (enc_manifest M)) (enc_manifest M)))
        by (apply cput_le; assumption).
      destruct (Hle2 (H (enc_manifest M)) (mkObj (enc_manifest M) cache_perms)) as (o2 & Hg2 & E2);
        [rewrite cget_cput, beqb_refl; reflexivity|]. cbn [o_data] in E2.
      rewrite commit_node_dir. cbn [set_cs a_isdir a_norec a_path a_cs]. rewrite Eisd.
      unfold old_contents. cbn [a_cs set_cs]. rewrite (Hhas _), Hg2, E2, Hdec. cbn [m_contents M].
      rewrite (gI_entries es IH _ _ _ _ _ _ _ Hs Hes Hoo Hc Hmp He c2 m
                         (cache_le_trans _ _ _ Hle1 Hle2) Hc2 Hs2).
      + cbv zeta. fold M. rewrite (cput_id _ _ _ Hc2 Hs2 Hg2 E2). reflexivity.
      + intros [k v] Hin. cbn [fst snd]. apply alookup_sorted_In; [exact S1|exact Hin].
  Qed.


  Theorem gcommit_idem :
    forall a n c st n' c' a',
      gtree B c n -> wf_text (a_path a) -> cache_ok H c -> MP c -> cache_sorted c ->
      commit_node H a n c st = Ok (n', c', a') ->
      commit_node H a' n' c' st = Ok (n', c', a').
  Proof.
    intros a n c st n' c' a' Ht Hwp Hc Hmp Hs Hok.
    apply (gcommit_I n _ _ _ _ _ _ Ht Hwp Hc Hmp Hok c' (cache_le_refl c')).
    - exact (proj1 (commit_cache_ok H Hinj _ _ _ _ _ _ _ Hc Hok)).
    - exact (commit_sorted _ _ _ _ _ _ _ Hs Hok).
  Qed.
End Generic.

Section WellFormed.
  Variable H : bytes -> bytes.
  Hypothesis Hinj : H_inj H.
  Hypothesis Htext : H_text H.
  Hypothesis Hcodec : codec_ok.

  Lemma plain_fresh nm d : plain_child (fresh_art nm d).
  Proof. split; reflexivity. Qed.
  Lemma plain_set_cs a d : plain_child a -> plain_child (set_cs a d).
  Proof. intros [H1 H2]. split; assumption. Qed.
  Lemma tame_dec b : blob_tame b ->
    forall m, dec_manifest b = Some m -> Forall (fun kv => plain_child (snd kv)) (m_contents m).
  Proof.
    intros Ht m Hm. specialize (Ht m Hm). eapply Forall_impl; [|exact Ht]. intros kv [Hk _]. exact Hk.
  Qed.
  Lemma codec_plain m : wfQ plain_child m -> dec_manifest (enc_manifest m) = Some m.
  Proof. intros Hw. apply Hcodec. exact Hw. Qed.

  (* cache_ok and man_plain are preserved; the result is again a ctree; the recorded checksum is
     text; a directory artifact's manifest is in the cache and decodes *)
  Definition PA (n : node) : Prop :=
    forall a c st n' c' a',
      ctree c n -> wf_text (a_path a) -> cache_ok H c -> man_plain c ->
      commit_node H a n c st = Ok (n', c', a') ->
      man_plain c' /\ ctree c' n' /\ wf_text (a_cs a') /\ art_present c' a'.

  Definition entries_A (es : list (bytes * node)) : Prop :=
    forall nr old st c es' c1 m,
      StronglySorted key_lt es ->
      Forall (fun e => good_name (fst e) /\ ctree c (snd e)) es ->
      old_ok old -> cache_ok H c -> man_plain c ->
      commit_entries (commit_node H) nr old st es c = Ok (es', c1, m) ->
      man_plain c1 /\
      Forall (fun e => good_name (fst e) /\ ctree c1 (snd e)) es' /\
      map fst es' = map fst es /\
      Forall ent_ok m /\
      StronglySorted man_key_lt m /\
      Forall (fun kv => In (fst kv) (map fst es)) m.

  Lemma commit_A n : PA n.
  Proof.
    exact (gcommit_A H plain_child man_plain blob_tame Hinj Htext plain_fresh plain_set_cs
                     old_contents_ok man_plain_cput tame_dec codec_plain n).
  Qed.

  Lemma A_entries' es : entries_A es.
  Proof.
    exact (gA_entries' H plain_child man_plain blob_tame Hinj Htext plain_fresh plain_set_cs
                       old_contents_ok man_plain_cput tame_dec codec_plain es).
  Qed.

  Lemma wf_written p m :
    wf_text p -> Forall ent_ok m -> StronglySorted man_key_lt m -> wf_manifest (mkMan p m).
  Proof. exact (gwf_written plain_child p m). Qed.
End WellFormed.

(* ------------------------------------------------------------------------------------------ *)
(* C16: the recorded checksum is the Merkle function of path and logical content               *)
(* ------------------------------------------------------------------------------------------ *)

Definition merkle_entries (rec : bytes -> bool -> node -> option bytes) (nr : bool) :=
  fix go (es : list (bytes * node)) : option (list (bytes * artifact)) :=
    match es with
    | [] => Some []
    | (name, ch) :: r =>
      if nr && is_dir ch then go r else
      match rec name false ch, go r with
      | Some d, Some l => Some ((name, mkArt d name (is_dir ch) false false) :: l)
      | _, _ => None
      end
    end.

Lemma merkle_dir H p nr es :
  merkle H p nr (Dir es) =
  match merkle_entries (merkle H) nr es with
  | Some l => Some (H (enc_manifest (mkMan p l)))
  | None => None
  end.
Proof. reflexivity. Qed.

Lemma is_dir_logical c n : is_dir (logical c n) = is_dir n.
Proof. destruct n as [|d| | |]; try reflexivity. cbn [logical]. destruct (cget c d); reflexivity. Qed.

Section Merkle.
  Variable H : bytes -> bytes.
  Hypothesis Hinj : H_inj H.
  Hypothesis Htext : H_text H.
  Hypothesis Hcodec : codec_ok.

  Definition PM (n : node) : Prop :=
    forall a c st n' c' a',
      ctree c n -> wf_text (a_path a) -> cache_ok H c -> man_plain c ->
      commit_node H a n c st = Ok (n', c', a') ->
      merkle H (a_path a) (a_norec a) (logical c n) = Some (a_cs a').

  Lemma M_entries es :
    Forall (fun e => PM (snd e)) es ->
    forall nr old st c es' c1 m c0,
      cache_le c0 c ->
      StronglySorted key_lt es ->
      Forall (fun e => good_name (fst e) /\ ctree c0 (snd e)) es ->
      old_ok old -> cache_ok H c -> man_plain c ->
      commit_entries (commit_node H) nr old st es c = Ok (es', c1, m) ->
      merkle_entries (merkle H) nr (map (fun e => (fst e, logical c0 (snd e))) es) = Some m.
  Proof.
    intros IH.
    induction IH as [|[name ch] r IHch _ IHr]; intros nr old st c es' c1 m c0 Hle0 Hs Hes Hold Hc Hmp He.
    - apply commit_entries_nil in He. injection He as _ _ ->. reflexivity.
    - inversion Hs as [|e0 r0 Hsr Hlt]; subst.
      inversion Hes as [|e0 r0 [Hgn Hch0] Hr0]; subst. cbn [fst snd] in *.
      cbn [map fst snd merkle_entries]. rewrite is_dir_logical.
      apply commit_entries_cons in He
        as [(Esk & es1 & Hr & _)|(Esk & _ & ch' & c2 & child' & es1 & m1 & Hch & Hr & _ & ->)];
        rewrite Esk.
      + exact (IHr _ _ _ _ _ _ _ _ Hle0 Hsr Hr0 Hold Hc Hmp Hr).
      + destruct (child_of_props old name ch Hold) as (Hcp & [Hcn Hcs] & Hcd).
        assert (Hwfp : wf_text (a_path (child_of old name ch)))
          by (rewrite Hcp; exact (good_name_wf _ Hgn)).
        pose proof (ctree_le _ _ _ Hle0 Hch0) as Hchc.
        pose proof (IHch _ _ _ _ _ _ Hchc Hwfp Hc Hmp Hch) as Hm.
        rewrite Hcp, Hcn, (logical_le _ _ _ Hle0 (ctree_resolved _ _ Hch0)) in Hm. rewrite Hm.
        destruct (commit_A H Hinj Htext Hcodec _ _ _ _ _ _ _ Hchc Hwfp Hc Hmp Hch) as (M2 & _).
        destruct (commit_cache_ok H Hinj _ _ _ _ _ _ _ Hc Hch) as [Hc2 Hle2].
        rewrite (IHr _ _ _ _ _ _ _ _ (cache_le_trans _ _ _ Hle0 Hle2) Hsr Hr0 Hold Hc2 M2 Hr).
        destruct (commit_node_flags H _ _ _ _ _ _ _ Hch) as (Fp & Fd & Fn & Fs).
        destruct child' as [cs' p' d' n' s']. cbn [a_cs a_path a_isdir a_norec a_skip] in *.
        f_equal. f_equal. f_equal; congruence.
  Qed.

  Lemma commit_M n : PM n.
  Proof.
    induction n as [b|d|t| |es IH] using node_ind2; intros a c st n' c' a' Ht Hwp Hc Hmp Hok.
    1-4: rewrite commit_node_leaf in Hok by reflexivity;
         destruct (a_isdir a) eqn:Eisd; [discriminate|];
         apply commit_file_inv in Hok
           as [(Hq & -> & -> & ->)|[(_ & b' & Eb & -> & _)|(d' & o' & Ed & Hg' & -> & -> & ->)]];
         try discriminate; try (inversion Ht; fail).
    - apply qmatch_inv in Hq as (_ & Hn & _). discriminate.
    - injection Eb as <-. reflexivity.
    - apply qmatch_inv in Hq as (_ & Hn & o & Hg). injection Hn as ->.
      cbn [logical]. rewrite Hg. cbn [merkle]. destruct (Hc _ _ Hg) as [<- _]. reflexivity.
    - injection Ed as <-. cbn [logical]. rewrite Hg'. cbn [merkle set_cs a_cs].
      destruct (Hc _ _ Hg') as [<- _]. reflexivity.
    - apply commit_dir_inv in Hok as (Eisd & old & es' & c1 & m & Hold & He & -> & -> & ->).
      inversion Ht as [| |es0 Hs Hes]; subst.
      pose proof (old_contents_ok _ _ _ Hmp Hold) as Hoo.
      cbn [logical]. rewrite merkle_dir.
      rewrite (M_entries es IH _ _ _ _ _ _ _ _ (cache_le_refl c) Hs Hes Hoo Hc Hmp He).
      reflexivity.
  Qed.

  (* stmt_commit_merkle is FALSE as written (cex_merkle_link, cex_merkle_blob below).  Repaired:
     the tree is a [ctree] (sorted good names, no dangling link, no file whose bytes are a manifest
     with flagged or directory entries), the path is text, and H_text / codec_ok are assumed so
     that what commit writes decodes to itself.  The premise [a_skip a = false] is not needed. *)
  Theorem commit_merkle_ctree :
    forall a n c st n' c' a',
      cache_ok H c -> man_plain c -> ctree c n -> wf_text (a_path a) ->
      commit_node H a n c st = Ok (n', c', a') ->
      merkle H (a_path a) (a_norec a) (logical c n) = Some (a_cs a').
  Proof. intros a n c st n' c' a' Hc Hmp Ht Hwp Hok. exact (commit_M n _ _ _ _ _ _ Ht Hwp Hc Hmp Hok). Qed.

  Theorem commit_merkle_plain :
    forall a n c st n' c' a',
      cache_ok H c -> man_plain c -> plain n -> tame n -> wf_text (a_path a) ->
      commit_node H a n c st = Ok (n', c', a') ->
      merkle H (a_path a) (a_norec a) n = Some (a_cs a').
  Proof.
    intros a n c st n' c' a' Hc Hmp Hp Htm Hwp Hok.
    rewrite <- (plain_logical c n Hp) at 1.
    exact (commit_M n _ _ _ _ _ _ (plain_tame_ctree c n Hp Htm) Hwp Hc Hmp Hok).
  Qed.
End Merkle.
Print Assumptions commit_merkle_ctree.
Print Assumptions commit_merkle_plain.

(* ------------------------------------------------------------------------------------------ *)
(* C01: the invariants are preserved                                                           *)
(* ------------------------------------------------------------------------------------------ *)

(* no dangling directory reference: a directory child recorded in a manifest of the cache is in
   the cache (commit writes children before parents; objects are never removed) *)
Definition man_present (c : cache) : Prop :=
  forall d o m, cget c d = Some o -> dec_manifest (o_data o) = Some m ->
    Forall (fun kv => a_isdir (snd kv) = true -> has_cs (a_cs (snd kv)) = true ->
                      exists o', cget c (a_cs (snd kv)) = Some o') (m_contents m).

(* present and a manifest *)
Definition in_dec (c : cache) (cs : bytes) : Prop :=
  exists o, cget c cs = Some o /\ dec_manifest (o_data o) <> None.

Lemma in_dec_le c c' cs : cache_le c c' -> in_dec c cs -> in_dec c' cs.
Proof.
  intros Hle (o & Hg & Hd). destruct (Hle _ _ Hg) as (o' & Hg' & E). exists o'.
  split; [exact Hg'|]. rewrite E. exact Hd.
Qed.

Section Closed.
  Variable H : bytes -> bytes.
  Hypothesis Hinj : H_inj H.
  Hypothesis Hhas : H_has H.
  Hypothesis Htext : H_text H.
  Hypothesis Hcodec : codec_ok.

  Lemma closed_cput c b :
    cache_ok H c -> man_closed c -> man_present c ->
    (forall m, dec_manifest b = Some m ->
               Forall (fun kv => a_isdir (snd kv) = true -> in_dec c (a_cs (snd kv))) (m_contents m)) ->
    man_closed (cput c (H b) b) /\ man_present (cput c (H b) b).
  Proof.
    intros Hc Hcl Hpr Hb.
    pose proof (cput_le H c b Hinj Hc) as Hle. split.
    - intros d o m. rewrite cget_cput. destruct (beqb d (H b)) eqn:Ed.
      + intros Ho Hm. injection Ho as <-. cbn [o_data] in Hm. specialize (Hb m Hm).
        eapply Forall_impl; [|exact Hb]. intros kv Hkv Hd o' Hg'.
        destruct (in_dec_le _ _ _ Hle (Hkv Hd)) as (o2 & Hg2 & Hd2). congruence.
      + intros Hg Hm. pose proof (Hcl _ _ _ Hg Hm) as Hc1. pose proof (Hpr _ _ _ Hg Hm) as Hp1.
        rewrite Forall_forall in *. intros kv Hin Hd o'. rewrite cget_cput.
        destruct (beqb (a_cs (snd kv)) (H b)) eqn:Ek.
        * apply beqb_eq in Ek. intros Ho'. injection Ho' as <-. cbn [o_data].
          assert (Hh : has_cs (a_cs (snd kv)) = true) by (rewrite Ek; apply Hhas).
          destruct (Hp1 _ Hin Hd Hh) as (o0 & Hg0).
          pose proof (Hc1 _ Hin Hd _ Hg0) as Hd0.
          destruct (Hc _ _ Hg0) as [E0 _]. rewrite Ek in E0. apply Hinj in E0. rewrite E0. exact Hd0.
        * apply (Hc1 _ Hin Hd).
    - intros d o m. rewrite cget_cput. destruct (beqb d (H b)) eqn:Ed.
      + intros Ho Hm. injection Ho as <-. cbn [o_data] in Hm. specialize (Hb m Hm).
        eapply Forall_impl; [|exact Hb]. intros kv Hkv Hd _.
        destruct (in_dec_le _ _ _ Hle (Hkv Hd)) as (o2 & Hg2 & _). exists o2. exact Hg2.
      + intros Hg Hm. pose proof (Hpr _ _ _ Hg Hm) as Hp1.
        eapply Forall_impl; [|exact Hp1]. intros kv Hkv Hd Hh.
        destruct (Hkv Hd Hh) as (o0 & Hg0). destruct (Hle _ _ Hg0) as (o1 & Hg1 & _).
        exists o1. exact Hg1.
  Qed.

  Definition PB (n : node) : Prop :=
    forall a c st n' c' a',
      ctree c n -> wf_text (a_path a) -> cache_ok H c -> man_plain c ->
      man_closed c -> man_present c ->
      commit_node H a n c st = Ok (n', c', a') ->
      man_closed c' /\ man_present c'.

  Lemma B_entries es :
    Forall (fun e => PB (snd e)) es ->
    forall nr old st c es' c1 m,
      StronglySorted key_lt es ->
      Forall (fun e => good_name (fst e) /\ ctree c (snd e)) es ->
      old_ok old -> cache_ok H c -> man_plain c -> man_closed c -> man_present c ->
      commit_entries (commit_node H) nr old st es c = Ok (es', c1, m) ->
      man_closed c1 /\ man_present c1 /\
      Forall (fun kv => a_isdir (snd kv) = true -> in_dec c1 (a_cs (snd kv))) m.
  Proof.
    intros IH.
    induction IH as [|[name ch] r IHch _ IHr]; intros nr old st c es' c1 m Hs Hes Hold Hc Hmp Hcl Hpr He.
    - apply commit_entries_nil in He. injection He as _ -> ->.
      split; [exact Hcl|]. split; [exact Hpr|constructor].
    - inversion Hs as [|e0 r0 Hsr Hlt]; subst.
      inversion Hes as [|e0 r0 [Hgn Hch0] Hr0]; subst. cbn [fst snd] in *.
      apply commit_entries_cons in He
        as [(_ & es1 & Hr & _)|(_ & _ & ch' & c0 & child' & es1 & m1 & Hch & Hr & _ & ->)].
      + exact (IHr _ _ _ _ _ _ _ Hsr Hr0 Hold Hc Hmp Hcl Hpr Hr).
      + destruct (child_of_props old name ch Hold) as (Hcp & _ & _).
        assert (Hwfp : wf_text (a_path (child_of old name ch)))
          by (rewrite Hcp; exact (good_name_wf _ Hgn)).
        destruct (IHch _ _ _ _ _ _ Hch0 Hwfp Hc Hmp Hcl Hpr Hch) as [Hcl0 Hpr0].
        destruct (commit_A H Hinj Htext Hcodec _ _ _ _ _ _ _ Hch0 Hwfp Hc Hmp Hch) as (M0 & _ & _ & AP).
        destruct (commit_cache_ok H Hinj _ _ _ _ _ _ _ Hc Hch) as [Hc0 Hle0].
        pose proof (commit_entries_cache_ok H _ Hinj _ _ _ _ _ _ _ Hc0 Hr) as [_ Hle1].
        destruct (IHr _ _ _ _ _ _ _ Hsr (Forall_ctree_le _ _ _ Hle0 Hr0) Hold Hc0 M0 Hcl0 Hpr0 Hr)
          as (Hcl1 & Hpr1 & F1).
        split; [exact Hcl1|]. split; [exact Hpr1|]. constructor; [|exact F1].
        cbn [snd]. intros Hd. apply (in_dec_le _ _ _ Hle1).
        destruct (AP Hd) as (o & m0 & Hg & Hm). exists o. split; [exact Hg|]. rewrite Hm. discriminate.
  Qed.

  Lemma commit_B n : PB n.
  Proof.
    induction n as [b|d|t| |es IH] using node_ind2; intros a c st n' c' a' Ht Hwp Hc Hmp Hcl Hpr Hok.
    1-4: rewrite commit_node_leaf in Hok by reflexivity;
         destruct (a_isdir a) eqn:Eisd; [discriminate|];
         apply commit_file_inv in Hok
           as [(_ & _ & -> & _)|[(_ & b' & Eb & _ & [(_ & _ & ->)|(_ & -> & _)])
                               |(d' & o' & _ & _ & _ & -> & _)]];
         try discriminate; try (inversion Ht; fail); try (split; assumption).
    - injection Eb as <-. inversion Ht as [b0 Htame| |]; subst.
      apply closed_cput; try assumption. intros m Hm. specialize (Htame m Hm).
      eapply Forall_impl; [|exact Htame]. intros kv [_ Hk] Hd. congruence.
    - apply commit_dir_inv in Hok as (Eisd & old & es' & c1 & m & Hold & He & -> & -> & ->).
      inversion Ht as [| |es0 Hs Hes]; subst.
      pose proof (old_contents_ok _ _ _ Hmp Hold) as Hoo.
      destruct (B_entries es IH _ _ _ _ _ _ _ Hs Hes Hoo Hc Hmp Hcl Hpr He) as (Hcl1 & Hpr1 & F1).
      destruct (A_entries' H Hinj Htext Hcodec es _ _ _ _ _ _ _ Hs Hes Hoo Hc Hmp He)
        as (M1 & T1 & K1 & E1 & S1 & _).
      pose proof (commit_entries_cache_ok H _ Hinj _ _ _ _ _ _ _ Hc He) as [Hc1 _].
      set (M := mkMan (a_path a) m).
      assert (Hdec : dec_manifest (enc_manifest M) = Some M)
        by (apply Hcodec; apply wf_written; assumption).
      apply closed_cput; try assumption.
      intros m0 Hm0. rewrite Hdec in Hm0. injection Hm0 as <-. exact F1.
  Qed.

  (* stmt_commit_inv is FALSE as written (cex_inv_plain, cex_inv_closed below).  Repaired with
     [tame n] (through ctree) and [man_present c]; man_present is preserved as well. *)
  Theorem commit_inv_ctree :
    forall a n c st n' c' a',
      ctree c n -> wf_text (a_path a) -> cache_inv H c -> man_present c ->
      commit_node H a n c st = Ok (n', c', a') ->
      cache_inv H c' /\ man_present c' /\ art_hist_ok c' a' /\ ctree c' n' /\ cache_le c c'.
  Proof.
    intros a n c st n' c' a' Ht Hwp (Hc & Hmp & Hcl) Hpr Hok.
    destruct (commit_cache_ok H Hinj _ _ _ _ _ _ _ Hc Hok) as [Hc' Hle].
    destruct (commit_A H Hinj Htext Hcodec _ _ _ _ _ _ _ Ht Hwp Hc Hmp Hok) as (M' & T' & _ & AP).
    destruct (commit_B n _ _ _ _ _ _ Ht Hwp Hc Hmp Hcl Hpr Hok) as [Hcl' Hpr'].
    split; [split; [exact Hc'|split; [exact M'|exact Hcl']]|].
    split; [exact Hpr'|]. split; [|split; [exact T'|exact Hle]].
    intros Hd o Hg. destruct (AP Hd) as (o2 & m2 & Hg2 & Hm2). congruence.
  Qed.

  Theorem commit_inv_tame :
    forall a n c st n' c' a',
      plain n -> tame n -> wf_text (a_path a) -> cache_inv H c -> man_present c ->
      commit_node H a n c st = Ok (n', c', a') ->
      cache_inv H c' /\ man_present c' /\ art_hist_ok c' a'.
  Proof.
    intros a n c st n' c' a' Hp Htm Hwp Hinv Hpr Hok.
    destruct (commit_inv_ctree _ _ _ _ _ _ _ (plain_tame_ctree c n Hp Htm) Hwp Hinv Hpr Hok)
      as (H1 & H2 & H3 & _).
    split; [exact H1|]. split; [exact H2|exact H3].
  Qed.
End Closed.
Print Assumptions commit_inv_ctree.
Print Assumptions commit_inv_tame.

(* ------------------------------------------------------------------------------------------ *)
(* C01: commit succeeds                                                                        *)
(* ------------------------------------------------------------------------------------------ *)

Definition old_in_dec (c : cache) (old : list (bytes * artifact)) : Prop :=
  Forall (fun kv => a_isdir (snd kv) = true -> has_cs (a_cs (snd kv)) = true ->
                    in_dec c (a_cs (snd kv))) old.

Lemma old_contents_total a c : art_hist_ok c a -> a_isdir a = true -> exists old, old_contents a c = Ok old.
Proof.
  intros Hh Hd. unfold old_contents. destruct (has_cs (a_cs a)); [|eexists; reflexivity].
  destruct (cget c (a_cs a)) as [o|] eqn:Eg; [|eexists; reflexivity].
  specialize (Hh Hd _ Eg). destruct (dec_manifest (o_data o)); [eexists; reflexivity|congruence].
Qed.

Lemma old_contents_in_dec a c old :
  man_closed c -> man_present c -> old_contents a c = Ok old -> old_in_dec c old.
Proof.
  intros Hcl Hpr. unfold old_contents, old_in_dec. destruct (has_cs (a_cs a)).
  - destruct (cget c (a_cs a)) as [o|] eqn:Eg.
    + destruct (dec_manifest (o_data o)) as [m|] eqn:Ed; [|discriminate].
      intros Hok. injection Hok as <-.
      pose proof (Hcl _ _ _ Eg Ed) as H1. pose proof (Hpr _ _ _ Eg Ed) as H2.
      rewrite Forall_forall in *. intros kv Hin Hd Hh.
      destruct (H2 _ Hin Hd Hh) as (o' & Hg'). exists o'. split; [exact Hg'|].
      exact (H1 _ Hin Hd _ Hg').
    + intros Hok. injection Hok as <-. constructor.
  - intros Hok. injection Hok as <-. constructor.
Qed.

Lemma old_in_dec_le c c' old : cache_le c c' -> old_in_dec c old -> old_in_dec c' old.
Proof.
  intros Hle Ho. unfold old_in_dec in *. eapply Forall_impl; [|exact Ho].
  intros kv Hkv Hd Hh. exact (in_dec_le _ _ _ Hle (Hkv Hd Hh)).
Qed.

Section Succeeds.
  Variable H : bytes -> bytes.
  Hypothesis Hinj : H_inj H.
  Hypothesis Hhas : H_has H.
  Hypothesis Htext : H_text H.
  Hypothesis Hcodec : codec_ok.

  Lemma child_hist c old name ch :
    cache_ok H c -> old_in_dec c old -> art_hist_ok c (child_of old name ch).
  Proof.
    intros Hc Ho Hd o Hg.
    assert (Hh : has_cs (a_cs (child_of old name ch)) = true).
    { destruct (Hc _ _ Hg) as [E _]. rewrite E. apply Hhas. }
    revert Hd o Hg Hh. unfold child_of.
    assert (Hf : a_isdir (fresh_art name (is_dir ch)) = true ->
                 forall o, cget c (a_cs (fresh_art name (is_dir ch))) = Some o ->
                 has_cs (a_cs (fresh_art name (is_dir ch))) = true -> dec_manifest (o_data o) <> None)
      by (intros _ o _ Hh; discriminate Hh).
    destruct (alookup name old) as [oa|] eqn:El; [|exact Hf].
    destruct (Bool.eqb (a_isdir oa) (is_dir ch)); [|exact Hf].
    intros Hd o Hg Hh. apply alookup_In in El. unfold old_in_dec in Ho. rewrite Forall_forall in Ho.
    destruct (Ho _ El Hd Hh) as (o' & Hg' & Hd'). cbn [snd] in *. congruence.
  Qed.

  Definition POK (n : node) : Prop :=
    forall a c st,
      ctree c n -> kind_ok a n -> wf_text (a_path a) -> cache_inv H c -> man_present c ->
      art_hist_ok c a ->
      exists n' c' a', commit_node H a n c st = Ok (n', c', a').

  Lemma OK_entries es :
    Forall (fun e => POK (snd e)) es ->
    forall nr old st c,
      StronglySorted key_lt es ->
      Forall (fun e => good_name (fst e) /\ ctree c (snd e)) es ->
      old_ok old -> old_in_dec c old -> cache_inv H c -> man_present c ->
      exists r, commit_entries (commit_node H) nr old st es c = Ok r.
  Proof.
    intros IH.
    induction IH as [|[name ch] r IHch _ IHr]; intros nr old st c Hs Hes Hold Hod Hinv Hpr.
    - eexists. reflexivity.
    - inversion Hs as [|e0 r0 Hsr Hlt]; subst.
      inversion Hes as [|e0 r0 [Hgn Hch0] Hr0]; subst. cbn [fst snd] in *.
      cbn [commit_entries]. destruct (nr && is_dir ch).
      + destruct (IHr nr old st c Hsr Hr0 Hold Hod Hinv Hpr) as ([[es1 c1] m1] & Hr).
        rewrite Hr. eexists. reflexivity.
      + rewrite (proj1 Hgn). cbn [negb].
        destruct (child_of_props old name ch Hold) as (Hcp & _ & Hcd).
        assert (Hwfp : wf_text (a_path (child_of old name ch)))
          by (rewrite Hcp; exact (good_name_wf _ Hgn)).
        pose proof Hinv as (Hc & Hmp & Hcl).
        destruct (IHch (child_of old name ch) c st Hch0 Hcd Hwfp Hinv Hpr (child_hist _ _ _ _ Hc Hod))
          as (ch' & c0 & child' & Hch).
        rewrite Hch.
        destruct (commit_inv_ctree H Hinj Hhas Htext Hcodec _ _ _ _ _ _ _ Hch0 Hwfp Hinv Hpr Hch)
          as (Hinv0 & Hpr0 & _ & _ & Hle0).
        destruct (IHr nr old st c0 Hsr (Forall_ctree_le _ _ _ Hle0 Hr0) Hold
                      (old_in_dec_le _ _ _ Hle0 Hod) Hinv0 Hpr0) as ([[es1 c1] m1] & Hr).
        rewrite Hr. eexists. reflexivity.
  Qed.

  Lemma commit_OK n : POK n.
  Proof.
    induction n as [b|d|t| |es IH] using node_ind2; intros a c st Ht Hk Hwp Hinv Hpr Hh;
      try (inversion Ht; fail); unfold kind_ok in Hk; cbn [is_dir] in Hk.
    - rewrite commit_node_leaf by reflexivity. rewrite Hk. unfold commit_file.
      destruct (qmatch c (a_cs a) (Some (File b))); [do 3 eexists; reflexivity|].
      destruct (a_skip a); [do 3 eexists; reflexivity|]. destruct st; do 3 eexists; reflexivity.
    - rewrite commit_node_leaf by reflexivity. rewrite Hk. unfold commit_file.
      destruct (qmatch c (a_cs a) (Some (LinkC d))); [do 3 eexists; reflexivity|].
      inversion Ht as [|d' o Hg|]; subst. unfold in_cache. rewrite Hg. do 3 eexists; reflexivity.
    - rewrite commit_node_dir, Hk. destruct (old_contents_total a c Hh Hk) as (old & Hold).
      rewrite Hold. inversion Ht as [| |es0 Hs Hes]; subst.
      pose proof Hinv as (Hc & Hmp & Hcl).
      destruct (OK_entries es IH (a_norec a) old st c Hs Hes (old_contents_ok _ _ _ Hmp Hold)
                           (old_contents_in_dec _ _ _ Hcl Hpr Hold) Hinv Hpr) as ([[es1 c1] m1] & Hr).
      rewrite Hr. cbv zeta. do 3 eexists; reflexivity.
  Qed.

  (* stmt_commit_ok is FALSE as written (cex_ok below).  Repaired with [tame n], [man_present c],
     a text path and the hash/codec premises; [a_skip a = false] is not needed.  Also holds for
     trees with (resolved) cache links. *)
  Theorem commit_ok_ctree :
    forall a n c st, ctree c n -> kind_ok a n -> wf_text (a_path a) ->
      cache_inv H c -> man_present c -> art_hist_ok c a ->
      exists n' c' a', commit_node H a n c st = Ok (n', c', a').
  Proof. intros a n c st. apply commit_OK. Qed.

  Theorem commit_ok_tame :
    forall a n c st, plain n -> tame n -> kind_ok a n -> wf_text (a_path a) ->
      cache_inv H c -> man_present c -> art_hist_ok c a ->
      exists n' c' a', commit_node H a n c st = Ok (n', c', a').
  Proof. intros a n c st Hp Htm. apply commit_OK. exact (plain_tame_ctree c n Hp Htm). Qed.
End Succeeds.
Print Assumptions commit_ok_ctree.
Print Assumptions commit_ok_tame.

(* ------------------------------------------------------------------------------------------ *)
(* C15: committing again changes nothing                                                       *)
(* ------------------------------------------------------------------------------------------ *)

Section Idem.
  Variable H : bytes -> bytes.
  Hypothesis Hinj : H_inj H.
  Hypothesis Hhas : H_has H.
  Hypothesis Htext : H_text H.
  Hypothesis Hcodec : codec_ok.

  (* stmt_commit_idem for trees with cache links, with [tame n] (through ctree); see commit_idem
     at the end of the file for the statement of CacheDefs itself *)
  Theorem commit_idem_ctree :
    forall a n c st n' c' a',
      ctree c n -> wf_text (a_path a) -> cache_ok H c -> man_plain c -> cache_sorted c ->
      commit_node H a n c st = Ok (n', c', a') ->
      commit_node H a' n' c' st = Ok (n', c', a').
  Proof.
    exact (gcommit_idem H plain_child man_plain blob_tame Hinj Hhas Htext plain_fresh plain_set_cs
                        old_contents_ok man_plain_cput tame_dec (codec_plain Hcodec)).
  Qed.

  Theorem commit_idem_tame :
    forall a n c st n' c' a',
      plain n -> tame n -> wf_text (a_path a) -> cache_ok H c -> man_plain c -> cache_sorted c ->
      commit_node H a n c st = Ok (n', c', a') ->
      commit_node H a' n' c' st = Ok (n', c', a').
  Proof.
    intros a n c st n' c' a' Hp Htm. apply commit_idem_ctree. exact (plain_tame_ctree c n Hp Htm).
  Qed.
End Idem.
Print Assumptions commit_idem_ctree.
Print Assumptions commit_idem_tame.

(* ------------------------------------------------------------------------------------------ *)
(* C02 at the level of commands and histories                                                  *)
(* ------------------------------------------------------------------------------------------ *)

(* the input loop of commit_stage with the recursive call abstracted *)
Definition commit_ins (rec : istate -> list bytes -> bytes -> res (istate * list bytes)) :=
  fix ins (arts : list artifact) (st : istate) (done : list bytes)
    : res (list artifact * list artifact * istate * list bytes) :=
    match arts with
    | [] => Ok ([], [], st, done)
    | a :: r =>
      match find_owner (i_idx st) (a_path a) with
      | None =>
        match ins r st done with
        | Ok (owned, plain, st', done') => Ok (owned, a :: plain, st', done')
        | Err => Err
        end
      | Some (op, _) =>
        match rec st done op with
        | Err => Err
        | Ok (st1, done1) =>
          let cs := match find_owner (i_idx st1) (a_path a) with
                    | Some (_, up) => a_cs up | None => a_cs a end in
          match ins r st1 done1 with
          | Ok (owned, plain, st', done') => Ok (set_cs a cs :: owned, plain, st', done')
          | Err => Err
          end
        end
      end
    end.

Section Histories.
  Variable H : bytes -> bytes.
  Hypothesis Hinj : H_inj H.

  (* content-addressed and append-only, relative to a starting cache *)
  Definition grows (c c' : cache) : Prop := cache_ok H c -> cache_ok H c' /\ cache_le c c'.

  Lemma grows_refl c : grows c c.
  Proof. intros Hc. split; [exact Hc|apply cache_le_refl]. Qed.

  Lemma grows_trans c1 c2 c3 : grows c1 c2 -> grows c2 c3 -> grows c1 c3.
  Proof.
    intros G12 G23 Hc. destruct (G12 Hc) as [Hc2 L12]. destruct (G23 Hc2) as [Hc3 L23].
    split; [exact Hc3|exact (cache_le_trans _ _ _ L12 L23)].
  Qed.

  Lemma commit_top_grows a root c st root' c' a' :
    commit_top H a root c st = Ok (root', c', a') -> grows c c'.
  Proof.
    unfold commit_top. destruct (slot_of root (a_path a)) as [slot|]; [|discriminate].
    destruct (commit_art H a slot c st) as [[[slot' c1] a1]|] eqn:Ea; [|discriminate].
    destruct (put root (comps (a_path a)) slot') as [root1|]; [|discriminate].
    intros Hok. injection Hok as _ <- _.
    unfold commit_art in Ea. destruct slot as [n|]; [|discriminate].
    destruct (commit_node H a n c st) as [[[n' c2] a2]|] eqn:En; [|discriminate].
    injection Ea as _ <- _. intros Hc. exact (commit_cache_ok H Hinj _ _ _ _ _ _ _ Hc En).
  Qed.

  Lemma commit_arts_grows arts : forall fs root c st l root' c',
    commit_arts H arts fs root c st = Ok (l, root', c') -> grows c c'.
  Proof.
    induction arts as [|a r IH]; intros fs root c st l root' c'; cbn [commit_arts].
    - intros Hok. injection Hok as _ _ <-. apply grows_refl.
    - match goal with |- match ?X with _ => _ end = _ -> _ => destruct X as [[[root1 c1] a1]|] eqn:Et end;
        [|discriminate].
      destruct (commit_arts H r fs root1 c1 st) as [[[l2 root2] c2]|] eqn:Er; [|discriminate].
      intros Hok. injection Hok as _ _ <-.
      exact (grows_trans _ _ _ (commit_top_grows _ _ _ _ _ _ _ Et) (IH _ _ _ _ _ _ _ Er)).
  Qed.

  Lemma commit_ins_grows rec :
    (forall st done op st' done', rec st done op = Ok (st', done') -> grows (i_cache st) (i_cache st')) ->
    forall arts st done owned plain st' done',
      commit_ins rec arts st done = Ok (owned, plain, st', done') -> grows (i_cache st) (i_cache st').
  Proof.
    intros Hrec arts. induction arts as [|a r IH]; intros st done owned plain st' done'; cbn [commit_ins].
    - intros Hok. injection Hok as _ _ <- _. apply grows_refl.
    - destruct (find_owner (i_idx st) (a_path a)) as [[op up]|].
      + destruct (rec st done op) as [[st1 done1]|] eqn:Er; [|discriminate]. cbv zeta.
        destruct (commit_ins rec r st1 done1) as [[[[ow pl] st2] done2]|] eqn:Ei; [|discriminate].
        intros Hok. injection Hok as _ _ <- _.
        exact (grows_trans _ _ _ (Hrec _ _ _ _ _ Er) (IH _ _ _ _ _ _ Ei)).
      + destruct (commit_ins rec r st done) as [[[[ow pl] st2] done2]|] eqn:Ei; [|discriminate].
        intros Hok. injection Hok as _ _ <- _. exact (IH _ _ _ _ _ _ Ei).
  Qed.

  Lemma commit_stage_unfold f st strat done inprog sp :
    commit_stage H (S f) st strat done inprog sp =
    if mem sp done then Ok (st, done)
    else if mem sp inprog then Err
    else match alookup sp (i_idx st) with
         | None => Err
         | Some stg =>
           match commit_ins (fun st done op => commit_stage H f st strat done (sp :: inprog) op)
                            (s_inputs stg) st done with
           | Err => Err
           | Ok (owned, plain, st1, done1) =>
             match commit_arts H plain true (i_root st1) (i_cache st1) strat with
             | Err => Err
             | Ok (plain', root2, c2) =>
               match commit_arts H (s_outputs stg) false root2 c2 strat with
               | Err => Err
               | Ok (outs', root3, c3) =>
                 let inputs' := fold_left art_set (owned ++ plain') (s_inputs stg) in
                 let stg1 := mkStage (s_cs stg) (s_cmd stg) (s_wd stg) inputs' outs' in
                 let stg2 := mkStage (def_checksum H stg1) (s_cmd stg) (s_wd stg) inputs' outs' in
                 Ok (mkI (set_stage (i_idx st1) sp stg2) root3 c3, sp :: done1)
               end
             end
           end
         end.
  Proof. reflexivity. Qed.

  Lemma commit_stage_grows fuel : forall st strat done inprog sp st' done',
    commit_stage H fuel st strat done inprog sp = Ok (st', done') -> grows (i_cache st) (i_cache st').
  Proof.
    induction fuel as [|f IH]; intros st strat done inprog sp st' done'; [discriminate|].
    rewrite commit_stage_unfold. destruct (mem sp done).
    - intros Hok. injection Hok as <- _. apply grows_refl.
    - destruct (mem sp inprog); [discriminate|].
      destruct (alookup sp (i_idx st)) as [stg|]; [|discriminate].
      destruct (commit_ins _ (s_inputs stg) st done) as [[[[owned plain] st1] done1]|] eqn:Ei; [|discriminate].
      destruct (commit_arts H plain true (i_root st1) (i_cache st1) strat) as [[[plain' root2] c2]|] eqn:E1;
        [|discriminate].
      destruct (commit_arts H (s_outputs stg) false root2 c2 strat) as [[[outs' root3] c3]|] eqn:E2;
        [|discriminate].
      cbv zeta. intros Hok. injection Hok as <- _. cbn [i_cache].
      apply (grows_trans _ (i_cache st1)).
      + apply (commit_ins_grows _ (fun st0 done0 op st2 done2 Hr => IH _ _ _ _ _ _ _ Hr) _ _ _ _ _ _ _ Ei).
      + exact (grows_trans _ _ _ (commit_arts_grows _ _ _ _ _ _ _ _ E1) (commit_arts_grows _ _ _ _ _ _ _ _ E2)).
  Qed.

  Lemma fold_err {A B} (f : res A -> B -> res A) (l : list B) :
    (forall b, f Err b = Err) -> fold_left f l Err = Err.
  Proof. intros Hf. induction l as [|b r IH]; [reflexivity|]. cbn [fold_left]. rewrite Hf. exact IH. Qed.

  Lemma commit_targets_grows fuel strat ts : forall st done st' done',
    fold_left (fun acc t =>
                 match acc with
                 | Ok (st, done) => commit_stage H fuel st strat done [] t
                 | Err => Err
                 end) ts (Ok (st, done)) = Ok (st', done') ->
    grows (i_cache st) (i_cache st').
  Proof.
    induction ts as [|t r IH]; intros st done st' done'; cbn [fold_left].
    - intros Hok. injection Hok as <- _. apply grows_refl.
    - destruct (commit_stage H fuel st strat done [] t) as [[st1 done1]|] eqn:Es.
      + intros Hok. exact (grows_trans _ _ _ (commit_stage_grows _ _ _ _ _ _ _ _ Es) (IH _ _ _ _ Hok)).
      + rewrite fold_err by reflexivity. discriminate.
  Qed.

  Variable sems : list (bytes * cmdsem).

  (* C02 for every command: only commit changes the cache *)
  Theorem step_cache_ok w cmd :
    cache_ok H (w_cache w) ->
    cache_ok H (w_cache (fst (fst (step H sems w cmd)))) /\
    cache_le (w_cache w) (w_cache (fst (fst (step H sems w cmd)))).
  Proof.
    intros Hc.
    assert (Hsame : cache_ok H (w_cache w) /\ cache_le (w_cache w) (w_cache w))
      by (split; [exact Hc|apply cache_le_refl]).
    unfold step. destruct (w_lock w); [exact Hsame|].
    destruct (load_index (w_index w) (w_stages w) []) as [idx|]; [|exact Hsame].
    (* robust against new commands: only the commit command mentions commit_stage; every other
       command returns the world, or a world with the same cache, in every branch *)
    destruct cmd;
      lazymatch goal with
      | |- context [commit_stage] =>
        match goal with |- context [all_or ?t idx] => destruct (all_or t idx) as [|t0 ts] end;
        [exact Hsame|]; cbv zeta;
        match goal with |- context [fold_left ?f ?l ?a] =>
          destruct (fold_left f l a) as [[st done]|] eqn:Ef end;
        [|exact Hsame];
        cbn [fst w_cache]; exact (commit_targets_grows _ _ _ _ _ _ _ Ef Hc)
      | _ =>
        cbv zeta;
        repeat match goal with
               | |- context [match ?X with _ => _ end] => destruct X
               end;
        exact Hsame
      end.
  Qed.

  (* ... and for every history of commands *)
  Theorem history_cache_ok cmds : forall w,
    cache_ok H (w_cache w) ->
    let w' := fold_left (fun w c => fst (fst (step H sems w c))) cmds w in
    cache_ok H (w_cache w') /\ cache_le (w_cache w) (w_cache w').
  Proof.
    induction cmds as [|cmd r IH]; intros w Hc; cbn [fold_left].
    - split; [exact Hc|apply cache_le_refl].
    - destruct (step_cache_ok w cmd Hc) as [Hc1 Hle1].
      destruct (IH _ Hc1) as [Hc2 Hle2]. split; [exact Hc2|exact (cache_le_trans _ _ _ Hle1 Hle2)].
  Qed.
End Histories.
Print Assumptions step_cache_ok.
Print Assumptions history_cache_ok.

(* ------------------------------------------------------------------------------------------ *)
(* Non-vacuity, and the counterexamples to the statements of CacheDefs that are false          *)
(* ------------------------------------------------------------------------------------------ *)

(* a toy hash that satisfies H_inj, H_has and H_text: "aaa" followed by every element in a
   prefix-free binary code over the characters 0 1 2 3 *)
Fixpoint encp (p : positive) : bytes :=
  match p with
  | xH => [49]
  | xO q => 50 :: encp q
  | xI q => 51 :: encp q
  end.
Definition encn (n : N) : bytes := match n with N0 => [48] | Npos p => encp p end.
Definition Hu (b : bytes) : bytes := 97 :: 97 :: 97 :: flat_map encn b.

Lemma encp_inj p : forall q (r r' : bytes), encp p ++ r = encp q ++ r' -> p = q /\ r = r'.
Proof.
  induction p as [p IH|p IH|]; intros [q|q|] r r' E; cbn [encp app] in E; try discriminate;
    injection E as E.
  - destruct (IH _ _ _ E) as [-> ->]. split; reflexivity.
  - destruct (IH _ _ _ E) as [-> ->]. split; reflexivity.
  - subst r'. split; reflexivity.
Qed.

Lemma encn_inj n : forall m (r r' : bytes), encn n ++ r = encn m ++ r' -> n = m /\ r = r'.
Proof.
  destruct n as [|p]; intros [|q] r r' E; cbn [encn app] in E.
  - injection E as ->. split; reflexivity.
  - destruct q; discriminate.
  - destruct p; discriminate.
  - destruct (encp_inj _ _ _ _ E) as [-> ->]. split; reflexivity.
Qed.

Lemma Hu_inj : H_inj Hu.
Proof.
  intros a b E. unfold Hu in E. injection E as E. revert b E.
  induction a as [|x a IH]; intros [|y b] E; cbn [flat_map] in E.
  - reflexivity.
  - destruct y as [|[q|q|]]; discriminate.
  - destruct x as [|[q|q|]]; discriminate.
  - apply encn_inj in E as [-> E2]. rewrite (IH _ E2). reflexivity.
Qed.

Lemma Hu_has : H_has Hu.
Proof. intros b. unfold Hu, has_cs. cbn [List.length]. apply N.leb_le. rewrite !Nat2N.inj_succ. lia. Qed.

Lemma valid_ascii s : Forall (fun b => b < 128) s -> valid (List.length s) s = true.
Proof.
  induction 1 as [|b r Hb _ IH]; [reflexivity|]. cbn [List.length valid].
  replace (b <? 128) with true by lia. exact IH.
Qed.

Lemma Hu_text : H_text Hu.
Proof.
  intros b.
  assert (Ha : Forall (fun x => x < 128) (Hu b)).
  { unfold Hu. repeat (constructor; [lia|]). induction b as [|n b IH]; [constructor|].
    cbn [flat_map]. apply Forall_app. split; [|exact IH].
    destruct n as [|p]; cbn [encn]; [constructor; [lia|constructor]|].
    induction p as [p IHp|p IHp|]; cbn [encp]; constructor; try lia; try exact IHp. constructor. }
  split; [exact (valid_ascii _ Ha)|].
  unfold bytes_ok. eapply Forall_impl; [|exact Ha]. intros x Hx. cbv beta in *. lia.
Qed.

Definition str (x : string) : bytes := of_string x.

Ltac good_name_tac := repeat split; try (vm_compute; reflexivity); repeat constructor.
Ltac no_manifest := intros m Hm; vm_compute in Hm; discriminate.

(* ---- a two-level tree committed into the empty cache ---- *)
Definition ex_tree : node :=
  Dir [(str "a", File (str "hello")); (str "sub", Dir [(str "b", File (str "hi"))])].
Definition ex_art : artifact := mkArt [] (str "data") true false false.

Lemma ex_ctree : ctree [] ex_tree.
Proof.
  unfold ex_tree. constructor.
  - repeat constructor.
  - constructor; [split; [good_name_tac|constructor; no_manifest]|].
    constructor; [|constructor]. split; [good_name_tac|].
    constructor; [repeat constructor|]. constructor; [|constructor].
    split; [good_name_tac|constructor; no_manifest].
Qed.

Lemma ex_plain : plain ex_tree.
Proof.
  unfold ex_tree. constructor; [repeat constructor|].
  constructor; [split; [good_name_tac|constructor]|].
  constructor; [|constructor]. split; [good_name_tac|].
  constructor; [repeat constructor|]. constructor; [|constructor]. split; [good_name_tac|constructor].
Qed.

Lemma empty_cache_ok H : cache_ok H [].
Proof. intros d o Hg. discriminate. Qed.
Lemma empty_man_plain : man_plain [].
Proof. intros d o m Hg. discriminate. Qed.
Lemma empty_cache_inv H : cache_inv H [].
Proof. split; [apply empty_cache_ok|]. split; intros d o m Hg; discriminate. Qed.

Definition ex_result := commit_node Hu ex_art ex_tree [] Link.

(* commit succeeds; files become links; four objects (two blobs, two manifests) *)
Example ex_commit :
  match ex_result with
  | Ok (n', c', a') =>
    n' = Dir [(str "a", LinkC (Hu (str "hello"))); (str "sub", Dir [(str "b", LinkC (Hu (str "hi")))])] /\
    List.length c' = 4%nat /\ a_isdir a' = true /\ has_cs (a_cs a') = true
  | Err => False
  end.
Proof. vm_compute. repeat split. Qed.

Lemma ex_wfpath : wf_text (a_path ex_art).
Proof. split; [vm_compute; reflexivity|repeat constructor]. Qed.

(* the premises of the theorems above are satisfiable: instances on this example *)
Example ex_merkle :
  codec_ok ->
  match ex_result with
  | Ok (_, _, a') => merkle Hu (str "data") false ex_tree = Some (a_cs a')
  | Err => False
  end.
Proof.
  intros Hcodec. destruct ex_result as [[[n' c'] a']|] eqn:E.
  - unfold ex_result in E.
    pose proof (commit_merkle_ctree Hu Hu_inj Hu_text Hcodec _ _ _ _ _ _ _
                  (empty_cache_ok Hu) empty_man_plain ex_ctree
                  ex_wfpath E) as Hm.
    rewrite (plain_logical [] ex_tree ex_plain) in Hm. exact Hm.
  - vm_compute in E. discriminate.
Qed.

Example ex_idem :
  match ex_result with
  | Ok (n', c', a') => commit_node Hu a' n' c' Link = Ok (n', c', a')
  | Err => False
  end.
Proof. vm_compute. reflexivity. Qed.

(* ---- counterexamples (toy hash: prefix "abc") ---- *)
Definition Ht (b : bytes) : bytes := 97 :: 98 :: 99 :: b.
Lemma Ht_inj : H_inj Ht.
Proof. intros a b E. injection E as E. exact E. Qed.
Lemma Ht_has : H_has Ht.
Proof. intros b. unfold Ht, has_cs. cbn [List.length]. apply N.leb_le. rewrite !Nat2N.inj_succ. lia. Qed.

(* stmt_commit_logical: a non-recursive directory artifact skips the sub-directory, which holds
   a dangling link to the object that the commit of the sibling file creates *)
Definition cexL_art := mkArt [] (str "d") true true false.
Definition cexL_tree :=
  Dir [(str "f", File (str "hello")); (str "sub", Dir [(str "x", LinkC (Ht (str "hello")))])].

Theorem cex_logical : ~ stmt_commit_logical Ht.
Proof.
  intros Hst.
  destruct (commit_node Ht cexL_art cexL_tree [] Copy) as [[[n' c'] a']|] eqn:E.
  - pose proof (Hst Ht_inj Ht_has _ _ _ _ _ _ _ (empty_cache_ok Ht) E) as Hl.
    vm_compute in E. injection E as <- <- <-. vm_compute in Hl. discriminate.
  - vm_compute in E. discriminate.
Qed.
Print Assumptions cex_logical.

(* stmt_commit_merkle (1): a dangling link that the commit of a sibling makes resolvable is
   adopted, but [logical] in the ORIGINAL cache does not follow it *)
Definition cexM_art := mkArt [] (str "d") true false false.
Definition cexM_tree := Dir [(str "f", File (str "hello")); (str "g", LinkC (Ht (str "hello")))].

Theorem cex_merkle_link : ~ stmt_commit_merkle Ht.
Proof.
  intros Hst.
  destruct (commit_node Ht cexM_art cexM_tree [] Copy) as [[[n' c'] a']|] eqn:E.
  - pose proof (Hst Ht_inj _ _ _ _ _ _ _ (empty_cache_ok Ht) empty_man_plain E eq_refl) as Hm.
    vm_compute in Hm. discriminate.
  - vm_compute in E. discriminate.
Qed.
Print Assumptions cex_merkle_link.

Lemma single_cget k o d o' : cget [(k, o)] d = Some o' -> d = k /\ o' = o.
Proof.
  unfold cget. cbn [alookup]. destruct (beqb d k) eqn:E; [|discriminate].
  apply beqb_eq in E. intros Hx. injection Hx as <-. split; [exact E|reflexivity].
Qed.

(* stmt_commit_ok: the old manifest records a directory child whose checksum X is not in the
   cache; a sibling file that hashes to X is stored first; the child's old manifest is then read
   from that blob, which is not a manifest *)
Definition cexO_m := enc_manifest (mkMan (str "d") [(str "sub", mkArt (Ht (str "hello")) (str "sub") true false false)]).
Definition cexO_cache : cache := [(Ht cexO_m, mkObj cexO_m cache_perms)].
Definition cexO_art := mkArt (Ht cexO_m) (str "d") true false false.
Definition cexO_tree := Dir [(str "f", File (str "hello")); (str "sub", Dir [])].

Lemma cexO_inv : cache_inv Ht cexO_cache.
Proof.
  split; [|split].
  - intros d o Hg. apply single_cget in Hg as [-> ->]. split; reflexivity.
  - intros d o m Hg Hd. apply single_cget in Hg as [-> ->]. vm_compute in Hd. injection Hd as <-.
    repeat constructor.
  - intros d o m Hg Hd. apply single_cget in Hg as [-> ->]. vm_compute in Hd. injection Hd as <-.
    constructor; [|constructor]. intros _ o' Hg'. vm_compute in Hg'. discriminate.
Qed.

Theorem cex_ok : ~ stmt_commit_ok Ht.
Proof.
  intros Hst.
  destruct (Hst cexO_art cexO_tree cexO_cache Copy) as (n' & c' & a' & Hok).
  - constructor; [repeat constructor|].
    constructor; [split; [good_name_tac|constructor]|].
    constructor; [|constructor]. split; [good_name_tac|]. constructor; constructor.
  - reflexivity.
  - reflexivity.
  - exact cexO_inv.
  - intros _ o Hg. apply single_cget in Hg as [_ ->]. vm_compute. discriminate.
  - vm_compute in Hok. discriminate.
Qed.
Print Assumptions cex_ok.

(* stmt_commit_inv (1): a committed file whose bytes are a manifest with a flagged child breaks
   man_plain.  (The statement has H_text and codec_ok as premises: toy hash Hu.) *)
Definition cexI_blob := enc_manifest (mkMan (str "x") [(str "k", mkArt [] (str "k") true true false)]).
Definition cexI_art := mkArt [] (str "f") false false false.

Lemma cexI_wfpath : wf_text (a_path cexI_art).
Proof. split; [vm_compute; reflexivity|repeat constructor]. Qed.

Theorem cex_inv_plain : codec_ok -> ~ stmt_commit_inv Hu.
Proof.
  intros Hcodec Hst.
  destruct (commit_node Hu cexI_art (File cexI_blob) [] Copy) as [[[n' c'] a']|] eqn:E.
  - destruct (Hst Hu_inj Hu_has Hu_text Hcodec _ _ _ _ _ _ _ (plain_file cexI_blob)
                  cexI_wfpath (empty_cache_inv Hu) E)
      as [(_ & Hmp & _) _].
    assert (Hc' : c' = cput [] (Hu cexI_blob) cexI_blob)
      by (vm_compute in E; injection E as _ <- _; vm_compute; reflexivity).
    subst c'. clear E.
    specialize (Hmp (Hu cexI_blob) (mkObj cexI_blob cache_perms)).
    rewrite cget_cput, beqb_refl in Hmp. cbn [o_data] in Hmp.
    destruct (dec_manifest cexI_blob) as [m|] eqn:Ed; [|vm_compute in Ed; discriminate].
    specialize (Hmp m eq_refl eq_refl). vm_compute in Ed. injection Ed as <-.
    inversion Hmp as [|kv r [Hn _] _]; subst. discriminate Hn.
  - vm_compute in E. discriminate.
Qed.
Print Assumptions cex_inv_plain.

(* stmt_commit_inv (2), stmt_commit_merkle (2): even for plain trees of tame files, a dangling
   directory reference can be populated by a blob: man_closed is lost; and with a blob that is a
   flagged manifest the grandchildren are committed non-recursively, so that the checksum is not
   the Merkle function *)
Definition cexC_m := enc_manifest (mkMan (str "d") [(str "sub", mkArt (Hu (str "hello")) (str "sub") true false false)]).
Definition cexC_cache : cache := [(Hu cexC_m, mkObj cexC_m cache_perms)].

Example cex_inv_closed :
  cache_inv Hu cexC_cache /\
  match commit_node Hu (mkArt [] (str "f") false false false) (File (str "hello")) cexC_cache Copy with
  | Ok (_, c', _) => ~ man_closed c'
  | Err => False
  end.
Proof.
  split.
  - split; [|split].
    + intros d o Hg. apply single_cget in Hg as [-> ->]. split; reflexivity.
    + intros d o m Hg Hd. apply single_cget in Hg as [-> ->]. vm_compute in Hd. injection Hd as <-.
      repeat constructor.
    + intros d o m Hg Hd. apply single_cget in Hg as [-> ->]. vm_compute in Hd. injection Hd as <-.
      constructor; [|constructor]. intros _ o' Hg'. vm_compute in Hg'. discriminate.
  - cbn [commit_node a_isdir]. unfold commit_file, qmatch. rewrite andb_false_r. cbn [a_skip].
    intros Hcl. specialize (Hcl (Hu cexC_m) (mkObj cexC_m cache_perms)).
    destruct (dec_manifest cexC_m) as [m|] eqn:Ed; [|vm_compute in Ed; discriminate].
    specialize (Hcl m). cbn [o_data] in Hcl.
    assert (Hg : cget (cput cexC_cache (Hu (str "hello")) (str "hello")) (Hu cexC_m) =
                 Some (mkObj cexC_m cache_perms)) by (vm_compute; reflexivity).
    specialize (Hcl Hg Ed). vm_compute in Ed. injection Ed as <-.
    inversion Hcl as [|kv r Hk _]; subst. cbn [snd a_isdir a_cs] in Hk.
    apply (Hk eq_refl (mkObj (str "hello") cache_perms)).
    + rewrite cget_cput, beqb_refl. reflexivity.
    + vm_compute. reflexivity.
Qed.

Definition cexB_blob := enc_manifest (mkMan (str "sub") [(str "k", mkArt [] (str "k") true true false)]).
Definition cexB_m := enc_manifest (mkMan (str "d") [(str "sub", mkArt (Ht cexB_blob) (str "sub") true false false)]).
Definition cexB_cache : cache := [(Ht cexB_m, mkObj cexB_m cache_perms)].
Definition cexB_art := mkArt (Ht cexB_m) (str "d") true false false.
Definition cexB_tree :=
  Dir [(str "f", File cexB_blob);
       (str "sub", Dir [(str "k", Dir [(str "deep", Dir [(str "z", File (str "hello"))])])])].

Example cex_merkle_blob :
  cache_ok Ht cexB_cache /\ man_plain cexB_cache /\ plain cexB_tree /\
  match commit_node Ht cexB_art cexB_tree cexB_cache Copy with
  | Ok (_, _, a') =>
    exists d, merkle Ht (a_path cexB_art) (a_norec cexB_art) (logical cexB_cache cexB_tree) = Some d /\
              d <> a_cs a'
  | Err => False
  end.
Proof.
  split; [|split; [|split]].
  - intros d o Hg. apply single_cget in Hg as [-> ->]. split; reflexivity.
  - intros d o m Hg Hd. apply single_cget in Hg as [-> ->]. vm_compute in Hd. injection Hd as <-.
    repeat constructor.
  - constructor; [repeat constructor|].
    constructor; [split; [good_name_tac|constructor]|].
    constructor; [|constructor]. split; [good_name_tac|].
    constructor; [repeat constructor|]. constructor; [|constructor]. split; [good_name_tac|].
    constructor; [repeat constructor|]. constructor; [|constructor]. split; [good_name_tac|].
    constructor; [repeat constructor|]. constructor; [|constructor]. split; [good_name_tac|constructor].
  - vm_compute. eexists. split; [reflexivity|]. intros E. discriminate E.
Qed.

(* ------------------------------------------------------------------------------------------ *)
(* codec_ok holds (Proofs/ManifestRT.v), so the premise can be dropped                         *)
(* ------------------------------------------------------------------------------------------ *)
Require DudV.Proofs.ManifestRT.

Lemma okb_of_wf_text s : wf_text s -> ManifestRT.okb s = true.
Proof.
  intros [Hv Hb]. unfold ManifestRT.okb. rewrite Hv. cbn [andb]. unfold wf_bytes.
  apply forallb_forall. intros x Hin. unfold bytes_ok in Hb. rewrite Forall_forall in Hb.
  unfold is_byte. apply N.ltb_lt. exact (Hb x Hin).
Qed.

Lemma ssorted_of_sorted (l : list (bytes * artifact)) :
  StronglySorted man_key_lt l -> ManifestRT.ssorted l = true.
Proof.
  induction 1 as [|kv r _ IH Hall]; [reflexivity|]. cbn [ManifestRT.ssorted]. rewrite IH, andb_true_r.
  unfold ManifestRT.keys_gt. apply forallb_forall. intros x Hin. rewrite Forall_forall in Hall.
  exact (Hall x Hin).
Qed.

Theorem codec_ok_holds : codec_ok.
Proof.
  intros m (Hp & Hs & He). apply ManifestRT.dec_enc_manifest. unfold ManifestRT.wf_manifest.
  rewrite (okb_of_wf_text _ Hp), (ssorted_of_sorted _ Hs). cbn [andb].
  unfold ManifestRT.wf_entries. apply forallb_forall. intros kv Hin. rewrite Forall_forall in He.
  destruct (He kv Hin) as (E1 & E2 & E3 & E4 & _). unfold ManifestRT.wf_entry.
  rewrite E1, beqb_refl, E2, (okb_of_wf_text _ E3), (okb_of_wf_text _ E4). reflexivity.
Qed.
Print Assumptions codec_ok_holds.

Theorem cex_inv : ~ stmt_commit_inv Hu.
Proof. exact (cex_inv_plain codec_ok_holds). Qed.
Print Assumptions cex_inv.

(* the repaired theorems without the codec premise *)
Section NoCodec.
  Variable H : bytes -> bytes.
  Hypothesis Hinj : H_inj H.
  Hypothesis Hhas : H_has H.
  Hypothesis Htext : H_text H.

  Definition commit_merkle_final := commit_merkle_ctree H Hinj Htext codec_ok_holds.
  Definition commit_inv_final := commit_inv_ctree H Hinj Hhas Htext codec_ok_holds.
  Definition commit_ok_final := commit_ok_ctree H Hinj Hhas Htext codec_ok_holds.
  Definition commit_idem_final := commit_idem_ctree H Hinj Hhas Htext codec_ok_holds.
End NoCodec.
Check commit_merkle_final.
Check commit_inv_final.
Check commit_ok_final.
Check commit_idem_final.
Print Assumptions commit_merkle_final.
Print Assumptions commit_inv_final.
Print Assumptions commit_ok_final.
Print Assumptions commit_idem_final.

(* ------------------------------------------------------------------------------------------ *)
(* C15 exactly as stated in CacheDefs                                                          *)
(* ------------------------------------------------------------------------------------------ *)

(* the round trip of ManifestRT does not depend on the flags of the entries *)
Lemma codec_any m : wfQ (fun _ => True) m -> dec_manifest (enc_manifest m) = Some m.
Proof.
  intros (Hp & Hs & He). apply ManifestRT.dec_enc_manifest. unfold ManifestRT.wf_manifest.
  rewrite (okb_of_wf_text _ Hp), (ssorted_of_sorted _ Hs). cbn [andb].
  unfold ManifestRT.wf_entries. apply forallb_forall. intros kv Hin. rewrite Forall_forall in He.
  destruct (He kv Hin) as (E1 & E2 & E3 & E4 & _). unfold ManifestRT.wf_entry.
  rewrite E1, beqb_refl, E2, (okb_of_wf_text _ E3), (okb_of_wf_text _ E4). reflexivity.
Qed.

Lemma old_contents_keys a c old :
  True -> old_contents a c = Ok old -> old_okQ (fun _ => True) old.
Proof.
  intros _. unfold old_contents. destruct (has_cs (a_cs a)).
  - destruct (cget c (a_cs a)) as [o|] eqn:Eg.
    + destruct (dec_manifest (o_data o)) as [m|] eqn:Ed; [|discriminate].
      intros Hok. injection Hok as <-. unfold old_okQ.
      pose proof (dec_manifest_keys _ _ Ed) as Hk.
      eapply Forall_impl; [|exact Hk]. intros kv [Hkv _]. split; [exact Hkv|exact I].
    + intros Hok. injection Hok as <-. constructor.
  - intros Hok. injection Hok as <-. constructor.
Qed.

Lemma plain_gtree c n : plain n -> gtree (fun _ => True) c n.
Proof.
  induction n as [b|d|t| |es IH] using node_ind2; intros Hp; try (inversion Hp; fail).
  - constructor. exact I.
  - inversion Hp as [|es' Hs Hes]; subst. constructor; [exact Hs|]. clear Hp Hs.
    induction IH as [|e r IHe _ IHr]; [constructor|].
    inversion Hes as [|e' r' [Hg He] Hr']; subst.
    constructor; [split; [exact Hg|exact (IHe He)]|exact (IHr Hr')].
Qed.

Lemma Forall_True {A} (l : list A) : Forall (fun _ => True) l.
Proof. induction l; constructor; auto. Qed.

(* for every tree of sorted good names, with or without cache links, whatever the cache holds *)
Theorem commit_idem_links H :
  H_inj H -> H_has H -> H_text H -> forall a n c st n' c' a',
    gtree (fun _ => True) c n -> wf_text (a_path a) -> cache_ok H c -> cache_sorted c ->
    commit_node H a n c st = Ok (n', c', a') ->
    commit_node H a' n' c' st = Ok (n', c', a').
Proof.
  intros Hinj Hhas Htext a n c st n' c' a' Ht Hwp Hc Hs Hok.
  exact (gcommit_idem H (fun _ => True) (fun _ => True) (fun _ => True) Hinj Hhas Htext
           (fun _ _ => I) (fun _ _ _ => I) old_contents_keys (fun _ _ _ _ _ => I)
           (fun b _ m _ => Forall_True (m_contents m))
           codec_any a n c st n' c' a' Ht Hwp Hc I Hs Hok).
Qed.
Print Assumptions commit_idem_links.

Theorem commit_idem H : stmt_commit_idem H.
Proof.
  unfold stmt_commit_idem. intros Hinj Hhas Htext _ a n c st n' c' a' Hp Hwp _ Hc _ Hs Hok.
  exact (commit_idem_links H Hinj Hhas Htext _ _ _ _ _ _ _ (plain_gtree c n Hp) Hwp Hc Hs Hok).
Qed.
Print Assumptions commit_idem.
