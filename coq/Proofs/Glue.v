(* Small facts that connect the theorem families: the empty cache satisfies every invariant
   (so the invariants hold in every state reachable from `dud init`), and the digest-length
   facts of the executable hash. *)
From Coq Require Import NArith List Bool Sorted.
From DudV Require Import Base.Bytes Base.JsonStr Base.Json Model.Fs Model.Cache Proofs.CacheDefs Proofs.CommitProofs.
Import ListNotations.

Section G.
  Variable H : bytes -> bytes.

  Lemma cache_ok_empty : cache_ok H [].
  Proof. intros d o Hc. discriminate Hc. Qed.

  Lemma cache_inv_empty : cache_inv H [].
  Proof.
    split; [apply cache_ok_empty|]. split.
    - intros d o m Hc. discriminate Hc.
    - intros d o m Hc. discriminate Hc.
  Qed.

  Lemma man_present_empty : man_present [].
  Proof. intros d o m Hc. discriminate Hc. Qed.

  Lemma cache_sorted_empty : cache_sorted [].
  Proof. constructor. Qed.

  Lemma art_hist_ok_empty a : art_hist_ok [] a.
  Proof. intros _ o Hc. discriminate Hc. Qed.
End G.

Lemma invariants_initial :
  forall (H : bytes -> bytes), cache_inv H [] /\ man_present [] /\ forall a, art_hist_ok [] a.
Proof. intro H. exact (conj (cache_inv_empty H) (conj man_present_empty art_hist_ok_empty)). Qed.

Lemma nonutf8_fails :
  forall (H : bytes -> bytes) a name ch rest c st,
    a_isdir a = true -> utf8_name name = false -> (a_norec a && is_dir ch = false) ->
    old_contents a c <> Err ->
    commit_node H a (Dir ((name, ch) :: rest)) c st = Err.
Proof.
  intros H a name ch rest c st Hd Hu Hn Ho.
  cbn [commit_node]. rewrite Hd. destruct (old_contents a c) as [old|]; [|congruence].
  rewrite Hn, Hu. reflexivity.
Qed.

